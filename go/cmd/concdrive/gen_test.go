package concdrive

import (
	"fmt"
	"sort"
	"strings"
)

// rng is splitmix64; all randomness of the generator derives from the seed.
type rng struct{ s uint64 }

func (r *rng) next() uint64 {
	r.s += 0x9e3779b97f4a7c15
	z := r.s
	z = (z ^ (z >> 30)) * 0xbf58476d1ce4e5b9
	z = (z ^ (z >> 27)) * 0x94d049bb133111eb
	return z ^ (z >> 31)
}
func (r *rng) intn(n int) int {
	if n <= 0 {
		return 0
	}
	return int(r.next() % uint64(n))
}
func (r *rng) chance(pct int) bool  { return r.intn(100) < pct }
func (r *rng) between(a, b int) int { return a + r.intn(b-a+1) }

func subRng(seed uint64, salt string, k int) *rng {
	r := &rng{s: seed}
	for _, c := range []byte(salt) {
		r.s ^= uint64(c)
		r.next()
	}
	r.s ^= uint64(k) * 0x2545f4914f6cdd1d
	r.next()
	return r
}

var (
	topics     = []string{"t1", "t2", "t3"}
	metaTopics = []string{"wamp.session.on_join", "wamp.session.on_leave", "wamp.registration.on_register"}
	procs      = []string{"p1", "p2", "p3"}
	metaProcs  = []string{"wamp.session.count", "wamp.session.list", "wamp.registration.list", "wamp.subscription.list", "wamp.session.get"}
	sleeps     = []int{2, 10, 100, 1500, 5000, 70000}
	queueSizes = []int{1, 2, 64}
)

// shapes and the router functions they exercise (for -focus).
var shapeFocus = map[string]string{
	"random":                               "",
	"stalled-metacall":                     "yield syncYield metaProcedureHandler sessionCount createMetaSession onJoin onLeave register unregister metaPeer",
	"stalled-sub-flood":                    "syncPubEvent trySend publish syncPublish broker",
	"stalled-caller-yield":                 "yield syncYield syncCancel sendResultDeadline dealer",
	"stalled-callee":                       "syncCall call syncError trySend dealer",
	"kill-stalled":                         "onLeave removeSession syncRemoveSession killSession sessionKill EndRecv",
	"realm-churn":                          "AddRealm RemoveRealm addRealm close realm",
	"burst-mix":                            "publish call subscribe register actionChan run",
	"meta-subscriber-stalled":              "syncPubMeta syncPubSubMeta onJoin onLeave metaPeer",
	"stalled-rawsocket-ppt":                "rawSocketPeer sendHandler Close ppt syncCall",
	"armed-timer":                          "syncCall timerCancel close dealer timeout",
	"publish-racing-close":                 "syncPubEvent trySend publish close onLeave broker",
	"stalled-metacall-then-close":          "syncYield yield close metaDone onLeave",
	"meta-in-flight":                       "metaProcedureHandler sessionCount close metaDone",
	"hello-goodbye":                        "AttachClient handleSession onJoin welcome",
	"kill-then-close":                      "killSession sessionKill close EndRecv",
	"drop-then-close":                      "onLeave close removeSession",
	"cancelled-stalled-metacall":           "syncCancel cancel metaProcedureHandler metaDone close yield",
	"publish-held-until-subscriber-closed": "syncPubEvent trySend publish close onLeave removeSession",
	"authz-held-at-close":                  "authzMessage close handleInboundMessages",
	"join-in-burst":                        "AttachClient handleSession onJoin close closeLock",
	"pending-calls":                        "syncCall syncCancel close dealer timerCancel",
	"bad-realm-uri":                        "addRealm AddRealm newRealm newBroker newDealer RealmTemplate AttachClient",
	"removerealm-during-auth":              "getAuthenticator authClient RemoveRealm AttachClient close actionChan",
	"filtered-disclosed-self-publish":      "syncPubEvent disclosePublisher publish filter Allowed Lock broker trySend",
	"stalled-metacall-unregister":          "unregister syncUnregister metaPeer yield syncYield createMetaSession dealer register",
	"stalled-callee-cancel-kill":           "syncCancel cancel INTERRUPT trySend dealer call_canceling",
	"denied-request-from-stalled-client":   "authzMessage Authorize handleInboundMessages not_authorized trySend close waitHandlers",
	"stalled-rawsocket-then-close":         "rawSocketPeer websocketPeer Close writerDone sendHandler writeFrame SetWriteDeadline close handleSession",
	"caller-leaves-with-armed-timer":       "syncRemoveSession removeSession timerCancel timers close dealer syncCall onLeave",
	chShape:                                "syncCall syncError syncYield INVOCATION progress dealer trySend",
	csShape:                                "syncCancel cancel INTERRUPT trySend dealer call_canceling",
	yrShape:                                "yield syncYield syncCancel sendResultDeadline yieldRetryDelay keepInvocation dealer",
}

var c07Shapes = []struct {
	name string
	w    int
}{
	{"random", 30}, {"stalled-metacall", 12}, {"stalled-sub-flood", 10}, {"stalled-caller-yield", 8},
	{"stalled-callee", 8}, {"kill-stalled", 8}, {"realm-churn", 5}, {"burst-mix", 10},
	{"meta-subscriber-stalled", 7}, {"stalled-rawsocket-ppt", 2},
	{"stalled-metacall-unregister", 4}, {"stalled-callee-cancel-kill", 4},
	{"filtered-disclosed-self-publish", 5},
}

var c06Shapes = []struct {
	name string
	w    int
}{
	{"random", 30}, {"armed-timer", 6}, {"publish-racing-close", 10}, {"stalled-metacall-then-close", 6},
	{"meta-in-flight", 6}, {"hello-goodbye", 6}, {"kill-then-close", 5}, {"drop-then-close", 5},
	{"cancelled-stalled-metacall", 6}, {"publish-held-until-subscriber-closed", 5}, {"authz-held-at-close", 4},
	{"join-in-burst", 5}, {"pending-calls", 6}, {"bad-realm-uri", 5}, {"removerealm-during-auth", 5},
	{"caller-leaves-with-armed-timer", 8}, {"stalled-rawsocket-then-close", 5},
	{"denied-request-from-stalled-client", 6},
}

type genOpts struct {
	prop     string
	seed     uint64
	thorough bool
	n        int
	focus    []string
	skip     map[string]bool
}

func pickShape(r *rng, tbl []struct {
	name string
	w    int
}, o *genOpts) string {
	total := 0
	ws := make([]int, len(tbl))
	for i, s := range tbl {
		w := s.w
		if o.skip[s.name] {
			w = 0
		}
		for _, f := range o.focus {
			if f != "" && strings.Contains(strings.ToLower(shapeFocus[s.name]), strings.ToLower(f)) {
				w *= 6
				break
			}
		}
		ws[i] = w
		total += w
	}
	if total == 0 {
		return "random"
	}
	k := r.intn(total)
	for i, w := range ws {
		if k < w {
			return tbl[i].name
		}
		k -= w
	}
	return "random"
}

// builder keeps a coarse model of the history built so far so that most
// generated ops mean something.
type builder struct {
	r        *rng
	h        *History
	thorough bool
	c06      bool
	alive    []bool
	stalled  []bool
	victim   []bool
	subs     []map[string]bool
	regs     map[string]int // realm|proc -> session
	heldAt   []int          // invocations held by callee
	pending  []int          // unanswered calls of caller
	realmOn  map[string]bool
	maxOps   int
	maxSess  int
	reserve  int // sessions the shape template will still add
	realmC   map[int]string
}

func newBuilder(r *rng, prop, shape string, seed uint64, thorough bool) *builder {
	b := &builder{r: r, thorough: thorough, c06: prop == "C06", regs: map[string]int{}, realmOn: map[string]bool{}}
	b.h = &History{Prop: prop, Seed: seed, Shape: shape, Realms: []string{"realm1"}}
	if r.chance(45) {
		b.h.Realms = append(b.h.Realms, "realm2")
	}
	for _, u := range b.h.Realms {
		b.realmOn[u] = true
	}
	b.maxOps, b.maxSess = 40, 8
	if thorough {
		b.maxOps, b.maxSess = 80, 12
	}
	return b
}

func (b *builder) addSession(realm string, q int, victim bool) int {
	b.h.Sessions = append(b.h.Sessions, SessionSpec{Realm: realm, Q: q})
	b.track(victim)
	return len(b.alive) - 1
}

func (b *builder) track(victim bool) {
	b.alive = append(b.alive, true)
	b.stalled = append(b.stalled, false)
	b.victim = append(b.victim, victim)
	b.subs = append(b.subs, map[string]bool{})
	b.heldAt = append(b.heldAt, 0)
	b.pending = append(b.pending, 0)
}

func (b *builder) realmOf(s int) string {
	if s < len(b.h.Sessions) {
		return b.h.Sessions[s].Realm
	}
	// joined later: find the join op
	if v, ok := b.realmC[s]; ok {
		return v
	}
	k := len(b.h.Sessions)
	var realm string
	flatOps(b.h.Ops, func(o *Op, _ bool) {
		if o.Op == "join" || o.Op == "hello_goodbye" {
			if k == s {
				realm = o.Realm
			}
			k++
		}
	})
	if realm != "" {
		if b.realmC == nil {
			b.realmC = map[int]string{}
		}
		b.realmC[s] = realm
	}
	return realm
}

func (b *builder) add(o Op) { b.h.Ops = append(b.h.Ops, o) }

func (b *builder) room() int { return b.maxOps - len(b.h.Ops) }

// sessions that can act, optionally only bystanders (not stalled).
func (b *builder) actors(draining bool) []int {
	var l []int
	for i := range b.alive {
		if b.alive[i] && b.realmOn[b.realmOf(i)] && (!draining || !b.stalled[i]) {
			l = append(l, i)
		}
	}
	return l
}

func (b *builder) bystanders() []int {
	var l []int
	for _, i := range b.actors(true) {
		if !b.victim[i] {
			l = append(l, i)
		}
	}
	return l
}

func pickInt(r *rng, l []int) int {
	if len(l) == 0 {
		return -1
	}
	return l[r.intn(len(l))]
}

func (b *builder) gone(s int) {
	b.alive[s] = false
	b.stalled[s] = false
	for k, v := range b.regs {
		if v == s {
			delete(b.regs, k)
		}
	}
}

// randomOp appends one random op that is meaningful in the current model.
// inBurst: return it instead of appending.  stalledMeta: stalled sessions
// may call the meta API (the known C07 finding); otherwise they never do.
func (b *builder) randomOp(inBurst bool) (Op, bool) {
	r := b.r
	for try := 0; try < 20; try++ {
		k := r.intn(100)
		by := b.bystanders()
		any := b.actors(false)
		if len(any) == 0 {
			return Op{}, false
		}
		s := pickInt(r, any)
		notStalled := !b.stalled[s]
		switch {
		case k < 12:
			t := topics[r.intn(len(topics))]
			if r.chance(10) && (b.h.Sessions == nil || b.qOf(s) == 64 || b.victim[s]) {
				t = metaTopics[r.intn(len(metaTopics))]
			}
			b.subs[s][t] = true
			return Op{Op: "subscribe", S: s, Topic: t}, true
		case k < 15:
			ts := b.sortedSubs(s)
			if len(ts) == 0 {
				continue
			}
			t := ts[r.intn(len(ts))]
			delete(b.subs[s], t)
			return Op{Op: "unsubscribe", S: s, Topic: t}, true
		case k < 35:
			o := Op{Op: "publish", S: s, Topic: topics[r.intn(len(topics))], Ack: r.chance(50)}
			if r.chance(12) {
				o.Repeat = r.between(2, 6)
			}
			return o, true
		case k < 42:
			p := procs[r.intn(len(procs))]
			key := b.realmOf(s) + "|" + p
			if _, ok := b.regs[key]; !ok {
				b.regs[key] = s
			}
			return Op{Op: "register", S: s, Proc: p}, true
		case k < 45:
			var mine []string
			for _, key := range b.sortedRegKeys() {
				if b.regs[key] == s {
					mine = append(mine, key)
				}
			}
			if len(mine) == 0 || b.heldAt[s] > 0 {
				continue
			}
			key := mine[r.intn(len(mine))]
			delete(b.regs, key)
			return Op{Op: "unregister", S: s, Proc: key[strings.Index(key, "|")+1:]}, true
		case k < 59:
			p := procs[r.intn(len(procs))]
			o := Op{Op: "call", S: s, Proc: p}
			if r.chance(25) {
				o.TimeoutMs = []int{50, 1000, 10000, 90000}[r.intn(4)]
			}
			if callee, ok := b.regs[b.realmOf(s)+"|"+p]; ok && callee != s && r.chance(30) && !b.stalled[callee] {
				o.Hold = true
				b.heldAt[callee]++
				b.pending[s]++
			}
			return o, true
		case k < 64:
			var hs []int
			for _, i := range b.actors(true) {
				if b.heldAt[i] > 0 {
					hs = append(hs, i)
				}
			}
			if len(hs) == 0 {
				continue
			}
			c := pickInt(r, hs)
			b.heldAt[c]--
			return Op{Op: "yield", S: c}, true
		case k < 67:
			if b.pending[s] == 0 {
				continue
			}
			b.pending[s]--
			return Op{Op: "cancel", S: s}, true
		case k < 75:
			if !notStalled || len(by) == 0 {
				continue
			}
			return Op{Op: "metacall", S: pickInt(r, b.actors(true)), Proc: metaProcs[r.intn(len(metaProcs))]}, true
		case k < 77:
			if len(by) == 0 || len(any) < 3 {
				continue
			}
			killer := pickInt(r, by)
			var tg []int
			for _, i := range any {
				if i != killer && b.realmOf(i) == b.realmOf(killer) && (b.victim[i] || len(by) > 2) {
					tg = append(tg, i)
				}
			}
			if len(tg) == 0 {
				continue
			}
			t := pickInt(r, tg)
			b.gone(t)
			return Op{Op: "kill", S: killer, Target: t}, true
		case k < 81:
			if !b.victim[s] && len(by) <= 2 {
				continue
			}
			b.gone(s)
			if r.chance(50) {
				return Op{Op: "leave", S: s}, true
			}
			return Op{Op: "drop", S: s}, true
		case k < 85:
			if len(b.alive)+b.reserve >= b.maxSess || inBurst && b.anyStalled() && b.c06 {
				continue
			}
			realm := b.h.Realms[r.intn(len(b.h.Realms))]
			if !b.realmOn[realm] {
				continue
			}
			b.track(false)
			return Op{Op: "join", Realm: realm, Q: queueSizes[r.intn(3)]}, true
		case k < 90:
			var vs []int
			for _, i := range any {
				if b.victim[i] && !b.stalled[i] {
					vs = append(vs, i)
				}
			}
			if len(vs) == 0 || inBurst {
				continue
			}
			v := pickInt(r, vs)
			b.stalled[v] = true
			return Op{Op: "stall", S: v}, true
		case k < 93:
			var vs []int
			for _, i := range any {
				if b.stalled[i] {
					vs = append(vs, i)
				}
			}
			if len(vs) == 0 || inBurst {
				continue
			}
			v := pickInt(r, vs)
			b.stalled[v] = false
			return Op{Op: "resume", S: v}, true
		case k < 98:
			if inBurst {
				continue
			}
			return Op{Op: "sleep", Ms: sleeps[r.intn(len(sleeps))]}, true
		default:
			if !b.c06 || inBurst && b.anyStalled() || len(b.alive)+b.reserve >= b.maxSess {
				continue
			}
			b.track(false)
			b.alive[len(b.alive)-1] = false
			return Op{Op: "hello_goodbye", Realm: b.h.Realms[0], Q: 2}, true
		}
	}
	return Op{}, false
}

func (b *builder) qOf(s int) int {
	if s < len(b.h.Sessions) {
		return b.h.Sessions[s].Q
	}
	return 64
}

func (b *builder) anyStalled() bool {
	for i, s := range b.stalled {
		if s && b.alive[i] {
			return true
		}
	}
	return false
}

func (b *builder) sortedSubs(s int) []string {
	var l []string
	for t := range b.subs[s] {
		l = append(l, t)
	}
	sort.Strings(l)
	return l
}

func (b *builder) sortedRegKeys() []string {
	var l []string
	for k := range b.regs {
		l = append(l, k)
	}
	sort.Strings(l)
	return l
}

// randomOps appends up to n random ops, some of them bursts.
func (b *builder) randomOps(n int) {
	for i := 0; i < n && b.room() > 0; i++ {
		if b.r.chance(12) {
			var ops []Op
			for j := b.r.between(2, 6); j > 0; j-- {
				if o, ok := b.randomOp(true); ok {
					ops = append(ops, o)
				}
			}
			if len(ops) > 1 {
				b.add(Op{Op: "burst", Ops: ops})
			}
			continue
		}
		if o, ok := b.randomOp(false); ok {
			b.add(o)
		}
	}
}

// population creates the initial sessions: victims (may be stalled, mostly
// small queues) and bystanders.
func (b *builder) population(nVictims, nBy int) (victims, by []int) {
	r := b.r
	for nBy > 2 && len(b.alive)+nVictims+nBy+b.reserve > b.maxSess {
		nBy--
	}
	for i := 0; i < nVictims; i++ {
		q := queueSizes[r.intn(2)]
		if r.chance(20) {
			q = 64
		}
		victims = append(victims, b.addSession(b.h.Realms[0], q, true))
	}
	for i := 0; i < nBy; i++ {
		realm := b.h.Realms[0]
		if i >= 2 && len(b.h.Realms) > 1 && r.chance(50) {
			realm = b.h.Realms[1]
		}
		by = append(by, b.addSession(realm, queueSizes[r.intn(3)], false))
	}
	return
}

// byIn lists the draining bystanders of a realm.
func (b *builder) byIn(realm string) []int {
	var l []int
	for _, i := range b.bystanders() {
		if b.realmOf(i) == realm {
			l = append(l, i)
		}
	}
	return l
}

// fillVictim makes victim v subscribe to a private topic, stop draining, and
// has a bystander of its realm publish until its queue is full.
func (b *builder) fillVictim(v int) bool {
	by := b.byIn(b.realmOf(v))
	if len(by) == 0 || !b.alive[v] {
		return false
	}
	if b.stalled[v] {
		b.add(Op{Op: "resume", S: v})
		b.stalled[v] = false
	}
	t := fmt.Sprintf("fill%d", v)
	b.add(Op{Op: "subscribe", S: v, Topic: t})
	b.subs[v][t] = true
	b.add(Op{Op: "stall", S: v})
	b.stalled[v] = true
	q := b.qOf(v)
	n := q
	if q > 2 {
		n = q + 2
	}
	b.add(Op{Op: "publish", S: by[0], Topic: t, Ack: false, Repeat: n})
	return true
}

func genC07(o *genOpts, k int) *History {
	r := subRng(o.seed, "C07", k)
	shape := pickShape(r, c07Shapes, o)
	b := newBuilder(r, "C07", shape, o.seed, o.thorough)
	h := b.h
	h.ID = fmt.Sprintf("C07-%06d", k)
	pre := r.between(0, 8)
	post := r.between(2, 10)
	if o.thorough {
		pre, post = r.between(0, 20), r.between(4, 25)
	}
	switch shape {
	case "stalled-rawsocket-ppt":
		// raw client: attached, subscribed, stops reading; others publish so
		// that its writer blocks; then its CALL with ppt_scheme.
		h.Realms = []string{"realm1"}
		b.realmOn = map[string]bool{"realm1": true}
		h.Sessions = append(h.Sessions, SessionSpec{Realm: "realm1", Q: queueSizes[r.intn(2)], Raw: true})
		b.track(true)
		_, by := b.population(0, r.between(2, 3))
		b.add(Op{Op: "register", S: by[0], Proc: "p1"})
		b.regs["realm1|p1"] = by[0]
		b.add(Op{Op: "subscribe", S: 0, Topic: "t1"})
		b.add(Op{Op: "stall", S: 0})
		b.stalled[0] = true
		b.add(Op{Op: "publish", S: by[1], Topic: "t1", Ack: true, Repeat: 6})
		b.add(Op{Op: "call", S: 0, Proc: "p1", PPT: "x_custom"})
		b.gone(0)
		b.add(Op{Op: "call", S: by[1], Proc: "p1"})
		b.randomOps(3)
	case "stalled-metacall":
		b.reserve = 1
		vs, _ := b.population(r.between(1, 2), r.between(2, 4))
		b.randomOps(pre)
		v := vs[0]
		if b.qOf(v) > 2 {
			h.Sessions[v].Q = queueSizes[r.intn(2)]
		}
		if len(b.byIn(b.realmOf(v))) < 2 || !b.fillVictim(v) {
			break
		}
		b.add(Op{Op: "metacall", S: v, Proc: metaProcs[r.intn(3)]})
		b.reserve = 0
		x := pickInt(r, b.byIn(b.realmOf(v)))
		switch r.intn(5) {
		case 0:
			b.add(Op{Op: "register", S: x, Proc: "p3"})
			b.add(Op{Op: "publish", S: x, Topic: "t2", Ack: true})
		case 1:
			b.track(false)
			b.add(Op{Op: "join", Realm: b.realmOf(v), Q: 64})
		case 2:
			if len(b.byIn(b.realmOf(v))) > 2 {
				b.gone(x)
				b.add(Op{Op: "leave", S: x})
				b.add(Op{Op: "metacall", S: pickInt(r, b.byIn(b.realmOf(v))), Proc: "wamp.session.count"})
			} else {
				b.add(Op{Op: "metacall", S: x, Proc: "wamp.session.list"})
			}
		case 3:
			b.add(Op{Op: "metacall", S: x, Proc: "wamp.session.count"})
		default:
			b.add(Op{Op: "register", S: x, Proc: "p2"})
			b.add(Op{Op: "unregister", S: x, Proc: "p2"})
		}
		b.randomOps(post)
	case "filtered-disclosed-self-publish":
		// Publications with a receiver filter, disclose_me and exclude_me=false
		// from sessions that are themselves subscribed; the recipients announced
		// publisher_identification.  Some recipients do not read.
		vs, by := b.population(r.between(0, 1), r.between(2, 4))
		all := append(append([]int{}, vs...), by...)
		for _, s := range all {
			h.Sessions[s].Feat = true
			h.Sessions[s].Realm = h.Realms[0]
		}
		t := topics[r.intn(len(topics))]
		for _, s := range all {
			if r.chance(80) || s == by[0] {
				b.add(Op{Op: "subscribe", S: s, Topic: t})
				b.subs[s][t] = true
			}
		}
		b.randomOps(pre / 3)
		for _, v := range vs {
			if r.chance(60) {
				b.fillVictim(v)
			}
		}
		filters := []string{"exclude", "exclude_authrole", "exclude_authid"}
		for i := r.between(1, 3); i > 0; i-- {
			p := by[r.intn(len(by))]
			if !b.alive[p] {
				continue
			}
			b.add(Op{Op: "publish", S: p, Topic: t, Ack: r.chance(70), Filter: filters[r.intn(3)], Disclose: true, ToSelf: true})
		}
		// and the variants that must not matter
		b.add(Op{Op: "publish", S: by[0], Topic: t, Ack: true, Filter: filters[r.intn(3)], Disclose: r.chance(50), ToSelf: r.chance(50)})
		b.randomOps(post / 2)
	case "stalled-metacall-unregister":
		// A bystander registers while the meta session is free; a session with a
		// full queue calls a meta procedure (the meta-session handler sits in the
		// RESULT retry); the bystander UNREGISTERs meanwhile.
		vs, _ := b.population(1, r.between(2, 4))
		v := vs[0]
		if b.qOf(v) > 2 {
			h.Sessions[v].Q = queueSizes[r.intn(2)]
		}
		xs := b.byIn(b.realmOf(v))
		if len(xs) < 2 {
			break
		}
		x := xs[r.intn(len(xs))]
		b.add(Op{Op: "register", S: x, Proc: "p2"})
		b.regs[b.realmOf(x)+"|p2"] = x
		b.randomOps(pre / 3)
		if !b.alive[v] || !b.alive[x] || b.regs[b.realmOf(x)+"|p2"] != x || !b.fillVictim(v) {
			break
		}
		b.add(Op{Op: "metacall", S: v, Proc: metaProcs[r.intn(3)]})
		b.add(Op{Op: "unregister", S: x, Proc: "p2"})
		delete(b.regs, b.realmOf(x)+"|p2")
		b.randomOps(post / 2)
	case "stalled-callee-cancel-kill":
		// A callee that announced call_canceling holds a call, stops reading with
		// its queue completely full; the caller CANCELs with mode kill.
		vs, by := b.population(1, r.between(2, 4))
		v := vs[0]
		if b.qOf(v) > 2 {
			h.Sessions[v].Q = queueSizes[r.intn(2)]
		}
		h.Sessions[v].Feat = true
		xs := b.byIn(b.realmOf(v))
		if len(xs) < 2 {
			break
		}
		_ = by
		caller := xs[r.intn(len(xs))]
		b.add(Op{Op: "register", S: v, Proc: "p1"})
		b.regs[b.realmOf(v)+"|p1"] = v
		b.randomOps(pre / 3)
		if !b.alive[v] || !b.alive[caller] || b.stalled[v] || b.regs[b.realmOf(v)+"|p1"] != v {
			break
		}
		b.add(Op{Op: "call", S: caller, Proc: "p1", Hold: true})
		b.heldAt[v]++
		b.pending[caller]++
		if !b.fillVictim(v) {
			break
		}
		b.add(Op{Op: "cancel", S: caller, Mode: []string{"kill", "kill", "killnowait", "skip"}[r.intn(4)]})
		b.pending[caller]--
		b.randomOps(post / 2)
	case "stalled-sub-flood":
		vs, _ := b.population(r.between(1, 3), r.between(2, 4))
		b.randomOps(pre)
		for _, v := range vs {
			b.fillVictim(v)
		}
		b.randomOps(post + 4)
	case "stalled-caller-yield":
		vs, by := b.population(1, r.between(2, 4))
		v, callee := vs[0], by[0]
		b.add(Op{Op: "register", S: callee, Proc: "p1"})
		b.regs[b.realmOf(callee)+"|p1"] = callee
		b.randomOps(pre / 2)
		if !b.alive[v] || !b.alive[callee] || b.stalled[v] {
			break
		}
		b.add(Op{Op: "call", S: v, Proc: "p1", Hold: true})
		b.fillVictim(v)
		b.add(Op{Op: "yield", S: callee})
		b.randomOps(post / 2)
		b.add(Op{Op: "sleep", Ms: 70000})
		b.randomOps(post / 2)
	case "stalled-callee":
		vs, by := b.population(r.between(1, 2), r.between(2, 4))
		v := vs[0]
		b.add(Op{Op: "register", S: v, Proc: "p1"})
		b.regs[b.realmOf(v)+"|p1"] = v
		b.randomOps(pre / 2)
		if !b.alive[v] {
			break
		}
		if !b.stalled[v] {
			b.add(Op{Op: "stall", S: v})
			b.stalled[v] = true
		}
		for i := 0; i < b.qOf(v)%60+2; i++ {
			b.add(Op{Op: "call", S: by[i%len(by)], Proc: "p1", TimeoutMs: []int{0, 1000}[r.intn(2)]})
		}
		b.randomOps(post)
	case "kill-stalled":
		vs, _ := b.population(r.between(1, 3), r.between(2, 4))
		b.randomOps(pre)
		for _, v := range vs {
			if !b.alive[v] || len(b.bystanders()) == 0 {
				continue
			}
			b.fillVictim(v)
			switch r.intn(3) {
			case 0:
				b.add(Op{Op: "kill", S: b.bystanders()[0], Target: v})
			case 1:
				b.add(Op{Op: "leave", S: v})
			default:
				b.add(Op{Op: "drop", S: v})
			}
			b.gone(v)
		}
		b.randomOps(post)
	case "realm-churn":
		b.reserve = 2
		b.population(r.between(1, 2), r.between(2, 4))
		b.randomOps(pre)
		b.reserve = 0
		b.add(Op{Op: "addrealm", Realm: "realm3"})
		b.realmOn["realm3"] = true
		b.track(false)
		b.add(Op{Op: "join", Realm: "realm3", Q: queueSizes[r.intn(3)]})
		b.track(false)
		b.add(Op{Op: "join", Realm: "realm3", Q: 64})
		b.randomOps(post)
		b.add(Op{Op: "removerealm", Realm: "realm3"})
		b.realmOn["realm3"] = false
		b.randomOps(4)
	case "burst-mix":
		vs, _ := b.population(r.between(0, 2), r.between(3, 5))
		for _, v := range vs {
			if r.chance(60) {
				b.fillVictim(v)
			}
		}
		for i := 0; i < 3+post/2 && b.room() > 0; i++ {
			var ops []Op
			for j := r.between(3, 7); j > 0; j-- {
				if o, ok := b.randomOp(true); ok {
					ops = append(ops, o)
				}
			}
			if len(ops) > 1 {
				b.add(Op{Op: "burst", Ops: ops})
			}
			b.randomOps(2)
		}
	case "meta-subscriber-stalled":
		b.reserve = 3
		vs, _ := b.population(r.between(1, 2), r.between(2, 4))
		b.reserve = 0
		for _, v := range vs {
			for _, t := range metaTopics {
				if r.chance(70) {
					b.add(Op{Op: "subscribe", S: v, Topic: t})
					b.subs[v][t] = true
				}
			}
			b.add(Op{Op: "stall", S: v})
			b.stalled[v] = true
		}
		for i := 0; i < 3; i++ {
			b.track(false)
			b.add(Op{Op: "join", Realm: h.Realms[0], Q: queueSizes[r.intn(3)]})
		}
		b.randomOps(post + pre)
	default:
		b.population(r.between(0, 3), r.between(2, 5))
		b.randomOps(pre + post + 6)
	}
	return h
}

// stalledBefore reports whether any session is stalled after ops[:pos].
func stalledBefore(ops []Op, pos int) bool {
	st := map[int]bool{}
	for i := 0; i < pos && i < len(ops); i++ {
		switch ops[i].Op {
		case "stall":
			st[ops[i].S] = true
		case "resume", "leave", "drop":
			delete(st, ops[i].S)
		case "kill":
			delete(st, ops[i].Target)
		}
	}
	return len(st) > 0
}

// genC06Base builds one base history (no close yet).
func genC06Base(o *genOpts, k int) *History {
	r := subRng(o.seed, "C06", k)
	shape := pickShape(r, c06Shapes, o)
	b := newBuilder(r, "C06", shape, o.seed, o.thorough)
	h := b.h
	h.AfterCloseHours = r.between(1, 4)
	h.MemStats = r.chance(50)
	pre := r.between(0, 5)
	if o.thorough {
		pre = r.between(0, 14)
	}
	switch shape {
	case "denied-request-from-stalled-client":
		// A client whose queue is full and that does not read sends a request the
		// realm's Authorizer refuses: the ERROR cannot be queued.  Optionally it
		// is killed afterwards.  Then Close / RemoveRealm.
		vs, _ := b.population(1, r.between(2, 3))
		v := vs[0]
		if b.qOf(v) > 2 {
			h.Sessions[v].Q = queueSizes[r.intn(2)]
		}
		b.randomOps(pre / 2)
		if !b.alive[v] || !b.fillVictim(v) {
			break
		}
		switch r.intn(4) {
		case 0:
			b.add(Op{Op: "subscribe", S: v, Topic: "denied.t"})
		case 1:
			b.add(Op{Op: "register", S: v, Proc: "denied.p"})
		case 2:
			b.add(Op{Op: "call", S: v, Proc: "denied.p"})
		default:
			b.add(Op{Op: "publish", S: v, Topic: "denied.t", Ack: true})
		}
		if by := b.byIn(b.realmOf(v)); r.chance(35) && len(by) > 0 {
			b.add(Op{Op: "kill", S: by[0], Target: v})
			b.gone(v)
		}
		b.randomOps(r.between(0, 2))
	case "stalled-rawsocket-then-close":
		// One or two rawsocket clients (transport.AcceptRawSocket over net.Pipe)
		// subscribe and stop reading; a local session publishes until the
		// peer's sender sits in conn.Write; optionally the session is killed;
		// then Close / RemoveRealm: closing such a peer waits for its sender.
		h.Realms = []string{"realm1"}
		b.realmOn = map[string]bool{"realm1": true}
		nRaw := 1 + r.intn(2)
		for i := 0; i < nRaw; i++ {
			h.Sessions = append(h.Sessions, SessionSpec{Realm: "realm1", Q: queueSizes[r.intn(2)], Raw: true})
			b.track(true)
		}
		_, by := b.population(0, r.between(2, 3))
		for i := 0; i < nRaw; i++ {
			b.add(Op{Op: "subscribe", S: i, Topic: "t1"})
			b.subs[i]["t1"] = true
		}
		for i := 0; i < nRaw; i++ {
			b.add(Op{Op: "stall", S: i})
			b.stalled[i] = true
		}
		b.add(Op{Op: "publish", S: by[0], Topic: "t1", Ack: true, Repeat: 6})
		switch r.intn(3) {
		case 0:
			b.add(Op{Op: "kill", S: by[1], Target: 0})
			b.gone(0)
		case 1:
			b.add(Op{Op: "sleep", Ms: sleeps[r.intn(len(sleeps))]})
		}
	case "caller-leaves-with-armed-timer":
		// A call with a router-side timeout is pending at the callee; one of the
		// two parties goes away (GOODBYE, dropped transport, wamp.session.kill,
		// protocol violation); Close / RemoveRealm comes before the timeout.
		_, by := b.population(0, r.between(3, 4))
		callee, caller, third := by[0], by[1], by[2]
		for _, s := range by[:3] {
			h.Sessions[s].Realm = h.Realms[0]
		}
		b.add(Op{Op: "register", S: callee, Proc: "p1"})
		b.regs[b.realmOf(callee)+"|p1"] = callee
		b.randomOps(pre / 2)
		if !b.alive[callee] || !b.alive[caller] || !b.alive[third] || b.regs[b.realmOf(callee)+"|p1"] != callee {
			break
		}
		b.add(Op{Op: "call", S: caller, Proc: "p1", Hold: true, TimeoutMs: []int{10000, 90000, 3600000, 86400000}[r.intn(4)]})
		b.heldAt[callee]++
		b.pending[caller]++
		who := caller
		if r.chance(30) {
			who = callee
		}
		switch r.intn(4) {
		case 0:
			b.add(Op{Op: "leave", S: who})
		case 1:
			b.add(Op{Op: "drop", S: who})
		case 2:
			b.add(Op{Op: "kill", S: third, Target: who})
		default:
			// protocol violation: payload passthru without the announced feature
			b.add(Op{Op: "call", S: who, Proc: "p1", PPT: "x_custom"})
		}
		b.gone(who)
		b.randomOps(r.between(0, 3))
	case "armed-timer":
		_, by := b.population(0, r.between(2, 3))
		b.add(Op{Op: "register", S: by[0], Proc: "p1"})
		b.regs[b.realmOf(by[0])+"|p1"] = by[0]
		b.randomOps(pre)
		b.add(Op{Op: "call", S: by[1], Proc: "p1", TimeoutMs: 10000, Hold: true})
		if r.chance(40) {
			b.add(Op{Op: "sleep", Ms: 1500})
		}
	case "publish-racing-close":
		_, by := b.population(0, r.between(3, 5))
		for _, s := range by[1:] {
			b.add(Op{Op: "subscribe", S: s, Topic: "t1"})
		}
		b.randomOps(pre)
		var ops []Op
		ops = append(ops, Op{Op: "publish", S: by[0], Topic: "t1", Ack: r.chance(50), Repeat: r.between(10, 40)})
		if r.chance(60) {
			ops = append(ops, Op{Op: "publish", S: by[1], Topic: "t1", Repeat: r.between(5, 30)})
		}
		b.add(Op{Op: "burst", Ops: ops})
	case "stalled-metacall-then-close", "cancelled-stalled-metacall":
		h.Realms = h.Realms[:1]
		b.realmOn = map[string]bool{h.Realms[0]: true}
		v := b.addSession(h.Realms[0], queueSizes[r.intn(2)], true)
		_, by := b.population(0, r.between(2, 3))
		b.fillVictim(v)
		b.add(Op{Op: "metacall", S: v, Proc: metaProcs[r.intn(3)]})
		if shape == "cancelled-stalled-metacall" {
			b.add(Op{Op: "metacall", S: by[1], Proc: "wamp.session.count"})
			b.add(Op{Op: "sleep", Ms: 1000})
			b.add(Op{Op: "cancel", S: v})
			b.add(Op{Op: "sleep", Ms: 2000})
		} else {
			b.add(Op{Op: "sleep", Ms: 5000})
		}
	case "meta-in-flight":
		_, by := b.population(0, r.between(3, 5))
		b.randomOps(pre)
		var ops []Op
		for i := 0; i < r.between(20, 28); i++ {
			ops = append(ops, Op{Op: "metacall", S: by[i%len(by)], Proc: metaProcs[r.intn(len(metaProcs))]})
		}
		b.add(Op{Op: "burst", Ops: ops})
	case "hello-goodbye":
		b.reserve = 2
		b.population(0, r.between(1, 3))
		b.randomOps(pre)
		b.reserve = 0
		b.track(false)
		b.alive[len(b.alive)-1] = false
		b.add(Op{Op: "hello_goodbye", Realm: h.Realms[0], Q: queueSizes[r.intn(3)]})
		if r.chance(50) {
			b.track(false)
			b.add(Op{Op: "join", Realm: h.Realms[0], Q: 2, Wrap: true})
		}
	case "kill-then-close", "drop-then-close":
		vs, by := b.population(r.between(0, 1), r.between(3, 4))
		b.randomOps(pre)
		tg := by[len(by)-1]
		if len(vs) > 0 && r.chance(50) {
			tg = vs[0]
		}
		if !b.alive[tg] || !b.alive[by[0]] {
			break
		}
		b.add(Op{Op: "subscribe", S: tg, Topic: "t1"})
		b.add(Op{Op: "register", S: tg, Proc: "p3"})
		b.add(Op{Op: "call", S: by[0], Proc: "p3", Hold: true})
		if shape == "kill-then-close" {
			b.add(Op{Op: "kill", S: by[0], Target: tg})
		} else {
			b.add(Op{Op: []string{"drop", "leave"}[r.intn(2)], S: tg})
		}
		b.gone(tg)
	case "publish-held-until-subscriber-closed":
		_, by := b.population(0, r.between(2, 4))
		b.randomOps(pre)
		if !b.alive[by[0]] || !b.alive[by[1]] || b.realmOf(by[0]) != b.realmOf(by[1]) {
			break
		}
		b.add(Op{Op: "subscribe", S: by[1], Topic: "t1"})
		b.add(Op{Op: "publish", S: by[0], Topic: "t1", Ack: r.chance(50), HoldUntil: fmt.Sprintf("closed:%d", by[1])})
	case "authz-held-at-close":
		_, by := b.population(0, r.between(2, 4))
		b.add(Op{Op: "register", S: by[1], Proc: "p1"})
		b.add(Op{Op: "subscribe", S: by[1], Topic: "t1"})
		b.randomOps(pre)
		if !b.alive[by[0]] {
			break
		}
		if r.chance(50) {
			b.add(Op{Op: "publish", S: by[0], Topic: "t1", Ack: true, HoldUntil: "close"})
		} else {
			b.add(Op{Op: "call", S: by[0], Proc: "p1", TimeoutMs: []int{0, 10000}[r.intn(2)], HoldUntil: "close"})
		}
	case "join-in-burst":
		b.reserve = 5
		b.population(0, r.between(1, 3))
		b.randomOps(pre)
		b.reserve = 0
		for i, s := range b.stalled {
			if s && b.alive[i] {
				b.add(Op{Op: "resume", S: i})
				b.stalled[i] = false
			}
		}
		var ops []Op
		for i := 0; i < r.between(2, 5); i++ {
			b.track(false)
			if r.chance(30) {
				b.alive[len(b.alive)-1] = false
				ops = append(ops, Op{Op: "hello_goodbye", Realm: h.Realms[0], Q: 2})
			} else {
				ops = append(ops, Op{Op: "join", Realm: h.Realms[r.intn(len(h.Realms))], Q: queueSizes[r.intn(3)], Wrap: r.chance(30)})
			}
		}
		b.add(Op{Op: "burst", Ops: ops})
	case "bad-realm-uri":
		// A realm URI the router must refuse, through the realm template
		// (join) and through AddRealm; also a join to an unknown realm.
		h.Template = r.chance(75)
		b.reserve = 4
		b.population(0, r.between(1, 3))
		b.randomOps(pre)
		b.reserve = 0
		bad := []string{"bad realm", "a..b"}[r.intn(2)]
		for i := r.between(1, 2); i > 0; i-- {
			b.track(false)
			b.alive[len(b.alive)-1] = false
			b.add(Op{Op: "join", Realm: bad, Q: 2})
		}
		if r.chance(60) {
			b.add(Op{Op: "addrealm", Realm: bad})
		}
		if !h.Template || r.chance(30) {
			b.track(false)
			b.alive[len(b.alive)-1] = false
			b.add(Op{Op: "join", Realm: "nosuch.realm", Q: 2})
		}
	case "removerealm-during-auth":
		// The attach goroutine is parked in authClient (IsLocal) while the
		// realm is removed / the router closed, then goes on.
		h.LocalAuth = true
		b.reserve = 1
		b.population(0, r.between(1, 3))
		b.randomOps(pre)
		b.reserve = 0
		b.track(false)
		b.alive[len(b.alive)-1] = false
		b.add(Op{Op: "join", Realm: h.Realms[0], Q: 2, HoldUntil: "closed"})
	case "pending-calls":
		_, by := b.population(0, r.between(3, 5))
		b.add(Op{Op: "register", S: by[0], Proc: "p1"})
		b.add(Op{Op: "register", S: by[1], Proc: "p2"})
		b.regs[b.realmOf(by[0])+"|p1"] = by[0]
		for i := 0; i < r.between(2, 6); i++ {
			b.add(Op{Op: "call", S: by[2+i%(len(by)-2)], Proc: procs[r.intn(2)], Hold: true,
				TimeoutMs: []int{0, 50, 10000, 7200000}[r.intn(4)]})
		}
		b.randomOps(pre)
	default:
		b.population(r.between(0, 2), r.between(2, 4))
		n := r.between(4, 14)
		if o.thorough {
			n = r.between(6, 40)
		}
		b.randomOps(n)
	}
	return h
}

// expandC06 yields the base history with Close / RemoveRealm at every
// position, in_burst variants at burst positions, and a trailing burst.
func expandC06(o *genOpts, k int, base *History) []*History {
	r := subRng(o.seed, "C06x", k)
	kinds := []string{"Close"}
	if o.thorough || base.Shape == "removerealm-during-auth" || base.Shape == "stalled-rawsocket-then-close" || base.Shape == "denied-request-from-stalled-client" {
		kinds = append(kinds, "RemoveRealm")
	} else if r.chance(30) {
		kinds = []string{"RemoveRealm"}
	}
	var out []*History
	n := 0
	mk := func(kind string, pos int, inBurst bool, ops []Op) {
		hv := *base // ops are shared between the variants (never modified)
		h := &hv
		h.Ops = ops
		h.Close = &CloseSpec{Kind: kind, Pos: pos, InBurst: inBurst, Concurrent: kind == "Close" && !inBurst && base.MemStats && (pos+k)%2 == 0}
		if kind == "RemoveRealm" {
			h.Close.Realm = base.Realms[0]
		}
		if inBurst && pos < len(h.Ops) && stalledBefore(h.Ops, pos) {
			// a handshake racing the close while the realm's close lock may be
			// held across virtual time would stop the bubble's clock
			h.Ops = cloneOps(ops)
			if h.Ops[pos].Op == "burst" {
				var keep []Op
				for _, x := range h.Ops[pos].Ops {
					if x.Op != "join" && x.Op != "hello_goodbye" {
						keep = append(keep, x)
					}
				}
				h.Ops[pos].Ops = keep
			} else if h.Ops[pos].Op == "join" || h.Ops[pos].Op == "hello_goodbye" {
				h.Close.InBurst = false
			}
		}
		h.ID = fmt.Sprintf("C06-%05d-%02d", k, n)
		n++
		out = append(out, h)
	}
	for _, kind := range kinds {
		for pos := 0; pos <= len(base.Ops); pos++ {
			mk(kind, pos, false, base.Ops)
			if pos < len(base.Ops) {
				if base.Ops[pos].Op == "burst" {
					mk(kind, pos, true, base.Ops)
				} else if r.chance(25) {
					switch base.Ops[pos].Op {
					case "sleep", "stall", "resume":
					default:
						mk(kind, pos, true, base.Ops)
					}
				}
			}
		}
		// trailing burst released together with the close
		bb := &builder{r: r, h: base.clone(), c06: true, regs: map[string]int{}, realmOn: map[string]bool{}, maxSess: 8, maxOps: 200}
		if o.thorough {
			bb.maxSess = 12
		}
		for _, u := range base.Realms {
			bb.realmOn[u] = true
		}
		for range base.Sessions {
			bb.track(false)
		}
		flatOps(base.Ops, func(x *Op, _ bool) {
			switch x.Op {
			case "join", "hello_goodbye":
				bb.track(false)
				if x.Op == "hello_goodbye" || x.HoldUntil != "" {
					bb.alive[len(bb.alive)-1] = false
				}
			case "leave", "drop":
				bb.alive[x.S] = false
			case "kill":
				bb.alive[x.Target] = false
			case "stall":
				bb.stalled[x.S] = true
			case "resume":
				bb.stalled[x.S] = false
			case "publish", "call":
				if x.HoldUntil != "" {
					bb.alive[x.S] = false
				}
			}
		})
		var tail []Op
		for j := r.between(2, 6); j > 0; j-- {
			if x, ok := bb.randomOp(true); ok {
				tail = append(tail, x)
			}
		}
		if len(tail) > 1 {
			ops := append(append([]Op{}, base.Ops...), Op{Op: "burst", Ops: tail})
			mk(kind, len(base.Ops), true, ops)
		}
	}
	return out
}

// generate returns the deterministic list of histories for the options.
func generate(o *genOpts) []*History {
	var out []*History
	if o.prop == "C07" {
		out = append(out, genYieldResume(o)...)
		out = append(out, genCancelStalled(o)...)
		out = append(out, genChunkStalled(o)...)
		for k := 0; k < o.n; k++ {
			out = append(out, genC07(o, k))
		}
		return out
	}
	for k := 0; k < o.n; k++ {
		out = append(out, expandC06(o, k, genC06Base(o, k))...)
	}
	return out
}
