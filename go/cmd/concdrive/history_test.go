// Package concdrive is the dynamic harness for properties C06 (Router.Close /
// RemoveRealm are safe at any moment) and C07 (an unresponsive client never
// blocks others; the router never deadlocks).  It is a test package because
// testing/synctest.Test needs a *testing.T; the entry point is TestDrive.
//
// # History format (plain JSON; corpus files are exactly this)
//
//	{"id":"C07-000123","prop":"C07","seed":1,"shape":"random",
//	 "realms":["realm1","realm2"],
//	 "sessions":[{"realm":"realm1","q":1,"wrap":false}],
//	 "ops":[ ... ],
//	 "close":{"kind":"Close","realm":"","pos":7,"in_burst":false},
//	 "after_close_hours":3}
//
// sessions: attached before the ops start; index = session number.  q is the
// router->client queue size (transport.LinkedPeersQSize).  "wrap":true makes
// the router-side peer a gated peer: its Send() blocks, when called from the
// attach goroutine, until the router called Close() on it or 1 s of virtual
// time passed.  "raw":true makes the session a rawsocket peer
// (transport.AcceptRawSocket over net.Pipe, JSON); "noppt":true announces no
// payload_passthru_mode feature (all other sessions announce it).
//
// ops (fields not listed for an op are ignored):
//
//	{"op":"subscribe","s":0,"topic":"t1"}      {"op":"unsubscribe","s":0,"topic":"t1"}
//	{"op":"publish","s":1,"topic":"t1","ack":true,"repeat":1,"hold_until":"",
//	      "filter":"exclude|exclude_authrole|exclude_authid","disclose_me":true,"to_self":true}
//	     filter: a black/white-list option that excludes nobody (so that the broker
//	     builds a publish filter); to_self: exclude_me=false
//	{"op":"register","s":2,"proc":"p1"}        {"op":"unregister","s":2,"proc":"p1"}
//	{"op":"call","s":1,"proc":"p1","timeout_ms":0,"hold":false,"ppt":""}
//	     the callee answers automatically unless "hold":true; then a later
//	     {"op":"yield","s":2} answers the oldest invocation held by session 2
//	{"op":"yield","s":2}                        {"op":"cancel","s":1,"mode":"kill"}   (oldest unanswered call of s; mode optional)
//	{"op":"metacall","s":1,"proc":"wamp.session.count"}   (also .list, .get, wamp.registration.list, wamp.subscription.list)
//	{"op":"kill","s":1,"target":3}             wamp.session.kill
//	{"op":"leave","s":3}                       GOODBYE
//	{"op":"drop","s":3}                        client closes its side of the transport
//	{"op":"join","realm":"realm1","q":2,"wrap":false}     new session, appended to sessions
//	{"op":"hello_goodbye","realm":"realm1","q":2}         gated attach whose client pipelines HELLO, GOODBYE
//	{"op":"stall","s":0}  {"op":"resume","s":0}          stop / resume draining the router->client queue
//	{"op":"addrealm","realm":"realm3"}  {"op":"removerealm","realm":"realm3"}
//	{"op":"sleep","ms":1500}
//	{"op":"burst","ops":[...]}                 released together, no synctest.Wait in between
//	{"op":"selftest_hang"}                     self-test of the parent's watchdog (blocks on a mutex)
//
// "repeat":n publishes n messages back to back.  "hold_until" on a publish
// holds the publisher's handler inside the realm's PublishFilterFactory (no
// lock is held there) until "closed:<session>" = the router called Close() on
// that session's peer; on any message "hold_until":"close" holds it in the
// realm's Authorizer until the harness is about to invoke Close/RemoveRealm.
// Both have a 1 h virtual fallback.
//
// "hold_until":"closed" on a join parks the attach goroutine inside the
// peer's IsLocal() (called by realm.authClient) until the history's Close /
// RemoveRealm has returned, or 1 s of virtual time passed; IsLocal() then
// returns false.  Top level "template":true gives the router a RealmTemplate
// (anonymous auth), "local_auth":true sets RequireLocalAuth on every realm.
//
// "yield_resume":{"q":1,"kind":"final","resume_after_us":3000} (C07, shape
// yield-to-stalled-caller-then-resume; sessions and ops are empty): the
// scripted scenario of yieldresume_test.go -- a caller with queue size q stops
// reading, its queue is filled, the callee YIELDs (kind final |
// progressive-final | stalled-progressive-final), the caller resumes
// resume_after_us microseconds of virtual time after that YIELD was taken.
//
// "cancel_stalled":{"q":1,"mode":"kill","full":true} (C07, shape
// cancel-to-stalled-callee): the scripted scenario of cancelstalled_test.go.
//
// The realms' Authorizer refuses every SUBSCRIBE / REGISTER / CALL / PUBLISH
// whose topic or procedure starts with "denied." (ERROR wamp.error.not_authorized).
// "memstats":true sets Config.MemStatsLogSec.  After every Router.Close of a
// history Close is called again (sequentially and from two goroutines), then
// AddRealm / RemoveRealm: all must return without panic.
//
// close (C06 only): perform Close / RemoveRealm(realm) before ops[pos]
// (pos==len(ops): at the end).  in_burst: release it together with ops[pos]
// (all its ops if that is a burst).  After Router.Close the remaining ops are
// not executed; after RemoveRealm they are (ops of dead sessions are skipped).
// after_close_hours: virtual time advanced after the close returned.
package concdrive

import (
	"bytes"
	"crypto/sha256"
	"encoding/hex"
	"encoding/json"
	"fmt"
	"strconv"
)

// SessionSpec describes one scripted client.
type SessionSpec struct {
	Realm string `json:"realm"`
	Q     int    `json:"q"`
	Wrap  bool   `json:"wrap"`
	Raw   bool   `json:"raw,omitempty"`
	Feat  bool   `json:"feat,omitempty"` // announces progressive_call_results and call_canceling (caller and callee)
}

// Op is one step of a history.
type Op struct {
	Op        string `json:"op"`
	S         int    `json:"s"`
	Topic     string `json:"topic,omitempty"`
	Ack       bool   `json:"ack,omitempty"`
	Repeat    int    `json:"repeat,omitempty"`
	HoldUntil string `json:"hold_until,omitempty"`
	Proc      string `json:"proc,omitempty"`
	TimeoutMs int    `json:"timeout_ms,omitempty"`
	Hold      bool   `json:"hold,omitempty"`
	PPT       string `json:"ppt,omitempty"`
	Target    int    `json:"target,omitempty"`
	Realm     string `json:"realm,omitempty"`
	Q         int    `json:"q,omitempty"`
	Wrap      bool   `json:"wrap,omitempty"`
	Ms        int    `json:"ms,omitempty"`
	Mode      string `json:"mode,omitempty"` // cancel: kill | killnowait | skip (default: none given)
	// publish: a receiver filter that excludes nobody ("exclude": a session id
	// nobody has | "exclude_authrole": ["nobody-role"] | "exclude_authid": ["nobody"]),
	// disclose_me, and exclude_me=false
	Filter   string `json:"filter,omitempty"`
	Disclose bool   `json:"disclose_me,omitempty"`
	ToSelf   bool   `json:"to_self,omitempty"`
	Ops      []Op   `json:"ops,omitempty"`
}

// CloseSpec says where Close / RemoveRealm is injected (C06).
type CloseSpec struct {
	Kind    string `json:"kind"` // "Close" | "RemoveRealm"
	Realm   string `json:"realm"`
	Pos     int    `json:"pos"`
	InBurst bool   `json:"in_burst"`
	// Concurrent: a second goroutine calls Router.Close at the same moment
	// (only honoured when nothing in flight makes the close wait for time).
	Concurrent bool `json:"concurrent,omitempty"`
}

// History is one generated or recorded input.
type History struct {
	ID              string        `json:"id"`
	Prop            string        `json:"prop"`
	Seed            uint64        `json:"seed"`
	Shape           string        `json:"shape,omitempty"`
	Template        bool          `json:"template,omitempty"`   // router has a RealmTemplate (realms are created on demand)
	LocalAuth       bool          `json:"local_auth,omitempty"` // realms require authentication of local clients
	MemStats        bool          `json:"memstats,omitempty"`   // Config.MemStatsLogSec is set (the router runs its memory-stats logger)
	Realms          []string      `json:"realms"`
	Sessions        []SessionSpec `json:"sessions"`
	Ops             []Op          `json:"ops"`
	Close           *CloseSpec    `json:"close,omitempty"`
	AfterCloseHours int           `json:"after_close_hours,omitempty"`
	// YieldResume: the scripted scenario of yieldresume_test.go instead of ops.
	YieldResume *YieldResumeSpec `json:"yield_resume,omitempty"`
	// CancelStalled: the scripted scenario of cancelstalled_test.go instead of ops.
	CancelStalled *CancelStalledSpec `json:"cancel_stalled,omitempty"`
	// ChunkStalled: the scripted scenario of chunkstalled_test.go instead of ops.
	ChunkStalled *ChunkStalledSpec `json:"chunk_stalled,omitempty"`
}

// usesSession tells whether the op kind addresses session S.
func usesSession(kind string) bool {
	switch kind {
	case "join", "hello_goodbye", "addrealm", "removerealm", "sleep", "burst", "selftest_hang":
		return false
	}
	return true
}

// MarshalJSON writes only the fields that mean something for the op kind, in
// a fixed order, so that the encoding is canonical.
func (o Op) MarshalJSON() ([]byte, error) {
	var b bytes.Buffer
	str := func(k, v string) {
		b.WriteString(`,"` + k + `":`)
		q, _ := json.Marshal(v)
		b.Write(q)
	}
	num := func(k string, v int) { b.WriteString(`,"` + k + `":` + strconv.Itoa(v)) }
	boolean := func(k string, v bool) { b.WriteString(`,"` + k + `":` + strconv.FormatBool(v)) }
	b.WriteString(`{"op":`)
	q, _ := json.Marshal(o.Op)
	b.Write(q)
	if usesSession(o.Op) {
		num("s", o.S)
	}
	switch o.Op {
	case "subscribe", "unsubscribe":
		str("topic", o.Topic)
	case "publish":
		str("topic", o.Topic)
		boolean("ack", o.Ack)
		if o.Repeat > 1 {
			num("repeat", o.Repeat)
		}
		if o.Filter != "" {
			str("filter", o.Filter)
		}
		if o.Disclose {
			boolean("disclose_me", true)
		}
		if o.ToSelf {
			boolean("to_self", true)
		}
	case "register", "unregister":
		str("proc", o.Proc)
	case "call":
		str("proc", o.Proc)
		num("timeout_ms", o.TimeoutMs)
		if o.Hold {
			boolean("hold", true)
		}
		if o.PPT != "" {
			str("ppt", o.PPT)
		}
	case "metacall":
		str("proc", o.Proc)
	case "cancel":
		if o.Mode != "" {
			str("mode", o.Mode)
		}
	case "kill":
		num("target", o.Target)
	case "join", "hello_goodbye":
		str("realm", o.Realm)
		num("q", o.Q)
		if o.Wrap {
			boolean("wrap", true)
		}
	case "addrealm", "removerealm":
		str("realm", o.Realm)
	case "sleep":
		num("ms", o.Ms)
	case "burst":
		b.WriteString(`,"ops":[`)
		for i, c := range o.Ops {
			if i > 0 {
				b.WriteByte(',')
			}
			cb, err := c.MarshalJSON()
			if err != nil {
				return nil, err
			}
			b.Write(cb)
		}
		b.WriteByte(']')
	}
	if o.HoldUntil != "" {
		str("hold_until", o.HoldUntil)
	}
	b.WriteByte('}')
	return b.Bytes(), nil
}

// canonical returns the canonical one-line JSON of the history.
func (h *History) canonical() []byte {
	b, err := json.Marshal(h)
	if err != nil {
		panic(err)
	}
	return b
}

// contentHash identifies the history independent of its id.
func (h *History) contentHash() string {
	c := *h
	c.ID = ""
	sum := sha256.Sum256(c.canonical())
	return hex.EncodeToString(sum[:12])
}

func parseHistory(b []byte) (*History, error) {
	var h History
	dec := json.NewDecoder(bytes.NewReader(b))
	if err := dec.Decode(&h); err != nil {
		return nil, err
	}
	if h.Prop != "C06" && h.Prop != "C07" {
		return nil, fmt.Errorf("history %q: prop must be C06 or C07", h.ID)
	}
	if len(h.Realms) == 0 {
		h.Realms = []string{"realm1"}
	}
	return &h, nil
}

func cloneOps(ops []Op) []Op {
	if ops == nil {
		return nil
	}
	c := make([]Op, len(ops))
	copy(c, ops)
	for i := range c {
		c[i].Ops = cloneOps(c[i].Ops)
	}
	return c
}

func (h *History) clone() *History {
	c := *h
	c.Realms = append([]string{}, h.Realms...)
	c.Sessions = append([]SessionSpec{}, h.Sessions...)
	c.Ops = cloneOps(h.Ops)
	if h.Close != nil {
		cl := *h.Close
		c.Close = &cl
	}
	return &c
}

// flatOps calls f for every op, including the ops inside bursts.
func flatOps(ops []Op, f func(o *Op, inBurst bool)) {
	for i := range ops {
		if ops[i].Op == "burst" {
			for j := range ops[i].Ops {
				f(&ops[i].Ops[j], true)
			}
			continue
		}
		f(&ops[i], false)
	}
}
