package concdrive

import (
	"fmt"
	"io"
	"log"
	"runtime/debug"
	"strings"
	"sync"
	"sync/atomic"
	"testing"
	"testing/synctest"
	"time"

	"github.com/gammazero/nexus/v3/router"
	"github.com/gammazero/nexus/v3/transport"
	"github.com/gammazero/nexus/v3/wamp"
)

const (
	sendTimeout = time.Hour // a client send the router never takes
	// The dealer retries a RESULT to a blocked caller after 1,2,4,... ms and
	// looks at its one minute deadline only after each delay: the retry ends
	// 65.535 s after the YIELD.  Tolerance of the yield-retry exception.
	yieldRetryMax = 66 * time.Second
	closeLimit    = 2 * time.Hour
	gateOpenAfter = time.Second
	holdFallback  = time.Hour
	settleTime    = 2 * time.Hour
	// a draining caller whose small queue is full for an instant
	momentaryRetry = 100 * time.Millisecond
	// virtual time between two steps of a history
	stepGap = 2 * time.Millisecond
	// transport.ctrlTimeout: the write deadline Close() of a network peer sets
	peerCloseBound = 5 * time.Second
)

// Failure is one oracle verdict.
type Failure struct {
	Oracle    string `json:"oracle"`
	Signature string `json:"signature"`
	Detail    string `json:"detail"`
}

// recMsg is one message read by a session's drainer.
type recMsg struct {
	T    int64  `json:"t_ms"`
	Type string `json:"type"`
	Req  uint64 `json:"req,omitempty"`
	Info string `json:"info,omitempty"`
}

type sessTrace struct {
	Idx        int      `json:"s"`
	Realm      string   `json:"realm"`
	Q          int      `json:"q"`
	Msgs       []recMsg `json:"msgs"`
	ClosedAtMs int64    `json:"recv_closed_at_ms"` // -1: never
	RouterCls  int      `json:"router_close_calls"`
	Gone       string   `json:"gone,omitempty"`
	AttachErr  string   `json:"attach_err,omitempty"`
	MaxBuf     int      `json:"max_buffered"`
}

type opTrace struct {
	I        int    `json:"i"`
	Op       string `json:"op"`
	StartMs  int64  `json:"start_ms"`
	AcceptMs int64  `json:"accepted_ms"` // -1: not accepted / n.a.
	Note     string `json:"note,omitempty"`
}

// Trace is the observation side of a replay.
type Trace struct {
	Sessions   []sessTrace `json:"sessions"`
	Ops        []opTrace   `json:"ops"`
	Expect     []string    `json:"expectations"`
	CloseStart int64       `json:"close_start_ms"`
	CloseRet   int64       `json:"close_returned_ms"`
	CloseCtx   []string    `json:"close_context"`
	Left       []string    `json:"goroutines_left"`
	Notes      []string    `json:"notes"`
	Oracles    []string    `json:"oracles"`
	Dump       string      `json:"blocked_goroutines,omitempty"`
}

// Result is what a worker reports for one history.
type Result struct {
	ID            string         `json:"id"`
	Prop          string         `json:"prop"`
	Hash          string         `json:"hash"`
	Pass          bool           `json:"pass"`
	Failures      []Failure      `json:"failures"`
	Nontrivial    bool           `json:"nontrivial"`
	Why           []string       `json:"why,omitempty"`
	ExceptionUsed int            `json:"exception_used"`
	StalledFull   int            `json:"stalled_full"`
	OpsByKind     map[string]int `json:"ops_by_kind"`
	Skipped       int            `json:"skipped_ops"`
	VirtualMs     int64          `json:"virtual_ms"`
	Partial       bool           `json:"partial,omitempty"`
	Trace         *Trace         `json:"trace,omitempty"`
	YieldResume   *yrRow         `json:"yield_resume,omitempty"`
	CancelStalled *csRow         `json:"cancel_stalled,omitempty"`
}

type itemState int

const (
	itPending itemState = iota
	itAccepted
	itAbandoned
	itTimeout
)

const (
	kindSend = iota
	kindDrop
)

// outItem is one client->router message (or the client closing its side).
type outItem struct {
	kind  int
	msg   wamp.Message
	desc  string
	gate  chan struct{} // burst release
	enq   time.Duration
	acc   time.Duration
	state itemState
	begun bool // the sender started offering it
	judge bool // late accept already judged
	opTr  *opTrace
	yield *callRec // a YIELD for this call
	// metaBlk: while this item was pending, a quiescent dump showed the meta-session
	// handler in dealer.yield's retry and a handler blocked sending to the meta peer
	metaBlk bool
}

type callRec struct {
	token     string
	caller    *sess
	req       wamp.ID
	proc      string
	hold      bool
	meta      bool
	timeout   time.Duration
	item      *outItem
	callee    *sess // set when the INVOCATION was read
	invReq    wamp.ID
	yielded   *outItem
	cancel    *outItem
	modelCall *sess // callee according to the registration model at call time
	modelEp   int
	exp       *expect
}

// expect is one reply / event / WELCOME owed to a session.
type expect struct {
	s      *sess
	kind   string // reply | welcome | event | goodbye
	desc   string
	item   *outItem // request whose accept instant is the allowed instant
	fixed  []time.Duration
	call   *callRec
	topic  string
	proc   string
	strict bool
	epoch  int
	got    bool
	gotAt  time.Duration
	gotAs  string
	done   bool
	void   string
}

type sess struct {
	r    *runner
	idx  int
	spec SessionSpec
	cli  wamp.Peer
	rp   *obsPeer

	transient bool // hello_goodbye client
	sid       wamp.ID
	welcome   bool
	welcomeAt time.Duration
	gone      string // GOODBYE reason / ABORT reason / "closed"
	expGone   string // why the harness expects it to go
	leaving   bool
	dropped   bool
	held      bool // its handler is parked in a harness gate
	stalled   bool
	epoch     int
	recvEOF   bool
	closedAt  time.Duration
	maxBuf    int
	metaSub   bool
	msgs      []recMsg
	nextReq   wamp.ID
	pubSeq    int
	exps      map[wamp.ID]*expect
	heldInv   []*callRec
	calls     []*callRec
	excUntil  time.Duration
	attachErr error
	attachRet bool
	attachAt  time.Duration

	out        []*outItem
	sent       []*outItem
	outSig     chan struct{}
	ctl        chan readerCmd
	stop       chan struct{}
	readerDone chan struct{}
	senderDone chan struct{}
	attachDone chan struct{}
	lastSeq    map[string]int
	undone     map[string]wamp.ID // "t:"+topic / "p:"+proc -> request id of the latest unsubscribe / unregister
}

type readerCmd struct {
	pause bool
	ack   chan struct{}
}

type runner struct {
	h        *History
	strict   bool // C07 oracles enforced
	trace    bool
	mu       sync.Mutex
	t0       time.Time
	lg       *log.Logger
	rtr      router.Router
	hold     *holds
	sess     []*sess
	bySid    map[wamp.ID]*sess
	calls    map[string]*callRec
	events   map[string]map[int]*expect
	exps     []*expect
	subs     map[string]map[string]map[int]wamp.ID // realm -> topic -> session -> subscription
	regs     map[string]map[string]*sess           // realm -> proc -> callee
	regIDs   map[int]map[string]wamp.ID            // session -> proc -> registration
	everReg  map[string][]*sess                    // realm|proc -> sessions that ever asked to register it
	realms   map[string]bool                       // live realms
	relAt    []chan struct{}                       // authz "close" holds
	relAfter []chan struct{}                       // auth gates, released when the close has returned

	fails      []Failure
	abort      bool
	dump       string // goroutine dump taken at the first violation
	nontrivial bool
	why        map[string]bool
	excUsed    int
	fullPrev   map[int]bool
	fullEver   map[int]bool
	lastCount  map[int]int
	opsByKind  map[string]int
	skipped    int
	opTr       []opTrace
	notes      []string
	burstLoad  atomic.Int64
	unstable   map[int]bool
	closing    bool
	routerDown bool
	closeStart time.Duration
	closeRet   time.Duration
	closeCtx   []string
	left       []string
	bubble     string
	endAt      time.Duration
	sems       map[string]chan struct{}
	// handshakes of one realm may overlap (set for safe C06 bursts only)
	concurrentJoins bool
	lastStalled     time.Duration // last instant at which some session was stalled
	orcLog          []string
	partial         func(*Result)
	yr              *yrRow
	cs              *csRow
}

func (r *runner) now() time.Duration { return time.Since(r.t0) }

func ms(d time.Duration) int64 { return int64(d / time.Millisecond) }

func (r *runner) note(f string, a ...any) {
	r.notes = append(r.notes, fmt.Sprintf("[%d ms] ", ms(r.now()))+fmt.Sprintf(f, a...))
}

// orc records what an oracle expected and what it observed (replay output).
func (r *runner) orc(f string, a ...any) {
	r.mu.Lock()
	r.orcLog = append(r.orcLog, fmt.Sprintf(f, a...))
	r.mu.Unlock()
}

func (r *runner) fail(oracle, sig, detail string) {
	r.mu.Lock()
	defer r.mu.Unlock()
	r.failLocked(oracle, sig, detail)
}

func (r *runner) failLocked(oracle, sig, detail string) {
	for _, f := range r.fails {
		if f.Oracle == oracle && f.Signature == sig {
			return
		}
	}
	r.fails = append(r.fails, Failure{oracle, sig, detail})
}

// runHistory executes one history in its own synctest bubble.
func runHistory(t *testing.T, h *History, trace bool, partial func(*Result)) *Result {
	r := &runner{h: h, strict: h.Prop == "C07", trace: trace, partial: partial,
		bySid: map[wamp.ID]*sess{}, calls: map[string]*callRec{}, events: map[string]map[int]*expect{},
		subs: map[string]map[string]map[int]wamp.ID{}, regs: map[string]map[string]*sess{},
		regIDs: map[int]map[string]wamp.ID{}, everReg: map[string][]*sess{}, realms: map[string]bool{}, why: map[string]bool{},
		fullPrev: map[int]bool{}, fullEver: map[int]bool{}, lastCount: map[int]int{},
		opsByKind: map[string]int{}, unstable: map[int]bool{}, closeStart: -1, closeRet: -1, lastStalled: -1,
		hold: newHolds(), lg: log.New(io.Discard, "", 0)}
	ownLeak := false
	func() {
		defer func() {
			if e := recover(); e != nil {
				msg := fmt.Sprint(e)
				switch {
				case strings.Contains(msg, "blocked goroutines remain"):
					for _, f := range r.fails {
						if f.Oracle == "goroutine-leak" || f.Oracle == "teardown" || f.Oracle == "panic" ||
							f.Oracle == "late-attach" || f.Oracle == "close-hang" || f.Oracle == "harness-error" {
							ownLeak = true
						}
					}
					if !ownLeak {
						r.fail(r.leakOracle(), "goroutine-leak@unknown", "synctest: "+msg)
					}
				case strings.Contains(msg, "all goroutines in bubble are blocked"):
					r.fail("deadlock", "deadlock@synctest", msg)
				default:
					r.fail("harness-error", "harness-error", "outside bubble: "+msg)
				}
			}
		}()
		synctest.Test(t, func(*testing.T) { r.root() })
	}()
	return r.result(false)
}

func (r *runner) leakOracle() string {
	if r.strict {
		return "teardown"
	}
	return "goroutine-leak"
}

func (r *runner) result(partial bool) *Result {
	r.mu.Lock()
	defer r.mu.Unlock()
	res := &Result{ID: r.h.ID, Prop: r.h.Prop, Hash: r.h.contentHash(), Pass: len(r.fails) == 0,
		Failures: append([]Failure{}, r.fails...), Nontrivial: r.nontrivial, ExceptionUsed: r.excUsed,
		StalledFull: len(r.fullEver), OpsByKind: r.opsByKind, Skipped: r.skipped, Partial: partial, YieldResume: r.yr, CancelStalled: r.cs}
	for w := range r.why {
		res.Why = append(res.Why, w)
	}
	sortStrings(res.Why)
	if !r.t0.IsZero() {
		res.VirtualMs = ms(r.endAt)
	}
	if r.trace {
		tr := &Trace{Ops: r.opTr, CloseStart: ms(r.closeStart), CloseRet: ms(r.closeRet), CloseCtx: r.closeCtx,
			Left: r.left, Notes: r.notes, Dump: r.dump, Oracles: r.orcLog}
		if r.closeStart < 0 {
			tr.CloseStart = -1
		}
		if r.closeRet < 0 {
			tr.CloseRet = -1
		}
		for _, s := range r.sess {
			st := sessTrace{Idx: s.idx, Realm: s.spec.Realm, Q: s.spec.Q, Msgs: s.msgs, ClosedAtMs: -1,
				RouterCls: int(s.rp.nClose.Load()), Gone: s.gone, MaxBuf: s.maxBuf}
			if s.recvEOF {
				st.ClosedAtMs = ms(s.closedAt)
			}
			if s.attachErr != nil {
				st.AttachErr = s.attachErr.Error()
			}
			tr.Sessions = append(tr.Sessions, st)
		}
		for _, e := range r.exps {
			tr.Expect = append(tr.Expect, r.describe(e))
		}
		res.Trace = tr
	}
	return res
}

func (r *runner) describe(e *expect) string {
	want := "at accept instant"
	if e.item != nil && e.item.state == itAccepted {
		want = fmt.Sprintf("at %d ms", ms(e.item.acc))
	} else if len(e.fixed) > 0 {
		want = fmt.Sprintf("at %d ms", ms(e.fixed[0]))
	}
	obs := "NOT RECEIVED"
	if e.got {
		obs = fmt.Sprintf("%s at %d ms", e.gotAs, ms(e.gotAt))
	}
	st := ""
	if e.void != "" {
		st = " (not enforced: " + e.void + ")"
	} else if !r.strict {
		st = " (not enforced for C06)"
	} else if !e.strict {
		st = " (not enforced: queue may overflow)"
	}
	return fmt.Sprintf("s%d %s: expected %s; observed %s%s", e.s.idx, e.desc, want, obs, st)
}

// ---------------------------------------------------------------- sessions

func helloDetails() wamp.Dict {
	return wamp.Dict{"roles": wamp.Dict{
		"publisher": wamp.Dict{}, "subscriber": wamp.Dict{}, "caller": wamp.Dict{}, "callee": wamp.Dict{}}}
}

// helloDetailsFeat also announces progressive call results and call canceling.
func helloDetailsFeat() wamp.Dict {
	f := func() wamp.Dict {
		return wamp.Dict{"features": wamp.Dict{"progressive_call_results": true, "call_canceling": true,
			"progressive_call_invocations": true}}
	}
	return wamp.Dict{"roles": wamp.Dict{
		"publisher":  wamp.Dict{"features": wamp.Dict{"publisher_identification": true, "subscriber_blackwhite_listing": true, "publisher_exclusion": true}},
		"subscriber": wamp.Dict{"features": wamp.Dict{"publisher_identification": true}},
		"caller":     f(), "callee": f()}}
}

func (r *runner) realmConfig(uri string) *router.RealmConfig {
	return &router.RealmConfig{RequireLocalAuth: r.h.LocalAuth, URI: wamp.URI(uri), AnonymousAuth: true, AllowDisclose: true, EnableMetaKill: true,
		Authorizer: r.hold, RequireLocalAuthz: true, PublishFilterFactory: r.hold.filterFactory}
}

// newSession creates the peers, starts drainer and sender, sends HELLO and
// calls Attach from its own goroutine.  Caller holds no lock.
func (r *runner) newSession(spec SessionSpec, transient bool, gate chan struct{}) *sess {
	return r.newSessionAuth(spec, transient, gate, false)
}

// newSessionAuth: authGate parks the attach in IsLocal() until the history's
// close has returned.
func (r *runner) newSessionAuth(spec SessionSpec, transient bool, gate chan struct{}, authGate bool) *sess {
	if spec.Q <= 0 {
		spec.Q = 64
	}
	s := &sess{r: r, idx: len(r.sess), spec: spec, transient: transient, nextReq: 1, exps: map[wamp.ID]*expect{},
		outSig: make(chan struct{}, 1), ctl: make(chan readerCmd), stop: make(chan struct{}),
		readerDone: make(chan struct{}), senderDone: make(chan struct{}), attachDone: make(chan struct{}),
		lastSeq: map[string]int{}, undone: map[string]wamp.ID{}, closedAt: -1, excUntil: -1}
	if spec.Raw {
		c, p, err := newRawPair(r.lg, spec.Q)
		if err != nil {
			panic("rawsocket pair: " + err.Error())
		}
		s.cli, s.rp = c, newObsPeer(p, false)
	} else {
		c, p := transport.LinkedPeersQSize(spec.Q)
		s.cli, s.rp = c, newObsPeer(p, spec.Wrap || transient)
	}
	if authGate {
		s.rp.authGate, s.rp.authRelease = true, make(chan struct{})
		r.mu.Lock()
		r.relAfter = append(r.relAfter, s.rp.authRelease)
		r.mu.Unlock()
	}
	r.mu.Lock()
	r.sess = append(r.sess, s)
	e := &expect{s: s, kind: "welcome", desc: "WELCOME", strict: true}
	r.exps = append(r.exps, e)
	s.exps[0] = e
	r.mu.Unlock()
	go s.readLoop()
	go s.sendLoop()
	hd := helloDetails()
	if spec.Feat {
		hd = helloDetailsFeat()
	}
	hello := s.push(&outItem{msg: &wamp.Hello{Realm: wamp.URI(spec.Realm), Details: hd}, desc: "HELLO", gate: gate})
	e.item = hello
	if transient {
		s.expGone = "hello_goodbye"
		s.push(&outItem{msg: &wamp.Goodbye{Reason: wamp.CloseRealm, Details: wamp.Dict{}}, desc: "GOODBYE", gate: gate})
	}
	sem := r.joinSem(spec.Realm)
	go func() {
		defer close(s.attachDone)
		defer r.recoverAPI("panic", "Attach")
		if gate != nil {
			<-gate
		}
		if sem != nil {
			// one handshake at a time per realm, see joinSem
			tm := time.NewTimer(3 * time.Hour)
			select {
			case sem <- struct{}{}:
				defer func() { <-sem }()
			case <-tm.C:
			}
			tm.Stop()
		}
		err := r.rtr.Attach(s.rp)
		r.mu.Lock()
		s.attachErr, s.attachRet, s.attachAt = err, true, r.now()
		r.mu.Unlock()
	}()
	return s
}

// joinSem returns the token channel that serializes the handshakes of a
// realm, or nil when they may run concurrently.  handleSession holds the
// realm's close lock across onJoin, which blocks for as long as the meta
// session handler is busy (1 ms .. 65 s in a RESULT retry); a second
// handshake (or realm.close) would then wait on that mutex, which is not a
// durable block: the bubble's clock, and with it the retry, would stop for
// good.  Concurrent handshakes are therefore only released when no retry can
// be in progress (C06 "safe" bursts).
func (r *runner) joinSem(realm string) chan struct{} {
	if r.concurrentJoins {
		return nil
	}
	if r.sems == nil {
		r.sems = map[string]chan struct{}{}
	}
	if r.sems[realm] == nil {
		r.sems[realm] = make(chan struct{}, 1)
	}
	return r.sems[realm]
}

// recoverAPI turns a panic inside a router API call made by the harness
// (Attach, Close, AddRealm, RemoveRealm run in the caller's goroutine) into a
// failure with the same signature the parent derives from a crashed child.
func (r *runner) recoverAPI(oracle, api string) {
	if e := recover(); e != nil {
		sig := panicSignature(fmt.Sprint(e), string(debug.Stack()))
		if oracle != "panic" {
			sig = oracle + ":" + sig
		}
		r.fail(oracle, sig, fmt.Sprintf("%s panicked at %d ms: %v", api, ms(r.now()), e))
		r.mu.Lock()
		r.abort = true
		r.mu.Unlock()
	}
}

// push appends an item to the session's outbox.
func (s *sess) push(it *outItem) *outItem {
	r := s.r
	r.mu.Lock()
	it.enq = r.now()
	it.acc = -1
	s.out = append(s.out, it)
	r.mu.Unlock()
	select {
	case s.outSig <- struct{}{}:
	default:
	}
	return it
}

func (s *sess) sendLoop() {
	defer close(s.senderDone)
	r := s.r
	for {
		r.mu.Lock()
		var it *outItem
		if len(s.out) > 0 {
			it = s.out[0]
			s.out = s.out[1:]
			s.sent = append(s.sent, it)
		}
		r.mu.Unlock()
		if it == nil {
			select {
			case <-s.outSig:
				continue
			case <-s.stop:
				return
			}
		}
		if it.gate != nil {
			select {
			case <-it.gate:
			case <-s.stop:
				return
			}
		}
		r.mu.Lock()
		it.begun = true
		dropped := s.dropped
		r.mu.Unlock()
		if dropped {
			r.mu.Lock()
			it.state = itAbandoned
			r.mu.Unlock()
			continue
		}
		if it.kind == kindDrop {
			s.cli.Close()
			r.mu.Lock()
			s.dropped = true
			it.state, it.acc = itAccepted, r.now()
			r.mu.Unlock()
			continue
		}
		tm := time.NewTimer(sendTimeout)
		st := itPending
		select {
		case s.cli.Send() <- it.msg:
			st = itAccepted
		case <-s.rp.closed:
			st = itAbandoned
		case <-tm.C:
			st = itTimeout
		case <-s.stop:
			tm.Stop()
			return
		}
		tm.Stop()
		r.mu.Lock()
		it.state, it.acc = st, r.now()
		if st == itAccepted && it.yield != nil {
			// The handler may now sit in the RESULT retry loop.
			if u := it.acc + retryWindow(it.yield.caller); u > s.excUntil {
				s.excUntil = u
			}
		}
		if it.opTr != nil && st == itAccepted {
			it.opTr.AcceptMs = ms(it.acc)
		}
		r.mu.Unlock()
	}
}

func (s *sess) readLoop() {
	defer close(s.readerDone)
	paused := false
	for {
		var in <-chan wamp.Message
		if !paused && !s.isEOF() {
			in = s.cli.Recv()
		}
		select {
		case m, ok := <-in:
			s.r.mu.Lock()
			if !ok {
				s.recvEOF, s.closedAt = true, s.r.now()
				if s.gone == "" {
					s.gone = "closed"
				}
			} else {
				s.handle(m)
			}
			s.r.mu.Unlock()
			select {
			case s.outSig <- struct{}{}:
			default:
			}
		case c := <-s.ctl:
			paused = c.pause
			close(c.ack)
		case <-s.stop:
			return
		}
	}
}

func (s *sess) isEOF() bool {
	s.r.mu.Lock()
	defer s.r.mu.Unlock()
	return s.recvEOF
}

func tokenOf(args wamp.List) string {
	if len(args) > 0 {
		if t, ok := args[0].(string); ok {
			return t
		}
	}
	return ""
}

// handle records one message read from the router.  r.mu is held.
func (s *sess) handle(m wamp.Message) {
	r := s.r
	now := r.now()
	rec := recMsg{T: ms(now), Type: m.MessageType().String()}
	satisfy := func(req wamp.ID) *expect {
		rec.Req = uint64(req)
		e := s.exps[req]
		if e != nil && !e.got {
			e.got, e.gotAt, e.gotAs = true, now, rec.Type
		}
		return e
	}
	switch m := m.(type) {
	case *wamp.Welcome:
		s.sid, s.welcome, s.welcomeAt = m.ID, true, now
		r.bySid[m.ID] = s
		if e := s.exps[0]; e != nil {
			e.got, e.gotAt, e.gotAs = true, now, rec.Type
		}
	case *wamp.Abort:
		s.gone = "ABORT " + string(m.Reason)
		rec.Info = string(m.Reason)
	case *wamp.Goodbye:
		s.gone = "GOODBYE " + string(m.Reason)
		rec.Info = string(m.Reason)
	case *wamp.Subscribed:
		if e := satisfy(m.Request); e != nil && e.topic != "" && !s.leaving && m.Request > s.undone["t:"+e.topic] {
			r.subMap(s.spec.Realm, e.topic)[s.idx] = m.Subscription
		}
	case *wamp.Unsubscribed:
		satisfy(m.Request)
	case *wamp.Published:
		satisfy(m.Request)
	case *wamp.Registered:
		if e := satisfy(m.Request); e != nil && e.proc != "" && !s.leaving && m.Request > s.undone["p:"+e.proc] {
			r.regMap(s.spec.Realm)[e.proc] = s
			if r.regIDs[s.idx] == nil {
				r.regIDs[s.idx] = map[string]wamp.ID{}
			}
			r.regIDs[s.idx][e.proc] = m.Registration
		}
	case *wamp.Unregistered:
		satisfy(m.Request)
	case *wamp.Result:
		satisfy(m.Request)
		if p, _ := m.Details["progress"].(bool); p {
			rec.Info = "progress"
			if t := tokenOf(m.Arguments); t != "" {
				rec.Info = "progress " + t
			}
		}
	case *wamp.Error:
		satisfy(m.Request)
		rec.Info = string(m.Error)
	case *wamp.Invocation:
		rec.Req = uint64(m.Request)
		tok := tokenOf(m.Arguments)
		rec.Info = tok
		if c := r.calls[tok]; c != nil {
			c.callee, c.invReq = s, m.Request
			if c.hold {
				s.heldInv = append(s.heldInv, c)
			} else {
				s.yieldLocked(c)
			}
		}
	case *wamp.Event:
		tok := tokenOf(m.Arguments)
		rec.Info = tok
		if p, ok := m.Details["publisher"]; ok {
			rec.Info = fmt.Sprintf("%s publisher=%v", tok, p)
		}
		if tok != "" {
			// token e<pub>.<topic>.<seq>: order per publisher and topic
			if i := strings.LastIndex(tok, "."); i > 0 {
				var seq int
				fmt.Sscanf(tok[i+1:], "%d", &seq)
				key := tok[:i]
				if last, ok := s.lastSeq[key]; ok && seq <= last && r.strict {
					r.failLocked("bystander-delayed", "event-order", fmt.Sprintf("s%d got %s after seq %d", s.idx, tok, last))
				}
				s.lastSeq[key] = seq
			}
			if e := r.events[tok][s.idx]; e != nil && !e.got {
				e.got, e.gotAt, e.gotAs = true, now, "EVENT"
			}
		}
	}
	s.msgs = append(s.msgs, rec)
}

// retryWindow: how long a callee may be held after yielding to this caller.
// A caller that drains may still find its queue full for a moment (several
// messages at one instant); the first retries (1, 2, 4 ms) get through.
func retryWindow(caller *sess) time.Duration {
	if caller.stalled {
		return yieldRetryMax
	}
	return momentaryRetry
}

// yieldLocked queues the YIELD for a call.  r.mu is held.
func (s *sess) yieldLocked(c *callRec) {
	r := s.r
	it := &outItem{msg: &wamp.Yield{Request: c.invReq, Options: wamp.Dict{}, Arguments: wamp.List{c.token}},
		desc: "YIELD " + c.token, enq: r.now(), acc: -1, yield: c}
	c.yielded = it
	if bl := int(r.burstLoad.Load()); bl > 0 && c.caller.spec.Q < bl && c.exp != nil {
		// the RESULT arrives together with the rest of a burst
		c.exp.strict = false
	}
	if u := it.enq + retryWindow(c.caller); u > s.excUntil {
		s.excUntil = u
	}
	s.out = append(s.out, it)
}

func (r *runner) subMap(realm, topic string) map[int]wamp.ID {
	if r.subs[realm] == nil {
		r.subs[realm] = map[string]map[int]wamp.ID{}
	}
	if r.subs[realm][topic] == nil {
		r.subs[realm][topic] = map[int]wamp.ID{}
	}
	return r.subs[realm][topic]
}

func (r *runner) regMap(realm string) map[string]*sess {
	if r.regs[realm] == nil {
		r.regs[realm] = map[string]*sess{}
	}
	return r.regs[realm]
}

// forget removes a departing session from the subscription / registration
// model.  r.mu is held.
func (r *runner) forget(s *sess) {
	for _, m := range r.subs[s.spec.Realm] {
		delete(m, s.idx)
	}
	for p, c := range r.regs[s.spec.Realm] {
		if c == s {
			delete(r.regs[s.spec.Realm], p)
		}
	}
	delete(r.regIDs, s.idx)
}

// pause / resume the drainer of a session.
func (s *sess) setPaused(p bool) {
	c := readerCmd{pause: p, ack: make(chan struct{})}
	tm := time.NewTimer(time.Minute)
	defer tm.Stop()
	select {
	case s.ctl <- c:
		<-c.ack
	case <-s.readerDone:
	case <-tm.C:
		s.r.fail("harness-error", "harness-error", "drainer does not take control message")
	}
}
