package concdrive

import (
	"encoding/json"
	"fmt"
	"regexp"
	"runtime"
	"sort"
	"strings"
	"time"
)

const nexusPfx = "github.com/gammazero/nexus/v3/"

func sortStrings(s []string) { sort.Strings(s) }

func mustJSON(v any) []byte {
	b, err := json.Marshal(v)
	if err != nil {
		panic(err)
	}
	return b
}

// ------------------------------------------------------ goroutine dumps

type gInfo struct {
	id     string
	state  string // wait reason, e.g. "chan send (durable)"
	bubble string
	frames []string // function names, top first
	raw    string
}

var gHeader = regexp.MustCompile(`^goroutine (\d+) \[([^\]]*)\]:$`)

func allStacks() string {
	buf := make([]byte, 1<<20)
	for {
		n := runtime.Stack(buf, true)
		if n < len(buf) {
			return string(buf[:n])
		}
		buf = make([]byte, 2*len(buf))
	}
}

func parseStacks(dump string) []gInfo {
	var res []gInfo
	for _, blk := range strings.Split(dump, "\n\n") {
		lines := strings.Split(strings.TrimSpace(blk), "\n")
		if len(lines) == 0 {
			continue
		}
		m := gHeader.FindStringSubmatch(lines[0])
		if m == nil {
			continue
		}
		g := gInfo{id: m[1], raw: blk}
		for i, p := range strings.Split(m[2], ", ") {
			if i == 0 {
				g.state = p
			}
			if strings.HasPrefix(p, "synctest bubble ") {
				g.bubble = strings.TrimPrefix(p, "synctest bubble ")
			}
		}
		for _, l := range lines[1:] {
			if strings.HasPrefix(l, "\t") || strings.HasPrefix(l, "created by ") || l == "" {
				continue
			}
			if k := strings.LastIndex(l, "("); k > 0 {
				l = l[:k]
			}
			g.frames = append(g.frames, l)
		}
		res = append(res, g)
	}
	return res
}

// currentBubble returns the synctest bubble id of the calling goroutine.
func currentBubble() string {
	buf := make([]byte, 256)
	n := runtime.Stack(buf, false)
	line, _, _ := strings.Cut(string(buf[:n]), "\n")
	if m := gHeader.FindStringSubmatch(line); m != nil {
		for _, p := range strings.Split(m[2], ", ") {
			if strings.HasPrefix(p, "synctest bubble ") {
				return strings.TrimPrefix(p, "synctest bubble ")
			}
		}
	}
	return ""
}

func isNexusRT(f string) bool {
	return strings.HasPrefix(f, nexusPfx+"router.") || strings.HasPrefix(f, nexusPfx+"transport.")
}

// topNexus returns the top-most router/transport frame (short form), its
// index, and whether harness code sits above it (the goroutine is parked in
// a harness gate called from the router).
func (g *gInfo) topNexus() (string, int, bool) {
	harness := false
	for i, f := range g.frames {
		if strings.Contains(f, "concdrive.") {
			harness = true
		}
		if isNexusRT(f) {
			return strings.TrimPrefix(f, nexusPfx), i, harness
		}
	}
	return "", -1, harness
}

// idle: the goroutine sits in one of the router's idle loops.
func (g *gInfo) idle(top string, idx int) bool {
	recv := strings.HasPrefix(g.state, "chan receive") || strings.HasPrefix(g.state, "select")
	switch top {
	case "router.(*dealer).run", "router.(*broker).run", "router.(*realm).run", "router.(*router).run",
		"router.(*realm).metaProcedureHandler":
		// waiting for the next action / message (a blocked send shows "chan send")
		return idx == 0 && recv
	case "router.(*realm).handleInboundMessages":
		return idx == 0 && strings.HasPrefix(g.state, "select")
	case "transport.(*rawSocketPeer).recvHandler":
		return idx != 0
	case "transport.(*rawSocketPeer).sendHandler":
		return idx == 0
	}
	return false
}

// classify derives the signature suffix from a goroutine dump: the sorted
// list of top-most router/transport functions of the bubble's goroutines
// that are blocked outside the idle loops; metaRetry is set when the
// meta-session handler sits in the dealer's RESULT retry.
func classify(dump, bubble string, withIdle bool) (list string, metaRetry bool, raw []string) {
	set := map[string]bool{}
	for _, g := range parseStacks(dump) {
		if g.bubble != bubble || g.state == "running" {
			continue
		}
		top, idx, harness := g.topNexus()
		if top == "" {
			continue
		}
		if strings.Contains(g.raw, "createMetaSession.func1") && strings.Contains(g.raw, "(*dealer).yield") {
			metaRetry = true
		}
		if harness && idx > 0 && !withIdle {
			continue
		}
		if !withIdle && g.idle(top, idx) {
			continue
		}
		set[top] = true
		raw = append(raw, g.raw)
	}
	var l []string
	for f := range set {
		l = append(l, f)
	}
	sort.Strings(l)
	return strings.Join(l, ","), metaRetry, raw
}

var panicLine = regexp.MustCompile(`(?m)^(panic|fatal error): (.*)$`)

// panicSignature builds panic:<message>@<top-most router/transport frame>
// from a panic message and the stack (stderr of a crashed child, or
// debug.Stack() of a recovered API call).
func panicSignature(msg, stack string) string {
	if msg == "" {
		if m := panicLine.FindStringSubmatch(stack); m != nil {
			msg = m[2]
			if m[1] == "fatal error" {
				msg = "fatal " + msg
			}
			if k := strings.Index(stack, m[0]); k >= 0 {
				stack = stack[k:]
			}
		} else {
			msg = "unknown"
		}
	}
	msg = strings.TrimSuffix(strings.TrimSpace(msg), " [recovered]")
	if k := strings.Index(msg, " [recovered]"); k > 0 {
		msg = msg[:k]
	}
	if k := strings.Index(msg, "\n"); k > 0 {
		msg = msg[:k]
	}
	frame := "unknown"
	// first goroutine block after the panic line
	rest := stack
	if k := strings.Index(rest, "goroutine "); k >= 0 {
		rest = rest[k:]
	}
	blk, _, _ := strings.Cut(rest, "\n\n")
	for _, l := range strings.Split(blk, "\n") {
		if strings.HasPrefix(l, "\t") || strings.HasPrefix(l, "created by ") {
			continue
		}
		if k := strings.LastIndex(l, "("); k > 0 {
			l = l[:k]
		}
		if isNexusRT(l) {
			frame = strings.TrimPrefix(l, nexusPfx)
			break
		}
	}
	return "panic:" + strings.ReplaceAll(msg, " ", "-") + "@" + frame
}

// ------------------------------------------------------ quiescence checks

// violation records an oracle failure.  The signature comes from the
// goroutine dump taken now (while the router is still in the offending
// state); the history is not continued.
func (r *runner) violation(oracle, detail string, hang bool) {
	r.violationKnown(oracle, detail, hang, false)
}

// metaPeerSenders: functions from which a session handler (or the realm
// goroutine on its behalf) hands a meta publication to the meta peer.
var metaPeerSenders = []string{"router.(*dealer).register", "router.(*dealer).unregister", "router.(*dealer).removeSession",
	"router.(*realm).onJoin", "router.(*realm).onLeave", "router.(*broker).subscribe", "router.(*broker).unsubscribe",
	"router.(*broker).removeSession", "router.(*realm).handleInboundMessages", "router.(*realm).handleSession"}

// metaRetryBlocksHandler: the dump shows the root cause of the known finding
// meta-result-retry-blocks-metapeer — the meta-session handler is inside
// dealer.yield (RESULT retry for a caller that does not read) and another
// goroutine of the router is blocked in a channel SEND from one of the
// functions that publish meta events.
func metaRetryBlocksHandler(dump, bubble string) bool {
	metaInYield, senderBlocked := false, false
	for _, g := range parseStacks(dump) {
		if g.bubble != bubble {
			continue
		}
		if strings.Contains(g.raw, "createMetaSession.func1") && strings.Contains(g.raw, "(*dealer).yield") {
			metaInYield = true
			continue
		}
		if !strings.HasPrefix(g.state, "chan send") {
			continue
		}
		if top, idx, harness := g.topNexus(); top != "" && !harness && idx == 0 {
			for _, f := range metaPeerSenders {
				if strings.HasPrefix(top, f) {
					senderBlocked = true
				}
			}
		}
	}
	return metaInYield && senderBlocked
}

// violationKnown: metaRetry — the known finding's root cause state was observed
// while the offending request was pending (the dump taken NOW may be too late
// to show it: the retry has ended).
func (r *runner) violationKnown(oracle, detail string, hang, metaRetry bool) {
	dump := allStacks()
	list, meta, raw := classify(dump, r.bubble, false)
	if list == "" {
		// nothing is blocked any more (e.g. a request that was taken late):
		// never an empty location
		list = "shape:" + r.h.Shape
	}
	sig := oracle + "@" + list
	if (meta || metaRetry) && !hang {
		sig = "meta-result-retry-blocks-metapeer"
	}
	r.mu.Lock()
	if r.dump == "" {
		r.dump = strings.Join(raw, "\n\n")
	}
	r.abort = true
	r.failLocked(oracle, sig, fmt.Sprintf("[%d ms] %s", ms(r.now()), detail))
	r.mu.Unlock()
}

// allowed returns the instants at which the reply may legitimately be read.
func (r *runner) allowed(e *expect) []time.Duration {
	var a []time.Duration
	a = append(a, e.fixed...)
	if e.item != nil && e.item.state == itAccepted {
		a = append(a, e.item.acc)
		if e.kind == "welcome" && e.s.rp.gate {
			a = append(a, e.item.acc+gateOpenAfter)
		}
	}
	if c := e.call; c != nil {
		if c.yielded != nil && c.yielded.state == itAccepted {
			a = append(a, c.yielded.acc)
		}
		if c.cancel != nil && c.cancel.state == itAccepted {
			a = append(a, c.cancel.acc)
		}
		if c.timeout > 0 && e.item != nil && e.item.state == itAccepted {
			a = append(a, e.item.acc+c.timeout)
		}
	}
	return a
}

// callLenient: the reply of this call may come at any time or not at all.
// r.mu is held.
func (r *runner) callLenient(c *callRec) string {
	switch {
	case c.meta:
		return ""
	case c.modelCall != nil && (c.modelCall.stalled || c.modelCall.epoch != c.modelEp):
		return "callee stalled"
	case c.modelCall != nil && c.modelCall.expGone != "":
		return "callee gone"
	case c.callee != nil && c.callee.expGone != "":
		return "callee gone"
	case c.callee != nil && (c.callee.stalled):
		return "callee stalled"
	}
	if c.callee == nil {
		// no INVOCATION seen: the procedure may have been registered
		// meanwhile (same burst) by a session that does not drain
		if k := r.regMap(c.caller.spec.Realm)[c.proc]; k != nil && (k.stalled || k.expGone != "") {
			return "callee stalled"
		}
		for _, k := range r.everReg[c.caller.spec.Realm+"|"+c.proc] {
			if k.stalled || k.epoch > 0 || k.expGone != "" {
				return "possible callee stalled or gone"
			}
		}
	}
	return ""
}

// pendingOK: no reply is owed yet.
func callPending(c *callRec) bool {
	if c.cancel != nil {
		return c.cancel.state == itPending // judged at the sender
	}
	if c.meta {
		return false
	}
	if c.callee != nil && c.yielded == nil {
		return true // held invocation
	}
	if c.yielded != nil && c.yielded.state != itAccepted {
		return true // the callee's YIELD is not through yet (judged at the callee)
	}
	return false
}

// check is called at every quiescence (after synctest.Wait).  final: after
// the settle time, when everything still missing is starved.
func (r *runner) check(final bool) {
	now := r.now()
	type viol struct {
		oracle, detail string
		metaRetry      bool // the root cause state of the known finding was seen while it was pending
	}
	// metaRetryNow: lazily, once per check — the meta-session handler sits in
	// dealer.yield's RESULT retry AND a session handler is blocked handing a
	// meta publication to the meta peer (dealer.register / unregister /
	// removeSession, realm.onJoin / onLeave ...): the known finding's root cause.
	metaState := 0
	metaRetryNow := func() bool {
		if metaState == 0 {
			metaState = 1
			if metaRetryBlocksHandler(allStacks(), r.bubble) {
				metaState = 2
			}
		}
		return metaState == 2
	}
	var v []viol
	r.mu.Lock()
	// C07 non-triviality: a session was stalled with a full queue at the
	// previous quiescence and another session received something since.
	full := map[int]bool{}
	for _, s := range r.sess {
		if s.stalled && !s.spec.Raw && s.gone == "" && len(s.cli.Recv()) >= s.spec.Q {
			full[s.idx] = true
			r.fullEver[s.idx] = true
		}
		if s.stalled && !s.spec.Raw {
			if n := len(s.cli.Recv()); n > s.maxBuf {
				s.maxBuf = n
			}
		}
	}
	for _, s := range r.sess {
		n := 0
		for _, m := range s.msgs {
			switch m.Type {
			case "WELCOME", "GOODBYE", "ABORT":
			default:
				n++
			}
		}
		if n > r.lastCount[s.idx] && !s.stalled {
			for y := range r.fullPrev {
				if y != s.idx && full[y] && r.h.Prop == "C07" {
					r.nontrivial = true
					r.why["stalled-full-queue-while-others-served"] = true
				}
			}
		}
		r.lastCount[s.idx] = n
	}
	r.fullPrev = full

	if r.strict && !r.closing {
		// oracle 1: every client send is taken at once
		for _, s := range r.sess {
			if s.transient {
				continue
			}
			for _, it := range s.sent {
				if it.judge || !it.begun {
					continue
				}
				switch it.state {
				case itPending:
					if s.expGone != "" || s.held {
						continue
					}
					if !it.metaBlk && metaRetryNow() {
						it.metaBlk = true
					}
					if now <= s.excUntil && it.enq <= s.excUntil {
						continue // yield-retry exception may apply
					}
					it.judge = true
					v = append(v, viol{"handler-blocked", fmt.Sprintf("s%d: %s offered at %d ms still not taken by its session handler", s.idx, it.desc, ms(it.enq)), it.metaBlk})
				case itAccepted:
					it.judge = true
					if late := it.acc - it.enq; late > 0 {
						if it.acc <= s.excUntil && it.enq <= s.excUntil {
							// held behind one or several RESULT retries of its own YIELDs
							r.excUsed++
						} else if s.expGone == "" {
							det := fmt.Sprintf("s%d: %s offered at %d ms was taken %d ms later", s.idx, it.desc, ms(it.enq), ms(late))
							if it.metaBlk {
								det += " (while it waited the meta-session handler sat in dealer.yield's RESULT retry and a session handler was blocked sending to the meta peer)"
							}
							v = append(v, viol{"handler-blocked", det, it.metaBlk && late <= yieldRetryMax})
						}
					}
				case itTimeout:
					it.judge = true
					if s.expGone == "" {
						v = append(v, viol{"handler-blocked", fmt.Sprintf("s%d: %s offered at %d ms never taken (1 h)", s.idx, it.desc, ms(it.enq)), false})
					}
				default:
					it.judge = true
				}
			}
			if s.gone != "" && s.expGone == "" && !s.leaving {
				s.expGone = "reported"
				v = append(v, viol{"bystander-starved", fmt.Sprintf("s%d was ended by the router: %s", s.idx, s.gone), false})
			}
		}
		// oracle 2: replies and events
		for _, e := range r.exps {
			if e.done || e.void != "" {
				continue
			}
			s := e.s
			switch {
			case !e.strict:
				e.void = "queue may overflow"
			case s.stalled || s.epoch != e.epoch:
				e.void = "session stalled"
			case s.expGone != "" && e.kind != "goodbye":
				e.void = "session " + s.expGone
			case s.held:
				e.void = "handler held by harness gate"
			case e.item != nil && (e.item.state == itAbandoned || e.item.state == itTimeout):
				e.void = "request not taken"
			case e.item != nil && e.item.state == itAccepted && e.item.acc > e.item.enq:
				e.void = "request taken late"
			case e.call != nil && e.call.yielded != nil && e.call.yielded.state == itAccepted && e.call.yielded.acc > e.call.yielded.enq:
				// flushed together with everything else the callee had queued
				e.void = "callee's YIELD taken late"
			case e.call != nil && e.call.cancel != nil && e.call.cancel.state == itAccepted && e.call.cancel.acc > e.call.cancel.enq:
				e.void = "CANCEL taken late"
			case e.call != nil && r.callLenient(e.call) != "":
				e.void = r.callLenient(e.call)
			}
			if e.void != "" {
				continue
			}
			if e.item != nil && e.item.state == itPending {
				continue
			}
			al := r.allowed(e)
			got, gotAt := e.got, e.gotAt
			if e.kind == "goodbye" {
				// GOODBYE reply and then the closed channel
				got = s.recvEOF
				gotAt = s.closedAt
			}
			if got {
				ok := false
				for _, a := range al {
					if a == gotAt {
						ok = true
					}
				}
				e.done = true
				if !ok && len(al) > 0 {
					v = append(v, viol{"bystander-delayed", fmt.Sprintf("s%d: %s arrived at %d ms, %d ms late", s.idx, e.desc, ms(gotAt), ms(gotAt-al[0])), false})
				}
				continue
			}
			if e.call != nil && callPending(e.call) {
				continue
			}
			due := false
			for _, a := range al {
				if a <= now {
					due = true
				}
			}
			if e.call != nil && e.call.timeout > 0 && !final {
				due = false // may still be answered by the timeout
				for _, a := range al {
					if a == e.item.acc+e.call.timeout && a <= now {
						due = true
					}
				}
			}
			if due {
				e.done = true
				o := "bystander-delayed"
				if final {
					o = "bystander-starved"
				}
				v = append(v, viol{o, fmt.Sprintf("s%d: %s not received (owed since %d ms)", s.idx, e.desc, ms(al[0])), false})
			}
		}
	}
	r.mu.Unlock()
	if len(v) == 0 {
		return
	}
	det := make([]string, 0, len(v))
	for _, x := range v {
		det = append(det, x.detail)
	}
	if len(det) > 6 {
		det = append(det[:6], fmt.Sprintf("... and %d more", len(det)-6))
	}
	r.violationKnown(v[0].oracle, strings.Join(det, "; "), false, v[0].metaRetry)
}
