//go:build !nohooks

package concdrive

import (
	"github.com/gammazero/nexus/v3/router"
	"github.com/gammazero/nexus/v3/wamp"
)

// verifTableSizes reads the router's table sizes through the read-only hook
// router.VerifTableSizes (router/verif_hooks.go, build tag verif).
func verifTableSizes(rt router.Router, realm wamp.URI) ([]int, bool) {
	return router.VerifTableSizes(rt, realm)
}
