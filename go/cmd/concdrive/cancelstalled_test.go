package concdrive

import (
	"fmt"
	"testing/synctest"
	"time"

	"github.com/gammazero/nexus/v3/wamp"
)

// Shape cancel-to-stalled-callee (C07): a caller CANCELs a call whose callee
// (call_canceling announced) has stopped reading.  Whatever the state of the
// callee's queue, the dealer neither blocks nor leaves the caller without a
// party that will answer it.
//
// Model (coq/Conc/CancelModel.v, [sync_cancel true mode true room]; cancelPredict
// below is its mirror and tools/checks/c07.py compares the two tables on every
// run): mode skip answers the caller at once and sends nothing to the callee;
// killnowait tries to queue an INTERRUPT and answers at once; kill waits for
// the callee's answer ONLY IF the INTERRUPT was queued and otherwise (queue
// full) degrades to skip.  "Answered" = ERROR wamp.error.canceled, the call
// leaves the dealer's tables.
//
// Oracles (signatures cancel-stalled@<what>):
//
//	caller-not-answered   the model answers the caller at the CANCEL's instant; no reply arrived
//	wrong-instant         the reply arrived, but not at the predicted instant / with another error URI
//	duplicate-reply       more than one final reply for the call (a second CANCEL, a late YIELD)
//	interrupt-mismatch    an INTERRUPT was (not) queued for the callee against the model
//	bystander-delayed     a third session's round trip at the CANCEL's instant had latency > 0
//	dealer-tables-not-empty calls / invocations / invocationByCall not empty at the end
const csShape = "cancel-to-stalled-callee"

// CancelStalledSpec parametrises the scenario.
type CancelStalledSpec struct {
	Q    int    `json:"q"`
	Mode string `json:"mode"` // skip | kill | killnowait
	Full bool   `json:"full"` // the callee's queue is completely full at the CANCEL (else one free slot)
}

type csRow struct {
	Q            int    `json:"q"`
	Mode         string `json:"mode"`
	Full         bool   `json:"full"`
	PredIntr     bool   `json:"predicted_interrupt_queued"`
	PredAnswered bool   `json:"predicted_answered_at_once"`
	ObsIntr      bool   `json:"observed_interrupt_queued"`
	ObsAnswered  bool   `json:"observed_answered_at_once"`
}

// cancelPredict mirrors CancelModel.sync_cancel true mode true room.
func cancelPredict(mode string, room bool) (interruptQueued, answered bool) {
	switch mode {
	case "skip":
		return false, true
	case "kill":
		return room, !room
	default:
		return room, true
	}
}

func genCancelStalled(o *genOpts) []*History {
	if o.prop != "C07" || o.skip[csShape] {
		return nil
	}
	var out []*History
	for _, q := range []int{1, 2} {
		for _, mode := range []string{"kill", "killnowait", "skip"} {
			for _, full := range []bool{true, false} {
				out = append(out, &History{ID: fmt.Sprintf("C07-cs-%02d", len(out)), Prop: "C07", Seed: o.seed, Shape: csShape,
					Realms: []string{"realm1"}, Sessions: []SessionSpec{}, Ops: []Op{},
					CancelStalled: &CancelStalledSpec{Q: q, Mode: mode, Full: full}})
			}
		}
	}
	return out
}

func (r *runner) rootCancelStalled() {
	sp := r.h.CancelStalled
	row := &csRow{Q: sp.Q, Mode: sp.Mode, Full: sp.Full}
	row.PredIntr, row.PredAnswered = cancelPredict(sp.Mode, !sp.Full)
	r.cs = row
	r.opsByKind[csShape]++
	r.cancelStalledBody(sp, row)
	r.mu.Lock()
	r.closing = true
	r.closeRet = r.now()
	r.mu.Unlock()
	r.emitPartial()
	r.stopHarness()
	r.dropAll()
	time.Sleep(3 * time.Hour)
	synctest.Wait()
	r.finalClose("teardown")
	if !r.hasFail("teardown", "panic") {
		r.leakCheck("teardown")
	}
}

func (r *runner) cancelStalledBody(sp *CancelStalledSpec, row *csRow) {
	realm := "realm1"
	if len(r.h.Realms) > 0 {
		realm = r.h.Realms[0]
	}
	setup := func(f string, a ...any) {
		r.fail("harness-error", "harness-error", "cancel-stalled setup: "+fmt.Sprintf(f, a...))
	}
	bad := func(what, f string, a ...any) {
		r.fail("cancel-stalled", "cancel-stalled@"+what, fmt.Sprintf("q=%d mode=%s full=%v: ", sp.Q, sp.Mode, sp.Full)+fmt.Sprintf(f, a...))
	}
	if sp.Q < 1 || (sp.Mode != "kill" && sp.Mode != "killnowait" && sp.Mode != "skip") {
		setup("bad parameters")
		return
	}
	callee := r.newSession(SessionSpec{Realm: realm, Q: sp.Q, Feat: true}, false, nil)
	caller := r.newSession(SessionSpec{Realm: realm, Q: 64, Feat: true}, false, nil)
	filler := r.newSession(SessionSpec{Realm: realm, Q: 64, Feat: true}, false, nil)
	synctest.Wait()
	for _, s := range []*sess{callee, caller, filler} {
		if r.live(s.idx) == nil {
			setup("session %d did not join", s.idx)
			return
		}
	}
	has := func(s *sess, from int, typ string, req wamp.ID) (recMsg, bool) {
		for _, m := range s.msgsFrom(from) {
			if m.Type == typ && (req == 0 || m.Req == uint64(req)) {
				return m, true
			}
		}
		return recMsg{}, false
	}
	regReq := callee.takeReq()
	callee.push(&outItem{msg: &wamp.Register{Request: regReq, Options: wamp.Dict{}, Procedure: "cs.proc"}, desc: "REGISTER cs.proc"})
	synctest.Wait()
	subReq := callee.takeReq()
	callee.push(&outItem{msg: &wamp.Subscribe{Request: subReq, Options: wamp.Dict{}, Topic: "cs.fill"}, desc: "SUBSCRIBE cs.fill"})
	synctest.Wait()
	if _, ok := has(callee, 0, "REGISTERED", regReq); !ok {
		setup("no REGISTERED")
		return
	}
	if _, ok := has(callee, 0, "SUBSCRIBED", subReq); !ok {
		setup("no SUBSCRIBED")
		return
	}
	callReq := caller.takeReq()
	caller.push(&outItem{msg: &wamp.Call{Request: callReq, Options: wamp.Dict{}, Procedure: "cs.proc", Arguments: wamp.List{"cs"}}, desc: "CALL cs.proc"})
	synctest.Wait()
	inv, ok := has(callee, 0, "INVOCATION", 0)
	if !ok {
		setup("no INVOCATION")
		return
	}
	invReq := wamp.ID(inv.Req)

	// the callee stops reading; its queue is filled (completely, or but one slot)
	callee.setPaused(true)
	r.mu.Lock()
	callee.stalled = true
	callee.epoch++
	r.mu.Unlock()
	fill := sp.Q
	if !sp.Full {
		fill = sp.Q - 1
	}
	for i := 0; i < fill; i++ {
		q := filler.takeReq()
		filler.push(&outItem{msg: &wamp.Publish{Request: q, Options: wamp.Dict{}, Topic: "cs.fill", Arguments: wamp.List{i}}, desc: "PUBLISH cs.fill"})
	}
	synctest.Wait()
	if n := len(callee.cli.Recv()); n != fill {
		setup("callee's queue holds %d messages, want %d", n, fill)
		return
	}
	time.Sleep(stepGap)
	synctest.Wait()
	callerMark := len(caller.msgsFrom(0))
	calleeMark := len(callee.msgsFrom(0))
	fillerMark := len(filler.msgsFrom(0))
	replies := func() (l []recMsg) {
		for _, m := range caller.msgsFrom(callerMark) {
			if (m.Type == "RESULT" || m.Type == "ERROR") && m.Req == uint64(callReq) {
				l = append(l, m)
			}
		}
		return
	}

	// T0: the CANCEL and a bystander's round trip
	T0 := r.now()
	cancel := func() *outItem {
		return caller.push(&outItem{msg: &wamp.Cancel{Request: callReq, Options: wamp.Dict{"mode": sp.Mode}}, desc: "CANCEL " + sp.Mode})
	}
	first := cancel()
	byReq := filler.takeReq()
	filler.push(&outItem{msg: &wamp.Call{Request: byReq, Options: wamp.Dict{}, Procedure: "verif.probe.none"}, desc: "probe CALL (bystander)"})
	synctest.Wait()
	if st, acc := r.itemState(first); st != itAccepted || acc != T0 {
		bad("caller-not-answered", "the CANCEL offered at %d ms was not taken at once", ms(T0))
		return
	}
	if m, ok := has(filler, fillerMark, "ERROR", byReq); !ok || m.T != ms(T0) {
		bad("bystander-delayed", "a third session's CALL at the CANCEL's instant (%d ms) was not answered at once: the dealer is busy with the callee that does not read", ms(T0))
		return
	}
	r.mu.Lock()
	r.nontrivial = true
	if sp.Full {
		r.why["stalled-full-queue-while-others-served"] = true
		r.fullEver[callee.idx] = true
	}
	r.why["cancel-to-stalled-callee"] = true
	r.mu.Unlock()
	queued := len(callee.cli.Recv())
	row.ObsIntr = queued == fill+1
	l := replies()
	row.ObsAnswered = len(l) > 0
	r.orc("cancel-stalled: CANCEL mode %s taken at %d ms, callee's queue %d/%d; model: INTERRUPT queued=%v, caller answered at once=%v; observed: queue now %d, replies %v",
		sp.Mode, ms(T0), fill, sp.Q, row.PredIntr, row.PredAnswered, queued, l)
	if row.ObsIntr != row.PredIntr || (queued != fill && queued != fill+1) {
		bad("interrupt-mismatch", "the callee's queue went from %d to %d messages; the model queues an INTERRUPT: %v", fill, queued, row.PredIntr)
	}
	switch {
	case row.PredAnswered && len(l) == 0:
		bad("caller-not-answered", "the model answers the caller at the CANCEL's instant (mode %s with the callee's queue full degrades to skip); no reply for CALL %d arrived", sp.Mode, callReq)
	case row.PredAnswered && (len(l) > 1 || l[0].Type != "ERROR" || l[0].Info != string(wamp.ErrCanceled) || l[0].T != ms(T0)):
		bad("wrong-instant", "expected one ERROR wamp.error.canceled at %d ms, got %v", ms(T0), l)
	case !row.PredAnswered && len(l) > 0:
		bad("wrong-instant", "mode kill with the INTERRUPT queued waits for the callee; the caller got %v at once", l)
	}
	// a second CANCEL changes nothing
	time.Sleep(stepGap)
	cancel()
	synctest.Wait()
	if n := len(replies()); n > 1 {
		bad("duplicate-reply", "after a second CANCEL the caller has %d replies for one call: %v", n, replies())
	}

	// the callee reads again 1 s later and answers what it finds
	time.Sleep(time.Second)
	callee.setPaused(false)
	r.mu.Lock()
	callee.stalled = false
	callee.epoch++
	r.mu.Unlock()
	synctest.Wait()
	_, gotIntr := has(callee, calleeMark, "INTERRUPT", 0)
	if gotIntr != row.ObsIntr {
		bad("interrupt-mismatch", "the callee read an INTERRUPT: %v; one was queued at the CANCEL: %v", gotIntr, row.ObsIntr)
	}
	at := r.now()
	if gotIntr {
		callee.push(&outItem{msg: &wamp.Error{Type: wamp.INVOCATION, Request: invReq, Details: wamp.Dict{}, Error: wamp.ErrCanceled}, desc: "ERROR INVOCATION canceled"})
	} else {
		callee.push(&outItem{msg: &wamp.Yield{Request: invReq, Options: wamp.Dict{}, Arguments: wamp.List{"late"}}, desc: "YIELD late"})
	}
	synctest.Wait()
	time.Sleep(70 * time.Second)
	synctest.Wait()
	l = replies()
	switch {
	case len(l) == 0:
		if !r.hasFail("cancel-stalled") {
			bad("caller-not-answered", "the caller never got a final reply for CALL %d although the callee answered the INTERRUPT / the call was cancelled", callReq)
		}
	case len(l) > 1:
		bad("duplicate-reply", "the caller has %d final replies for one call: %v", len(l), l)
	case !row.PredAnswered && !r.hasFail("cancel-stalled") && (l[0].Type != "ERROR" || l[0].T != ms(at)):
		bad("wrong-instant", "mode kill: expected the callee's ERROR to reach the caller at %d ms, got %v", ms(at), l)
	}
	if sizes, ok := verifTableSizes(r.rtr, wamp.URI(realm)); ok && len(sizes) >= 15 {
		r.orc("cancel-stalled: dealer tables afterwards (calls, invocations, invocationByCall) = %v, expected all 0", sizes[12:15])
		if sizes[12] != 0 || sizes[13] != 0 || sizes[14] != 0 {
			bad("dealer-tables-not-empty", "calls=%d invocations=%d invocationByCall=%d after the call ended", sizes[12], sizes[13], sizes[14])
		}
	}
}
