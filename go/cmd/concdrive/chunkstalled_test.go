package concdrive

import (
	"fmt"
	"testing/synctest"
	"time"

	"github.com/gammazero/nexus/v3/wamp"
)

// Shape chunk-to-stalled-callee (C07 / C02): a progressive call invocation
// (the caller sends further CALL messages with the same request id) whose
// callee has stopped reading with its queue completely full exactly when a
// further chunk arrives.  The dealer cannot queue the INVOCATION; it ends the
// call (ERROR to the caller) and forgets it, so that whatever the callee
// yields later reaches nobody: one final reply per call, nothing left in the
// dealer's tables, nobody else delayed.
//
// Oracles (signatures chunk-stalled@<what>):
//
//	caller-not-answered     no final reply for the call at the chunk's instant
//	duplicate-final-reply   more than one final reply (ERROR / RESULT without progress) for one call
//	result-after-final      a progressive RESULT after the final reply
//	bystander-delayed       a third session's round trip at the chunk's instant had latency > 0
//	dealer-tables-not-empty calls / invocations / invocationByCall not empty at the end
const chShape = "chunk-to-stalled-callee"

// ChunkStalledSpec parametrises the scenario.
type ChunkStalledSpec struct {
	Q      int    `json:"q"`
	Last   bool   `json:"last_chunk"` // the further chunk is the last one (progress=false)
	Answer string `json:"answer"`     // what the callee does when it reads again: yield | progressive-yield | error | nothing
}

func genChunkStalled(o *genOpts) []*History {
	if o.prop != "C07" || o.skip[chShape] {
		return nil
	}
	var out []*History
	for _, q := range []int{1, 2} {
		for _, last := range []bool{false, true} {
			for _, ans := range []string{"yield", "progressive-yield", "error", "nothing"} {
				out = append(out, &History{ID: fmt.Sprintf("C07-ch-%02d", len(out)), Prop: "C07", Seed: o.seed, Shape: chShape,
					Realms: []string{"realm1"}, Sessions: []SessionSpec{}, Ops: []Op{},
					ChunkStalled: &ChunkStalledSpec{Q: q, Last: last, Answer: ans}})
			}
		}
	}
	return out
}

func (r *runner) rootChunkStalled() {
	sp := r.h.ChunkStalled
	r.opsByKind[chShape]++
	r.chunkStalledBody(sp)
	r.mu.Lock()
	r.closing = true
	r.closeRet = r.now()
	r.mu.Unlock()
	r.emitPartial()
	r.stopHarness()
	r.dropAll()
	time.Sleep(3 * time.Hour)
	synctest.Wait()
	r.finalClose("teardown")
	if !r.hasFail("teardown", "panic") {
		r.leakCheck("teardown")
	}
}

func (r *runner) chunkStalledBody(sp *ChunkStalledSpec) {
	realm := "realm1"
	if len(r.h.Realms) > 0 {
		realm = r.h.Realms[0]
	}
	setup := func(f string, a ...any) {
		r.fail("harness-error", "harness-error", "chunk-stalled setup: "+fmt.Sprintf(f, a...))
	}
	bad := func(what, f string, a ...any) {
		r.fail("chunk-stalled", "chunk-stalled@"+what, fmt.Sprintf("q=%d last_chunk=%v answer=%s: ", sp.Q, sp.Last, sp.Answer)+fmt.Sprintf(f, a...))
	}
	if sp.Q < 1 {
		setup("bad parameters")
		return
	}
	callee := r.newSession(SessionSpec{Realm: realm, Q: sp.Q, Feat: true}, false, nil)
	caller := r.newSession(SessionSpec{Realm: realm, Q: 64, Feat: true}, false, nil)
	filler := r.newSession(SessionSpec{Realm: realm, Q: 64, Feat: true}, false, nil)
	synctest.Wait()
	for _, s := range []*sess{callee, caller, filler} {
		if r.live(s.idx) == nil {
			setup("session %d did not join", s.idx)
			return
		}
	}
	has := func(s *sess, from int, typ string, req wamp.ID) (recMsg, bool) {
		for _, m := range s.msgsFrom(from) {
			if m.Type == typ && (req == 0 || m.Req == uint64(req)) {
				return m, true
			}
		}
		return recMsg{}, false
	}
	regReq := callee.takeReq()
	callee.push(&outItem{msg: &wamp.Register{Request: regReq, Options: wamp.Dict{}, Procedure: "ch.proc"}, desc: "REGISTER ch.proc"})
	synctest.Wait()
	subReq := callee.takeReq()
	callee.push(&outItem{msg: &wamp.Subscribe{Request: subReq, Options: wamp.Dict{}, Topic: "ch.fill"}, desc: "SUBSCRIBE ch.fill"})
	synctest.Wait()
	if _, ok := has(callee, 0, "REGISTERED", regReq); !ok {
		setup("no REGISTERED")
		return
	}
	// first chunk
	callReq := caller.takeReq()
	chunk := func(progress bool, arg string) *outItem {
		return caller.push(&outItem{msg: &wamp.Call{Request: callReq, Options: wamp.Dict{"progress": progress, "receive_progress": true},
			Procedure: "ch.proc", Arguments: wamp.List{arg}}, desc: "CALL ch.proc chunk " + arg})
	}
	chunk(true, "c0")
	synctest.Wait()
	inv, ok := has(callee, 0, "INVOCATION", 0)
	if !ok {
		setup("no INVOCATION for the first chunk (progressive call invocations refused?): caller read %v", caller.msgsFrom(0))
		return
	}
	invReq := wamp.ID(inv.Req)

	// the callee stops reading; its queue is filled completely
	callee.setPaused(true)
	r.mu.Lock()
	callee.stalled = true
	callee.epoch++
	r.mu.Unlock()
	for i := 0; i < sp.Q; i++ {
		q := filler.takeReq()
		filler.push(&outItem{msg: &wamp.Publish{Request: q, Options: wamp.Dict{}, Topic: "ch.fill", Arguments: wamp.List{i}}, desc: "PUBLISH ch.fill"})
	}
	synctest.Wait()
	if n := len(callee.cli.Recv()); n != sp.Q {
		setup("callee's queue holds %d messages, want %d", n, sp.Q)
		return
	}
	time.Sleep(stepGap)
	synctest.Wait()
	callerMark := len(caller.msgsFrom(0))
	fillerMark := len(filler.msgsFrom(0))
	type reply struct {
		t        int64
		typ, inf string
		final    bool
	}
	replies := func() (l []reply) {
		for _, m := range caller.msgsFrom(callerMark) {
			if (m.Type == "RESULT" || m.Type == "ERROR") && m.Req == uint64(callReq) {
				l = append(l, reply{m.T, m.Type, m.Info, m.Type == "ERROR" || len(m.Info) < 8 || m.Info[:8] != "progress"})
			}
		}
		return
	}
	finals := func() (n int) {
		for _, x := range replies() {
			if x.final {
				n++
			}
		}
		return
	}

	// T0: the further chunk and a bystander's round trip
	T0 := r.now()
	second := chunk(!sp.Last, "c1")
	byReq := filler.takeReq()
	filler.push(&outItem{msg: &wamp.Call{Request: byReq, Options: wamp.Dict{}, Procedure: "verif.probe.none"}, desc: "probe CALL (bystander)"})
	synctest.Wait()
	if st, acc := r.itemState(second); st != itAccepted || acc != T0 {
		bad("caller-not-answered", "the chunk offered at %d ms was not taken at once", ms(T0))
		return
	}
	if m, ok := has(filler, fillerMark, "ERROR", byReq); !ok || m.T != ms(T0) {
		bad("bystander-delayed", "a third session's CALL at the chunk's instant (%d ms) was not answered at once", ms(T0))
		return
	}
	r.mu.Lock()
	r.nontrivial = true
	r.why["stalled-full-queue-while-others-served"] = true
	r.why["chunk-to-stalled-callee"] = true
	r.fullEver[callee.idx] = true
	r.mu.Unlock()
	l := replies()
	r.orc("chunk-stalled: chunk (last=%v) of CALL %d taken at %d ms with the callee's queue %d/%d; expected one final reply (ERROR) now; observed %v", sp.Last, callReq, ms(T0), sp.Q, sp.Q, l)
	if finals() == 0 {
		bad("caller-not-answered", "the INVOCATION for the chunk could not be queued for the callee; the caller got no final reply for CALL %d at that instant: %v", callReq, l)
	}

	// the callee reads again 1 s later and answers the invocation it knows
	time.Sleep(time.Second)
	callee.setPaused(false)
	r.mu.Lock()
	callee.stalled = false
	callee.epoch++
	r.mu.Unlock()
	synctest.Wait()
	switch sp.Answer {
	case "yield":
		callee.push(&outItem{msg: &wamp.Yield{Request: invReq, Options: wamp.Dict{}, Arguments: wamp.List{"late"}}, desc: "YIELD late"})
	case "progressive-yield":
		callee.push(&outItem{msg: &wamp.Yield{Request: invReq, Options: wamp.Dict{"progress": true}, Arguments: wamp.List{"late-p"}}, desc: "YIELD late-p (progress)"})
		callee.push(&outItem{msg: &wamp.Yield{Request: invReq, Options: wamp.Dict{}, Arguments: wamp.List{"late"}}, desc: "YIELD late"})
	case "error":
		callee.push(&outItem{msg: &wamp.Error{Type: wamp.INVOCATION, Request: invReq, Details: wamp.Dict{}, Error: "ch.error"}, desc: "ERROR INVOCATION"})
	}
	synctest.Wait()
	time.Sleep(70 * time.Second)
	synctest.Wait()
	l = replies()
	r.orc("chunk-stalled: after the callee answered (%s): replies for CALL %d: %v", sp.Answer, callReq, l)
	if n := finals(); n > 1 {
		bad("duplicate-final-reply", "the caller read %d final replies for one call: %v", n, l)
	}
	seenFinal := false
	for _, x := range l {
		if seenFinal && !x.final {
			bad("result-after-final", "a progressive RESULT after the call's final reply: %v", l)
		}
		seenFinal = seenFinal || x.final
	}
	if sizes, ok := verifTableSizes(r.rtr, wamp.URI(realm)); ok && len(sizes) >= 15 {
		r.orc("chunk-stalled: dealer tables afterwards (calls, invocations, invocationByCall) = %v, expected all 0", sizes[12:15])
		if sizes[12] != 0 || sizes[13] != 0 || sizes[14] != 0 {
			bad("dealer-tables-not-empty", "calls=%d invocations=%d invocationByCall=%d after the call ended", sizes[12], sizes[13], sizes[14])
		}
	}
}
