//go:build nohooks

package concdrive

import (
	"github.com/gammazero/nexus/v3/router"
	"github.com/gammazero/nexus/v3/wamp"
)

// verifTableSizes: the tree under test has no router.VerifTableSizes (built
// with -tags verif,nohooks by tools/checks/concshared.py as a fallback).
func verifTableSizes(rt router.Router, realm wamp.URI) ([]int, bool) { return nil, false }
