package concdrive

import (
	"fmt"
	"strings"
	"testing/synctest"
	"time"

	"github.com/gammazero/nexus/v3/transport"
	"github.com/gammazero/nexus/v3/wamp"
)

// closeContext lists what is in flight when Close / RemoveRealm is invoked
// (the C06 non-triviality rule).
func (r *runner) closeContext(with []Op) []string {
	ctx := map[string]bool{}
	r.mu.Lock()
	for _, s := range r.sess {
		if s.gone != "" {
			continue
		}
		if s.stalled {
			ctx["stalled-session"] = true
		}
		if !s.attachRet || !s.welcome {
			ctx["handshake-in-flight"] = true
		}
		if s.held {
			ctx["message-held-in-handler"] = true
		}
		for _, c := range s.calls {
			if c.exp.got {
				continue
			}
			if c.meta {
				ctx["meta-call-in-flight"] = true
			} else {
				ctx["pending-call"] = true
				if c.timeout > 0 {
					ctx["armed-call-timer"] = true
				}
			}
		}
	}
	r.mu.Unlock()
	for _, o := range with {
		ctx["queued-burst-op"] = true
		switch o.Op {
		case "metacall", "kill":
			ctx["meta-call-in-flight"] = true
		case "join", "hello_goodbye":
			ctx["handshake-in-flight"] = true
		}
	}
	var l []string
	for k := range ctx {
		l = append(l, k)
	}
	sortStrings(l)
	return l
}

// doClose performs the C06 Close / RemoveRealm, alone or released together
// with the ops in with.
func (r *runner) doClose(cl *CloseSpec, pos int, with []Op) {
	// A join blocked in onJoin holds the realm's close lock; realm.close
	// would wait for it on a mutex, which stops the virtual clock.  Let such
	// handshakes finish first (at most the yield-retry period).
	r.settleHandshakes()
	ctx := r.closeContext(with)
	r.mu.Lock()
	r.closeCtx = ctx
	if len(ctx) > 0 {
		r.nontrivial = true
		for _, c := range ctx {
			r.why[c] = true
		}
	}
	rel := r.relAt
	r.relAt = nil
	r.closing = true
	r.mu.Unlock()
	for _, ch := range rel {
		close(ch)
	}
	if cl.Kind == "Close" {
		for _, u := range append([]string{}, r.h.Realms...) {
			r.markRealmClosing(u)
		}
		r.mu.Lock()
		for u := range r.realms {
			delete(r.realms, u)
		}
		for _, s := range r.sess {
			if s.gone == "" {
				s.expGone, s.leaving = "router closed", true
			}
		}
		r.mu.Unlock()
	} else {
		r.markRealmClosing(cl.Realm)
	}
	start := make(chan struct{})
	done := make(chan struct{})
	var sems []chan struct{}
	if len(with) > 0 {
		r.opsByKind["burst"]++
		r.beginBurst(with)
		if !r.concurrentJoins {
			for _, o := range with {
				if o.Op == "join" || o.Op == "hello_goodbye" {
					sem, dup := r.joinSem(o.Realm), false
					for _, x := range sems {
						dup = dup || x == sem
					}
					if !dup {
						sems = append(sems, sem)
					}
				}
			}
		}
	}
	go func() {
		defer close(done)
		defer r.recoverAPI("panic", cl.Kind)
		<-start
		for _, sem := range sems {
			// unsafe burst: wait (durably) for the handshakes released with it
			tm := time.NewTimer(3 * time.Hour)
			select {
			case sem <- struct{}{}:
				defer func() { <-sem }()
			case <-tm.C:
			}
			tm.Stop()
		}
		r.mu.Lock()
		r.closeStart = r.now()
		r.mu.Unlock()
		if cl.Kind == "Close" {
			r.rtr.Close()
		} else {
			r.rtr.RemoveRealm(wamp.URI(cl.Realm))
		}
		r.mu.Lock()
		r.closeRet = r.now()
		r.mu.Unlock()
	}()
	for j := range with {
		r.execOp(pos, &with[j], start)
	}
	if r.partial != nil {
		// what was in flight survives a crash of this process
		r.partial(r.result(true))
	}
	allow, why := r.closeAllowance(ctx, with)
	done2 := make(chan struct{})
	if cl.Kind == "Close" && cl.Concurrent && allow == 0 && len(with) == 0 {
		// a second caller of Router.Close at the same moment (a goroutine waiting
		// in sync.Once is not durably blocked: only when the close needs no time)
		go func() {
			defer close(done2)
			defer r.recoverAPI("panic", "Close (second concurrent caller)")
			<-start
			r.rtr.Close()
		}()
	} else {
		close(done2)
	}
	close(start)
	// Virtual time only advances when every goroutine of the bubble is durably
	// blocked: if this 1 ns timer fires before the call returned, the call is
	// waiting for time to pass.  The goroutines it waits for are named now.
	slowAt := ""
	tick := time.NewTimer(time.Nanosecond)
	select {
	case <-done:
	case <-tick.C:
		slowAt, _, _ = classify(allStacks(), r.bubble, false)
	}
	tick.Stop()
	tm := time.NewTimer(closeLimit)
	select {
	case <-done:
	case <-tm.C:
		r.violation("close-hang", cl.Kind+" did not return within 2 h of virtual time", true)
	}
	tm.Stop()
	tm2 := time.NewTimer(closeLimit)
	select {
	case <-done2:
	case <-tm2.C:
		r.violation("close-hang", "a second concurrent Router.Close did not return within 2 h of virtual time", true)
	}
	tm2.Stop()
	r.mu.Lock()
	lat := r.closeRet - r.closeStart
	returned := r.closeRet >= 0 && r.closeStart >= 0
	r.mu.Unlock()
	if returned {
		r.orc("oracle 1b (takes no virtual time): %s expected to return after at most %v (%s); it took %v%s", cl.Kind, allow, why, lat,
			map[bool]string{true: "; while it waited, blocked outside the idle loops: " + slowAt, false: ""}[slowAt != ""])
		if lat > allow {
			r.fail("close-slow", "close-slow@"+slowAt, fmt.Sprintf("%s invoked at %d ms returned only %v of virtual time later (allowed: %v, %s); in flight: %v",
				cl.Kind, ms(r.closeStart), lat, allow, why, ctx))
		}
	}
	// attaches parked in their auth gate go on now that the close returned
	r.mu.Lock()
	after := r.relAfter
	r.relAfter = nil
	r.mu.Unlock()
	for _, ch := range after {
		close(ch)
	}
	synctest.Wait()
	r.endBurst()
	r.mu.Lock()
	cs, cr := r.closeStart, r.closeRet
	r.mu.Unlock()
	if cr >= 0 {
		r.orc("oracle 1 (returns): %s expected to return within 2 h of virtual time (<= 66 s when a RESULT retry is pending); invoked at %d ms, returned at %d ms", cl.Kind, ms(cs), ms(cr))
	} else {
		r.orc("oracle 1 (returns): %s invoked at %d ms has NOT returned", cl.Kind, ms(cs))
	}
	if cl.Kind == "Close" {
		r.routerDown = true
	} else {
		r.mu.Lock()
		r.closing = false
		r.mu.Unlock()
	}
}

// closeAllowance: how much virtual time Close / RemoveRealm may legitimately
// take.  Nothing in the shutdown sequence waits for time, except for what the
// harness itself arranged: a RESULT retry towards a session that does not
// read (<= 65.535 s per queued YIELD, the C07 exception and known finding), a
// gated handshake (1 s), a message held in a handler by a harness gate, a
// rawsocket peer whose writer waits for a client that stopped reading.
func (r *runner) closeAllowance(ctx []string, with []Op) (time.Duration, string) {
	allow, why := time.Duration(0), "nothing in flight waits for time"
	// In the shape stalled-rawsocket-then-close the sessions that do not read are
	// network clients without calls: no RESULT retry can be pending, only the
	// per-peer bound applies.
	tight := r.h.Shape == "stalled-rawsocket-then-close"
	up := func(d time.Duration, w string) {
		if tight && d == closeLimit {
			return
		}
		if d > allow {
			allow, why = d, w
		}
	}
	for _, c := range ctx {
		switch c {
		case "stalled-session":
			up(closeLimit, "a session does not read: RESULT retries may be pending")
		case "handshake-in-flight":
			up(2*gateOpenAfter, "a gated handshake is in flight")
		case "message-held-in-handler":
			up(holdFallback+time.Second, "a message is held in a handler by a harness gate")
		}
	}
	for _, o := range with {
		switch o.Op {
		case "join", "hello_goodbye":
			up(2*gateOpenAfter, "a handshake is released together with the close")
		case "stall":
			up(closeLimit, "a session stops reading together with the close")
		}
		if o.HoldUntil != "" {
			up(holdFallback+time.Second, "a message is held in a handler by a harness gate")
		}
	}
	nRaw := 0
	r.mu.Lock()
	defer r.mu.Unlock()
	if r.lastStalled >= 0 && r.now()-r.lastStalled <= yieldRetryMax {
		up(closeLimit, "a session did not read during the last 66 s: RESULT retries may be pending")
	}
	for _, s := range r.sess {
		if s.spec.Raw {
			// Close of a network peer waits for its sender, whose pending write is
			// bounded by ctrlTimeout (5 s) since /repo 313de37; the peers of one
			// realm are closed one after the other
			nRaw++
		}
		if s.stalled && s.gone == "" {
			up(closeLimit, "a session does not read: RESULT retries may be pending")
		}
	}
	if nRaw > 0 && allow < closeLimit {
		up(allow+time.Duration(nRaw)*peerCloseBound+time.Second, fmt.Sprintf("%d rawsocket peer(s): closing one waits for its sender, at most 5 s each", nRaw))
	}
	return allow, why
}

func (r *runner) settleHandshakes() {
	for i := 0; i < 70 && r.attachInFlight(); i++ {
		time.Sleep(time.Second)
		synctest.Wait()
	}
}

func (r *runner) attachInFlight() bool {
	r.mu.Lock()
	defer r.mu.Unlock()
	for _, s := range r.sess {
		if !s.attachRet && !s.rp.inGate.Load() && s.gone == "" {
			return true
		}
	}
	return false
}

// resumeAll resumes every stalled session (bound check) and waits.
func (r *runner) resumeAll() {
	for _, s := range r.sess {
		r.resume(s)
	}
	synctest.Wait()
}

// told: every session attached to a closed realm saw GOODBYE
// wamp.close.system_shutdown or its receive channel closed.
func (r *runner) checkTold(realm string) {
	r.mu.Lock()
	var bad []string
	for _, s := range r.sess {
		if !s.welcome || s.transient || s.dropped || (realm != "" && s.spec.Realm != realm) {
			continue
		}
		if r.h.Template && r.closeStart >= 0 && s.welcomeAt >= r.closeStart {
			// with a realm template a join racing or following the removal
			// may have created the realm anew
			continue
		}
		told := s.recvEOF || strings.HasSuffix(s.gone, string(wamp.ErrSystemShutdown)) ||
			(s.gone != "" && s.expGone != "router closed" && s.expGone != "realm removed")
		if !told {
			bad = append(bad, fmt.Sprintf("s%d (gone=%q)", s.idx, s.gone))
		}
		r.orcLog = append(r.orcLog, fmt.Sprintf("oracle 3 (clients told): s%d expected GOODBYE wamp.close.system_shutdown or closed transport; observed end=%q, recv channel closed=%v (at %d ms)",
			s.idx, s.gone, s.recvEOF, ms(s.closedAt)))
	}
	r.mu.Unlock()
	if len(bad) > 0 {
		r.violation("client-not-told", "neither GOODBYE system_shutdown nor closed transport at "+strings.Join(bad, ", "), true)
	}
}

// lateAttach: an attach to a closed router / removed realm must fail
// cleanly.  The panic of AttachClient is in this goroutine and recovered.
func (r *runner) lateAttach(realm string) {
	cli, rp := transport.LinkedPeersQSize(2)
	res := make(chan error, 1)
	go func() {
		defer r.recoverAPI("late-attach", "Attach after close")
		res <- r.rtr.Attach(rp)
	}()
	sent := make(chan struct{})
	go func() {
		defer close(sent)
		tm := time.NewTimer(time.Minute)
		defer tm.Stop()
		select {
		case cli.Send() <- &wamp.Hello{Realm: wamp.URI(realm), Details: helloDetails()}:
		case <-tm.C:
		}
	}()
	tm := time.NewTimer(time.Hour)
	defer tm.Stop()
	select {
	case err := <-res:
		if err == nil {
			r.fail("late-attach", "late-attach:accepted", "Attach to closed realm "+realm+" returned nil")
		}
		r.orc("oracle 4 (late attach to %s): expected an error, no panic, no hang; Attach returned: %v", realm, err)
	case <-tm.C:
		r.mu.Lock()
		failed := false
		for _, f := range r.fails {
			if f.Oracle == "late-attach" {
				failed = true
			}
		}
		r.mu.Unlock()
		if !failed {
			r.violation("late-attach", "Attach after close did not return within 1 h", true)
		}
	}
	<-sent
}

// lateAPI: AddRealm / RemoveRealm after Close must return without a panic.
// closeAgain: Router.Close is idempotent — once more, then from two goroutines
// at once.
func (r *runner) closeAgain() {
	for round, n := range []int{1, 2} {
		var dones []chan struct{}
		start := make(chan struct{})
		for k := 0; k < n; k++ {
			done := make(chan struct{})
			dones = append(dones, done)
			go func() {
				defer close(done)
				defer r.recoverAPI("late-api", fmt.Sprintf("Close after Close (round %d)", round))
				<-start
				r.rtr.Close()
			}()
		}
		close(start)
		tm := time.NewTimer(time.Hour)
		for _, done := range dones {
			select {
			case <-done:
			case <-tm.C:
				r.violation("late-api", "a further Router.Close did not return within 1 h", true)
			}
		}
		tm.Stop()
	}
	r.orc("oracle 4 (Close again, sequentially and from two goroutines): expected to return without panic; failures so far: %v", r.hasFail("late-api"))
	synctest.Wait()
}

func (r *runner) lateAPI() {
	for _, name := range []string{"AddRealm", "RemoveRealm"} {
		done := make(chan struct{})
		go func() {
			defer close(done)
			defer r.recoverAPI("late-api", name+" after Close")
			if name == "AddRealm" {
				_ = r.rtr.AddRealm(r.realmConfig("late.realm"))
			} else {
				r.rtr.RemoveRealm("late.realm")
			}
		}()
		tm := time.NewTimer(time.Hour)
		select {
		case <-done:
		case <-tm.C:
			r.violation("late-api", name+" after Close did not return within 1 h", true)
		}
		tm.Stop()
	}
	r.orc("oracle 4 (AddRealm / RemoveRealm after Close): expected to return without panic; failures so far: %v", r.hasFail("late-api"))
	synctest.Wait()
}

// stopHarness stops drainers and senders of every session.
func (r *runner) stopHarness() {
	for _, s := range r.sess {
		if s.spec.Raw && r.routerDown {
			// the hand-made rawsocket client has goroutines of its own; the
			// router is gone, nothing is observed through it any more
			s.cli.Close()
		}
	}
	for _, s := range r.sess {
		select {
		case <-s.stop:
		default:
			close(s.stop)
		}
	}
	tm := time.NewTimer(time.Hour)
	defer tm.Stop()
	for _, s := range r.sess {
		for _, ch := range []chan struct{}{s.readerDone, s.senderDone} {
			select {
			case <-ch:
			case <-tm.C:
				r.fail("harness-error", "harness-error", "harness goroutine of a session does not stop")
				return
			}
		}
	}
}

// dropAll: every client closes its side (senders are stopped already).
func (r *runner) dropAll() {
	for _, s := range r.sess {
		r.mu.Lock()
		d := s.dropped
		s.dropped = true
		r.mu.Unlock()
		if !d {
			func() {
				defer func() {
					if e := recover(); e != nil {
						r.fail("harness-error", "harness-error", fmt.Sprint("drop: ", e))
					}
				}()
				s.cli.Close()
			}()
		}
	}
}

// leakCheck looks for goroutines of the bubble that are still there.
func (r *runner) leakCheck(oracle string) {
	synctest.Wait()
	dump := allStacks()
	var left, harness []string
	var raws []string
	me := ""
	if m := gHeader.FindStringSubmatch(strings.SplitN(dump, "\n", 2)[0]); m != nil {
		me = m[1]
	}
	for _, g := range parseStacks(dump) {
		if g.bubble != r.bubble || g.id == me {
			continue
		}
		top, _, _ := g.topNexus()
		if top != "" {
			left = append(left, top)
			raws = append(raws, g.raw)
			continue
		}
		onlyTesting := true
		if strings.Contains(g.raw, "internal/synctest.Run") || strings.Contains(g.raw, "testingSynctestTest") {
			continue
		}
		for _, f := range g.frames {
			if !strings.HasPrefix(f, "testing.") && !strings.HasPrefix(f, "testing/synctest.") &&
				!strings.HasPrefix(f, "internal/synctest.") && !strings.HasPrefix(f, "runtime.") {
				onlyTesting = false
			}
		}
		if !onlyTesting {
			harness = append(harness, g.frames[0])
			raws = append(raws, g.raw)
		}
	}
	sortStrings(left)
	r.left = append(append([]string{}, left...), harness...)
	r.orc("oracle 5 (bubble drains): expected no goroutine of the router left; observed %d router goroutine(s) %v, %d harness goroutine(s) %v", len(left), left, len(harness), harness)
	if len(left) > 0 {
		uniq := []string{}
		for i, f := range left {
			if i == 0 || left[i-1] != f {
				uniq = append(uniq, f)
			}
		}
		r.mu.Lock()
		if r.dump == "" {
			r.dump = strings.Join(raws, "\n\n")
		}
		r.mu.Unlock()
		r.fail(oracle, "goroutine-leak@"+strings.Join(uniq, ","), fmt.Sprintf("%d router goroutine(s) left after shutdown", len(left)))
	} else if len(harness) > 0 {
		r.fail("harness-error", "harness-error", "harness goroutines left: "+strings.Join(harness, ","))
	}
}

func (r *runner) hasFail(oracles ...string) bool {
	r.mu.Lock()
	defer r.mu.Unlock()
	for _, f := range r.fails {
		for _, o := range oracles {
			if f.Oracle == o {
				return true
			}
		}
	}
	return false
}

func (r *runner) emitPartial() {
	if r.partial != nil && len(r.fails) > 0 {
		r.partial(r.result(true))
	}
}

// roundTrip: oracle 6, a session of a realm that was not removed does
// subscribe / publish(ack) / call round trips with latency 0.
func (r *runner) roundTrips(removed string) {
	r.mu.Lock()
	var lost []string
	for _, s := range r.sess {
		if s.spec.Realm != removed && s.welcome && !s.transient && s.gone != "" && s.expGone == "" {
			lost = append(lost, fmt.Sprintf("s%d of realm %s ended: %s", s.idx, s.spec.Realm, s.gone))
		}
	}
	r.mu.Unlock()
	if len(lost) > 0 {
		r.orc("oracle 6 (other realms unaffected): FAILED: %s", strings.Join(lost, "; "))
		r.violation("other-realm-affected", strings.Join(lost, "; "), false)
		return
	}
	var tested []*sess
	for _, s := range r.sess {
		if s.spec.Realm == removed || r.live(s.idx) == nil || s.stalled {
			continue
		}
		tested = append(tested, s)
	}
	type rt struct {
		s  *sess
		e  *expect
		it *outItem
	}
	for round := 0; round < 3; round++ {
		var rts []rt
		for _, s := range tested {
			var it *outItem
			var e *expect
			switch round {
			case 0:
				it, e = r.request(s, nil, nil, "SUBSCRIBE verif.rt", true, func(req wamp.ID) wamp.Message {
					return &wamp.Subscribe{Request: req, Options: wamp.Dict{}, Topic: wamp.URI(fmt.Sprintf("verif.rt.s%d", s.idx))}
				})
			case 1:
				it, e = r.request(s, nil, nil, "PUBLISH verif.rt", true, func(req wamp.ID) wamp.Message {
					return &wamp.Publish{Request: req, Options: wamp.Dict{"acknowledge": true}, Topic: "verif.rt.none"}
				})
			default:
				it, e = r.request(s, nil, nil, "CALL verif.rt", true, func(req wamp.ID) wamp.Message {
					return &wamp.Call{Request: req, Options: wamp.Dict{}, Procedure: "verif.rt.none"}
				})
			}
			rts = append(rts, rt{s, e, it})
		}
		synctest.Wait()
		r.mu.Lock()
		var bad []string
		for _, x := range rts {
			if x.s.spec.Q < 2 && x.s.metaSub {
				continue
			}
			if x.it.state != itAccepted || x.it.acc != x.it.enq {
				bad = append(bad, fmt.Sprintf("s%d: %s not taken at once", x.s.idx, x.it.desc))
			} else if !x.e.got || x.e.gotAt != x.it.acc {
				bad = append(bad, fmt.Sprintf("s%d: %s", x.s.idx, r.describe(x.e)))
			}
			x.e.done = true
		}
		r.mu.Unlock()
		if len(bad) > 0 {
			r.orc("oracle 6 (other realms unaffected): round %d FAILED: %s", round, strings.Join(bad, "; "))
			r.violation("other-realm-affected", strings.Join(bad, "; "), false)
			return
		}
	}
	r.orc("oracle 6 (other realms unaffected): %d session(s) outside %q did subscribe / publish(ack) / call round trips, all answered at the instant of the request", len(tested), removed)
}

func (r *runner) finishC06() {
	cl := r.h.Close
	hours := r.h.AfterCloseHours
	if hours <= 0 {
		hours = 3
	}
	if cl == nil {
		r.finishC07()
		return
	}
	hang := r.hasFail("close-hang")
	if !hang && !r.hasFail("panic") {
		r.resumeAll()
		if cl.Kind == "Close" {
			r.checkTold("")
		} else {
			r.checkTold(cl.Realm)
			if r.h.Template {
				r.orc("oracle 4 (late attach to %s): not applicable, the router's realm template creates the realm again on demand", cl.Realm)
			} else {
				r.lateAttach(cl.Realm)
			}
			r.roundTrips(cl.Realm)
		}
		r.emitPartial()
		time.Sleep(time.Duration(hours) * time.Hour)
		synctest.Wait()
		r.orc("oracle 2 (no panic then or later): advanced %d h of virtual time after the close returned; this process is still alive", hours)
		if cl.Kind == "RemoveRealm" {
			r.roundTrips(cl.Realm)
			r.finalClose("goroutine-leak")
		}
	} else {
		r.mu.Lock()
		if r.closeRet < 0 {
			r.closeRet = r.now()
		}
		r.mu.Unlock()
	}
	r.stopHarness()
	if !hang && !r.hasFail("panic") {
		if cl.Kind == "RemoveRealm" {
			r.dropAll()
			synctest.Wait()
		}
		r.leakCheck("goroutine-leak")
		if cl.Kind == "Close" && !r.hasFail("goroutine-leak") {
			r.lateAttach(r.h.Realms[0])
			r.closeAgain()
			r.lateAPI()
		}
	}
}

// finalClose: Router.Close at the very end (teardown).
func (r *runner) finalClose(oracle string) {
	done := make(chan struct{})
	go func() {
		defer close(done)
		defer r.recoverAPI("panic", "Close (teardown)")
		r.rtr.Close()
	}()
	tm := time.NewTimer(closeLimit)
	defer tm.Stop()
	select {
	case <-done:
	case <-tm.C:
		r.violation(oracle, "Router.Close at teardown did not return within 2 h", true)
	}
	synctest.Wait()
}

func (r *runner) finishC07() {
	if !r.aborted() {
		r.resumeAll()
		r.check(false)
		if !r.aborted() {
			r.probe()
		}
	}
	time.Sleep(settleTime)
	synctest.Wait()
	if !r.aborted() {
		r.check(true)
	} else {
		r.refine()
	}
	r.mu.Lock()
	r.closing = true
	r.closeRet = r.now()
	r.mu.Unlock()
	r.emitPartial()
	// teardown: clients go first, then the router (see DESIGN note in the
	// report: Close with live sessions is C06's subject).
	r.stopHarness()
	r.dropAll()
	time.Sleep(3 * time.Hour)
	synctest.Wait()
	r.finalClose("teardown")
	if !r.hasFail("teardown", "panic") {
		r.leakCheck("teardown")
	}
}

// refine: after the settle time, say whether what was missing at the first
// violation arrived late or never.
func (r *runner) refine() {
	r.mu.Lock()
	defer r.mu.Unlock()
	if len(r.fails) == 0 {
		return
	}
	f := &r.fails[0]
	if f.Oracle != "bystander-delayed" && f.Oracle != "handler-blocked" {
		return
	}
	var notes []string
	never := false
	for _, e := range r.exps {
		if !e.done || e.void != "" || e.kind == "goodbye" {
			continue
		}
		al := r.allowed(e)
		if len(al) == 0 {
			continue
		}
		late := true
		for _, a := range al {
			if e.got && a == e.gotAt {
				late = false
			}
		}
		if !late {
			continue
		}
		if e.got {
			notes = append(notes, fmt.Sprintf("s%d %s arrived %d ms late", e.s.idx, e.desc, ms(e.gotAt-al[0])))
		} else {
			never = true
			notes = append(notes, fmt.Sprintf("s%d %s never arrived (2 h)", e.s.idx, e.desc))
		}
	}
	for _, s := range r.sess {
		for _, it := range s.sent {
			if it.judge && it.begun && s.expGone == "" {
				if it.state == itAccepted && it.acc > it.enq {
					notes = append(notes, fmt.Sprintf("s%d %s taken after %d ms", s.idx, it.desc, ms(it.acc-it.enq)))
				} else if it.state == itPending || it.state == itTimeout {
					never = true
					notes = append(notes, fmt.Sprintf("s%d %s never taken", s.idx, it.desc))
				}
			}
		}
	}
	if len(notes) > 4 {
		notes = notes[:4]
	}
	if len(notes) > 0 {
		f.Detail += " | after 2 h: " + strings.Join(notes, "; ")
	}
	if never && f.Signature == "meta-result-retry-blocks-metapeer" {
		// the known finding ends with the RESULT retry (65.5 s); this did not end
		list, _, _ := classify(allStacks(), r.bubble, false)
		f.Oracle = "deadlock"
		f.Signature = "never-released@" + list
		f.Detail += " | NOT the bounded RESULT retry: still blocked after 2 h"
	}
	if never && f.Oracle == "bystander-delayed" {
		f.Oracle = "bystander-starved"
		if strings.HasPrefix(f.Signature, "bystander-delayed@") {
			f.Signature = "bystander-starved@" + strings.TrimPrefix(f.Signature, "bystander-delayed@")
		}
	}
}
