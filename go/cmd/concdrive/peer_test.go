package concdrive

import (
	"encoding/binary"
	"errors"
	"io"
	"net"
	"runtime"
	"strings"
	"sync"
	"sync/atomic"
	"time"

	"github.com/gammazero/nexus/v3/router"
	"github.com/gammazero/nexus/v3/stdlog"
	"github.com/gammazero/nexus/v3/transport"
	"github.com/gammazero/nexus/v3/transport/serialize"
	"github.com/gammazero/nexus/v3/wamp"
)

// obsPeer wraps the router side of every scripted client.  It is passive
// (records Close() calls) unless gate is set: then Send(), when its direct
// caller is AttachClient or handleSession (the WELCOME send of the attach
// goroutine), blocks until the router called Close() on the peer or
// gateOpenAfter of virtual time passed.
type obsPeer struct {
	wamp.Peer
	gate     bool
	gateDone atomic.Bool
	inGate   atomic.Bool
	nClose   atomic.Int32
	closed   chan struct{} // closed after the first Close() reached the underlying peer
	// authGate: IsLocal(), when called by realm.authClient, parks the attach
	// goroutine until authRelease is closed (the history's Close/RemoveRealm
	// has returned) or gateOpenAfter passed, and then reports false.
	authGate    bool
	authDone    atomic.Bool
	authRelease chan struct{}
}

func (p *obsPeer) IsLocal() bool {
	if p.authGate && !p.authDone.Load() && strings.HasSuffix(directCaller(), ".authClient") {
		p.inGate.Store(true)
		t := time.NewTimer(gateOpenAfter)
		select {
		case <-p.authRelease:
		case <-t.C:
		}
		t.Stop()
		p.authDone.Store(true)
		p.inGate.Store(false)
		return false
	}
	return p.Peer.IsLocal()
}

func newObsPeer(p wamp.Peer, gate bool) *obsPeer {
	return &obsPeer{Peer: p, gate: gate, closed: make(chan struct{})}
}

// Close forwards every call to the underlying peer (a double close must stay
// visible) and signals the first one.
func (p *obsPeer) Close() {
	n := p.nClose.Add(1)
	p.Peer.Close()
	if n == 1 {
		close(p.closed)
	}
}

func (p *obsPeer) Send() chan<- wamp.Message {
	if p.gate && !p.gateDone.Load() && calledFromAttach() {
		p.inGate.Store(true)
		t := time.NewTimer(gateOpenAfter)
		select {
		case <-p.closed:
		case <-t.C:
		}
		t.Stop()
		p.gateDone.Store(true)
		p.inGate.Store(false)
	}
	return p.Peer.Send()
}

// directCaller returns the name of the router function that called the
// peer method (skipping harness frames and method wrappers).
func directCaller() string {
	var pcs [16]uintptr
	n := runtime.Callers(2, pcs[:])
	fr := runtime.CallersFrames(pcs[:n])
	for {
		f, more := fr.Next()
		name := f.Function
		if strings.Contains(name, "concdrive.") || strings.HasSuffix(name, ".Send") || strings.HasSuffix(name, ".IsLocal") {
			if !more {
				return ""
			}
			continue
		}
		return name
	}
}

// calledFromAttach reports whether the function that called Send() is
// (*router).AttachClient or (*realm).handleSession themselves (not one of
// their closures, not the session handler).
func calledFromAttach() bool {
	name := directCaller()
	return strings.HasSuffix(name, ".AttachClient") || strings.HasSuffix(name, ".handleSession")
}

// holds are the harness-side schedule gates: messages held in the realm's
// Authorizer (keyed by session id and request id) or in the realm's
// PublishFilterFactory (keyed by the token in PUBLISH.Arguments[0]).
type holds struct {
	mu     sync.Mutex
	authz  map[[2]wamp.ID]chan struct{}
	filter map[string]chan struct{}
}

func newHolds() *holds {
	return &holds{authz: map[[2]wamp.ID]chan struct{}{}, filter: map[string]chan struct{}{}}
}

func waitHold(ch chan struct{}) {
	t := time.NewTimer(holdFallback)
	select {
	case <-ch:
	case <-t.C:
	}
	t.Stop()
}

// deniedURI: requests about topics / procedures "denied.*" are refused.
func deniedURI(m wamp.Message) bool {
	var u wamp.URI
	switch m := m.(type) {
	case *wamp.Publish:
		u = m.Topic
	case *wamp.Subscribe:
		u = m.Topic
	case *wamp.Register:
		u = m.Procedure
	case *wamp.Call:
		u = m.Procedure
	}
	return strings.HasPrefix(string(u), "denied.")
}

// Authorize implements router.Authorizer.  It authorizes everything except
// requests about "denied.*" URIs and never touches the session.
func (h *holds) Authorize(s *wamp.Session, m wamp.Message) (bool, error) {
	if deniedURI(m) {
		return false, nil
	}
	req, ok := requestOf(m)
	if !ok {
		return true, nil
	}
	h.mu.Lock()
	ch := h.authz[[2]wamp.ID{s.ID, req}]
	h.mu.Unlock()
	if ch != nil {
		waitHold(ch)
	}
	return true, nil
}

func (h *holds) filterFactory(m *wamp.Publish) router.PublishFilter {
	if len(m.Arguments) > 0 {
		if tok, ok := m.Arguments[0].(string); ok {
			h.mu.Lock()
			ch := h.filter[tok]
			h.mu.Unlock()
			if ch != nil {
				waitHold(ch)
			}
		}
	}
	return router.NewSimplePublishFilter(m)
}

func requestOf(m wamp.Message) (wamp.ID, bool) {
	switch m := m.(type) {
	case *wamp.Publish:
		return m.Request, true
	case *wamp.Subscribe:
		return m.Request, true
	case *wamp.Unsubscribe:
		return m.Request, true
	case *wamp.Register:
		return m.Request, true
	case *wamp.Unregister:
		return m.Request, true
	case *wamp.Call:
		return m.Request, true
	case *wamp.Cancel:
		return m.Request, true
	}
	return 0, false
}

// rawClient is the client end of a rawsocket connection over net.Pipe with
// the same Send/Recv/Close surface as a local peer.  When nobody receives
// from Recv() its read loop stops reading the connection, so the router's
// writer goroutine blocks in conn.Write: a stalled socket.
type rawClient struct {
	conn net.Conn
	rd   chan wamp.Message
	wr   chan wamp.Message
	done chan struct{}
	once sync.Once
	ser  serialize.JSONSerializer
}

// newRawPair performs the rawsocket handshake by hand (magic 0x7F, max
// length 15, JSON) and returns the client and the router-side peer.
func newRawPair(lg stdlog.StdLog, q int) (*rawClient, wamp.Peer, error) {
	c1, c2 := net.Pipe()
	type acc struct {
		p   wamp.Peer
		err error
	}
	ch := make(chan acc, 1)
	go func() {
		p, err := transport.AcceptRawSocket(c2, lg, 0, q)
		ch <- acc{p, err}
	}()
	_ = c1.SetDeadline(time.Now().Add(time.Minute))
	if _, err := c1.Write([]byte{0x7f, (15 << 4) | 1, 0, 0}); err != nil {
		return nil, nil, err
	}
	var rep [4]byte
	if _, err := io.ReadFull(c1, rep[:]); err != nil {
		return nil, nil, err
	}
	_ = c1.SetDeadline(time.Time{})
	if rep[0] != 0x7f || rep[1]&0xf != 1 {
		return nil, nil, errors.New("rawsocket handshake refused")
	}
	a := <-ch
	if a.err != nil {
		return nil, nil, a.err
	}
	c := &rawClient{conn: c1, rd: make(chan wamp.Message), wr: make(chan wamp.Message), done: make(chan struct{})}
	go c.readLoop()
	go c.writeLoop()
	return c, a.p, nil
}

func (c *rawClient) Recv() <-chan wamp.Message { return c.rd }
func (c *rawClient) Send() chan<- wamp.Message { return c.wr }
func (c *rawClient) IsLocal() bool             { return false }
func (c *rawClient) Close() {
	c.once.Do(func() {
		close(c.done)
		_ = c.conn.Close()
	})
}

func (c *rawClient) readLoop() {
	defer close(c.rd)
	for {
		var hdr [4]byte
		if _, err := io.ReadFull(c.conn, hdr[:]); err != nil {
			return
		}
		n := int(binary.BigEndian.Uint32(hdr[:]) & 0xffffff)
		buf := make([]byte, n)
		if _, err := io.ReadFull(c.conn, buf); err != nil {
			return
		}
		if hdr[0]&7 != 0 {
			continue
		}
		m, err := c.ser.Deserialize(buf)
		if err != nil {
			continue
		}
		select {
		case c.rd <- m:
		case <-c.done:
			return
		}
	}
}

func (c *rawClient) writeLoop() {
	for {
		select {
		case m := <-c.wr:
			b, err := c.ser.Serialize(m)
			if err != nil {
				continue
			}
			var hdr [4]byte
			binary.BigEndian.PutUint32(hdr[:], uint32(len(b)))
			hdr[0] = 0
			if _, err = c.conn.Write(append(hdr[:], b...)); err != nil {
				return
			}
		case <-c.done:
			return
		}
	}
}
