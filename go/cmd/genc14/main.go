// genc14: translator for property C14.
//
// Reads <repo>/wamp/message.go and <repo>/transport/serialize/*.go (non-test)
// with go/parser and writes
//
//	-out  coq/gen/GenC14Schema.v : the message schema (structs, field order,
//	      field kinds, omitempty tags, MessageType() constants, the
//	      NewMessage switch with ERROR's pre-filled fields), the MessagePack
//	      handle options, and the recognised shape of msgToList / listToMsg /
//	      the three Deserialize methods / BinaryData.MarshalJSON;
//	-json summary of the same for the check driver.
//
// Anything it does not understand is an error (exit 2, message on stderr and
// in the JSON summary under "errors"): a broken tie, never silently skipped.
package main

import (
	"bytes"
	"encoding/json"
	"flag"
	"fmt"
	"go/ast"
	"go/parser"
	"go/printer"
	"go/token"
	"os"
	"path/filepath"
	"sort"
	"strconv"
	"strings"
)

type field struct {
	Name string `json:"name"`
	Kind string `json:"kind"`
	Type string `json:"type"`
	Omit bool   `json:"omit"`
}

type sdesc struct {
	Name   string  `json:"name"`
	Code   int64   `json:"code"`
	Fields []field `json:"fields"`
}

type prefill struct {
	Field string `json:"field"`
	What  string `json:"what"`
}

type newcase struct {
	Code    int64     `json:"code"`
	Const   string    `json:"const"`
	Struct  string    `json:"struct"`
	Prefill []prefill `json:"prefill"`
}

type summary struct {
	Structs []sdesc           `json:"structs"`
	New     []newcase         `json:"new"`
	Codes   map[string]int64  `json:"codes"`
	MpOpts  map[string]string `json:"mp_opts"`
	Shape   map[string]string `json:"shape"`
	Errors  []string          `json:"errors"`
	Notes   []string          `json:"notes"`
}

var sum = summary{Codes: map[string]int64{}, MpOpts: map[string]string{}, Shape: map[string]string{}}

func fail(format string, a ...any) {
	sum.Errors = append(sum.Errors, fmt.Sprintf(format, a...))
}

func note(format string, a ...any) {
	sum.Notes = append(sum.Notes, fmt.Sprintf(format, a...))
}

var fset = token.NewFileSet()

func render(n ast.Node) string {
	var b bytes.Buffer
	_ = printer.Fprint(&b, fset, n)
	return b.String()
}

// ---------------------------------------------------------------- message.go

func kindOfType(t string) string {
	switch t {
	case "ID":
		return "FKId"
	case "URI":
		return "FKUri"
	case "string":
		return "FKStr"
	case "Dict":
		return "FKDict"
	case "List":
		return "FKList"
	case "MessageType":
		return "FKMsgType"
	}
	return "FKOther"
}

func parseMessages(path string) {
	f, err := parser.ParseFile(fset, path, nil, parser.ParseComments)
	if err != nil {
		fail("parse %s: %v", path, err)
		return
	}
	structs := map[string]*sdesc{}
	var order []string
	methodCode := map[string]string{} // struct -> const name returned by MessageType()
	for _, d := range f.Decls {
		switch d := d.(type) {
		case *ast.GenDecl:
			if d.Tok == token.CONST {
				for _, s := range d.Specs {
					vs := s.(*ast.ValueSpec)
					id, ok := vs.Type.(*ast.Ident)
					if !ok || id.Name != "MessageType" {
						continue
					}
					if len(vs.Names) != 1 || len(vs.Values) != 1 {
						fail("const spec of MessageType with %d names / %d values", len(vs.Names), len(vs.Values))
						continue
					}
					lit, ok := vs.Values[0].(*ast.BasicLit)
					if !ok || lit.Kind != token.INT {
						fail("MessageType constant %s is not an integer literal: %s", vs.Names[0].Name, render(vs.Values[0]))
						continue
					}
					v, err := strconv.ParseInt(lit.Value, 0, 64)
					if err != nil {
						fail("MessageType constant %s: %v", vs.Names[0].Name, err)
						continue
					}
					sum.Codes[vs.Names[0].Name] = v
				}
			}
			if d.Tok == token.TYPE {
				for _, s := range d.Specs {
					ts := s.(*ast.TypeSpec)
					st, ok := ts.Type.(*ast.StructType)
					if !ok {
						continue
					}
					sd := &sdesc{Name: ts.Name.Name, Code: -1}
					for _, fl := range st.Fields.List {
						tname := render(fl.Type)
						omit := false
						if fl.Tag != nil {
							tag, err := strconv.Unquote(fl.Tag.Value)
							if err != nil {
								fail("struct %s: bad tag %s", sd.Name, fl.Tag.Value)
							}
							// msgToList: strings.Contains(Tag.Get("wamp"), "omitempty")
							wt := structTagGet(tag, "wamp")
							omit = strings.Contains(wt, "omitempty")
						}
						if len(fl.Names) == 0 {
							fail("struct %s: embedded field %s not understood", sd.Name, tname)
							continue
						}
						for _, n := range fl.Names {
							sd.Fields = append(sd.Fields, field{Name: n.Name, Kind: kindOfType(tname), Type: tname, Omit: omit})
						}
					}
					structs[sd.Name] = sd
					order = append(order, sd.Name)
				}
			}
		case *ast.FuncDecl:
			if d.Name.Name == "MessageType" && d.Recv != nil && len(d.Recv.List) == 1 {
				rt := render(d.Recv.List[0].Type)
				rt = strings.TrimPrefix(rt, "*")
				if d.Body == nil || len(d.Body.List) != 1 {
					fail("MessageType() of %s: body not a single return", rt)
					continue
				}
				rs, ok := d.Body.List[0].(*ast.ReturnStmt)
				if !ok || len(rs.Results) != 1 {
					fail("MessageType() of %s: body not a single return", rt)
					continue
				}
				id, ok := rs.Results[0].(*ast.Ident)
				if !ok {
					fail("MessageType() of %s returns %s, not a constant name", rt, render(rs.Results[0]))
					continue
				}
				methodCode[rt] = id.Name
			}
			if d.Name.Name == "NewMessage" && d.Recv == nil {
				parseNewMessage(d)
			}
		}
	}
	for _, n := range order {
		sd := structs[n]
		c, ok := methodCode[n]
		if !ok {
			continue // not a message (e.g. PassthruPayload)
		}
		v, ok := sum.Codes[c]
		if !ok {
			fail("MessageType() of %s returns unknown constant %s", n, c)
			continue
		}
		sd.Code = v
		for _, fl := range sd.Fields {
			if fl.Kind == "FKOther" {
				fail("message struct %s: field %s has type %s, which the model does not know", n, fl.Name, fl.Type)
			}
		}
		sum.Structs = append(sum.Structs, *sd)
	}
	for i := range sum.New {
		nc := &sum.New[i]
		if _, ok := structs[nc.Struct]; !ok {
			fail("NewMessage case %s constructs unknown struct %s", nc.Const, nc.Struct)
		}
	}
	if len(sum.New) == 0 {
		fail("NewMessage switch not found in %s", path)
	}
}

func structTagGet(tag, key string) string {
	// reflect.StructTag.Get, conventional format
	for tag != "" {
		i := 0
		for i < len(tag) && tag[i] == ' ' {
			i++
		}
		tag = tag[i:]
		if tag == "" {
			break
		}
		i = 0
		for i < len(tag) && tag[i] > ' ' && tag[i] != ':' && tag[i] != '"' && tag[i] != 0x7f {
			i++
		}
		if i == 0 || i+1 >= len(tag) || tag[i] != ':' || tag[i+1] != '"' {
			break
		}
		name := tag[:i]
		tag = tag[i+1:]
		i = 1
		for i < len(tag) && tag[i] != '"' {
			if tag[i] == '\\' {
				i++
			}
			i++
		}
		if i >= len(tag) {
			break
		}
		qvalue := tag[:i+1]
		tag = tag[i+1:]
		if key == name {
			value, err := strconv.Unquote(qvalue)
			if err != nil {
				break
			}
			return value
		}
	}
	return ""
}

func parseNewMessage(d *ast.FuncDecl) {
	if d.Type.Params == nil || len(d.Type.Params.List) != 1 || len(d.Type.Params.List[0].Names) != 1 {
		fail("NewMessage: unexpected parameters")
		return
	}
	param := d.Type.Params.List[0].Names[0].Name
	if len(d.Body.List) != 2 {
		fail("NewMessage: body is not `switch …; return nil`")
		return
	}
	sw, ok := d.Body.List[0].(*ast.SwitchStmt)
	if !ok || sw.Init != nil || render(sw.Tag) != param {
		fail("NewMessage: first statement is not `switch %s`", param)
		return
	}
	if r, ok := d.Body.List[1].(*ast.ReturnStmt); !ok || len(r.Results) != 1 || render(r.Results[0]) != "nil" {
		fail("NewMessage: does not end with `return nil`")
	}
	for _, c := range sw.Body.List {
		cc := c.(*ast.CaseClause)
		if cc.List == nil {
			fail("NewMessage: default case not understood")
			continue
		}
		if len(cc.Body) != 1 {
			fail("NewMessage: case %s: body is not a single return", render(cc.List[0]))
			continue
		}
		rs, ok := cc.Body[0].(*ast.ReturnStmt)
		if !ok || len(rs.Results) != 1 {
			fail("NewMessage: case %s: body is not a single return", render(cc.List[0]))
			continue
		}
		ue, ok := rs.Results[0].(*ast.UnaryExpr)
		if !ok || ue.Op != token.AND {
			fail("NewMessage: case %s returns %s, expected &Struct{…}", render(cc.List[0]), render(rs.Results[0]))
			continue
		}
		cl, ok := ue.X.(*ast.CompositeLit)
		if !ok {
			fail("NewMessage: case %s returns %s, expected &Struct{…}", render(cc.List[0]), render(rs.Results[0]))
			continue
		}
		sname := render(cl.Type)
		var pre []prefill
		for _, e := range cl.Elts {
			kv, ok := e.(*ast.KeyValueExpr)
			if !ok {
				fail("NewMessage: %s literal with positional element %s", sname, render(e))
				continue
			}
			k := render(kv.Key)
			v := render(kv.Value)
			switch {
			case v == param:
				pre = append(pre, prefill{k, "PFCode"})
			case v == "Dict{}":
				pre = append(pre, prefill{k, "PFEmptyDict"})
			case v == "List{}":
				pre = append(pre, prefill{k, "PFEmptyList"})
			default:
				fail("NewMessage: %s literal pre-fills %s with %s, not understood", sname, k, v)
			}
		}
		for _, ce := range cc.List {
			id, ok := ce.(*ast.Ident)
			if !ok {
				fail("NewMessage: case expression %s is not a constant name", render(ce))
				continue
			}
			v, ok := sum.Codes[id.Name]
			if !ok {
				fail("NewMessage: case %s is not a MessageType constant seen so far", id.Name)
				continue
			}
			sum.New = append(sum.New, newcase{Code: v, Const: id.Name, Struct: sname, Prefill: pre})
		}
	}
}

// ------------------------------------------------------- transport/serialize

type pkgFuncs struct {
	funcs map[string]*ast.FuncDecl // "Recv.Name" or "Name"
}

func loadSerialize(dir string) *pkgFuncs {
	p := &pkgFuncs{funcs: map[string]*ast.FuncDecl{}}
	ents, err := os.ReadDir(dir)
	if err != nil {
		fail("read %s: %v", dir, err)
		return p
	}
	for _, e := range ents {
		n := e.Name()
		if !strings.HasSuffix(n, ".go") || strings.HasSuffix(n, "_test.go") {
			continue
		}
		f, err := parser.ParseFile(fset, filepath.Join(dir, n), nil, 0)
		if err != nil {
			fail("parse %s: %v", n, err)
			continue
		}
		for _, d := range f.Decls {
			fd, ok := d.(*ast.FuncDecl)
			if !ok {
				continue
			}
			name := fd.Name.Name
			if fd.Recv != nil && len(fd.Recv.List) == 1 {
				name = strings.TrimPrefix(render(fd.Recv.List[0].Type), "*") + "." + name
			}
			if name == "init" {
				name = "init@" + n
			}
			p.funcs[name] = fd
		}
	}
	return p
}

// locals of a function: parameters, named results, := / var / range names
func localsOf(fd *ast.FuncDecl) map[string]bool {
	loc := map[string]bool{}
	addFL := func(fl *ast.FieldList) {
		if fl == nil {
			return
		}
		for _, f := range fl.List {
			for _, n := range f.Names {
				loc[n.Name] = true
			}
		}
	}
	addFL(fd.Recv)
	addFL(fd.Type.Params)
	addFL(fd.Type.Results)
	ast.Inspect(fd.Body, func(n ast.Node) bool {
		switch n := n.(type) {
		case *ast.AssignStmt:
			if n.Tok == token.DEFINE {
				for _, l := range n.Lhs {
					if id, ok := l.(*ast.Ident); ok {
						loc[id.Name] = true
					}
				}
			}
		case *ast.ValueSpec:
			for _, id := range n.Names {
				loc[id.Name] = true
			}
		case *ast.RangeStmt:
			if n.Tok == token.DEFINE {
				if id, ok := n.Key.(*ast.Ident); ok {
					loc[id.Name] = true
				}
				if id, ok := n.Value.(*ast.Ident); ok {
					loc[id.Name] = true
				}
			}
		}
		return true
	})
	return loc
}

// blank renders a node with every local variable name replaced by "_" and
// all white space removed, so that matching ignores naming and layout.
func blank(n ast.Node, loc map[string]bool) string {
	if n == nil {
		return ""
	}
	s := render(n)
	// re-parse is overkill: walk identifiers by position instead
	type span struct{ a, b int }
	var spans []span
	base := n.Pos()
	ast.Inspect(n, func(x ast.Node) bool {
		if se, ok := x.(*ast.SelectorExpr); ok {
			// do not blank the selected field/method name
			ast.Inspect(se.X, func(y ast.Node) bool {
				if id, ok := y.(*ast.Ident); ok && loc[id.Name] {
					spans = append(spans, span{int(id.Pos() - base), int(id.End() - base)})
				}
				return true
			})
			return false
		}
		if id, ok := x.(*ast.Ident); ok && loc[id.Name] {
			spans = append(spans, span{int(id.Pos() - base), int(id.End() - base)})
		}
		return true
	})
	// positions refer to the original source, not to the rendering; render
	// from source text instead
	src := srcOf(n)
	if src == "" {
		src = s
		spans = nil
	}
	sort.Slice(spans, func(i, j int) bool { return spans[i].a < spans[j].a })
	var b strings.Builder
	last := 0
	for _, sp := range spans {
		if sp.a < last || sp.b > len(src) {
			continue
		}
		b.WriteString(src[last:sp.a])
		b.WriteString("_")
		last = sp.b
	}
	b.WriteString(src[last:])
	out := b.String()
	out = stripComments(out)
	out = strings.Join(strings.Fields(out), "")
	return out
}

var fileSrc = map[string][]byte{}

func srcOf(n ast.Node) string {
	pos := fset.Position(n.Pos())
	end := fset.Position(n.End())
	if pos.Filename == "" {
		return ""
	}
	b, ok := fileSrc[pos.Filename]
	if !ok {
		var err error
		b, err = os.ReadFile(pos.Filename)
		if err != nil {
			return ""
		}
		fileSrc[pos.Filename] = b
	}
	if pos.Offset < 0 || end.Offset > len(b) || pos.Offset > end.Offset {
		return ""
	}
	return string(b[pos.Offset:end.Offset])
}

func stripComments(s string) string {
	var b strings.Builder
	i := 0
	inStr := byte(0)
	for i < len(s) {
		c := s[i]
		if inStr != 0 {
			b.WriteByte(c)
			if c == '\\' && inStr != '`' && i+1 < len(s) {
				b.WriteByte(s[i+1])
				i += 2
				continue
			}
			if c == inStr {
				inStr = 0
			}
			i++
			continue
		}
		if c == '"' || c == '`' || c == '\'' {
			inStr = c
			b.WriteByte(c)
			i++
			continue
		}
		if c == '/' && i+1 < len(s) && s[i+1] == '/' {
			for i < len(s) && s[i] != '\n' {
				i++
			}
			continue
		}
		if c == '/' && i+1 < len(s) && s[i+1] == '*' {
			i += 2
			for i+1 < len(s) && !(s[i] == '*' && s[i+1] == '/') {
				i++
			}
			i += 2
			b.WriteByte(' ')
			continue
		}
		b.WriteByte(c)
		i++
	}
	return b.String()
}

func boolStr(b bool) string {
	if b {
		return "true"
	}
	return "false"
}

// the statements of a block and of the blocks directly nested in it (if/for
// bodies), flattened in source order: tolerant of extra nesting.
func walkStmts(b *ast.BlockStmt, f func(ast.Stmt)) {
	if b == nil {
		return
	}
	for _, s := range b.List {
		f(s)
	}
}

func endsWith(b *ast.BlockStmt, what string) bool {
	if b == nil || len(b.List) == 0 {
		return false
	}
	last := b.List[len(b.List)-1]
	switch what {
	case "continue":
		bs, ok := last.(*ast.BranchStmt)
		return ok && bs.Tok == token.CONTINUE
	case "break":
		bs, ok := last.(*ast.BranchStmt)
		return ok && bs.Tok == token.BREAK
	case "return":
		_, ok := last.(*ast.ReturnStmt)
		return ok
	}
	return false
}

func shapeListToMsg(p *pkgFuncs) {
	fd := p.funcs["listToMsg"]
	sum.Shape["sh_l2m_unknown_code_err"] = "false"
	sum.Shape["sh_l2m_loop_bounds"] = "false"
	sum.Shape["sh_l2m_nil_skip"] = "false"
	sum.Shape["sh_l2m_cascade_order"] = "false"
	sum.Shape["sh_conv"] = "CVUnknown"
	if fd == nil {
		fail("function listToMsg not found")
		return
	}
	loc := localsOf(fd)
	if fd.Type.Params == nil || fd.Type.Params.NumFields() != 2 {
		fail("listToMsg: expected 2 parameters")
		return
	}
	// 1. NewMessage nil check
	sawNew, sawNilErr := false, false
	var loop *ast.ForStmt
	for _, s := range fd.Body.List {
		switch s := s.(type) {
		case *ast.AssignStmt:
			if len(s.Rhs) == 1 && blank(s.Rhs[0], loc) == "wamp.NewMessage(_)" {
				sawNew = true
			}
		case *ast.IfStmt:
			if sawNew && blank(s.Cond, loc) == "_==nil" && endsWith(s.Body, "return") {
				r := s.Body.List[len(s.Body.List)-1].(*ast.ReturnStmt)
				if len(r.Results) == 2 && render(r.Results[0]) == "nil" && render(r.Results[1]) != "nil" {
					sawNilErr = true
				}
			}
		case *ast.ForStmt:
			if loop == nil {
				loop = s
			}
		}
	}
	sum.Shape["sh_l2m_unknown_code_err"] = boolStr(sawNew && sawNilErr)
	if loop == nil {
		fail("listToMsg: field loop not found")
		return
	}
	// 2. loop header
	okHdr := blank(loop.Init, loc) == "_:=0" && blank(loop.Post, loc) == "_++" &&
		(blank(loop.Cond, loc) == "_<_.NumField()&&_<len(_)-1" || blank(loop.Cond, loc) == "_<len(_)-1&&_<_.NumField()")
	sum.Shape["sh_l2m_loop_bounds"] = boolStr(okHdr)
	// 3/4. body
	nilSkip := false
	var seq []string
	conv := "CVUnknown"
	for _, s := range loop.Body.List {
		switch s := s.(type) {
		case *ast.IfStmt:
			c := blank(s.Cond, loc)
			body := blank(s.Body, loc)
			switch {
			case c == "_[_+1]==nil" && len(s.Body.List) == 1 && endsWith(s.Body, "continue"):
				if len(seq) == 0 {
					nilSkip = true
				}
			case c == "_.Kind()==reflect.Pointer" || c == "_.Kind()==reflect.Ptr":
				// pointer deref of the item: decoders never hand out pointers
			case c == "_.Type().AssignableTo(_.Type())":
				if strings.Contains(body, "_.Set(_)") && endsWith(s.Body, "continue") {
					seq = append(seq, "assign")
				}
			case strings.HasPrefix(c, "_.Type().ConvertibleTo(_.Type())"):
				if strings.Contains(body, "_.Set(_.Convert(_.Type()))") && endsWith(s.Body, "continue") {
					seq = append(seq, "convert")
					rest := strings.TrimPrefix(c, "_.Type().ConvertibleTo(_.Type())")
					switch rest {
					case "":
						conv = "CVReflect"
					case "&&convertsExactly(_,_.Type())":
						if guardIsExact(p) {
							conv = "CVExact"
						} else {
							note("listToMsg: conversion guard convertsExactly present but its body is not the recognised one")
						}
					default:
						note("listToMsg: unrecognised conversion guard %q", rest)
					}
				}
			case c == "_.Type().Kind()!=_.Type().Kind()":
				if endsWith(s.Body, "return") {
					seq = append(seq, "kinderr")
				}
			case c == "_.Type().Kind()==reflect.Map":
				if strings.Contains(body, "assignMap(_,_)") && endsWith(s.Body, "continue") {
					seq = append(seq, "map")
				}
			case c == "_.Type().Kind()==reflect.Slice":
				if strings.Contains(body, "assignSlice(_,_)") && endsWith(s.Body, "continue") {
					seq = append(seq, "slice")
				}
			default:
				seq = append(seq, "?if:"+c)
			}
		case *ast.ExprStmt:
			if ce, ok := s.X.(*ast.CallExpr); ok && render(ce.Fun) == "panic" {
				seq = append(seq, "panic")
			} else {
				seq = append(seq, "?expr")
			}
		case *ast.AssignStmt:
			// f := val.Field(i); arg := reflect.ValueOf(vlist[i+1]); arg = arg.Elem()
		default:
			seq = append(seq, "?stmt")
		}
	}
	sum.Shape["sh_l2m_nil_skip"] = boolStr(nilSkip)
	want := "assign,convert,kinderr,map,slice,panic"
	got := strings.Join(seq, ",")
	sum.Shape["sh_l2m_cascade_order"] = boolStr(got == want)
	if got != want {
		note("listToMsg: cascade recognised as [%s], expected [%s]", got, want)
	}
	sum.Shape["sh_conv"] = conv
	// assignMap / assignSlice / convertType must exist (their bodies are only
	// reachable with item types no decoder produces, except []byte -> List)
	for _, n := range []string{"assignMap", "assignSlice", "convertType"} {
		if p.funcs[n] == nil {
			fail("function %s not found", n)
		}
	}
}

// the recognised body of the repair's guard (fixes/C14-lossy-field-conversion.patch)
const exactGuardBody = `{switch_.Kind(){casereflect.String:return_.Kind()==reflect.String||_.Kind()==reflect.Slicecasereflect.Uint,reflect.Uint8,reflect.Uint16,reflect.Uint32,reflect.Uint64:switch{case_.CanInt():return_.Int()>=0case_.CanFloat():_:=_.Float()return_>=0&&_<1<<64&&_==math.Trunc(_)}casereflect.Int,reflect.Int8,reflect.Int16,reflect.Int32,reflect.Int64:switch{case_.CanUint():return_.Uint()<=math.MaxInt64case_.CanFloat():_:=_.Float()return_>=-1<<63&&_<1<<63&&_==math.Trunc(_)}}returntrue}`

func guardIsExact(p *pkgFuncs) bool {
	fd := p.funcs["convertsExactly"]
	if fd == nil {
		return false
	}
	got := blank(fd.Body, localsOf(fd))
	if got != exactGuardBody {
		note("convertsExactly body: %s", got)
	}
	return got == exactGuardBody
}

func shapeMsgToList(p *pkgFuncs) {
	fd := p.funcs["msgToList"]
	sum.Shape["sh_m2l_trailing_loop"] = "false"
	sum.Shape["sh_m2l_keeps_prefix"] = "false"
	if fd == nil {
		fail("function msgToList not found")
		return
	}
	loc := localsOf(fd)
	var lastInit bool
	var trailing bool
	var mk, code, copyLoop, ret bool
	for _, s := range fd.Body.List {
		switch s := s.(type) {
		case *ast.AssignStmt:
			b := blank(s, loc)
			switch {
			case b == "_:=_.Type().NumField()-1":
				lastInit = true
			case b == "_:=make([]any,_+2)" || b == "_:=make([]interface{},_+2)":
				mk = true
			case b == "_[0]=int(_.MessageType())":
				code = true
			}
		case *ast.ForStmt:
			c := blank(s.Cond, loc)
			if s.Init == nil && c == "_>0" && blank(s.Post, loc) == "_--" {
				// body: tag := …Tag.Get("wamp"); if !Contains(tag,"omitempty") || Len() > 0 { break }
				var tagOK, condOK bool
				for _, bs := range s.Body.List {
					switch bs := bs.(type) {
					case *ast.AssignStmt:
						if blank(bs, loc) == `_:=_.Type().Field(_).Tag.Get("wamp")` {
							tagOK = true
						}
					case *ast.IfStmt:
						cc := blank(bs.Cond, loc)
						if (cc == `!strings.Contains(_,"omitempty")||_.Field(_).Len()>0`) && len(bs.Body.List) == 1 && endsWith(bs.Body, "break") {
							condOK = true
						}
					}
				}
				if tagOK && condOK && len(s.Body.List) == 2 {
					trailing = true
				}
			}
			if blank(s.Init, loc) == "_:=0" && c == "_<=_" && blank(s.Post, loc) == "_++" {
				if len(s.Body.List) == 1 && blank(s.Body.List[0], loc) == "_[_+1]=_.Field(_).Interface()" {
					copyLoop = true
				}
			}
		case *ast.ReturnStmt:
			if len(s.Results) == 1 && blank(s.Results[0], loc) == "_" {
				ret = true
			}
		}
	}
	sum.Shape["sh_m2l_trailing_loop"] = boolStr(lastInit && trailing)
	sum.Shape["sh_m2l_keeps_prefix"] = boolStr(mk && code && copyLoop && ret)
	if !(lastInit && trailing) {
		note("msgToList: trailing-omitempty loop not recognised (lastInit=%v loop=%v)", lastInit, trailing)
	}
	if !(mk && code && copyLoop && ret) {
		note("msgToList: result construction not recognised (make=%v code=%v copy=%v return=%v)", mk, code, copyLoop, ret)
	}
}

func shapeDeserialize(p *pkgFuncs, recv, key, handle string) {
	sum.Shape["sh_top_"+key] = "TRUnknown"
	sum.Shape["sh_code_"+key] = "CRUnknown"
	fd := p.funcs[recv+".Deserialize"]
	if fd == nil {
		fail("method %s.Deserialize not found", recv)
		return
	}
	loc := localsOf(fd)
	txt := blank(fd.Body, loc)
	dec := "codec.NewDecoderBytes(_," + handle + ").Decode(&_)"
	tail := ""
	switch {
	case strings.HasPrefix(txt, "{var_[]any_:="+dec+"if_!=nil{returnnil,_}iflen(_)==0{returnnil,errors.New(\"invalidmessage\")}"):
		sum.Shape["sh_top_"+key] = "TRIntoSlice"
		tail = strings.TrimPrefix(txt, "{var_[]any_:="+dec+"if_!=nil{returnnil,_}iflen(_)==0{returnnil,errors.New(\"invalidmessage\")}")
	case strings.HasPrefix(txt, "{var_any_:="+dec+"if_!=nil{returnnil,_}_,_:=_.([]any)if!_||len(_)==0{returnnil,errors.New(\"invalidmessage\")}"):
		sum.Shape["sh_top_"+key] = "TRAnyThenAssert"
		tail = strings.TrimPrefix(txt, "{var_any_:="+dec+"if_!=nil{returnnil,_}_,_:=_.([]any)if!_||len(_)==0{returnnil,errors.New(\"invalidmessage\")}")
	default:
		note("%s.Deserialize: decoding prologue not recognised: %s", recv, txt)
		return
	}
	switch tail {
	case `_,_:=_[0].(uint64)if!_{returnnil,errors.New("unsupportedmessageformat")}_:=int(_)returnlistToMsg(wamp.MessageType(_),_)}`:
		sum.Shape["sh_code_"+key] = "CRUint64Only"
	case `_,_:=_[0].(int64)if!_{_,_:=_[0].(uint64)if!_||_>math.MaxInt{returnnil,errors.New("unsupportedmessageformat")}_=int64(_)}returnlistToMsg(wamp.MessageType(_),_)}`:
		sum.Shape["sh_code_"+key] = "CRInt64OrUint64"
	default:
		note("%s.Deserialize: code extraction not recognised: %s", recv, tail)
	}
}

func shapeSerialize(p *pkgFuncs, recv, handle string) {
	fd := p.funcs[recv+".Serialize"]
	if fd == nil {
		fail("method %s.Serialize not found", recv)
		return
	}
	txt := blank(fd.Body, localsOf(fd))
	want := "{var_[]byte_:=codec.NewEncoderBytes(&_," + handle + ").Encode(msgToList(_))return_,_}"
	if txt != want {
		fail("%s.Serialize: body not recognised: %s", recv, txt)
	}
}

func shapeHandles(p *pkgFuncs) {
	// collect `X.Field = value` and `X = <constructor>` in the init functions,
	// remembering in WHICH function each one stands
	type asg struct{ lhs, rhs, fn string }
	var all []asg
	names := make([]string, 0, len(p.funcs))
	for name := range p.funcs {
		names = append(names, name)
	}
	sort.Strings(names)
	for _, name := range names {
		fd := p.funcs[name]
		if !strings.HasPrefix(name, "init@") && name != "InitMsgpackHandle" {
			continue
		}
		for _, s := range fd.Body.List {
			switch s := s.(type) {
			case *ast.AssignStmt:
				if len(s.Lhs) == 1 && len(s.Rhs) == 1 && s.Tok == token.ASSIGN {
					all = append(all, asg{strings.Join(strings.Fields(render(s.Lhs[0])), ""), strings.Join(strings.Fields(render(s.Rhs[0])), ""), name})
				} else {
					fail("%s: statement not understood: %s", name, render(s))
				}
			case *ast.ExprStmt:
				if render(s.X) != "InitMsgpackHandle()" {
					fail("%s: statement not understood: %s", name, render(s))
				}
			default:
				fail("%s: statement not understood: %s", name, render(s))
			}
		}
	}
	// A handle option must be set by the very function that constructs the
	// handle: a handle can be constructed again later (InitMsgpackHandle is
	// public and documented as the way to re-register extensions), and an
	// option set elsewhere - e.g. in init() after the call - is then lost.
	creator := map[string][]string{}
	for _, a := range all {
		if a.lhs == "jh" || a.lhs == "ch" || a.lhs == "mh" {
			creator[a.lhs] = append(creator[a.lhs], a.fn)
		}
	}
	for _, a := range all {
		if len(a.lhs) > 3 && a.lhs[2] == '.' {
			h := a.lhs[:2]
			in := false
			for _, c := range creator[h] {
				if c == a.fn {
					in = true
				}
			}
			if !in && len(creator[h]) > 0 {
				fail("%s is set in %s but the handle %s is constructed in %s: the option is lost when the handle is constructed again",
					a.lhs, a.fn, h, strings.Join(creator[h], ", "))
			}
		}
	}
	for h, cs := range creator {
		// every constructor of the handle must set MapType itself
		for _, c := range cs {
			has := false
			for _, a := range all {
				if a.fn == c && a.lhs == h+".MapType" {
					has = true
				}
			}
			if !has {
				fail("%s constructs the handle %s without setting %s.MapType (maps decoded through that handle would be map[any]any)", c, h, h)
			}
		}
	}
	sum.MpOpts["mp_write_ext"] = "false"
	sum.MpOpts["mp_raw_to_string"] = "false"
	mapType := map[string]bool{}
	created := map[string]bool{}
	const mt = "reflect.TypeFor[map[string]any]()"
	for _, a := range all {
		switch a.lhs {
		case "jh":
			if a.rhs != "&codec.JsonHandle{}" {
				fail("JSON handle constructed as %s: options not understood", a.rhs)
			}
			created["jh"] = true
		case "ch":
			if a.rhs != "&codec.CborHandle{}" {
				fail("CBOR handle constructed as %s: options not understood", a.rhs)
			}
			created["ch"] = true
		case "mh":
			if a.rhs != "new(codec.MsgpackHandle)" && a.rhs != "&codec.MsgpackHandle{}" {
				fail("MessagePack handle constructed as %s: options not understood", a.rhs)
			}
			created["mh"] = true
		case "jh.MapType", "ch.MapType", "mh.MapType":
			if a.rhs != mt {
				fail("%s = %s: only map[string]any is modelled", a.lhs, a.rhs)
			} else {
				mapType[a.lhs[:2]] = true
			}
		case "mh.WriteExt", "mh.RawToString":
			if a.rhs != "true" && a.rhs != "false" {
				fail("%s = %s: not a boolean literal", a.lhs, a.rhs)
			} else if a.lhs == "mh.WriteExt" {
				sum.MpOpts["mp_write_ext"] = a.rhs
			} else {
				sum.MpOpts["mp_raw_to_string"] = a.rhs
			}
		default:
			fail("handle option %s = %s is not modelled", a.lhs, a.rhs)
		}
	}
	for _, h := range []string{"jh", "mh", "ch"} {
		if !created[h] {
			fail("construction of handle %s not found", h)
		}
		if !mapType[h] {
			fail("handle %s does not set MapType to map[string]any (decoded maps would be map[any]any)", h)
		}
	}
}

func shapeBinaryData(p *pkgFuncs) {
	sum.Shape["sh_bin_prefix_nul"] = "false"
	fd := p.funcs["BinaryData.MarshalJSON"]
	if fd == nil {
		fail("method BinaryData.MarshalJSON not found")
		return
	}
	txt := blank(fd.Body, localsOf(fd))
	want := `{_:=base64.StdEncoding.EncodeToString([]byte(_))var_[]bytereturn_,codec.NewEncoderBytes(&_,jh).Encode("\x00"+_)}`
	if txt == want {
		sum.Shape["sh_bin_prefix_nul"] = "true"
	} else {
		note("BinaryData.MarshalJSON not recognised: %s", txt)
	}
}

// ------------------------------------------------------------------- output

func coqString(s string) string { return `"` + strings.ReplaceAll(s, `"`, `""`) + `"` }

func emitCoq() string {
	var b strings.Builder
	b.WriteString("(* GENERATED by /verif/go/cmd/genc14 from wamp/message.go and transport/serialize/*.go — do not edit *)\n")
	b.WriteString("From Coq Require Import List ZArith String.\nFrom Nexus Require Import Codec.Schema Codec.MsgPack.\nImport ListNotations.\nOpen Scope string_scope.\n\n")
	b.WriteString("Definition gen_codes : list (string * Z) := [\n")
	names := make([]string, 0, len(sum.Codes))
	for n := range sum.Codes {
		names = append(names, n)
	}
	sort.Slice(names, func(i, j int) bool {
		if sum.Codes[names[i]] != sum.Codes[names[j]] {
			return sum.Codes[names[i]] < sum.Codes[names[j]]
		}
		return names[i] < names[j]
	})
	for i, n := range names {
		sep := ";"
		if i == len(names)-1 {
			sep = ""
		}
		fmt.Fprintf(&b, "  (%s, %d%%Z)%s\n", coqString(n), sum.Codes[n], sep)
	}
	b.WriteString("].\n\n")
	b.WriteString("Definition gen_schema : schema := {|\n  sc_structs := [\n")
	for i, s := range sum.Structs {
		fmt.Fprintf(&b, "    {| s_name := %s; s_code := %d%%Z; s_fields := [", coqString(s.Name), s.Code)
		for j, f := range s.Fields {
			if j > 0 {
				b.WriteString("; ")
			}
			fmt.Fprintf(&b, "{| f_name := %s; f_kind := %s; f_omit := %v |}", coqString(f.Name), f.Kind, f.Omit)
		}
		b.WriteString("] |}")
		if i < len(sum.Structs)-1 {
			b.WriteString(";")
		}
		b.WriteString("\n")
	}
	b.WriteString("  ];\n  sc_new := [\n")
	for i, n := range sum.New {
		fmt.Fprintf(&b, "    {| n_code := %d%%Z; n_struct := %s; n_prefill := [", n.Code, coqString(n.Struct))
		for j, p := range n.Prefill {
			if j > 0 {
				b.WriteString("; ")
			}
			fmt.Fprintf(&b, "(%s, %s)", coqString(p.Field), p.What)
		}
		b.WriteString("] |}")
		if i < len(sum.New)-1 {
			b.WriteString(";")
		}
		b.WriteString("\n")
	}
	b.WriteString("  ] |}.\n\n")
	fmt.Fprintf(&b, "Definition gen_mp_opts : mp_opts := {| mp_write_ext := %s; mp_raw_to_string := %s |}.\n\n",
		sum.MpOpts["mp_write_ext"], sum.MpOpts["mp_raw_to_string"])
	b.WriteString("Definition gen_shape : ser_shape := {|\n")
	keys := []string{"sh_code_json", "sh_code_msgpack", "sh_code_cbor", "sh_top_json", "sh_top_msgpack", "sh_top_cbor", "sh_conv",
		"sh_m2l_trailing_loop", "sh_m2l_keeps_prefix", "sh_l2m_unknown_code_err", "sh_l2m_loop_bounds", "sh_l2m_nil_skip",
		"sh_l2m_cascade_order", "sh_bin_prefix_nul"}
	for i, k := range keys {
		sep := ";"
		if i == len(keys)-1 {
			sep = ""
		}
		fmt.Fprintf(&b, "  %s := %s%s\n", k, sum.Shape[k], sep)
	}
	b.WriteString("|}.\n")
	return b.String()
}

func main() {
	repo := flag.String("repo", "/repo", "repository root")
	out := flag.String("out", "", "Coq output file (written only when content changed)")
	jsonOut := flag.String("json", "", "JSON summary output file ('-' = stdout)")
	flag.Parse()
	parseMessages(filepath.Join(*repo, "wamp", "message.go"))
	p := loadSerialize(filepath.Join(*repo, "transport", "serialize"))
	shapeHandles(p)
	shapeMsgToList(p)
	shapeListToMsg(p)
	shapeDeserialize(p, "JSONSerializer", "json", "jh")
	shapeDeserialize(p, "MessagePackSerializer", "msgpack", "mh")
	shapeDeserialize(p, "CBORSerializer", "cbor", "ch")
	shapeSerialize(p, "JSONSerializer", "jh")
	shapeSerialize(p, "MessagePackSerializer", "mh")
	shapeSerialize(p, "CBORSerializer", "ch")
	shapeBinaryData(p)
	if *out != "" && len(sum.Structs) > 0 {
		txt := emitCoq()
		old, err := os.ReadFile(*out)
		if err != nil || string(old) != txt {
			if err := os.MkdirAll(filepath.Dir(*out), 0o755); err == nil {
				if err := os.WriteFile(*out, []byte(txt), 0o644); err != nil {
					fail("write %s: %v", *out, err)
				}
			}
		}
	}
	if *jsonOut != "" {
		js, _ := json.MarshalIndent(sum, "", " ")
		if *jsonOut == "-" {
			os.Stdout.Write(append(js, '\n'))
		} else if err := os.WriteFile(*jsonOut, append(js, '\n'), 0o644); err != nil {
			fmt.Fprintln(os.Stderr, err)
		}
	}
	if len(sum.Errors) > 0 {
		for _, e := range sum.Errors {
			fmt.Fprintln(os.Stderr, "genc14: "+e)
		}
		os.Exit(2)
	}
}
