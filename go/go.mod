module verifharness

go 1.25

require github.com/gammazero/nexus/v3 v3.0.0

replace github.com/gammazero/nexus/v3 => /repo
