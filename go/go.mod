module verifharness

go 1.25

require github.com/gammazero/nexus/v3 v3.0.0

require (
	github.com/gammazero/deque v1.2.1 // indirect
	github.com/gorilla/websocket v1.5.3 // indirect
	github.com/ugorji/go/codec v1.3.1 // indirect
	golang.org/x/crypto v0.48.0 // indirect
)

replace github.com/gammazero/nexus/v3 => /repo
