package drive

import (
	"bufio"
	"fmt"
	"io"
	"os/exec"
	"strconv"
	"strings"
)

// ModelProc is a running instance of the extracted Coq model.
type ModelProc struct {
	cmd *exec.Cmd
	in  io.WriteCloser
	out *bufio.Reader
	// Transcript, when non-nil, records every committed command ("> …") and
	// the raw output lines the runner printed for it ("< …"); the in-kernel
	// replay (coq/cases/RouterCases.v) re-evaluates it with vm_compute.
	Transcript *[]string
}

func StartModel(bin string) (*ModelProc, error) {
	cmd := exec.Command(bin)
	in, err := cmd.StdinPipe()
	if err != nil {
		return nil, err
	}
	out, err := cmd.StdoutPipe()
	if err != nil {
		return nil, err
	}
	if err := cmd.Start(); err != nil {
		return nil, err
	}
	return &ModelProc{cmd: cmd, in: in, out: bufio.NewReaderSize(out, 1<<20)}, nil
}

func (p *ModelProc) Close() {
	p.in.Close()
	p.cmd.Wait()
}

// Send one command line; returns the outputs (receiver model sid, message) and the sizes line.
func (p *ModelProc) Send(line string) (obs []Obs, sizes []int, err error) {
	if _, err = io.WriteString(p.in, line+"\n"); err != nil {
		return nil, nil, err
	}
	record := p.Transcript != nil && !strings.HasPrefix(line, "try")
	if record {
		*p.Transcript = append(*p.Transcript, "> "+line)
	}
	for {
		l, e := p.out.ReadString('\n')
		if e != nil {
			return nil, nil, fmt.Errorf("model runner died: %v", e)
		}
		l = strings.TrimRight(l, "\n")
		if record && strings.HasPrefix(l, "out ") {
			*p.Transcript = append(*p.Transcript, "< "+l)
		}
		switch {
		case l == "end":
			return obs, sizes, err
		case strings.HasPrefix(l, "error "):
			err = fmt.Errorf("model: %s (line: %s)", l[6:], line)
		case strings.HasPrefix(l, "out "):
			rest := l[4:]
			sp := strings.IndexByte(rest, ' ')
			sid, _ := strconv.ParseInt(rest[:sp], 10, 64)
			obs = append(obs, Obs{Recv: int(sid - 100), Msg: ParseTokens(rest[sp+1:])})
		case strings.HasPrefix(l, "sizes"):
			for _, f := range strings.Fields(l)[1:] {
				n, _ := strconv.Atoi(f)
				sizes = append(sizes, n)
			}
		}
	}
}

// Mismatch describes the first op on which model and implementation differ.
type Mismatch struct {
	OpIndex int    `json:"op_index"`
	What    string `json:"what"` // "observations" | "sizes" | "model-error"
	Detail  string `json:"detail"`
}

type ModelRun struct {
	Canon  []map[int][]string
	Sizes  [][]int
	Oracle []int
}

// RunModel replays the resolved ops of an implementation run on the model
// and reports the first difference (nil = they agree on every op).
func RunModel(bin string, sc *Scenario, impl *ImplRun, checkSizes bool) (*ModelRun, *Mismatch, error) {
	return RunModelT(bin, sc, impl, checkSizes, nil)
}

func RunModelT(bin string, sc *Scenario, impl *ImplRun, checkSizes bool, transcript *[]string) (*ModelRun, *Mismatch, error) {
	p, err := StartModel(bin)
	if err != nil {
		return nil, nil, err
	}
	p.Transcript = transcript
	defer p.Close()
	for i := range sc.Realms {
		if _, _, err := p.Send(realmLine(i, &sc.Realms[i], func(idx int) int64 { return modelSid(idx) })); err != nil {
			return nil, nil, err
		}
	}
	mr := &ModelRun{}
	namer := NewPubNamer()
	env := &canonEnv{sidMap: map[string]string{}, authIDs: map[string]bool{}}
	joined := map[int]int{} // session index -> realm, for sessions attached so far
	sid := func(i int) string {
		if _, ok := joined[i]; ok {
			return strconv.FormatInt(modelSid(i), 10)
		}
		return "999999"
	}
	removedRealm := map[int]bool{}
	var clock int64 // virtual time so far (sum of the tick ops)
	incarnation := map[int]int{} // a realm that is removed and added again starts its id counters anew
	realmOf := func(recv int) int {
		if r, ok := joined[recv]; ok {
			return r + 1000*incarnation[r]
		}
		return -1
	}
	for i := range impl.Results {
		r := &impl.Results[i]
		op := r.Op
		if r.Failed != "" && op.Kind != "join" {
			// the implementation side could not perform the op (session gone): skip on both sides
			mr.Canon = append(mr.Canon, nil)
			mr.Sizes = append(mr.Sizes, nil)
			mr.Oracle = append(mr.Oracle, 0)
			continue
		}
		if op.Kind == "msg" {
			id := int64(0)
			if op.M.Ref != nil {
				id = op.M.Ref.Lit
			}
			rk := op.Realm + 1000*incarnation[op.Realm]
			op.M = op.M.resolved(id, sid, func(name string) string { return namer.IDIn(name, rk) })
		}
		if op.Kind == "join" && r.Failed == "" {
			joined[op.Sess] = op.Realm
		}
		created := op.Kind == "addrealm" && r.Failed == "" && removedRealm[op.Realm]
		if op.Kind == "tick" {
			clock += op.Ms
		}
		if op.Kind == "addrealm" && r.Failed == "" && removedRealm[op.Realm] {
			incarnation[op.Realm]++
			removedRealm[op.Realm] = false
		}
		if op.Kind == "rmrealm" {
			removedRealm[op.Realm] = true
		}
		try := func(oracle int) (map[int][]string, []int, *PubNamer, error) {
			line := ""
			if op.Kind == "addrealm" {
				line = "tryrm 999999" // adding a realm produces no output; committed below
			} else {
				line = modelLine("try", &op, oracle)
			}
			obs, sizes, err := p.Send(line)
			if err != nil {
				return nil, nil, nil, err
			}
			nm := &PubNamer{toName: map[string]string{}, toID: map[string]string{}, toRealm: map[string]string{}, n: namer.n}
			for k, v := range namer.toRealm {
				nm.toRealm[k] = v
			}
			for k, v := range namer.toName {
				nm.toName[k] = v
			}
			for k, v := range namer.toID {
				nm.toID[k] = v
			}
			var kept []Obs
			for _, o := range obs {
				if o.Recv < 0 { // the meta session and unknown receivers are not observable
					continue
				}
				kept = append(kept, o)
			}
			return CanonOp(kept, r.Left, env, nm, realmOf), sizes, nm, nil
		}
		oracle := 0
		canon, sizes, nm, err := try(0)
		if err != nil {
			return mr, &Mismatch{OpIndex: i, What: "model-error", Detail: err.Error()}, nil
		}
		if d := diffCanon(r.Canon, canon); d != "" && op.Kind == "msg" && op.M.Kind == "call" {
			for k := 1; k < 64; k++ {
				c2, s2, n2, err := try(k)
				if err == nil && diffCanon(r.Canon, c2) == "" {
					oracle, canon, sizes, nm = k, c2, s2, n2
					break
				}
			}
		}
		doLine := ""
		if op.Kind == "addrealm" {
			doLine = realmLine(op.Realm, &sc.Realms[op.Realm], func(idx int) int64 { return modelSid(idx) })
		} else {
			doLine = modelLine("do", &op, oracle)
		}
		if _, _, err := p.Send(doLine); err != nil {
			return mr, &Mismatch{OpIndex: i, What: "model-error", Detail: err.Error()}, nil
		}
		if created && clock > 0 {
			// the model has no router-level clock: a realm created now starts
			// at the router's current virtual time
			if _, _, err := p.Send(fmt.Sprintf("rtick %d %d", op.Realm, clock)); err != nil {
				return mr, &Mismatch{OpIndex: i, What: "model-error", Detail: err.Error()}, nil
			}
		}
		*namer = *nm
		mr.Canon = append(mr.Canon, canon)
		mr.Sizes = append(mr.Sizes, sizes)
		mr.Oracle = append(mr.Oracle, oracle)
		if d := diffCanon(r.Canon, canon); d != "" {
			return mr, &Mismatch{OpIndex: i, What: "observations", Detail: d}, nil
		}
		if checkSizes && r.Sizes != nil && sizes != nil && fmt.Sprint(r.Sizes) != fmt.Sprint(sizes) {
			return mr, &Mismatch{OpIndex: i, What: "sizes", Detail: fmt.Sprintf("impl %v model %v (realm clients, testaments; broker exact, prefix, wildcard, subscriptions, sessionSubIDSet, history; dealer exact, prefix, wildcard, registrations, calls, invocations, invocationByCall, calleeRegIDSet)", r.Sizes, sizes)}, nil
		}
	}
	return mr, nil, nil
}
