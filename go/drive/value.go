// Package drive is the correspondence harness for the router-core model
// (coq/Router): it runs generated histories against the real router inside
// testing/synctest bubbles and against the extracted Coq model, and compares
// canonicalised observations.
package drive

import (
	"encoding/hex"
	"encoding/json"
	"fmt"
	"math/big"
	"sort"
	"strconv"
	"strings"

	"github.com/gammazero/nexus/v3/wamp"
)

// Val is a WAMP value carrying the Go dynamic kind the router can observe.
//
//	T: 'n' null, 'b' bool, 'i' integer, 's' string, 'l' list, 'd' dict
//	K: for 'i': 'i' int, 'l' int64, 'u' uint64, 'd' wamp.ID, 'f' float64 (integral)
//	   for 's': 's' string, 'u' wamp.URI, 'b' []byte
type Val struct {
	T byte
	K byte
	B bool
	I string // decimal
	S string
	L []Val
	D []KV // insertion order
}

type KV struct {
	K string
	V Val
}

func Null() Val                { return Val{T: 'n'} }
func Bool(b bool) Val          { return Val{T: 'b', B: b} }
func Int(k byte, i int64) Val {
	if i < 0 && (k == 'u' || k == 'd') { // unsigned Go types cannot hold it
		k = 'l'
	}
	return Val{T: 'i', K: k, I: strconv.FormatInt(i, 10)}
}
func IntS(k byte, s string) Val { return Val{T: 'i', K: k, I: s} }
func Str(s string) Val         { return Val{T: 's', K: 's', S: s} }
func URI(s string) Val         { return Val{T: 's', K: 'u', S: s} }
func Bytes(s string) Val       { return Val{T: 's', K: 'b', S: s} }
func List(l ...Val) Val        { return Val{T: 'l', L: l} }
func Dict(kv ...KV) Val        { return Val{T: 'd', D: kv} }

func (v Val) Get(k string) (Val, bool) {
	for _, e := range v.D {
		if e.K == k {
			return e.V, true
		}
	}
	return Val{}, false
}

func (v Val) Set(k string, x Val) Val {
	out := Val{T: 'd'}
	done := false
	for _, e := range v.D {
		if e.K == k {
			out.D = append(out.D, KV{k, x})
			done = true
		} else {
			out.D = append(out.D, e)
		}
	}
	if !done {
		out.D = append(out.D, KV{k, x})
	}
	return out
}

// ---- JSON (replay files): null | bool | ["I<k>","dec"] | ["S<k>","text"] | ["L",v...] | ["D",[k,v]...]

func (v Val) MarshalJSON() ([]byte, error) {
	switch v.T {
	case 'n', 0:
		return []byte("null"), nil
	case 'b':
		return json.Marshal(v.B)
	case 'i':
		return json.Marshal([]string{"I" + string(v.K), v.I})
	case 's':
		if isPrintable(v.S) {
			return json.Marshal([]string{"S" + string(v.K), v.S})
		}
		return json.Marshal([]string{"X" + string(v.K), hex.EncodeToString([]byte(v.S))})
	case 'r':
		return json.Marshal([]string{"R" + string(v.K), v.S})
	case 'l':
		arr := []any{"L"}
		for _, e := range v.L {
			arr = append(arr, e)
		}
		return json.Marshal(arr)
	case 'd':
		arr := []any{"D"}
		for _, e := range v.D {
			arr = append(arr, []any{e.K, e.V})
		}
		return json.Marshal(arr)
	}
	return nil, fmt.Errorf("bad Val %q", v.T)
}

func isPrintable(s string) bool {
	for i := 0; i < len(s); i++ {
		if s[i] < 0x20 || s[i] > 0x7e {
			return false
		}
	}
	return true
}

func (v *Val) UnmarshalJSON(b []byte) error {
	var raw any
	if err := json.Unmarshal(b, &raw); err != nil {
		return err
	}
	x, err := valFromAny(raw)
	*v = x
	return err
}

func valFromAny(raw any) (Val, error) {
	switch r := raw.(type) {
	case nil:
		return Null(), nil
	case bool:
		return Bool(r), nil
	case []any:
		if len(r) == 0 {
			return Val{}, fmt.Errorf("empty array")
		}
		tag, _ := r[0].(string)
		switch {
		case tag == "L":
			out := Val{T: 'l'}
			for _, e := range r[1:] {
				x, err := valFromAny(e)
				if err != nil {
					return Val{}, err
				}
				out.L = append(out.L, x)
			}
			return out, nil
		case tag == "D":
			out := Val{T: 'd'}
			for _, e := range r[1:] {
				p, _ := e.([]any)
				if len(p) != 2 {
					return Val{}, fmt.Errorf("bad dict pair")
				}
				k, _ := p[0].(string)
				x, err := valFromAny(p[1])
				if err != nil {
					return Val{}, err
				}
				out.D = append(out.D, KV{k, x})
			}
			return out, nil
		case len(tag) == 2 && tag[0] == 'I':
			s, _ := r[1].(string)
			return Val{T: 'i', K: tag[1], I: s}, nil
		case len(tag) == 2 && tag[0] == 'R':
			s, _ := r[1].(string)
			return Val{T: 'r', K: tag[1], S: s}, nil
		case len(tag) == 2 && tag[0] == 'S':
			s, _ := r[1].(string)
			return Val{T: 's', K: tag[1], S: s}, nil
		case len(tag) == 2 && tag[0] == 'X':
			s, _ := r[1].(string)
			bs, err := hex.DecodeString(s)
			return Val{T: 's', K: tag[1], S: string(bs)}, err
		}
	}
	return Val{}, fmt.Errorf("bad Val json %v", raw)
}

// ---- token format of the extracted runner

func hx(s string) string {
	if s == "" {
		return "-"
	}
	return hex.EncodeToString([]byte(s))
}

func (v Val) Tokens(sb *strings.Builder) {
	switch v.T {
	case 'n', 0:
		sb.WriteString("N")
	case 'b':
		if v.B {
			sb.WriteString("T")
		} else {
			sb.WriteString("F")
		}
	case 'i':
		sb.WriteString("I" + string(v.K) + " " + v.I)
	case 's':
		sb.WriteString("S" + string(v.K) + " " + hx(v.S))
	case 'l':
		fmt.Fprintf(sb, "L %d", len(v.L))
		for _, e := range v.L {
			sb.WriteByte(' ')
			e.Tokens(sb)
		}
	case 'd':
		fmt.Fprintf(sb, "D %d", len(v.D))
		for _, e := range v.D {
			sb.WriteByte(' ')
			sb.WriteString(hx(e.K))
			sb.WriteByte(' ')
			e.V.Tokens(sb)
		}
	}
}

func (v Val) TokenString() string {
	var sb strings.Builder
	v.Tokens(&sb)
	return sb.String()
}

type tokReader struct {
	t []string
	i int
}

func (r *tokReader) next() string {
	if r.i >= len(r.t) {
		panic("token underrun")
	}
	s := r.t[r.i]
	r.i++
	return s
}

func unhx(s string) string {
	if s == "-" {
		return ""
	}
	b, err := hex.DecodeString(s)
	if err != nil {
		panic(err)
	}
	return string(b)
}

func (r *tokReader) value() Val {
	t := r.next()
	switch {
	case t == "N":
		return Null()
	case t == "T":
		return Bool(true)
	case t == "F":
		return Bool(false)
	case t == "L":
		n, _ := strconv.Atoi(r.next())
		out := Val{T: 'l'}
		for i := 0; i < n; i++ {
			out.L = append(out.L, r.value())
		}
		return out
	case t == "D":
		n, _ := strconv.Atoi(r.next())
		out := Val{T: 'd'}
		for i := 0; i < n; i++ {
			k := unhx(r.next())
			out.D = append(out.D, KV{k, r.value()})
		}
		return out
	case t[0] == 'I':
		return Val{T: 'i', K: t[1], I: r.next()}
	case t[0] == 'S':
		return Val{T: 's', K: t[1], S: unhx(r.next())}
	}
	panic("bad token " + t)
}

func ParseTokens(line string) Val {
	r := &tokReader{t: strings.Fields(line)}
	return r.value()
}

// ---- conversion to and from the Go values the router sees

func (v Val) ToGo() any {
	switch v.T {
	case 'n', 0:
		return nil
	case 'b':
		return v.B
	case 'i':
		bi, _ := new(big.Int).SetString(v.I, 10)
		switch v.K {
		case 'i':
			return int(bi.Int64())
		case 'l':
			return bi.Int64()
		case 'u':
			return bi.Uint64()
		case 'd':
			return wamp.ID(bi.Uint64())
		case 'f':
			f, _ := new(big.Float).SetInt(bi).Float64()
			return f
		}
	case 's':
		switch v.K {
		case 's':
			return v.S
		case 'u':
			return wamp.URI(v.S)
		case 'b':
			return []byte(v.S)
		}
	case 'l':
		l := make(wamp.List, 0, len(v.L))
		for _, e := range v.L {
			l = append(l, e.ToGo())
		}
		return l
	case 'd':
		d := make(wamp.Dict, len(v.D))
		for _, e := range v.D {
			d[e.K] = e.V.ToGo()
		}
		return d
	}
	return nil
}

func (v Val) ToDict() wamp.Dict {
	if v.T != 'd' {
		return wamp.Dict{}
	}
	return v.ToGo().(wamp.Dict)
}

func (v Val) ToList() wamp.List {
	if v.T != 'l' {
		return nil
	}
	return v.ToGo().(wamp.List)
}

// Canon prints a value with numeric and string kinds erased, dict keys
// sorted, nil containers as empty ones.
func (v Val) Canon(sb *strings.Builder) {
	switch v.T {
	case 'n', 0:
		sb.WriteString("null")
	case 'b':
		fmt.Fprintf(sb, "%v", v.B)
	case 'i':
		sb.WriteString(v.I)
	case 's':
		sb.WriteString(strconv.Quote(v.S))
	case 'l':
		sb.WriteByte('[')
		for i, e := range v.L {
			if i > 0 {
				sb.WriteByte(',')
			}
			e.Canon(sb)
		}
		sb.WriteByte(']')
	case 'd':
		kv := append([]KV(nil), v.D...)
		sort.SliceStable(kv, func(i, j int) bool { return kv[i].K < kv[j].K })
		sb.WriteByte('{')
		for i, e := range kv {
			if i > 0 {
				sb.WriteByte(',')
			}
			sb.WriteString(strconv.Quote(e.K))
			sb.WriteByte(':')
			e.V.Canon(sb)
		}
		sb.WriteByte('}')
	}
}

func (v Val) CanonString() string {
	var sb strings.Builder
	v.Canon(&sb)
	return sb.String()
}
