package drive

import (
	"errors"
	"fmt"
	"io"
	"log"
	"strconv"
	"sync"
	"testing"
	"testing/synctest"
	"time"

	"github.com/gammazero/nexus/v3/router"
	"github.com/gammazero/nexus/v3/transport"
	"github.com/gammazero/nexus/v3/wamp"
)

// Obs is one message the router delivered to a client.
type Obs struct {
	Recv int           `json:"recv"` // session index
	Msg  Val           `json:"msg"`  // snapshot taken on receipt
	raw  wamp.Message  // the delivered object itself (aliasing / mutation checks)
	At   int64         `json:"at"` // virtual ms since scenario start
}

type OpResult struct {
	Op     Op    `json:"op"` // resolved (concrete ids)
	Obs    []Obs `json:"obs"`
	Sizes  []int `json:"sizes,omitempty"`
	Left   []int `json:"left,omitempty"`   // sessions whose transport the router closed during this op
	Failed string `json:"failed,omitempty"` // join refused etc.
	Canon  map[int][]string `json:"canon,omitempty"`
}

type ImplRun struct {
	Results []OpResult `json:"results"`
	Sids    []string   `json:"-"`     // real session id per session index ("" if never attached)
	AuthIDs []string   `json:"-"`     // router-generated authid per session index
	Panic   string     `json:"panic,omitempty"`
	Mutated []string   `json:"mutated,omitempty"` // messages that changed after delivery
	Aliased []string   `json:"aliased,omitempty"` // payload objects shared between in-process recipients
	Leaked  string     `json:"leaked,omitempty"`
	CloseLatencyMs int64 `json:"close_latency_ms,omitempty"`
}

type nonLocalPeer struct{ wamp.Peer }

func (nonLocalPeer) IsLocal() bool { return false }

type client struct {
	idx    int
	realm  int
	local  bool
	sid    wamp.ID
	cli    wamp.Peer
	mu     sync.Mutex
	log    []Obs
	closed chan struct{}
	dropped bool
	invs   []int64 // received invocation request ids not yet answered finally
}

type tableAuthz struct {
	rules []Rule
	run   *runner
}

func (a *tableAuthz) Authorize(sess *wamp.Session, msg wamp.Message) (bool, error) {
	code := int(msg.MessageType())
	var uri *wamp.URI
	switch m := msg.(type) {
	case *wamp.Publish:
		uri = &m.Topic
	case *wamp.Subscribe:
		uri = &m.Topic
	case *wamp.Register:
		uri = &m.Procedure
	case *wamp.Call:
		uri = &m.Procedure
	}
	for _, r := range a.rules {
		if r.Code != 0 && r.Code != code {
			continue
		}
		if r.Sess >= 0 && a.run.sidOf(r.Sess) != sess.ID {
			continue
		}
		if r.URI != nil && (uri == nil || string(*uri) != *r.URI) {
			continue
		}
		switch r.Act {
		case "allow":
			return true, nil
		case "deny":
			return false, nil
		case "fail":
			return false, errors.New("<text>")
		case "rewrite":
			if uri != nil {
				*uri = wamp.URI(r.To)
			}
			return true, nil
		}
	}
	return true, nil
}

type runner struct {
	sc      *Scenario
	rt      router.Router
	clients map[int]*client
	mu      sync.Mutex
	start   time.Time
	subIDs  map[string]int64 // "sess/req" -> subscription id
	regIDs  map[string]int64
	namer   *PubNamer
	env     *canonEnv
	histCfgs map[string][]*router.TopicEventHistoryConfig
}

func (r *runner) sidOf(idx int) wamp.ID {
	r.mu.Lock()
	defer r.mu.Unlock()
	if c, ok := r.clients[idx]; ok {
		return c.sid
	}
	return 0
}

func (r *runner) realmOf(recv int) int {
	r.mu.Lock()
	defer r.mu.Unlock()
	if c, ok := r.clients[recv]; ok {
		return c.realm
	}
	return -1
}

func (run *runner) realmConfig(i int) *router.RealmConfig {
	rc := &run.sc.Realms[i]
	c := &router.RealmConfig{
		URI: realmURI(i), StrictURI: rc.Strict, AnonymousAuth: true, AllowDisclose: rc.Disclose,
		MetaStrict: rc.MetaStrict, EnableMetaKill: rc.Kill, EnableMetaModify: rc.Modify,
		RequireLocalAuthz: rc.LocalAuthz, RequireLocalAuth: rc.LocalAuth,
	}
	// Realms built from one configuration share the configuration objects, as
	// realms created from a RealmTemplate do.
	key := fmt.Sprintf("%+v", rc.Hist)
	if run.histCfgs == nil {
		run.histCfgs = map[string][]*router.TopicEventHistoryConfig{}
	}
	if _, ok := run.histCfgs[key]; !ok {
		var l []*router.TopicEventHistoryConfig
		for _, h := range rc.Hist {
			l = append(l, &router.TopicEventHistoryConfig{Topic: wamp.URI(h.Topic), MatchPolicy: h.Match, Limit: h.Limit})
		}
		run.histCfgs[key] = l
	}
	c.TopicEventHistoryConfigs = run.histCfgs[key]
	if len(rc.Rules) > 0 {
		c.Authorizer = &tableAuthz{rules: rc.Rules, run: run}
	}
	return c
}

func realmURI(i int) wamp.URI { return wamp.URI("realm" + strconv.Itoa(i)) }

// RunImpl executes the scenario against the real router inside a synctest
// bubble and returns what every client observed after each op.
func RunImpl(t *testing.T, sc *Scenario) (res *ImplRun) {
	res = &ImplRun{}
	defer func() {
		if p := recover(); p != nil {
			res.Panic = fmt.Sprint(p)
		}
	}()
	synctest.Test(t, func(t *testing.T) {
		runInBubble(sc, res)
	})
	return res
}

func runInBubble(sc *Scenario, res *ImplRun) {
	run := &runner{sc: sc, clients: map[int]*client{}, subIDs: map[string]int64{}, regIDs: map[string]int64{}, start: time.Now(),
		namer: NewPubNamer(), env: &canonEnv{sidMap: map[string]string{}, authIDs: map[string]bool{}}}
	cfg := &router.Config{Debug: sc.Debug}
	for i := range sc.Realms {
		if sc.Template && i >= sc.TplFrom {
			if i == sc.TplFrom {
				tpl := run.realmConfig(i)
				tpl.URI = ""
				cfg.RealmTemplate = tpl
			}
			continue
		}
		cfg.RealmConfigs = append(cfg.RealmConfigs, run.realmConfig(i))
	}
	rt, err := router.NewRouter(cfg, log.New(io.Discard, "", 0))
	if err != nil {
		res.Panic = "NewRouter: " + err.Error()
		return
	}
	run.rt = rt
	synctest.Wait()

	nsess := 0
	for _, op := range sc.Ops {
		if op.Sess+1 > nsess {
			nsess = op.Sess + 1
		}
	}
	res.Sids = make([]string, nsess)
	res.AuthIDs = make([]string, nsess)
	marks := map[int]int{}
	var all []Obs

	for i := range sc.Ops {
		op := sc.Ops[i]
		or := OpResult{Op: op}
		closedBefore := map[int]bool{}
		for idx, c := range run.clients {
			closedBefore[idx] = isClosed(c)
		}
		run.exec(&or, res)
		synctest.Wait()
		// collect
		for idx, c := range run.clients {
			c.mu.Lock()
			for _, o := range c.log[marks[idx]:] {
				or.Obs = append(or.Obs, o)
				if m, ok := o.raw.(*wamp.Invocation); ok {
					c.invs = append(c.invs, int64(m.Request))
				}
				if m, ok := o.raw.(*wamp.Subscribed); ok {
					run.subIDs[fmt.Sprintf("%d/%d", idx, m.Request)] = int64(m.Subscription)
				}
				if m, ok := o.raw.(*wamp.Registered); ok {
					run.regIDs[fmt.Sprintf("%d/%d", idx, m.Request)] = int64(m.Registration)
				}
			}
			marks[idx] = len(c.log)
			c.mu.Unlock()
			if !closedBefore[idx] && isClosed(c) {
				or.Left = append(or.Left, idx)
			}
		}
		all = append(all, or.Obs...)
		for idx, c := range run.clients {
			run.env.sidMap[strconv.FormatUint(uint64(c.sid), 10)] = strconv.FormatInt(modelSid(idx), 10)
		}
		for _, a := range res.AuthIDs {
			if a != "" {
				run.env.authIDs[a] = true
			}
		}
		or.Canon = CanonOp(or.Obs, or.Left, run.env, run.namer, run.realmOf)
		if sizes, ok := router.VerifTableSizes(rt, realmURI(op.Realm)); ok {
			or.Sizes = sizes
		}
		res.Results = append(res.Results, or)
	}

	// messages must not change after delivery
	for _, o := range all {
		if now := MsgToVal(o.raw).CanonString(); now != o.Msg.CanonString() {
			res.Mutated = append(res.Mutated, fmt.Sprintf("recv=%d delivered=%s now=%s", o.Recv, o.Msg.CanonString(), now))
		}
	}
	res.Aliased = aliasCheck(all, run)

	for idx, c := range run.clients {
		res.Sids[idx] = strconv.FormatUint(uint64(c.sid), 10)
	}
	// shut down: everything must drain or the bubble reports the leak
	// (clients first: Close with calls and call timers pending is C06's subject)
	for _, c := range run.clients {
		if !c.dropped && !isClosed(c) {
			c.dropped = true
			c.cli.Close()
		}
	}
	synctest.Wait()
	// Close must not wait for anything a client chose (e.g. the timeout of a
	// call whose caller has left): it takes no virtual time
	before := time.Now()
	rt.Close()
	if d := time.Since(before); d > 0 {
		res.CloseLatencyMs = d.Milliseconds() + 1
	}
	synctest.Wait()
}

func isClosed(c *client) bool {
	select {
	case <-c.closed:
		return true
	default:
		return false
	}
}

func (run *runner) vnow() int64 { return time.Since(run.start).Milliseconds() }

func (run *runner) exec(or *OpResult, res *ImplRun) {
	op := &or.Op
	switch op.Kind {
	case "join":
		if _, dup := run.clients[op.Sess]; dup {
			or.Failed = "duplicate session index"
			return
		}
		cli, rtr := transport.LinkedPeersQSize(4096)
		var peer wamp.Peer = rtr
		if !op.Local {
			peer = nonLocalPeer{rtr}
		}
		hello := &wamp.Hello{Realm: realmURI(op.Realm), Details: orEmptyDict(op.Hello).ToDict()}
		go func() { cli.Send() <- hello }()
		var td wamp.Dict
		if op.Transport.T == 'd' && len(op.Transport.D) > 0 {
			td = op.Transport.ToDict()
		}
		err := run.rt.AttachClient(peer, td)
		var first wamp.Message
		select {
		case first = <-cli.Recv():
		default:
		}
		if err != nil {
			or.Failed = "attach: " + err.Error()
			if first != nil {
				or.Obs = append(or.Obs, Obs{Recv: op.Sess, Msg: MsgToVal(first), raw: first, At: run.vnow()})
			}
			return
		}
		w, ok := first.(*wamp.Welcome)
		if !ok {
			or.Failed = "no WELCOME"
			return
		}
		c := &client{idx: op.Sess, realm: op.Realm, local: op.Local, sid: w.ID, cli: cli, closed: make(chan struct{})}
		run.mu.Lock()
		run.clients[op.Sess] = c
		run.mu.Unlock()
		if a, _ := wamp.AsString(w.Details["authid"]); a != "" {
			given, _ := wamp.AsString(hello.Details["authid"])
			if !op.Local || op.AuthLocal || given == "" {
				res.AuthIDs[op.Sess] = a
			}
		}
		go func() {
			for m := range cli.Recv() {
				o := Obs{Recv: c.idx, Msg: MsgToVal(m), raw: m, At: run.vnow()}
				c.mu.Lock()
				c.log = append(c.log, o)
				c.mu.Unlock()
			}
			close(c.closed)
		}()
	case "badjoin":
		// HELLO for a realm that does not exist and cannot be created (not a
		// URI): answered with ABORT, nothing else happens; in particular the
		// router goes on attaching other clients afterwards.
		cli, rtr := transport.LinkedPeersQSize(16)
		go func() { cli.Send() <- &wamp.Hello{Realm: "No Such Realm", Details: orEmptyDict(op.Hello).ToDict()} }()
		if err := run.rt.AttachClient(nonLocalPeer{rtr}, nil); err == nil {
			or.Failed = "attach to an impossible realm succeeded"
		}
		cli.Close()
	case "drop":
		c := run.clients[op.Sess]
		if c == nil || c.dropped || isClosed(c) {
			or.Failed = "not attached"
			return
		}
		c.dropped = true
		c.cli.Close()
	case "tick":
		time.Sleep(time.Duration(op.Ms) * time.Millisecond)
	case "rmrealm":
		run.rt.RemoveRealm(realmURI(op.Realm))
	case "addrealm":
		// AddRealm of a realm that exists must fail and change nothing (the
		// model's RAddRealm is a no-op then); the error itself is not compared
		_ = run.rt.AddRealm(run.realmConfig(op.Realm))
	case "msg":
		c := run.clients[op.Sess]
		if c == nil || c.dropped || isClosed(c) {
			or.Failed = "not attached"
			return
		}
		id := run.resolveRef(op.M, c)
		sid := func(i int) string {
			if x, ok := run.clients[i]; ok {
				return strconv.FormatUint(uint64(x.sid), 10)
			}
			return "999999"
		}
		m := op.M.resolved(id, sid, run.namer.ID)
		keep := *op.M // symbolic payload, concrete id: what the model side is given
		keep.Ref = &Ref{Kind: "lit", Lit: id}
		op.M = &keep
		if m.Kind == "call" && m.URI == "wamp.subscription.get_events" {
			// the model's decimal virtual milliseconds stand for RFC3339 times
			m.Kw = timesToRFC3339(m.Kw, run.start)
		}
		msg := buildMsg(m, id)
		select {
		case c.cli.Send() <- msg:
		case <-c.closed:
			or.Failed = "session ended"
		}
		if m.Kind == "bye" {
			c.dropped = true // the router closes its side; nothing more is sent
		}
		if (m.Kind == "yield" || m.Kind == "err") && m.Final {
			for i, x := range c.invs {
				if x == id {
					c.invs = append(c.invs[:i:i], c.invs[i+1:]...)
					break
				}
			}
		}
	}
}

func (run *runner) resolveRef(m *Msg, c *client) int64 {
	if m.Ref == nil {
		return 0
	}
	switch m.Ref.Kind {
	case "lit":
		return m.Ref.Lit
	case "sub":
		if id, ok := run.subIDs[fmt.Sprintf("%d/%d", m.Ref.Sess, m.Ref.Req)]; ok {
			return id
		}
		return 999999
	case "reg":
		if id, ok := run.regIDs[fmt.Sprintf("%d/%d", m.Ref.Sess, m.Ref.Req)]; ok {
			return id
		}
		return 999999
	case "inv":
		src := run.clients[m.Ref.Sess]
		if src == nil || len(src.invs) == 0 {
			return 777777
		}
		p := m.Ref.Pick % len(src.invs)
		if p < 0 {
			p += len(src.invs)
		}
		return src.invs[p]
	}
	return 0
}

func buildMsg(m *Msg, id int64) wamp.Message {
	req := wamp.ID(m.Req)
	switch m.Kind {
	case "pub":
		return &wamp.Publish{Request: req, Options: orEmptyDict(m.Opts).ToDict(), Topic: wamp.URI(m.URI), Arguments: m.Args.ToList(), ArgumentsKw: kwOrNil(m.Kw)}
	case "sub":
		return &wamp.Subscribe{Request: req, Options: orEmptyDict(m.Opts).ToDict(), Topic: wamp.URI(m.URI)}
	case "unsub":
		return &wamp.Unsubscribe{Request: req, Subscription: wamp.ID(id)}
	case "reg":
		return &wamp.Register{Request: req, Options: orEmptyDict(m.Opts).ToDict(), Procedure: wamp.URI(m.URI)}
	case "unreg":
		return &wamp.Unregister{Request: req, Registration: wamp.ID(id)}
	case "call":
		return &wamp.Call{Request: req, Options: orEmptyDict(m.Opts).ToDict(), Procedure: wamp.URI(m.URI), Arguments: m.Args.ToList(), ArgumentsKw: kwOrNil(m.Kw)}
	case "cancel":
		return &wamp.Cancel{Request: req, Options: orEmptyDict(m.Opts).ToDict()}
	case "yield":
		return &wamp.Yield{Request: wamp.ID(id), Options: orEmptyDict(m.Opts).ToDict(), Arguments: m.Args.ToList(), ArgumentsKw: kwOrNil(m.Kw)}
	case "err":
		return &wamp.Error{Type: wamp.MessageType(m.ErrType), Request: wamp.ID(id), Details: orEmptyDict(m.Opts).ToDict(), Error: wamp.URI(m.ErrURI), Arguments: m.Args.ToList(), ArgumentsKw: kwOrNil(m.Kw)}
	case "bye":
		return &wamp.Goodbye{Reason: wamp.CloseRealm, Details: wamp.Dict{}}
	case "other":
		switch m.Code {
		case 1:
			return &wamp.Hello{Realm: "x", Details: wamp.Dict{}}
		case 2:
			return &wamp.Welcome{Details: wamp.Dict{}}
		case 5:
			return &wamp.Authenticate{Extra: wamp.Dict{}}
		case 36:
			return &wamp.Event{Details: wamp.Dict{}}
		case 50:
			return &wamp.Result{Details: wamp.Dict{}}
		case 68:
			return &wamp.Invocation{Details: wamp.Dict{}}
		case 69:
			return &wamp.Interrupt{Options: wamp.Dict{}}
		default:
			return &wamp.Subscribed{}
		}
	}
	panic("bad msg kind " + m.Kind)
}

func kwOrNil(v Val) wamp.Dict {
	if v.T != 'd' || len(v.D) == 0 {
		return nil
	}
	return v.ToDict()
}

func timesToRFC3339(kw Val, start time.Time) Val {
	if kw.T != 'd' {
		return kw
	}
	out := Val{T: 'd'}
	for _, e := range kw.D {
		v := e.V
		switch e.K {
		case "from_time", "after_time", "before_time", "until_time":
			if v.T == 's' && v.K == 's' {
				if ms, err := strconv.ParseInt(v.S, 10, 64); err == nil && ms >= 0 {
					v = Str(start.Add(time.Duration(ms) * time.Millisecond).UTC().Format(time.RFC3339Nano))
				}
			}
		}
		out.D = append(out.D, KV{e.K, v})
	}
	return out
}
