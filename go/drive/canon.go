package drive

import (
	"fmt"
	"reflect"
	"sort"
	"strings"

	"github.com/gammazero/nexus/v3/wamp"
)

// Canonicalisation: only projected observables are compared.
//   - real session ids -> model session ids (100+index), anywhere in a payload
//   - router-generated authids -> "<gen>"
//   - "created" timestamps -> "<created>"
//   - publication ids -> canonical names P1, P2, ... assigned per op in the
//     order of a signature that does not depend on the ids themselves
//   - numeric / string kinds erased, dict keys sorted, nil containers = empty
//   - free-text arguments of router-generated errors and ABORT messages masked
//   - per op and receiver the messages are compared as a multiset (Go map
//     iteration order, handler-vs-broker races are not part of any property
//     decided here; ordering claims are C08's)
//   - when SEVERAL sessions end during one op only their GOODBYE/ABORT are
//     compared (a session ending alone is compared in full)

type PubNamer struct {
	toName map[string]string // side-specific id -> canonical name
	toID   map[string]string // canonical name -> side-specific id
	toRealm map[string]string // canonical name -> realm (incarnation) key it was seen in
	n      int
}

func NewPubNamer() *PubNamer {
	return &PubNamer{toName: map[string]string{}, toID: map[string]string{}, toRealm: map[string]string{}}
}

func (p *PubNamer) ID(name string) string {
	if id, ok := p.toID[name]; ok {
		return id
	}
	return "0"
}

// IDIn resolves a publication name for an op in the given realm.  The
// model's publication ids are per-realm counters and collide across realms
// (the router's are random); a name that belongs to another realm must not
// resolve to an id that also exists here.
func (p *PubNamer) IDIn(name string, realmKey int) string {
	if id, ok := p.toID[name]; ok {
		if p.toRealm[name] == fmt.Sprint(realmKey) {
			return id
		}
		return "999999"
	}
	return "0"
}

func msgCode(m Val) int64 {
	if m.T == 'l' && len(m.L) > 0 && m.L[0].T == 'i' {
		var c int64
		fmt.Sscan(m.L[0].I, &c)
		return c
	}
	return -1
}

// pubIDs lists the publication ids occurring in a message (positions only).
func pubPositions(m Val, f func(id *Val)) {
	switch msgCode(m) {
	case 36: // EVENT [36, sub, pub, ...]
		if len(m.L) > 2 {
			f(&m.L[2])
		}
	case 17: // PUBLISHED [17, req, pub]
		if len(m.L) > 2 {
			f(&m.L[2])
		}
	case 50: // RESULT [50, req, details, args, kw]: history entries
		if len(m.L) > 3 && m.L[3].T == 'l' {
			for i := range m.L[3].L {
				e := &m.L[3].L[i]
				if e.T == 'd' {
					for j := range e.D {
						if e.D[j].K == "Publication" && e.D[j].V.T == 'i' {
							f(&e.D[j].V)
						}
					}
				}
			}
		}
	}
}

type canonEnv struct {
	sidMap  map[string]string // real sid (decimal) -> model sid
	authIDs map[string]bool   // router-generated authids
}

func (e *canonEnv) walk(v Val, key string) Val {
	switch v.T {
	case 'i':
		if e != nil {
			if m, ok := e.sidMap[v.I]; ok {
				return Val{T: 'i', K: 'd', I: m}
			}
		}
		return Val{T: 'i', K: 'l', I: v.I}
	case 's':
		if key == "created" {
			return Str("<created>")
		}
		if e != nil && e.authIDs[v.S] {
			return Str("<gen>")
		}
		return Str(v.S)
	case 'l':
		out := Val{T: 'l'}
		for _, x := range v.L {
			out.L = append(out.L, e.walk(x, ""))
		}
		return out
	case 'd':
		out := Val{T: 'd'}
		for _, x := range v.D {
			out.D = append(out.D, KV{x.K, e.walk(x.V, x.K)})
		}
		sort.SliceStable(out.D, func(i, j int) bool { return out.D[i].K < out.D[j].K })
		return out
	}
	return v
}

// maskText hides free text the router generates.
func maskText(m Val) Val {
	switch msgCode(m) {
	case 3: // ABORT [3, details, reason]
		if len(m.L) > 1 && m.L[1].T == 'd' {
			if _, ok := m.L[1].Get("message"); ok {
				m.L[1] = m.L[1].Set("message", Str("<text>"))
			}
		}
	case 8: // ERROR [8, ty, req, details, err, args, kw]
		if len(m.L) > 3 && m.L[3].T == 'd' {
			if _, ok := m.L[3].Get("error"); ok && len(m.L) > 4 && m.L[4].S == "wamp.error.feature_not_supported" {
				m.L[3] = m.L[3].Set("error", Str("<text>")) // router-generated text
			}
		}
		if len(m.L) > 5 && m.L[1].T == 'i' && m.L[1].I != "48" && m.L[5].T == 'l' && len(m.L[5].L) > 0 {
			m.L[5] = List(Str("<text>"))
		}
	}
	return m
}

// CanonOp canonicalises the observations of one op.  left = sessions that
// ended during the op.  Returns per receiver the sorted canonical strings.
func CanonOp(obs []Obs, left []int, env *canonEnv, namer *PubNamer, realmOf func(recv int) int) map[int][]string {
	key := func(recv int, id string) string { return fmt.Sprintf("%d:%s", realmOf(recv), id) }
	gone := map[int]bool{}
	for _, s := range left {
		gone[s] = true
	}
	type item struct {
		recv int
		msg  Val
	}
	var items []item
	for _, o := range obs {
		c := msgCode(o.Msg)
		if c == 2 { // WELCOME is consumed by the join itself
			continue
		}
		if gone[o.Recv] && len(left) >= 2 && c != 6 && c != 3 {
			// several sessions ending in one step: what each still receives
			// of the others' departure depends on handler scheduling.  A
			// session ending alone is compared in full: the model sends it
			// nothing but its GOODBYE / ABORT.
			continue
		}
		m := maskText(env.walk(o.Msg, ""))
		if len(left) >= 2 && c == 36 {
			m = maskLeaver(m, left)
		}
		items = append(items, item{o.Recv, m})
	}
	// new publication ids of this op, ordered by an id-independent signature
	sig := map[string][]string{}
	for _, it := range items {
		var ids []string
		pubPositions(it.msg, func(id *Val) { ids = append(ids, id.I) })
		if len(ids) == 0 {
			continue
		}
		masked := cloneVal(it.msg)
		pubPositions(masked, func(id *Val) {
			if n, ok := namer.toName[key(it.recv, id.I)]; ok {
				*id = Str(n)
			} else {
				*id = Str("P?")
			}
		})
		s := fmt.Sprintf("%d|%s", it.recv, masked.CanonString())
		for pos, id := range ids {
			if _, known := namer.toName[key(it.recv, id)]; !known {
				// the position inside the message separates ids that the
				// masked message cannot (entries of one history answer)
				sig[key(it.recv, id)] = append(sig[key(it.recv, id)], fmt.Sprintf("%s#%04d", s, pos))
			}
		}
	}
	var fresh []string
	for id := range sig {
		sort.Strings(sig[id])
		fresh = append(fresh, id)
	}
	sort.Slice(fresh, func(i, j int) bool {
		a, b := strings.Join(sig[fresh[i]], "\n"), strings.Join(sig[fresh[j]], "\n")
		if a != b {
			return a < b
		}
		return len(fresh[i]) < len(fresh[j]) || (len(fresh[i]) == len(fresh[j]) && fresh[i] < fresh[j])
	})
	for _, id := range fresh {
		namer.n++
		name := fmt.Sprintf("P%d", namer.n)
		namer.toName[id] = name
		namer.toID[name] = id[strings.IndexByte(id, ':')+1:]
		if namer.toRealm == nil {
			namer.toRealm = map[string]string{}
		}
		namer.toRealm[name] = id[:strings.IndexByte(id, ':')]
	}
	out := map[int][]string{}
	for _, it := range items {
		pubPositions(it.msg, func(id *Val) {
			if n, ok := namer.toName[key(it.recv, id.I)]; ok {
				*id = Str(n)
			}
		})
		if msgCode(it.msg) == 50 {
			it.msg = sortIntLists(it.msg)
		}
		out[it.recv] = append(out[it.recv], it.msg.CanonString())
	}
	for k := range out {
		sort.Strings(out[k])
	}
	return out
}

// sortIntLists orders every list that consists of integers only: the id
// lists of the meta API come out in Go map iteration order.
func sortIntLists(v Val) Val {
	switch v.T {
	case 'l':
		out := Val{T: 'l'}
		allInt := len(v.L) > 1
		for _, e := range v.L {
			x := sortIntLists(e)
			if x.T != 'i' {
				allInt = false
			}
			out.L = append(out.L, x)
		}
		if allInt {
			sort.SliceStable(out.L, func(i, j int) bool {
				a, b := out.L[i].I, out.L[j].I
				return len(a) < len(b) || (len(a) == len(b) && a < b)
			})
		}
		return out
	case 'd':
		out := Val{T: 'd'}
		for _, e := range v.D {
			out.D = append(out.D, KV{e.K, sortIntLists(e.V)})
		}
		return out
	}
	return v
}

// maskLeaver: when several sessions end in one step (kill_by_*, kill_all) the
// order in which their handlers leave is the scheduler's, so which of them
// was the last member of a subscription or registration (first argument of
// the on_delete meta event) is not determined.
func maskLeaver(m Val, left []int) Val {
	if len(m.L) > 4 && m.L[4].T == 'l' && len(m.L[4].L) == 2 && m.L[4].L[0].T == 'i' && m.L[4].L[1].T == 'i' {
		for _, s := range left {
			if m.L[4].L[0].I == fmt.Sprint(modelSid(s)) {
				m.L[4] = List(Str("<a-leaving-session>"), m.L[4].L[1])
				break
			}
		}
	}
	return m
}

func cloneVal(v Val) Val {
	switch v.T {
	case 'l':
		out := Val{T: 'l'}
		for _, e := range v.L {
			out.L = append(out.L, cloneVal(e))
		}
		return out
	case 'd':
		out := Val{T: 'd'}
		for _, e := range v.D {
			out.D = append(out.D, KV{e.K, cloneVal(e.V)})
		}
		return out
	}
	return v
}

func diffCanon(a, b map[int][]string) string {
	keys := map[int]bool{}
	for k := range a {
		keys[k] = true
	}
	for k := range b {
		keys[k] = true
	}
	var ks []int
	for k := range keys {
		ks = append(ks, k)
	}
	sort.Ints(ks)
	var sb strings.Builder
	for _, k := range ks {
		x, y := a[k], b[k]
		if strings.Join(x, "\n") == strings.Join(y, "\n") {
			continue
		}
		fmt.Fprintf(&sb, "receiver %d:\n  impl : %s\n  model: %s\n", k, strings.Join(x, "\n         "), strings.Join(y, "\n         "))
	}
	return sb.String()
}

// ---- aliasing between recipients (C12)

func objPtr(x any) uintptr {
	rv := reflect.ValueOf(x)
	switch rv.Kind() {
	case reflect.Map, reflect.Slice:
		if rv.IsNil() || rv.Len() == 0 {
			return 0
		}
		return rv.Pointer()
	}
	return 0
}

func payloadObjs(m wamp.Message) map[string]uintptr {
	switch x := m.(type) {
	case *wamp.Event:
		return map[string]uintptr{"details": objPtr(map[string]any(x.Details)), "args": objPtr([]any(x.Arguments)), "kwargs": objPtr(map[string]any(x.ArgumentsKw))}
	case *wamp.Invocation:
		return map[string]uintptr{"details": objPtr(map[string]any(x.Details)), "args": objPtr([]any(x.Arguments)), "kwargs": objPtr(map[string]any(x.ArgumentsKw))}
	}
	return nil
}

// aliasCheck: a details/args/kwargs object delivered to an in-process
// recipient must not be the object delivered in any other message.
func aliasCheck(all []Obs, run *runner) []string {
	type owner struct {
		i     int
		field string
	}
	seen := map[uintptr]owner{}
	var bad []string
	for i, o := range all {
		objs := payloadObjs(o.raw)
		if objs == nil {
			continue
		}
		for f, p := range objs {
			if p == 0 {
				continue
			}
			if prev, ok := seen[p]; ok && prev.i != i {
				a, b := run.clients[all[prev.i].Recv], run.clients[o.Recv]
				if (a != nil && a.local) || (b != nil && b.local) {
					bad = append(bad, fmt.Sprintf("%s of message to session %d is the same object as %s of message to session %d: %s", f, o.Recv, prev.field, all[prev.i].Recv, o.Msg.CanonString()))
				}
				continue
			}
			seen[p] = owner{i, f}
		}
	}
	return bad
}
