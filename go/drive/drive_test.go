package drive

import (
	"encoding/json"
	"fmt"
	"os"
	"testing"
)

// TestReplay runs the scenarios of $DRIVE_REPLAY (a JSON file holding one
// scenario or a list) and prints implementation, model and verdict.
func TestReplay(t *testing.T) {
	path := os.Getenv("DRIVE_REPLAY")
	if path == "" {
		t.Skip("DRIVE_REPLAY not set")
	}
	data, err := os.ReadFile(path)
	if err != nil {
		t.Fatal(err)
	}
	var scs []Scenario
	if err := json.Unmarshal(data, &scs); err != nil {
		var one struct {
			Scenario *Scenario `json:"scenario"`
		}
		var sc Scenario
		if json.Unmarshal(data, &one) == nil && one.Scenario != nil {
			scs = []Scenario{*one.Scenario}
		} else if err2 := json.Unmarshal(data, &sc); err2 == nil {
			scs = []Scenario{sc}
		} else {
			t.Fatal(err)
		}
	}
	bin := os.Getenv("DRIVE_MODEL")
	for i := range scs {
		impl := RunImpl(t, &scs[i])
		if impl.Panic != "" {
			fmt.Printf("scenario %s: implementation PANIC: %s\n", scs[i].Name, impl.Panic)
		}
		mr, mm, err := RunModel(bin, &scs[i], impl, true)
		if err != nil {
			t.Fatal(err)
		}
		for k, r := range impl.Results {
			b, _ := json.Marshal(r.Op)
			fmt.Printf("op %d %s\n", k, b)
			if r.Failed != "" {
				fmt.Printf("   (not performed: %s)\n", r.Failed)
			}
			fmt.Printf("   impl : %v sizes %v left %v\n", r.Canon, r.Sizes, r.Left)
			if k < len(mr.Canon) {
				fmt.Printf("   model: %v sizes %v\n", mr.Canon[k], mr.Sizes[k])
			}
		}
		if mm != nil {
			fmt.Printf("MISMATCH at op %d (%s):\n%s\n", mm.OpIndex, mm.What, mm.Detail)
		} else {
			fmt.Printf("scenario %s: model and implementation agree on %d ops\n", scs[i].Name, len(impl.Results))
		}
		for _, v := range checkMonitors(&scs[i], impl) {
			fmt.Printf("MONITOR %s: %s\n", v.Property, v.What)
		}
	}
}

// TestOne regenerates one scenario ($DRIVE_ONE) and runs it several times.
func TestOne(t *testing.T) {
	pj := os.Getenv("DRIVE_ONE")
	if pj == "" {
		t.Skip("DRIVE_ONE not set")
	}
	var p struct {
		Profile string `json:"profile"`
		Seed    uint64 `json:"seed"`
		Idx     int    `json:"idx"`
		MaxOps  int    `json:"max_ops"`
		MaxSess int    `json:"max_sess"`
		Model   string `json:"model"`
		Reps    int    `json:"reps"`
	}
	if err := json.Unmarshal([]byte(pj), &p); err != nil {
		t.Fatal(err)
	}
	sc := Generate(p.Profile, p.Seed, p.Idx, p.MaxOps, p.MaxSess)
	bp := &BatchParams{Model: p.Model, CheckSizes: true}
	for i := 0; i < p.Reps; i++ {
		impl, _, mm, mons := runOne(t, bp, sc)
		if mm != nil {
			b, _ := json.Marshal(impl.Results[mm.OpIndex].Op)
			fmt.Printf("rep %d: MISMATCH at op %d (%s) %s\n%s\n", i, mm.OpIndex, mm.What, b, mm.Detail)
		}
		for _, v := range mons {
			fmt.Printf("rep %d: MONITOR %s %s\n", i, v.Property, v.What)
		}
		if mm == nil && len(mons) == 0 {
			fmt.Printf("rep %d: ok\n", i)
		}
	}
}
