package drive

import (
	"fmt"
	"math"
	"reflect"
	"sort"
	"strconv"

	"github.com/gammazero/nexus/v3/wamp"
)

// FromGo snapshots a Go value delivered by the router into a Val (deep copy).
func FromGo(x any) Val {
	switch v := x.(type) {
	case nil:
		return Null()
	case bool:
		return Bool(v)
	case int:
		return Int('i', int64(v))
	case int64:
		return Int('l', v)
	case int32:
		return Int('l', int64(v))
	case uint64:
		return IntS('u', strconv.FormatUint(v, 10))
	case uint:
		return IntS('u', strconv.FormatUint(uint64(v), 10))
	case uint32:
		return IntS('u', strconv.FormatUint(uint64(v), 10))
	case wamp.ID:
		return IntS('d', strconv.FormatUint(uint64(v), 10))
	case float64:
		if v == math.Trunc(v) && math.Abs(v) < 1e18 {
			return Int('f', int64(v))
		}
		return Str(fmt.Sprintf("<float %v>", v))
	case string:
		return Str(v)
	case wamp.URI:
		return URI(string(v))
	case []byte:
		return Bytes(string(v))
	case wamp.List:
		return listFrom(len(v), func(i int) any { return v[i] })
	case []any:
		return listFrom(len(v), func(i int) any { return v[i] })
	case wamp.Dict:
		return dictFrom(v)
	case map[string]any:
		return dictFrom(v)
	}
	rv := reflect.ValueOf(x)
	switch rv.Kind() {
	case reflect.Slice, reflect.Array:
		return listFrom(rv.Len(), func(i int) any { return rv.Index(i).Interface() })
	case reflect.Map:
		out := Val{T: 'd'}
		keys := rv.MapKeys()
		sort.Slice(keys, func(i, j int) bool { return fmt.Sprint(keys[i]) < fmt.Sprint(keys[j]) })
		for _, k := range keys {
			out.D = append(out.D, KV{fmt.Sprint(k.Interface()), FromGo(rv.MapIndex(k).Interface())})
		}
		return out
	case reflect.Struct:
		// e.g. router.storedEvent: exported fields become dict keys (what a
		// serializer does with it)
		out := Val{T: 'd'}
		t := rv.Type()
		for i := 0; i < rv.NumField(); i++ {
			if !t.Field(i).IsExported() {
				continue
			}
			out.D = append(out.D, KV{t.Field(i).Name, FromGo(rv.Field(i).Interface())})
		}
		return out
	case reflect.Pointer:
		if rv.IsNil() {
			return Null()
		}
		return FromGo(rv.Elem().Interface())
	case reflect.Int, reflect.Int8, reflect.Int16, reflect.Int32, reflect.Int64:
		return Int('l', rv.Int())
	case reflect.Uint, reflect.Uint8, reflect.Uint16, reflect.Uint32, reflect.Uint64:
		return IntS('u', strconv.FormatUint(rv.Uint(), 10))
	case reflect.String:
		return Str(rv.String())
	}
	return Str(fmt.Sprintf("<%T>", x))
}

func listFrom(n int, at func(int) any) Val {
	out := Val{T: 'l'}
	for i := 0; i < n; i++ {
		out.L = append(out.L, FromGo(at(i)))
	}
	return out
}

func dictFrom(m map[string]any) Val {
	out := Val{T: 'd'}
	keys := make([]string, 0, len(m))
	for k := range m {
		keys = append(keys, k)
	}
	sort.Strings(keys)
	for _, k := range keys {
		out.D = append(out.D, KV{k, FromGo(m[k])})
	}
	return out
}

func code(n int) Val { return Int('l', int64(n)) }
func idv(i wamp.ID) Val { return IntS('d', strconv.FormatUint(uint64(i), 10)) }

func dictOrEmpty(d wamp.Dict) Val {
	if d == nil {
		return Val{T: 'd'}
	}
	return dictFrom(d)
}
func listOrEmpty(l wamp.List) Val {
	if l == nil {
		return Val{T: 'l'}
	}
	return FromGo(l)
}

// MsgToVal renders a router->client message in the list form the model prints
// (arguments always present).
func MsgToVal(m wamp.Message) Val {
	switch x := m.(type) {
	case *wamp.Welcome:
		return List(code(2), idv(x.ID), dictOrEmpty(x.Details))
	case *wamp.Abort:
		return List(code(3), dictOrEmpty(x.Details), URI(string(x.Reason)))
	case *wamp.Goodbye:
		return List(code(6), dictOrEmpty(x.Details), URI(string(x.Reason)))
	case *wamp.Error:
		return List(code(8), code(int(x.Type)), idv(x.Request), dictOrEmpty(x.Details), URI(string(x.Error)), listOrEmpty(x.Arguments), dictOrEmpty(x.ArgumentsKw))
	case *wamp.Published:
		return List(code(17), idv(x.Request), idv(x.Publication))
	case *wamp.Subscribed:
		return List(code(33), idv(x.Request), idv(x.Subscription))
	case *wamp.Unsubscribed:
		return List(code(35), idv(x.Request))
	case *wamp.Event:
		return List(code(36), idv(x.Subscription), idv(x.Publication), dictOrEmpty(x.Details), listOrEmpty(x.Arguments), dictOrEmpty(x.ArgumentsKw))
	case *wamp.Registered:
		return List(code(65), idv(x.Request), idv(x.Registration))
	case *wamp.Unregistered:
		return List(code(67), idv(x.Request))
	case *wamp.Invocation:
		return List(code(68), idv(x.Request), idv(x.Registration), dictOrEmpty(x.Details), listOrEmpty(x.Arguments), dictOrEmpty(x.ArgumentsKw))
	case *wamp.Result:
		return List(code(50), idv(x.Request), dictOrEmpty(x.Details), listOrEmpty(x.Arguments), dictOrEmpty(x.ArgumentsKw))
	case *wamp.Interrupt:
		return List(code(69), idv(x.Request), dictOrEmpty(x.Options))
	case *wamp.Challenge:
		return List(code(4), Str(x.AuthMethod), dictOrEmpty(x.Extra))
	case nil:
		return List(code(-1))
	}
	return List(code(int(m.MessageType())), Str(fmt.Sprintf("<%T>", m)))
}
