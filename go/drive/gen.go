package drive

import (
	"fmt"
	"math/rand/v2"
)

// Scenario generator.  One weighted grammar over a small URI universe with
// deliberate overlaps, profile-specific weights, plus shape templates taken
// from the properties' "why tests cannot" texts.  Every random choice derives
// from (seed, index) through one PCG state, so a scenario is reproducible.

var (
	exactURIs = []string{"a", "a.b", "a.b.c", "a.c", "b", "x.y", "a.b.d"}
	pfxURIs   = []string{"a", "a.", "a.b", "", "a.b.", "x"}
	wcURIs    = []string{"a..c", ".b", "a.", "..", "a.b.", ".b.c", "a..", "x.y"}
	badURIs   = []string{"a b", "a#b", "a..b", ".a", "a.", "", "a\tb"}
	policies  = []string{"", "single", "first", "last", "roundrobin", "random", "roundrobin", "bogus"}
	authroles = []string{"dev", "ops", "qa"}
)

type subRec struct {
	sess int
	req  int64
}
type regRec struct {
	sess int
	req  int64
	uri  string
}
type callRec struct {
	sess int
	req  int64
}

type gen struct {
	r       *rand.Rand
	profile string
	sc      *Scenario
	alive   []int // session indices currently (believed) attached
	realm   map[int]int
	feats   map[int]map[string]bool
	local   map[int]bool
	next    int
	req     map[int]int64
	subs    []subRec
	regs    []regRec
	calls   []callRec
	callees map[int]bool
	pubs    int
	tags    map[string]bool
	maxSess int
	removed map[int]bool
	hasHist bool
}

func (g *gen) pick(l []string) string { return l[g.r.IntN(len(l))] }
func (g *gen) chance(p float64) bool  { return g.r.Float64() < p }
func (g *gen) tag(t string)           { g.tags[t] = true }

func (g *gen) nextReq(s int) int64 {
	g.req[s]++
	return g.req[s]
}

func feat(m map[string]bool) Val {
	d := Val{T: 'd'}
	for _, k := range sortedKeys(m) {
		if m[k] {
			d.D = append(d.D, KV{k, Bool(true)})
		}
	}
	return Dict(KV{"features", d})
}

func sortedKeys(m map[string]bool) []string {
	var ks []string
	for k := range m {
		ks = append(ks, k)
	}
	for i := 1; i < len(ks); i++ {
		for j := i; j > 0 && ks[j] < ks[j-1]; j-- {
			ks[j], ks[j-1] = ks[j-1], ks[j]
		}
	}
	return ks
}

func (g *gen) join(realm int, allFeatures bool) int {
	s := g.next
	g.next++
	f := map[string]bool{}
	on := func(name string, p float64) {
		if allFeatures || g.chance(p) {
			f[name] = true
		}
	}
	on("publisher_identification", 0.6)
	on("call_canceling", 0.7)
	on("progressive_call_results", 0.6)
	on("call_timeout", 0.4)
	on("caller_identification", 0.6)
	on("progressive_call_invocations", 0.5)
	sub := map[string]bool{"publisher_identification": f["publisher_identification"]}
	callee := map[string]bool{"call_canceling": f["call_canceling"], "progressive_call_results": f["progressive_call_results"],
		"call_timeout": f["call_timeout"], "caller_identification": f["caller_identification"],
		"progressive_call_invocations": f["progressive_call_invocations"]}
	caller := map[string]bool{"progressive_call_invocations": allFeatures || g.chance(0.5), "call_canceling": true}
	ppt := allFeatures || g.chance(0.6)
	callee["payload_passthru_mode"] = allFeatures || g.chance(0.6)
	caller["payload_passthru_mode"] = ppt
	g.feats[s] = map[string]bool{"caller_prog": caller["progressive_call_invocations"], "ppt": ppt}
	roles := Dict(KV{"subscriber", feat(sub)}, KV{"publisher", feat(map[string]bool{"publisher_exclusion": true, "payload_passthru_mode": ppt})},
		KV{"callee", feat(callee)}, KV{"caller", feat(caller)})
	if !allFeatures && g.chance(0.15) {
		// a client that announces only some of the four roles (the router
		// does not tie what a session may do to them)
		keep := roles.D[:0:0]
		for _, kv := range roles.D {
			if g.chance(0.55) {
				keep = append(keep, kv)
			}
		}
		if len(keep) == 0 {
			keep = append(keep, roles.D[g.r.IntN(len(roles.D))])
		}
		roles = Val{T: 'd', D: keep}
		g.tag("partial-roles")
	}
	hello := Dict(KV{"roles", roles})
	local := g.chance(0.7) || allFeatures
	if local {
		hello.D = append(hello.D, KV{"authid", Str(fmt.Sprintf("user%d", s%3))})
	}
	if g.chance(0.6) {
		hello.D = append(hello.D, KV{"dept", Str(g.pick(authroles))})
	}
	op := Op{Kind: "join", Realm: realm, Sess: s, Local: local, Hello: hello, AuthLocal: local && g.sc.Realms[realm].LocalAuth}
	if g.chance(0.25) {
		// transport details as a websocket / rawsocket server would supply them
		td := Dict(KV{"peer", Str("10.0.0.7:4242")})
		switch g.r.IntN(4) {
		case 0:
			td.D = append(td.D, KV{"auth", Dict(KV{"cookie", Str("secret-cookie")}, KV{"client_cert", Str("CN=x")})})
		case 1:
			td = Dict(KV{"auth", Dict(KV{"token", Str("t0k3n")})})
		case 2:
			td.D = append(td.D, KV{"auth", Str("not-a-dict")})
		}
		op.Transport = td
		g.tag("transport-details")
	}
	g.sc.Ops = append(g.sc.Ops, op)
	g.alive = append(g.alive, s)
	g.realm[s] = realm
	g.local[s] = local
	return s
}

func (g *gen) anySess() (int, bool) {
	if len(g.alive) == 0 {
		return 0, false
	}
	return g.alive[g.r.IntN(len(g.alive))], true
}

func (g *gen) remove(s int) {
	for i, x := range g.alive {
		if x == s {
			g.alive = append(g.alive[:i:i], g.alive[i+1:]...)
			return
		}
	}
}

func (g *gen) msg(s int, m *Msg) {
	if m.Opts.T == 0 {
		m.Opts = Val{T: 'd'}
	}
	g.sc.Ops = append(g.sc.Ops, Op{Kind: "msg", Realm: g.realm[s], Sess: s, M: m})
}

func (g *gen) payload() (Val, Val) {
	args := Val{T: 'l'}
	n := g.r.IntN(3)
	for i := 0; i < n; i++ {
		switch g.r.IntN(5) {
		case 0:
			args.L = append(args.L, Int('l', int64(g.r.IntN(1000))))
		case 1:
			args.L = append(args.L, Str(g.pick([]string{"x", "héllo", "", "payload"})))
		case 2:
			args.L = append(args.L, List(Int('i', 1), Bool(true), Null()))
		case 3:
			args.L = append(args.L, Dict(KV{"k", Str("v")}, KV{"n", Int('u', 5)}))
		default:
			args.L = append(args.L, Int('l', int64(g.pubs)))
		}
	}
	kw := Val{T: 'd'}
	if g.chance(0.3) {
		kw.D = append(kw.D, KV{"seq", Int('l', int64(g.pubs))})
	}
	return args, kw
}

func (g *gen) topic() (string, string) { // uri, match
	switch g.r.IntN(10) {
	case 0, 1, 2, 3, 4:
		return g.pick(exactURIs), g.pick([]string{"", "", "exact", "bogus"})
	case 5, 6:
		return g.pick(pfxURIs), "prefix"
	case 7, 8:
		return g.pick(wcURIs), "wildcard"
	default:
		return g.pick(badURIs), g.pick([]string{"", "prefix", "wildcard"})
	}
}

func matchOpts(m string) Val {
	if m == "" {
		return Val{T: 'd'}
	}
	return Dict(KV{"match", Str(m)})
}

// kinded: the string-valued options as the decoders of remote clients may
// hand them over: a Go string, a wamp.URI or (MessagePack bin) a []byte
func (g *gen) kinded(o Val) Val {
	if o.T != 'd' || !g.chance(0.2) {
		return o
	}
	d := Val{T: 'd', D: append([]KV{}, o.D...)}
	for i := range d.D {
		if v := d.D[i].V; v.T == 's' && v.K == 's' {
			if g.chance(0.5) {
				d.D[i].V = Bytes(v.S)
			} else {
				d.D[i].V = URI(v.S)
			}
			g.tag("option-string-kind")
		}
	}
	return d
}

func (g *gen) opSubscribe() {
	s, ok := g.anySess()
	if !ok {
		return
	}
	uri, m := g.topic()
	if g.profile == "meta" && g.chance(0.4) {
		uri, m = g.pick([]string{"wamp.subscription.on_create", "wamp.subscription.on_subscribe", "wamp.subscription.on_unsubscribe",
			"wamp.subscription.on_delete", "wamp.registration.on_create", "wamp.registration.on_register",
			"wamp.registration.on_unregister", "wamp.registration.on_delete", "wamp.session.on_join", "wamp.session.on_leave"}), ""
	}
	if (g.profile == "meta" && g.chance(0.25)) || (g.profile != "meta" && g.chance(0.03)) {
		// pattern subscriptions over the meta topics: one meta event then goes
		// through several subscriptions (exact + prefix + wildcard)
		switch g.r.IntN(5) {
		case 0:
			uri, m = "wamp.subscription.", "prefix"
		case 1:
			uri, m = "wamp.registration.", "prefix"
		case 2:
			uri, m = "wamp.", "prefix"
		case 3:
			uri, m = "wamp.session.", "prefix"
		default:
			uri, m = g.pick([]string{"wamp..on_subscribe", "wamp..on_create", "wamp.subscription.", "wamp..on_delete", "wamp..on_unregister"}), "wildcard"
		}
		g.tag("meta-topic-pattern-subscription")
	}
	req := g.nextReq(s)
	g.subs = append(g.subs, subRec{s, req})
	g.msg(s, &Msg{Kind: "sub", Req: req, Opts: g.kinded(matchOpts(m)), URI: uri})
}

func (g *gen) opUnsubscribe() {
	s, ok := g.anySess()
	if !ok {
		return
	}
	req := g.nextReq(s)
	var ref *Ref
	switch {
	case len(g.subs) == 0 || g.chance(0.1):
		ref = &Ref{Kind: "lit", Lit: int64(g.r.IntN(40))}
		g.tag("unsubscribe-unknown-id")
	case g.chance(0.3):
		x := g.subs[g.r.IntN(len(g.subs))]
		ref = &Ref{Kind: "sub", Sess: x.sess, Req: x.req}
		if x.sess != s {
			g.tag("unsubscribe-foreign-id")
		}
	default:
		var own []subRec
		for _, x := range g.subs {
			if x.sess == s {
				own = append(own, x)
			}
		}
		if len(own) == 0 {
			x := g.subs[g.r.IntN(len(g.subs))]
			ref = &Ref{Kind: "sub", Sess: x.sess, Req: x.req}
			g.tag("unsubscribe-foreign-id")
		} else {
			x := own[g.r.IntN(len(own))]
			ref = &Ref{Kind: "sub", Sess: x.sess, Req: x.req}
		}
	}
	g.msg(s, &Msg{Kind: "unsub", Req: req, Ref: ref})
}

func (g *gen) sidList(kind byte) Val {
	l := Val{T: 'l'}
	n := 1 + g.r.IntN(3)
	for i := 0; i < n; i++ {
		switch {
		case g.chance(0.1):
			l.L = append(l.L, g.junk())
		case g.next > 0:
			l.L = append(l.L, SidRef(kind, g.r.IntN(g.next)))
		}
	}
	return l
}

func (g *gen) junk() Val {
	switch g.r.IntN(7) {
	case 0:
		return Null()
	case 1:
		return Bool(true)
	case 2:
		return Int('l', -1)
	case 3:
		return IntS('u', "18446744073709551615")
	case 4:
		return Str("junk")
	case 5:
		return List(Str("x"))
	default:
		return Dict(KV{"a", Int('i', 1)})
	}
}

// pptOpts adds payload passthru options: mostly by sessions that announced
// the feature (a violation aborts the session), with odd value types.
func (g *gen) pptOpts(s int, o *Val, p float64) {
	if !g.chance(p) {
		return
	}
	if !g.feats[s]["ppt"] && !g.chance(0.08) {
		return
	}
	scheme := []Val{Str("x_custom"), Str("mqtt"), Str(""), URI("x_uri"), Int('l', 5)}[g.r.IntN(5)]
	o.D = append(o.D, KV{"ppt_scheme", scheme})
	if g.chance(0.6) {
		o.D = append(o.D, KV{"ppt_serializer", []Val{Str("json"), Int('l', 5), Bytes("cbor"), Null()}[g.r.IntN(4)]})
	}
	if g.chance(0.3) {
		o.D = append(o.D, KV{"ppt_cipher", []Val{Str("xsalsa20poly1305"), Bool(true)}[g.r.IntN(2)]})
	}
	if g.chance(0.3) {
		o.D = append(o.D, KV{"ppt_keyid", []Val{Str("key1"), List(Str("k"))}[g.r.IntN(2)]})
	}
	g.tag("payload-passthru")
}

// testamentPPT: a testament is published by the realm's meta session with the
// options the client stored, which may use payload passthru mode.
func (g *gen) testamentPPT(o *Val, p float64) {
	if !g.chance(p) {
		return
	}
	if g.chance(0.4) {
		// the meta session then gets PUBLISHED (or ERROR) for its own publication
		o.D = append(o.D, KV{"acknowledge", Bool(true)})
		if g.chance(0.5) {
			return
		}
	}
	o.D = append(o.D, KV{"ppt_scheme", []Val{Str("x_custom"), Str("mqtt"), Str(""), Int('l', 5)}[g.r.IntN(4)]})
	if g.chance(0.5) {
		o.D = append(o.D, KV{"ppt_serializer", []Val{Str("json"), Bytes("cbor")}[g.r.IntN(2)]})
	}
	g.tag("testament-passthru")
}

func (g *gen) opPublish() {
	s, ok := g.anySess()
	if !ok {
		return
	}
	g.pubs++
	uri := g.pick(exactURIs)
	if g.chance(0.08) {
		uri = g.pick(badURIs)
		g.tag("publish-invalid-uri")
	}
	o := Val{T: 'd'}
	if g.chance(0.5) {
		o.D = append(o.D, KV{"acknowledge", Bool(g.chance(0.85))})
	}
	if g.chance(0.35) {
		if g.chance(0.9) {
			o.D = append(o.D, KV{"exclude_me", Bool(g.chance(0.5))})
		} else {
			o.D = append(o.D, KV{"exclude_me", g.junk()})
		}
	}
	if g.chance(0.25) {
		o.D = append(o.D, KV{"disclose_me", Bool(g.chance(0.9))})
		g.tag("disclose_me")
	}
	if g.chance(0.2) {
		k := []byte{'d', 'l', 'u', 'f', 'i'}[g.r.IntN(5)]
		if g.chance(0.9) {
			o.D = append(o.D, KV{"exclude", g.sidList(k)})
		} else {
			o.D = append(o.D, KV{"exclude", g.junk()})
		}
		g.tag("exclude-list")
	}
	if g.chance(0.2) {
		k := []byte{'d', 'l', 'u', 'f', 'i'}[g.r.IntN(5)]
		if g.chance(0.9) {
			o.D = append(o.D, KV{"eligible", g.sidList(k)})
		} else {
			o.D = append(o.D, KV{"eligible", g.junk()})
		}
		g.tag("eligible-list")
	}
	attrList := func() Val {
		l := Val{T: 'l'}
		n := 1 + g.r.IntN(2)
		for i := 0; i < n; i++ {
			switch g.r.IntN(6) {
			case 0:
				l.L = append(l.L, Str(""))
			case 1:
				l.L = append(l.L, Int('l', 3))
			case 2:
				l.L = append(l.L, Str("trusted"))
			case 3:
				l.L = append(l.L, Str(fmt.Sprintf("user%d", g.r.IntN(3))))
			default:
				l.L = append(l.L, Str(g.pick(authroles)))
			}
		}
		return l
	}
	if g.chance(0.15) {
		o.D = append(o.D, KV{g.pick([]string{"exclude_authid", "exclude_authrole", "exclude_dept", "exclude_"}), attrList()})
		g.tag("exclude-attr")
	}
	if g.chance(0.15) {
		o.D = append(o.D, KV{g.pick([]string{"eligible_authid", "eligible_authrole", "eligible_dept"}), attrList()})
		g.tag("eligible-attr")
	}
	g.pptOpts(s, &o, 0.08)
	args, kw := g.payload()
	g.msg(s, &Msg{Kind: "pub", Req: g.nextReq(s), Opts: o, URI: uri, Args: args, Kw: kw})
}

func (g *gen) procURI() (string, string) {
	switch g.r.IntN(10) {
	case 0, 1, 2, 3, 4:
		return g.pick(exactURIs), g.pick([]string{"", "", "exact"})
	case 5, 6:
		return g.pick(pfxURIs), "prefix"
	case 7, 8:
		return g.pick(wcURIs), "wildcard"
	default:
		return g.pick(append(badURIs, "wamp.session.count", "wamp.foo")), g.pick([]string{"", "prefix", "wildcard"})
	}
}

func (g *gen) opRegister() {
	s, ok := g.anySess()
	if !ok {
		return
	}
	uri, m := g.procURI()
	if len(g.regs) > 0 && g.chance(0.35) {
		uri = g.regs[g.r.IntN(len(g.regs))].uri // provoke sharing decisions
		g.tag("register-existing-procedure")
	}
	o := matchOpts(m)
	if g.chance(0.7) {
		o.D = append(o.D, KV{"invoke", Str(g.pick(policies))})
	}
	o = g.kinded(o)
	if g.chance(0.2) {
		o.D = append(o.D, KV{"disclose_caller", Bool(true)})
	}
	if g.chance(0.25) {
		o.D = append(o.D, KV{"forward_timeout", Bool(true)})
	}
	req := g.nextReq(s)
	g.regs = append(g.regs, regRec{s, req, uri})
	g.callees[s] = true
	g.msg(s, &Msg{Kind: "reg", Req: req, Opts: o, URI: uri})
}

func (g *gen) opUnregister() {
	s, ok := g.anySess()
	if !ok {
		return
	}
	var ref *Ref
	if len(g.regs) == 0 || g.chance(0.1) {
		ref = &Ref{Kind: "lit", Lit: int64(g.r.IntN(60))}
		g.tag("unregister-unknown-or-meta-id")
	} else {
		x := g.regs[g.r.IntN(len(g.regs))]
		if g.chance(0.7) {
			s = x.sess
			alive := false
			for _, a := range g.alive {
				if a == s {
					alive = true
				}
			}
			if !alive {
				return
			}
		} else if x.sess != s {
			g.tag("unregister-foreign-id")
		}
		ref = &Ref{Kind: "reg", Sess: x.sess, Req: x.req}
	}
	g.msg(s, &Msg{Kind: "unreg", Req: g.nextReq(s), Ref: ref})
}

func (g *gen) opCall() {
	s, ok := g.anySess()
	if !ok {
		return
	}
	uri := g.pick(exactURIs)
	if len(g.regs) > 0 && g.chance(0.5) {
		uri = g.regs[g.r.IntN(len(g.regs))].uri
		if uri == "" || uri[len(uri)-1] == '.' {
			uri += "z"
		}
	}
	o := Val{T: 'd'}
	if g.chance(0.3) {
		tm := []Val{Int('l', 1), Int('l', 100), Int('l', 1000), Int('l', 2500), Int('f', 500), IntS('u', "3000"),
			Int('l', 0), Int('l', -5), IntS('l', "4611686018427387904"), IntS('l', "9007199254740992"), Str("soon")}
		o.D = append(o.D, KV{"timeout", tm[g.r.IntN(len(tm))]})
		g.tag("call-timeout")
	}
	if g.chance(0.3) {
		o.D = append(o.D, KV{"receive_progress", Bool(true)})
	}
	if g.chance(0.2) {
		o.D = append(o.D, KV{"disclose_me", Bool(true)})
	}
	req := g.nextReq(s)
	if (g.feats[s]["caller_prog"] && g.chance(0.15)) || g.chance(0.02) {
		o.D = append(o.D, KV{"progress", Bool(true)})
		g.tag("progressive-call-invocation")
	}
	if len(g.calls) > 0 && g.chance(0.08) {
		// repeat a request id: next chunk of a progressive call, or a duplicate
		for _, c := range g.calls {
			if c.sess == s {
				req = c.req
				g.tag("call-repeated-request-id")
				break
			}
		}
	}
	g.pptOpts(s, &o, 0.08)
	args, kw := g.payload()
	g.calls = append(g.calls, callRec{s, req})
	g.msg(s, &Msg{Kind: "call", Req: req, Opts: o, URI: uri, Args: args, Kw: kw})
}

func (g *gen) opCancel() {
	if len(g.calls) == 0 {
		return
	}
	c := g.calls[g.r.IntN(len(g.calls))]
	s := c.sess
	if g.chance(0.15) {
		if x, ok := g.anySess(); ok {
			s = x
			g.tag("cancel-foreign")
		}
	}
	alive := false
	for _, a := range g.alive {
		if a == s {
			alive = true
		}
	}
	if !alive {
		return
	}
	o := Val{T: 'd'}
	switch g.r.IntN(7) {
	case 0:
	case 1:
		o.D = append(o.D, KV{"mode", Str("skip")})
	case 2, 3:
		o.D = append(o.D, KV{"mode", Str("kill")})
		g.tag("cancel-kill")
	case 4:
		o.D = append(o.D, KV{"mode", Str("killnowait")})
	case 5:
		o.D = append(o.D, KV{"mode", Str("bogus")})
	default:
		o.D = append(o.D, KV{"mode", g.junk()})
	}
	g.msg(s, &Msg{Kind: "cancel", Req: c.req, Opts: g.kinded(o)})
}

func (g *gen) calleeSess() (int, bool) {
	var l []int
	for _, a := range g.alive {
		if g.callees[a] {
			l = append(l, a)
		}
	}
	if len(l) == 0 {
		return 0, false
	}
	return l[g.r.IntN(len(l))], true
}

func (g *gen) opYield() {
	s, ok := g.calleeSess()
	if !ok {
		return
	}
	ref := &Ref{Kind: "inv", Sess: s, Pick: g.r.IntN(4)}
	if g.chance(0.08) {
		if x, ok := g.anySess(); ok && x != s {
			ref.Sess = x // answer somebody else's invocation
			g.tag("yield-foreign-invocation")
		}
	}
	o := Val{T: 'd'}
	final := true
	if g.chance(0.25) {
		o.D = append(o.D, KV{"progress", Bool(true)})
		final = false
		g.tag("progressive-result")
	}
	g.pptOpts(s, &o, 0.08)
	args, kw := g.payload()
	if g.chance(0.25) {
		g.msg(s, &Msg{Kind: "err", ErrType: 68, Ref: ref, ErrURI: g.pick([]string{"app.error", "wamp.error.canceled", "wamp.error.invalid_argument"}), Args: args, Kw: kw, Final: ref.Sess == s})
		return
	}
	g.msg(s, &Msg{Kind: "yield", Ref: ref, Opts: o, Args: args, Kw: kw, Final: final && ref.Sess == s})
}

func (g *gen) opLeave() {
	if len(g.alive) <= 1 {
		return
	}
	s := g.alive[1+g.r.IntN(len(g.alive)-1)] // never the observer
	switch g.r.IntN(4) {
	case 0:
		g.msg(s, &Msg{Kind: "bye"})
	case 1:
		g.msg(s, &Msg{Kind: "other", Code: []int{1, 2, 5, 36, 50, 68, 69, 33}[g.r.IntN(8)]})
		g.tag("protocol-violation")
	case 2:
		g.msg(s, &Msg{Kind: "err", ErrType: []int{48, 16, 32}[g.r.IntN(3)], Ref: &Ref{Kind: "lit", Lit: 1}, ErrURI: "x.y"})
		g.tag("protocol-violation")
	default:
		g.sc.Ops = append(g.sc.Ops, Op{Kind: "drop", Realm: g.realm[s], Sess: s})
	}
	g.remove(s)
}

// killReasons: application URIs, a malformed one, and the close reasons the
// router itself uses (a kill that borrows one of them is still a kill).
var killReasons = []string{"app.kick", "app.bye", "bad reason", "", "wamp.close.system_shutdown", "wamp.close.close_realm",
	"wamp.close.goodbye_and_out", "wamp.close.normal", "wamp.error.protocol_violation"}

func (g *gen) opTick() {
	ms := []int64{1, 99, 100, 900, 1000, 2499, 2500, 3000, 60000}[g.r.IntN(9)]
	g.sc.Ops = append(g.sc.Ops, Op{Kind: "tick", Ms: ms})
}

func (g *gen) metaCall(s int, proc string, args Val, kw Val) {
	if args.T == 0 {
		args = Val{T: 'l'}
	}
	if kw.T == 0 {
		kw = Val{T: 'd'}
	}
	// the argument checks of the meta procedures: no arguments at all, too
	// few, junk in front
	switch {
	case g.chance(0.05):
		args = Val{T: 'l'}
		g.tag("meta-args-missing")
	case g.chance(0.04) && len(args.L) > 0:
		args = Val{T: 'l', L: args.L[:len(args.L)-1]}
		g.tag("meta-args-missing")
	case g.chance(0.04) && len(args.L) > 0:
		l := append([]Val{}, args.L...)
		l[g.r.IntN(len(l))] = g.junk()
		args = Val{T: 'l', L: l}
		g.tag("meta-args-junk")
	}
	req := g.nextReq(s)
	g.msg(s, &Msg{Kind: "call", Req: req, URI: proc, Args: args, Kw: kw})
}

func (g *gen) anyID(kind string) Val {
	// an id argument in some numeric kind, or junk
	k := []byte{'d', 'l', 'u', 'f', 'i'}[g.r.IntN(5)]
	switch {
	case g.chance(0.1):
		return g.junk()
	case kind == "sid":
		if g.chance(0.1) {
			return Int(k, 1) // the meta session
		}
		return SidRef(k, g.r.IntN(g.next+1))
	default:
		return Int(k, int64(1+g.r.IntN(45)))
	}
}

func (g *gen) opMeta() {
	s, ok := g.anySess()
	if !ok {
		return
	}
	uriArg := func() Val {
		if g.chance(0.1) {
			return g.junk()
		}
		u, _ := g.topic()
		return []Val{Str(u), URI(u), Bytes(u)}[g.r.IntN(3)]
	}
	matchArg := func() Val {
		switch g.r.IntN(4) {
		case 0:
			return Dict(KV{"match", Str("prefix")})
		case 1:
			return Dict(KV{"match", Str("wildcard")})
		case 2:
			return g.junk()
		}
		return Dict()
	}
	pick := g.r.IntN(22)
	if (g.profile == "history" || g.hasHist) && pick >= 6 && pick <= 8 {
		// several sessions ending in one step leave in scheduler order, and a
		// history store would record that order
		pick = 0
	}
	switch pick {
	case 0:
		g.metaCall(s, "wamp.session.count", Val{}, Val{})
	case 1:
		g.metaCall(s, "wamp.session.count", List(List(Str("trusted"), Str(g.pick([]string{"anonymous", "x"})))), Val{})
	case 2:
		g.metaCall(s, "wamp.session.list", List(g.pick3(List(Str("anonymous")), g.junk(), List())), Val{})
	case 3, 4:
		g.metaCall(s, "wamp.session.get", List(g.anyID("sid")), Val{})
	case 5:
		kw := Dict()
		if g.chance(0.5) {
			kw.D = append(kw.D, KV{"reason", Str(g.pick(killReasons))})
		}
		if g.chance(0.5) {
			kw.D = append(kw.D, KV{"message", Str("go away")})
		}
		g.metaCall(s, "wamp.session.kill", List(g.anyID("sid")), kw)
		g.tag("meta-kill")
	case 6:
		g.metaCall(s, "wamp.session.kill_by_authid", List(g.pick3(Str("user1"), Str("user0"), g.junk())), g.pick3(Val{}, Val{}, Dict(KV{"reason", Str(g.pick(killReasons))})))
		g.tag("meta-kill")
	case 7:
		g.metaCall(s, "wamp.session.kill_by_authrole", List(g.pick3(Str("anonymous"), Str("trusted"), g.junk())), Dict(KV{"reason", Str(g.pick(killReasons))}))
		g.tag("meta-kill")
	case 8:
		if g.chance(0.3) {
			g.metaCall(s, "wamp.session.kill_all", Val{}, g.pick3(Val{}, Val{}, Dict(KV{"reason", Str(g.pick(killReasons))})))
			g.tag("meta-kill-all")
		}
	case 9:
		g.metaCall(s, "wamp.session.modify_details", List(g.anyID("sid"), g.pick3(Dict(KV{"dept", Str("ops")}, KV{"authrole", Str("dev")}), Dict(KV{"dept", Null()}), Dict(KV{"session", Int('l', 5)}))), Val{})
		g.tag("modify-details")
	case 10:
		g.metaCall(s, "wamp.registration.list", Val{}, Val{})
	case 11:
		g.metaCall(s, "wamp.registration.lookup", List(uriArg(), matchArg()), Val{})
	case 12:
		g.metaCall(s, "wamp.registration.match", List(uriArg()), Val{})
	case 13:
		g.metaCall(s, g.pick([]string{"wamp.registration.get", "wamp.registration.list_callees", "wamp.registration.count_callees"}), List(g.anyID("reg")), Val{})
	case 14:
		g.metaCall(s, "wamp.subscription.list", Val{}, Val{})
	case 15:
		g.metaCall(s, "wamp.subscription.lookup", List(uriArg(), matchArg()), Val{})
	case 16:
		g.metaCall(s, "wamp.subscription.match", List(uriArg()), Val{})
	case 17:
		g.metaCall(s, g.pick([]string{"wamp.subscription.get", "wamp.subscription.list_subscribers", "wamp.subscription.count_suscribers"}), List(g.anyID("sub")), Val{})
	case 18, 19:
		a, kw := g.payload()
		opts := Dict()
		if g.chance(0.3) {
			opts.D = append(opts.D, KV{"exclude_me", Bool(false)})
		}
		g.testamentPPT(&opts, 0.12)
		k := Dict(KV{"publish_options", opts})
		if g.chance(0.4) {
			k.D = append(k.D, KV{"scope", Str(g.pick([]string{"detached", "destroyed", "", "bogus"}))})
		}
		g.metaCall(s, "wamp.session.add_testament", List(Str(g.pick(exactURIs)), a, kw), k)
		g.tag("testament")
	case 20:
		g.metaCall(s, "wamp.session.flush_testaments", Val{}, g.pick3(Dict(), Dict(KV{"scope", Str("detached")}), Dict(KV{"scope", Str("x")})))
	default:
		g.metaCall(s, g.pick([]string{"wamp.session.nope", "wamp.subscription.count_subscribers"}), Val{}, Val{})
	}
}

func (g *gen) pick3(a, b, c Val) Val { return []Val{a, b, c}[g.r.IntN(3)] }

func (g *gen) opHistoryQuery(histSubs int) {
	s, ok := g.anySess()
	if !ok {
		return
	}
	kw := Dict()
	k := []byte{'d', 'l', 'u', 'f', 'i'}[g.r.IntN(5)]
	if g.chance(0.5) {
		lim := []Val{Int(k, 1), Int(k, 2), Int(k, 3), Int(k, 10), Int(k, 0), Int(k, -1), Str("2")}
		kw.D = append(kw.D, KV{"limit", lim[g.r.IntN(len(lim))]})
	}
	if g.chance(0.4) {
		kw.D = append(kw.D, KV{"reverse", g.pick3(Bool(true), Bool(false), Str("yes"))})
	}
	pubName := func() Val {
		if g.pubs == 0 || g.chance(0.1) {
			return g.junk()
		}
		return PubRef(k, fmt.Sprintf("P%d", 1+g.r.IntN(2*g.pubs+1)))
	}
	for _, f := range []string{"from_publication", "after_publication", "before_publication", "until_publication"} {
		if g.chance(0.15) {
			kw.D = append(kw.D, KV{f, pubName()})
			g.tag("history-publication-bound")
		}
	}
	for _, f := range []string{"from_time", "after_time", "before_time", "until_time"} {
		if g.chance(0.1) {
			kw.D = append(kw.D, KV{f, Str(g.pick([]string{"0", "1000", "2500", "60000", "bogus"}))})
			g.tag("history-time-bound")
		}
	}
	if g.chance(0.15) {
		kw.D = append(kw.D, KV{"topic", g.pick3(Str(g.pick(exactURIs)), URI("a.b"), Int('l', 3))})
	}
	if g.chance(0.12) && g.pubs > 0 {
		// a topic filter together with ONE publication bound (which may name a
		// publication on another topic of a pattern history): bounds first,
		// then the filter
		kw = Dict(KV{"topic", Str(g.pick([]string{"a", "a.b", "a.b.c", "b"}))},
			KV{g.pick([]string{"from_publication", "after_publication", "before_publication", "until_publication"}),
				PubRef(k, fmt.Sprintf("P%d", 1+g.r.IntN(g.pubs+1)))})
		g.tag("history-topic-and-publication-bound")
	}
	id := Int(k, int64(1+g.r.IntN(histSubs+2)))
	if g.chance(0.05) {
		id = g.junk()
	}
	g.metaCall(s, "wamp.subscription.get_events", List(id), kw)
}

// tplShared: three or more callees on one shared registration, a member that
// is not the most recent one unregisters or leaves, then several calls
// (exercises first / last / round-robin order after a removal).
func (g *gen) tplShared() {
	if len(g.alive) < 4 {
		return
	}
	proc := g.pick([]string{"sh.a", "sh.b"})
	policy := g.pick([]string{"roundrobin", "first", "last", "roundrobin", "random"})
	members := append([]int(nil), g.alive[1:]...)
	g.r.Shuffle(len(members), func(i, j int) { members[i], members[j] = members[j], members[i] })
	n := 3 + g.r.IntN(2)
	if n > len(members) {
		n = len(members)
	}
	members = members[:n]
	var recs []regRec
	for _, s := range members {
		req := g.nextReq(s)
		recs = append(recs, regRec{s, req, proc})
		g.regs = append(g.regs, regRec{s, req, proc})
		g.callees[s] = true
		g.msg(s, &Msg{Kind: "reg", Req: req, Opts: Dict(KV{"invoke", Str(policy)}), URI: proc})
	}
	caller := g.alive[0]
	calls := func(k int) {
		for i := 0; i < k; i++ {
			req := g.nextReq(caller)
			g.calls = append(g.calls, callRec{caller, req})
			g.msg(caller, &Msg{Kind: "call", Req: req, URI: proc, Args: List(Int('l', int64(i))), Kw: Dict()})
		}
	}
	calls(1 + g.r.IntN(3))
	victim := recs[g.r.IntN(len(recs)-1)] // never the most recent member
	if g.chance(0.5) {
		g.msg(victim.sess, &Msg{Kind: "unreg", Req: g.nextReq(victim.sess), Ref: &Ref{Kind: "reg", Sess: victim.sess, Req: victim.req}})
	} else {
		g.sc.Ops = append(g.sc.Ops, Op{Kind: "drop", Realm: g.realm[victim.sess], Sess: victim.sess})
		g.remove(victim.sess)
	}
	calls(2 + g.r.IntN(4))
	g.tag("shared-3-callees-churn")
}

// tplSharedOptions: the members of one shared registration ask for different
// things (forward_timeout, disclose_caller) and announce different features;
// calls with a timeout and a disclosure request go round all of them, then
// time passes beyond the timeout: what one member asked for or can do must
// not leak to the calls routed to another.
func (g *gen) tplSharedOptions() {
	if len(g.alive) < 3 {
		return
	}
	proc := g.pick([]string{"sh.c", "sh.d"})
	policy := g.pick([]string{"roundrobin", "roundrobin", "first", "last"})
	members := append([]int(nil), g.alive[1:]...)
	g.r.Shuffle(len(members), func(i, j int) { members[i], members[j] = members[j], members[i] })
	if len(members) > 3 {
		members = members[:3]
	}
	first := g.r.IntN(2) == 0
	for i, s := range members {
		req := g.nextReq(s)
		g.regs = append(g.regs, regRec{s, req, proc})
		g.callees[s] = true
		o := Dict(KV{"invoke", Str(policy)})
		want := (i == 0) == first // either the founder asks, or the ones that join later
		if want || g.chance(0.2) {
			o.D = append(o.D, KV{"forward_timeout", Bool(true)})
		}
		if want != g.chance(0.3) {
			o.D = append(o.D, KV{"disclose_caller", Bool(true)})
		}
		g.msg(s, &Msg{Kind: "reg", Req: req, Opts: o, URI: proc})
	}
	caller := g.alive[0]
	n := len(members) + 1 + g.r.IntN(2)
	for i := 0; i < n; i++ {
		req := g.nextReq(caller)
		g.calls = append(g.calls, callRec{caller, req})
		o := Dict(KV{"timeout", Int('l', 1000)})
		if g.chance(0.4) {
			o.D = append(o.D, KV{"disclose_me", Bool(true)})
		}
		g.msg(caller, &Msg{Kind: "call", Req: req, Opts: o, URI: proc, Args: List(Int('l', int64(i))), Kw: Dict()})
	}
	g.sc.Ops = append(g.sc.Ops, Op{Kind: "tick", Ms: 999}, Op{Kind: "tick", Ms: 1}, Op{Kind: "tick", Ms: 2000})
	g.tag("shared-members-different-options")
}

// tplDiscloseMixed: several non-local subscribers with different
// publisher_identification on ONE subscription, a publisher asking for
// disclosure (details must depend on the recipient only).
func (g *gen) tplDiscloseMixed() {
	realm := 0
	var subs []int
	for i := 0; i < 3; i++ {
		s := g.next
		g.next++
		f := map[string]bool{"publisher_identification": i%2 == 0}
		roles := Dict(KV{"subscriber", feat(f)}, KV{"publisher", feat(map[string]bool{})}, KV{"callee", feat(map[string]bool{})}, KV{"caller", feat(map[string]bool{})})
		g.feats[s] = map[string]bool{}
		loc := i == 2 && g.chance(0.5)
		g.sc.Ops = append(g.sc.Ops, Op{Kind: "join", Realm: realm, Sess: s, Local: loc, AuthLocal: loc && g.sc.Realms[realm].LocalAuth, Hello: Dict(KV{"roles", roles})})
		g.alive = append(g.alive, s)
		g.realm[s] = realm
		subs = append(subs, s)
	}
	topic := g.pick([]string{"dm.a", "a.b"})
	for _, s := range subs {
		req := g.nextReq(s)
		g.subs = append(g.subs, subRec{s, req})
		g.msg(s, &Msg{Kind: "sub", Req: req, URI: topic})
	}
	pub := g.alive[g.r.IntN(len(g.alive))]
	if g.chance(0.6) {
		// the publisher holds the topic itself (and hears its own events)
		req := g.nextReq(pub)
		g.subs = append(g.subs, subRec{pub, req})
		g.msg(pub, &Msg{Kind: "sub", Req: req, Opts: Val{T: 'd'}, URI: topic})
	}
	for i := 0; i < 3; i++ {
		g.pubs++
		o := Dict(KV{"disclose_me", Bool(true)}, KV{"exclude_me", Bool(false)})
		switch i {
		case 1: // with a receiver filter that excludes nobody who matters
			o.D = append(o.D, KV{"exclude", List(Int('l', 999999))})
		case 2:
			o.D = append(o.D, KV{"eligible_authrole", List(Str("anonymous"), Str("trusted"))}, KV{"acknowledge", Bool(true)})
		}
		g.msg(pub, &Msg{Kind: "pub", Req: g.nextReq(pub), Opts: o, URI: topic, Args: List(Int('l', int64(g.pubs))), Kw: Dict()})
	}
	g.tag("disclose-mixed-remote-subscribers")
}

// tplTestaments: a session stores testaments in both scopes, flushes one
// scope (or none), then ends in one of the possible ways.
func (g *gen) tplTestaments() {
	if len(g.alive) < 2 {
		return
	}
	s := g.alive[1+g.r.IntN(len(g.alive)-1)]
	for i, scope := range []string{"detached", "destroyed", g.pick([]string{"detached", "destroyed", ""})} {
		topts := Dict()
		g.testamentPPT(&topts, 0.25)
		kw := Dict(KV{"publish_options", topts})
		if scope != "" {
			kw.D = append(kw.D, KV{"scope", Str(scope)})
		}
		g.metaCall(s, "wamp.session.add_testament", List(Str(g.pick(exactURIs)), List(Int('l', int64(i))), Dict()), kw)
	}
	switch g.r.IntN(3) {
	case 0:
		g.metaCall(s, "wamp.session.flush_testaments", Val{}, Dict(KV{"scope", Str("detached")}))
	case 1:
		g.metaCall(s, "wamp.session.flush_testaments", Val{}, Dict())
	}
	switch g.r.IntN(3) {
	case 0:
		g.msg(s, &Msg{Kind: "bye"})
	case 1:
		g.sc.Ops = append(g.sc.Ops, Op{Kind: "drop", Realm: g.realm[s], Sess: s})
	default:
		g.metaCall(g.alive[0], "wamp.session.kill", List(SidRef('d', s)), Dict())
	}
	g.remove(s)
	g.tag("testaments-both-scopes")
}

// tplDuplicateAnswers: a callee answers the same invocation twice (final
// YIELD then another YIELD or ERROR), also while the caller is still sending
// chunks of a progressive call.
func (g *gen) tplDuplicateAnswers() {
	if len(g.alive) < 3 {
		return
	}
	callee, caller := g.alive[1], g.alive[2]
	proc := "dup.p"
	rq := g.nextReq(callee)
	g.regs = append(g.regs, regRec{callee, rq, proc})
	g.callees[callee] = true
	g.msg(callee, &Msg{Kind: "reg", Req: rq, URI: proc})
	req := g.nextReq(caller)
	o := Dict()
	if g.feats[caller]["caller_prog"] && g.chance(0.5) {
		o = Dict(KV{"progress", Bool(true)})
	}
	g.calls = append(g.calls, callRec{caller, req})
	g.msg(caller, &Msg{Kind: "call", Req: req, Opts: o, URI: proc, Args: List(Int('l', 1)), Kw: Dict()})
	ref := &Ref{Kind: "inv", Sess: callee, Pick: -1}
	g.msg(callee, &Msg{Kind: "yield", Ref: ref, Opts: Dict(), Args: List(Str("first")), Kw: Dict()})
	if g.chance(0.5) {
		g.msg(callee, &Msg{Kind: "yield", Ref: ref, Opts: Dict(), Args: List(Str("second")), Kw: Dict(), Final: true})
	} else {
		g.msg(callee, &Msg{Kind: "err", ErrType: 68, Ref: ref, ErrURI: "app.late", Args: List(), Kw: Dict(), Final: true})
	}
	g.tag("duplicate-answer")
}

type weights struct{ sub, unsub, pub, reg, unreg, call, cancel, yield, leave, join, tick, meta, hist int }

func profileWeights(p string) weights {
	switch p {
	case "pubsub":
		return weights{sub: 22, unsub: 10, pub: 40, reg: 2, unreg: 1, call: 2, cancel: 0, yield: 1, leave: 6, join: 6, tick: 1, meta: 4}
	case "rpc":
		return weights{sub: 2, unsub: 1, pub: 2, reg: 18, unreg: 7, call: 26, cancel: 10, yield: 22, leave: 5, join: 5, tick: 6, meta: 2}
	case "lifecycle":
		return weights{sub: 10, unsub: 3, pub: 8, reg: 10, unreg: 3, call: 14, cancel: 5, yield: 8, leave: 14, join: 10, tick: 3, meta: 12}
	case "meta":
		return weights{sub: 12, unsub: 6, pub: 5, reg: 10, unreg: 6, call: 5, cancel: 1, yield: 3, leave: 8, join: 8, tick: 1, meta: 35}
	case "history":
		return weights{sub: 8, unsub: 6, pub: 40, reg: 0, unreg: 0, call: 0, cancel: 0, yield: 0, leave: 5, join: 5, tick: 6, meta: 2, hist: 28}
	}
	return weights{sub: 10, unsub: 5, pub: 15, reg: 10, unreg: 4, call: 14, cancel: 5, yield: 10, leave: 6, join: 6, tick: 3, meta: 12}
}

// Generate builds scenario number idx of a profile.
func Generate(profile string, seed uint64, idx int, maxOps, maxSess int) *Scenario {
	r := rand.New(rand.NewPCG(seed, uint64(idx)*0x9e3779b97f4a7c15+1))
	base := profile
	authz := false
	realms := 1
	switch profile {
	case "authz":
		base, authz = "mixed", true
	case "realms":
		base, realms = "mixed", 2+r.IntN(2)
		authz = r.IntN(4) == 0 // realms sharing one Authorizer configuration
	}
	g := &gen{r: r, profile: base, sc: &Scenario{Name: fmt.Sprintf("%s-%d-%d", profile, seed, idx)}, realm: map[int]int{},
		feats: map[int]map[string]bool{}, local: map[int]bool{}, req: map[int]int64{}, callees: map[int]bool{}, tags: map[string]bool{}, maxSess: maxSess, removed: map[int]bool{}}
	cfg := RealmCfg{Strict: g.chance(0.25), Disclose: g.chance(0.6), MetaStrict: g.chance(0.3), Kill: g.chance(0.8), Modify: g.chance(0.7)}
	histSubs := 0
	if base == "history" || g.chance(0.15) || (realms > 1 && g.chance(0.4)) {
		n := 1 + g.r.IntN(3)
		seen := map[string]bool{}
		for i := 0; i < n; i++ {
			var h HistCfg
			switch g.r.IntN(3) {
			case 0:
				h = HistCfg{Topic: g.pick([]string{"a", "a.b", "b"}), Match: g.pick([]string{"", "exact"}), Limit: 1 + g.r.IntN(5)}
			case 1:
				h = HistCfg{Topic: g.pick([]string{"a", "a.", ""}), Match: "prefix", Limit: 1 + g.r.IntN(5)}
			default:
				h = HistCfg{Topic: g.pick([]string{"a..c", ".b", "a."}), Match: "wildcard", Limit: 1 + g.r.IntN(5)}
			}
			key := h.Topic + "|" + h.Match
			if h.Match == "exact" {
				key = h.Topic + "|"
			}
			if seen[key] {
				continue
			}
			seen[key] = true
			cfg.Hist = append(cfg.Hist, h)
			histSubs++
		}
		if cfg.Strict {
			cfg.Strict = false
		}
	}
	g.hasHist = len(cfg.Hist) > 0
	if authz {
		cfg.LocalAuthz = g.chance(0.6)
		n := 2 + g.r.IntN(5)
		for i := 0; i < n; i++ {
			rule := Rule{Code: []int{0, 16, 32, 34, 48, 49, 64, 66, 70, 8, 6}[g.r.IntN(11)], Sess: -1,
				Act: []string{"deny", "deny", "fail", "allow", "rewrite"}[g.r.IntN(5)]}
			if g.chance(0.5) {
				u := g.pick(exactURIs)
				rule.URI = &u
			}
			if g.chance(0.4) {
				rule.Sess = g.r.IntN(4)
			}
			if rule.Act == "rewrite" {
				rule.To = g.pick(exactURIs)
				if rule.Code == 0 {
					rule.Code = 16
				}
			}
			cfg.Rules = append(cfg.Rules, rule)
		}
	}
	if g.chance(0.15) {
		// in-process sessions authenticate like remote ones (and are then
		// authorized like them, too)
		cfg.LocalAuth = true
		if len(cfg.Rules) > 0 {
			cfg.LocalAuthz = true
		}
		g.tag("require-local-auth")
	}
	for i := 0; i < realms; i++ {
		g.sc.Realms = append(g.sc.Realms, cfg)
	}
	g.sc.Debug = g.chance(0.3)
	if (realms > 1 && g.chance(0.35)) || (realms == 1 && g.chance(0.12)) {
		g.sc.Template = true
		if realms > 1 {
			g.sc.TplFrom = g.r.IntN(2)
		}
		g.tag("realm-template")
	}
	// the property's own observation point: a catch-all observer in each realm
	for i := 0; i < realms; i++ {
		o := g.join(i, true)
		g.msg(o, &Msg{Kind: "sub", Req: g.nextReq(o), Opts: matchOpts("prefix"), URI: ""})
	}
	n0 := 2 + g.r.IntN(3)
	for i := 0; i < n0; i++ {
		g.join(g.r.IntN(realms), false)
	}
	w := profileWeights(base)
	// (not with an authorizer: a rewritten get_events call would carry the
	// side-specific publication ids and time strings to an ordinary callee)
	if g.hasHist && w.hist == 0 && !authz {
		w.hist = 8
		w.pub += 10
	}
	total := w.sub + w.unsub + w.pub + w.reg + w.unreg + w.call + w.cancel + w.yield + w.leave + w.join + w.tick + w.meta + w.hist
	nops := maxOps/2 + g.r.IntN(maxOps/2+1)
	for len(g.sc.Ops) < nops {
		x := g.r.IntN(total)
		switch {
		case x < w.sub:
			g.opSubscribe()
		case x < w.sub+w.unsub:
			g.opUnsubscribe()
		case x < w.sub+w.unsub+w.pub:
			g.opPublish()
		case x < w.sub+w.unsub+w.pub+w.reg:
			g.opRegister()
		case x < w.sub+w.unsub+w.pub+w.reg+w.unreg:
			g.opUnregister()
		case x < w.sub+w.unsub+w.pub+w.reg+w.unreg+w.call:
			g.opCall()
		case x < w.sub+w.unsub+w.pub+w.reg+w.unreg+w.call+w.cancel:
			g.opCancel()
		case x < w.sub+w.unsub+w.pub+w.reg+w.unreg+w.call+w.cancel+w.yield:
			g.opYield()
		case x < w.sub+w.unsub+w.pub+w.reg+w.unreg+w.call+w.cancel+w.yield+w.leave:
			g.opLeave()
		case x < w.sub+w.unsub+w.pub+w.reg+w.unreg+w.call+w.cancel+w.yield+w.leave+w.join:
			if len(g.alive) < maxSess {
				rl := g.r.IntN(realms)
				if !g.removed[rl] {
					g.join(rl, false)
				}
			}
		case x < w.sub+w.unsub+w.pub+w.reg+w.unreg+w.call+w.cancel+w.yield+w.leave+w.join+w.tick:
			g.opTick()
		case x < w.sub+w.unsub+w.pub+w.reg+w.unreg+w.call+w.cancel+w.yield+w.leave+w.join+w.tick+w.meta:
			g.opMeta()
		default:
			g.opHistoryQuery(histSubs)
		}
		if (base == "pubsub" || base == "mixed") && realms == 1 && g.chance(0.012) && g.next < 30 {
			g.tplDiscloseMixed()
		}
		if (base == "lifecycle" || base == "meta" || base == "mixed") && g.chance(0.02) {
			g.tplTestaments()
		}
		if (base == "rpc" || base == "lifecycle" || base == "mixed") && g.chance(0.02) {
			g.tplShared()
		}
		if (base == "rpc" || base == "mixed") && g.chance(0.015) {
			g.tplDuplicateAnswers()
		}
		if (base == "rpc" || base == "mixed") && g.chance(0.02) {
			g.tplSharedOptions()
		}
		if g.chance(0.012) {
			// HELLO for a realm that does not exist and cannot be created
			// (with and without a realm template): ABORT, no other effect
			g.sc.Ops = append(g.sc.Ops, Op{Kind: "badjoin", Realm: 0, Sess: 0, Hello: Dict(KV{"roles", Dict(KV{"subscriber", feat(map[string]bool{})}, KV{"caller", feat(map[string]bool{})})})})
			g.tag("hello-impossible-realm")
		}
		if realms > 1 && g.chance(0.01) {
			// AddRealm with the URI of a live realm: must be refused without effect
			live := g.r.IntN(realms)
			if !g.removed[live] {
				g.sc.Ops = append(g.sc.Ops, Op{Kind: "addrealm", Realm: live})
				g.tag("add-existing-realm")
			}
		}
		if realms > 1 && !g.sc.Template && g.chance(0.015) {
			// remove a realm (never realm 0), later traffic to it is refused;
			// possibly add it again, empty
			victim := 1 + g.r.IntN(realms-1)
			if !g.removed[victim] {
				g.sc.Ops = append(g.sc.Ops, Op{Kind: "rmrealm", Realm: victim})
				g.removed[victim] = true
				var keep []int
				for _, s := range g.alive {
					if g.realm[s] != victim {
						keep = append(keep, s)
					}
				}
				g.alive = keep
				g.tag("remove-realm")
			} else {
				g.sc.Ops = append(g.sc.Ops, Op{Kind: "addrealm", Realm: victim})
				g.removed[victim] = false
				g.tag("add-realm")
			}
		}
	}
	// let every armed timer expire, then everybody leaves: the router must be empty
	g.sc.Ops = append(g.sc.Ops, Op{Kind: "tick", Ms: 4000000})
	for len(g.alive) > 0 {
		s := g.alive[len(g.alive)-1]
		g.sc.Ops = append(g.sc.Ops, Op{Kind: "drop", Realm: g.realm[s], Sess: s})
		g.remove(s)
	}
	for _, t := range sortedKeys(g.tags) {
		g.sc.Tags = append(g.sc.Tags, t)
	}
	return g.sc
}
