package drive

// MonitorViolation is a property failing on what the implementation was
// observed to do (independent of the model).
type MonitorViolation struct {
	Property string `json:"property"`
	Sig      string `json:"signature"`
	What     string `json:"what"`
	OpIndex  int    `json:"op_index"`
}

func checkMonitors(sc *Scenario, impl *ImplRun) []MonitorViolation {
	var out []MonitorViolation
	if impl.Panic != "" {
		out = append(out, MonitorViolation{Property: "C04", Sig: "router-panic", What: "router panicked or deadlocked: " + impl.Panic})
	}
	for _, m := range impl.Mutated {
		out = append(out, MonitorViolation{Property: "C12", Sig: "mutation-after-delivery", What: "message changed after delivery: " + m})
	}
	for _, a := range impl.Aliased {
		out = append(out, MonitorViolation{Property: "C12", Sig: "shared-payload-object", What: a})
	}
	return out
}
