package drive

import "fmt"

// MonitorViolation is a property failing on what the implementation was
// observed to do (independent of the model).
type MonitorViolation struct {
	Property string `json:"property"`
	Sig      string `json:"signature"`
	What     string `json:"what"`
	OpIndex  int    `json:"op_index"`
}

func checkMonitors(sc *Scenario, impl *ImplRun) []MonitorViolation {
	var out []MonitorViolation
	if impl.Panic != "" {
		out = append(out, MonitorViolation{Property: "C04", Sig: "router-panic", What: "router panicked or deadlocked: " + impl.Panic})
	}
	if impl.CloseLatencyMs > 0 {
		out = append(out, MonitorViolation{Property: "C06", Sig: "close-waits", What: fmt.Sprintf("Router.Close, called after every client had left, took %d ms of virtual time (it waited for something a client chose, e.g. a call timeout)", impl.CloseLatencyMs)})
	}
	for _, m := range impl.Mutated {
		out = append(out, MonitorViolation{Property: "C12", Sig: "mutation-after-delivery", What: "message changed after delivery: " + m})
	}
	for _, a := range impl.Aliased {
		out = append(out, MonitorViolation{Property: "C12", Sig: "shared-payload-object", What: a})
	}
	out = append(out, replyMonitor(sc, impl)...)
	return out
}

// replyMonitor is C02's first sentence evaluated on what the clients saw: per
// (caller, request id), after a final reply (RESULT without progress, or ERROR
// of type CALL) nothing more arrives for that request unless the caller sent a
// new CALL with that id in between; and no reply names a request the session
// never issued.
func replyMonitor(sc *Scenario, impl *ImplRun) []MonitorViolation {
	type key struct {
		sess int
		req  string
	}
	final := map[key]int{} // op index of the final reply
	issued := map[key]bool{}
	ambiguous := map[key]bool{}
	var out []MonitorViolation
	for i, r := range impl.Results {
		op := r.Op
		if op.Kind == "msg" && op.M != nil && op.M.Kind == "call" && r.Failed == "" {
			k := key{op.Sess, fmt.Sprint(op.M.Req)}
			if _, done := final[k]; issued[k] && !done {
				// a CALL re-using the request id of a call that is still
				// pending (a further chunk, or a duplicate that may be
				// refused on its own): which reply belongs to which CALL
				// message is not determined by the property; the model
				// comparison still covers these histories
				ambiguous[k] = true
			}
			issued[k] = true
			delete(final, k)
		}
		for _, o := range r.Obs {
			c := msgCode(o.Msg)
			var req string
			isFinal := false
			switch c {
			case 50: // RESULT [50, req, details, args, kw]
				req = o.Msg.L[1].I
				p, _ := o.Msg.L[2].Get("progress")
				isFinal = !(p.T == 'b' && p.B)
			case 8: // ERROR [8, ty, req, ...]
				if o.Msg.L[1].I != "48" {
					continue
				}
				req = o.Msg.L[2].I
				isFinal = true
			default:
				continue
			}
			k := key{o.Recv, req}
			if ambiguous[k] {
				continue
			}
			if !issued[k] {
				out = append(out, MonitorViolation{Property: "C02", Sig: "reply-for-request-not-issued", OpIndex: i,
					What: fmt.Sprintf("session %d received %s for request %s it never issued", o.Recv, o.Msg.CanonString(), req)})
				continue
			}
			if at, done := final[k]; done {
				out = append(out, MonitorViolation{Property: "C02", Sig: "reply-after-final-reply", OpIndex: i,
					What: fmt.Sprintf("session %d received %s for request %s after its final reply (op %d)", o.Recv, o.Msg.CanonString(), req, at)})
				continue
			}
			if isFinal {
				final[k] = i
			}
		}
	}
	return out
}
