package drive

import "fmt"

// MonitorViolation is a property failing on what the implementation was
// observed to do (independent of the model).
type MonitorViolation struct {
	Property string `json:"property"`
	Sig      string `json:"signature"`
	What     string `json:"what"`
	OpIndex  int    `json:"op_index"`
}

func checkMonitors(sc *Scenario, impl *ImplRun) []MonitorViolation {
	var out []MonitorViolation
	if impl.Panic != "" {
		out = append(out, MonitorViolation{Property: "C04", Sig: "router-panic", What: "router panicked or deadlocked: " + impl.Panic})
	}
	if impl.CloseLatencyMs > 0 {
		out = append(out, MonitorViolation{Property: "C06", Sig: "close-waits", What: fmt.Sprintf("Router.Close, called after every client had left, took %d ms of virtual time (it waited for something a client chose, e.g. a call timeout)", impl.CloseLatencyMs)})
	}
	for _, m := range impl.Mutated {
		out = append(out, MonitorViolation{Property: "C12", Sig: "mutation-after-delivery", What: "message changed after delivery: " + m})
	}
	for _, a := range impl.Aliased {
		out = append(out, MonitorViolation{Property: "C12", Sig: "shared-payload-object", What: a})
	}
	out = append(out, replyMonitor(sc, impl)...)
	out = append(out, metaOrderMonitor(impl)...)
	return out
}

// metaOrderMonitor is C18's order clause on what each watcher saw, in arrival
// order within one op: for one registration / subscription id, on_create comes
// before on_register / on_subscribe and on_unregister / on_unsubscribe before
// on_delete.  (Meta events are published one after the other and every
// receiver's queue is FIFO, so the order at a receiver is the publication
// order whatever subscription delivered them; the multiset comparison with
// the model does not see it.)
func metaOrderMonitor(impl *ImplRun) []MonitorViolation {
	var out []MonitorViolation
	first := map[string]string{"wamp.registration.on_register": "wamp.registration.on_create", "wamp.subscription.on_subscribe": "wamp.subscription.on_create"}
	last := map[string]string{"wamp.registration.on_unregister": "wamp.registration.on_delete", "wamp.subscription.on_unsubscribe": "wamp.subscription.on_delete"}
	for i, r := range impl.Results {
		type key struct {
			recv  int
			topic string
			id    string
		}
		seen := map[key]bool{}
		for _, o := range r.Obs {
			if msgCode(o.Msg) != 36 || len(o.Msg.L) < 5 {
				continue
			}
			t, ok := o.Msg.L[3].Get("topic")
			if !ok || t.T != 's' || !(len(t.S) > 5 && t.S[:5] == "wamp.") {
				continue
			}
			args := o.Msg.L[4]
			if args.T != 'l' || len(args.L) < 2 {
				continue
			}
			id := args.L[1]
			if id.T == 'd' { // on_create carries the details dict
				id, _ = id.Get("id")
			}
			if id.T != 'i' {
				continue
			}
			if need, ok := first[t.S]; ok && seen[key{o.Recv, need, id.I}] == false {
				// only a violation when that on_create does arrive later in this op
				for _, o2 := range r.Obs {
					if o2.Recv == o.Recv && msgCode(o2.Msg) == 36 && len(o2.Msg.L) >= 5 {
						if t2, _ := o2.Msg.L[3].Get("topic"); t2.S == need && !seen[key{o.Recv, need, id.I}] {
							a2 := o2.Msg.L[4]
							if a2.T == 'l' && len(a2.L) >= 2 && a2.L[1].T == 'd' {
								if i2, _ := a2.L[1].Get("id"); i2.I == id.I && !seen[key{o.Recv, t.S, id.I}] {
									out = append(out, MonitorViolation{Property: "C18", Sig: "meta-event-order", OpIndex: i,
										What: fmt.Sprintf("session %d received %s for id %s before %s", o.Recv, t.S, id.I, need)})
								}
							}
						}
					}
				}
			}
			if before, ok := last[invert(last, t.S)]; ok && t.S == before {
				_ = before
			}
			if un := invert(last, t.S); un != "" && seen[key{o.Recv, t.S, id.I}] == false {
				// t.S is an on_delete: a matching on_un* of this op must already have arrived
				for _, o2 := range r.Obs {
					if o2.Recv != o.Recv || msgCode(o2.Msg) != 36 || len(o2.Msg.L) < 5 {
						continue
					}
					t2, _ := o2.Msg.L[3].Get("topic")
					a2 := o2.Msg.L[4]
					if t2.S == un && a2.T == 'l' && len(a2.L) >= 2 && a2.L[1].I == id.I && !seen[key{o.Recv, un, id.I}] {
						out = append(out, MonitorViolation{Property: "C18", Sig: "meta-event-order", OpIndex: i,
							What: fmt.Sprintf("session %d received %s for id %s before %s", o.Recv, t.S, id.I, un)})
						break
					}
				}
			}
			seen[key{o.Recv, t.S, id.I}] = true
		}
	}
	return out
}

// invert returns the key whose value is v ("" when none).
func invert(m map[string]string, v string) string {
	for k, x := range m {
		if x == v {
			return k
		}
	}
	return ""
}

// replyMonitor is C02's first sentence evaluated on what the clients saw: per
// (caller, request id), after a final reply (RESULT without progress, or ERROR
// of type CALL) nothing more arrives for that request unless the caller sent a
// new CALL with that id in between; and no reply names a request the session
// never issued.
func replyMonitor(sc *Scenario, impl *ImplRun) []MonitorViolation {
	type key struct {
		sess int
		req  string
	}
	final := map[key]int{} // op index of the final reply
	issued := map[key]bool{}
	ambiguous := map[key]bool{}
	var out []MonitorViolation
	for i, r := range impl.Results {
		op := r.Op
		if op.Kind == "msg" && op.M != nil && op.M.Kind == "call" && r.Failed == "" {
			k := key{op.Sess, fmt.Sprint(op.M.Req)}
			if _, done := final[k]; issued[k] && !done {
				// a CALL re-using the request id of a call that is still
				// pending (a further chunk, or a duplicate that may be
				// refused on its own): which reply belongs to which CALL
				// message is not determined by the property; the model
				// comparison still covers these histories
				ambiguous[k] = true
			}
			issued[k] = true
			delete(final, k)
		}
		for _, o := range r.Obs {
			c := msgCode(o.Msg)
			var req string
			isFinal := false
			switch c {
			case 50: // RESULT [50, req, details, args, kw]
				req = o.Msg.L[1].I
				p, _ := o.Msg.L[2].Get("progress")
				isFinal = !(p.T == 'b' && p.B)
			case 8: // ERROR [8, ty, req, ...]
				if o.Msg.L[1].I != "48" {
					continue
				}
				req = o.Msg.L[2].I
				isFinal = true
			default:
				continue
			}
			k := key{o.Recv, req}
			if ambiguous[k] {
				continue
			}
			if !issued[k] {
				out = append(out, MonitorViolation{Property: "C02", Sig: "reply-for-request-not-issued", OpIndex: i,
					What: fmt.Sprintf("session %d received %s for request %s it never issued", o.Recv, o.Msg.CanonString(), req)})
				continue
			}
			if at, done := final[k]; done {
				out = append(out, MonitorViolation{Property: "C02", Sig: "reply-after-final-reply", OpIndex: i,
					What: fmt.Sprintf("session %d received %s for request %s after its final reply (op %d)", o.Recv, o.Msg.CanonString(), req, at)})
				continue
			}
			if isFinal {
				final[k] = i
			}
		}
	}
	return out
}
