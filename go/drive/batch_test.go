package drive

import (
	"crypto/sha1"
	"encoding/hex"
	"encoding/json"
	"fmt"
	"os"
	"sort"
	"strings"
	"sync"
	"sync/atomic"
	"testing"
	"time"
)

type BatchParams struct {
	Profile    string   `json:"profile"`
	Seed       uint64   `json:"seed"`
	Count      int      `json:"count"`
	MaxOps     int      `json:"max_ops"`
	MaxSess    int      `json:"max_sess"`
	Model      string   `json:"model"`
	Out        string   `json:"out"`
	Workers    int      `json:"workers"`
	CheckSizes bool     `json:"check_sizes"`
	Corpus     []string `json:"corpus"` // scenario files run first
	Shrink     bool     `json:"shrink"`
	Transcripts int     `json:"transcripts"` // record the model-side transcript of this many histories
}

type Failure struct {
	Scenario *Scenario          `json:"scenario"`
	Mismatch *Mismatch          `json:"mismatch,omitempty"`
	Monitors []MonitorViolation `json:"monitors,omitempty"`
	Codes    []int64            `json:"codes,omitempty"` // message codes in the symmetric difference
	Impl     []OpResult         `json:"impl,omitempty"`
	Model    map[int][]string   `json:"model_at_mismatch,omitempty"`
	Corpus   string             `json:"corpus,omitempty"`
}

type Stats struct {
	Scenarios   int            `json:"scenarios"`
	Ops         int            `json:"ops"`
	OpKinds     map[string]int `json:"op_kinds"`
	Delivered   map[string]int `json:"delivered_by_code"`
	Tags        map[string]int `json:"tags"`
	Distinct    int            `json:"distinct_histories"`
	Nontrivial  map[string]int `json:"nontrivial"` // per rule name: distinct histories satisfying it
	Sessions    int            `json:"sessions"`
	NotPerformed int           `json:"ops_not_performed"`
}

type BatchResult struct {
	Params   BatchParams `json:"params"`
	Stats    Stats       `json:"stats"`
	Failures []Failure   `json:"failures"`
	Samples  []*Scenario `json:"samples"`
	Transcripts [][]string `json:"transcripts,omitempty"`
}

// diffCodes: message codes occurring in the symmetric difference of two canonical op results.
func diffCodes(a, b map[int][]string) []int64 {
	set := map[int64]bool{}
	add := func(x, y []string) {
		cnt := map[string]int{}
		for _, s := range y {
			cnt[s]++
		}
		for _, s := range x {
			if cnt[s] > 0 {
				cnt[s]--
				continue
			}
			var c int64
			fmt.Sscanf(s, "[%d", &c)
			set[c] = true
			if c == 8 { // ERROR: also record 1000+request type
				var t int64
				fmt.Sscanf(s, "[8,%d", &t)
				set[1000+t] = true
			}
		}
	}
	keys := map[int]bool{}
	for k := range a {
		keys[k] = true
	}
	for k := range b {
		keys[k] = true
	}
	for k := range keys {
		add(a[k], b[k])
		add(b[k], a[k])
	}
	var out []int64
	for c := range set {
		out = append(out, c)
	}
	sort.Slice(out, func(i, j int) bool { return out[i] < out[j] })
	return out
}

func runOne(t *testing.T, p *BatchParams, sc *Scenario) (*ImplRun, *ModelRun, *Mismatch, []MonitorViolation) {
	return runOneT(t, p, sc, nil)
}

func runOneT(t *testing.T, p *BatchParams, sc *Scenario, transcript *[]string) (*ImplRun, *ModelRun, *Mismatch, []MonitorViolation) {
	impl := RunImpl(t, sc)
	mons := checkMonitors(sc, impl)
	if impl.Panic != "" {
		return impl, nil, nil, mons
	}
	mr, mm, err := RunModelT(p.Model, sc, impl, p.CheckSizes, transcript)
	if err != nil {
		mm = &Mismatch{OpIndex: -1, What: "model-error", Detail: err.Error()}
	}
	return impl, mr, mm, mons
}

func failureKey(mm *Mismatch, mons []MonitorViolation) string {
	k := ""
	if mm != nil {
		k = mm.What
	}
	for _, m := range mons {
		k += "|" + m.Property + ":" + m.Sig
	}
	return k
}

// shrink: drop the tail after the failing op, then remove ops greedily while
// the same kind of failure persists.
func shrink(t *testing.T, p *BatchParams, sc *Scenario, key string, upto int) *Scenario {
	cur := *sc
	if upto >= 0 && upto+1 < len(cur.Ops) {
		cur.Ops = append([]Op(nil), cur.Ops[:upto+1]...)
	}
	trials := 0
	for changed := true; changed && trials < 400; {
		changed = false
		for i := len(cur.Ops) - 1; i >= 0 && trials < 400; i-- {
			cand := cur
			cand.Ops = append(append([]Op(nil), cur.Ops[:i]...), cur.Ops[i+1:]...)
			trials++
			_, _, mm, mons := runOne(t, p, &cand)
			if (mm != nil || len(mons) > 0) && failureKey(mm, mons) == key {
				cur = cand
				changed = true
			}
		}
	}
	cur.Name = sc.Name + "-shrunk"
	return &cur
}

func TestBatch(t *testing.T) {
	pj := os.Getenv("DRIVE_PARAMS")
	if pj == "" {
		t.Skip("DRIVE_PARAMS not set")
	}
	var p BatchParams
	if err := json.Unmarshal([]byte(pj), &p); err != nil {
		t.Fatal(err)
	}
	if p.Workers <= 0 {
		p.Workers = 8
	}
	var scs []*Scenario
	corpusOf := map[*Scenario]string{}
	for _, f := range p.Corpus {
		data, err := os.ReadFile(f)
		if err != nil {
			t.Fatal(err)
		}
		var wrap struct {
			Scenario *Scenario `json:"scenario"`
		}
		if err := json.Unmarshal(data, &wrap); err == nil && wrap.Scenario != nil {
			scs = append(scs, wrap.Scenario)
			corpusOf[wrap.Scenario] = f
			continue
		}
		var sc Scenario
		if err := json.Unmarshal(data, &sc); err != nil {
			t.Fatalf("%s: %v", f, err)
		}
		scs = append(scs, &sc)
		corpusOf[&sc] = f
	}
	for i := 0; i < p.Count; i++ {
		scs = append(scs, Generate(p.Profile, p.Seed, i, p.MaxOps, p.MaxSess))
	}
	res := BatchResult{Params: p}
	res.Stats.OpKinds = map[string]int{}
	res.Stats.Delivered = map[string]int{}
	res.Stats.Tags = map[string]int{}
	res.Stats.Nontrivial = map[string]int{}
	hashes := map[string]bool{}
	ntr := 0
	var mu sync.Mutex
	var wg sync.WaitGroup
	jobs := make(chan *Scenario)
	// Real-clock watchdog (outside every bubble): a router goroutine that spins
	// or waits on a mutex is not "durably blocked", so its bubble never becomes
	// idle and virtual time stops - the scenario would hang until the test
	// timeout.  The stuck scenario is named in <out>.stuck and the process ends;
	// the check replays it alone.
	started := make([]atomic.Int64, p.Workers)
	stopDog := make(chan struct{})
	defer close(stopDog)
	go func() {
		tick := time.NewTicker(time.Second)
		defer tick.Stop()
		for {
			select {
			case <-stopDog:
				return
			case <-tick.C:
			}
			var stuck []string
			for w := range started {
				if t0 := started[w].Load(); t0 != 0 && time.Now().UnixNano()-t0 > int64(90*time.Second) {
					stuck = append(stuck, fmt.Sprintf("%s.running.%d", p.Out, w))
				}
			}
			if len(stuck) > 0 {
				os.WriteFile(p.Out+".stuck", []byte(strings.Join(stuck, "\n")), 0o644)
				fmt.Println("WATCHDOG: scenario(s) not finishing:", stuck)
				os.Exit(3)
			}
		}
	}()
	for w := 0; w < p.Workers; w++ {
		wg.Add(1)
		w := w
		go func() {
			defer wg.Done()
			for sc := range jobs {
				// a panic inside a router goroutine kills this process: leave a
				// note naming the scenario that was running
				mark := fmt.Sprintf("%s.running.%d", p.Out, w)
				if b, err := json.Marshal(sc); err == nil {
					os.WriteFile(mark, b, 0o644)
				}
				var tr *[]string
				mu.Lock()
				if ntr < p.Transcripts && corpusOf[sc] == "" {
					ntr++
					tr = &[]string{}
				}
				mu.Unlock()
				started[w].Store(time.Now().UnixNano())
				impl, mr, mm, mons := runOneT(t, &p, sc, tr)
				started[w].Store(0)
				os.Remove(mark)
				if tr != nil && mm == nil {
					mu.Lock()
					res.Transcripts = append(res.Transcripts, *tr)
					mu.Unlock()
				}
				var fail *Failure
				if mm != nil || len(mons) > 0 {
					key := failureKey(mm, mons)
					upto := -1
					if mm != nil {
						upto = mm.OpIndex
					}
					small := sc
					if p.Shrink && corpusOf[sc] == "" {
						small = shrink(t, &p, sc, key, upto)
						impl, mr, mm, mons = runOne(t, &p, small)
					}
					fail = &Failure{Scenario: small, Mismatch: mm, Monitors: mons, Corpus: corpusOf[sc]}
					if impl != nil {
						fail.Impl = impl.Results
					}
					if mm != nil && mr != nil && mm.OpIndex >= 0 && mm.OpIndex < len(mr.Canon) && mm.OpIndex < len(impl.Results) {
						fail.Model = mr.Canon[mm.OpIndex]
						fail.Codes = diffCodes(impl.Results[mm.OpIndex].Canon, mr.Canon[mm.OpIndex])
					}
				}
				// statistics
				var hb strings.Builder
				delivered := map[string]int{}
				notPerformed := 0
				for _, r := range impl.Results {
					if r.Failed != "" {
						notPerformed++
					}
					for recv, l := range r.Canon {
						for _, s := range l {
							fmt.Fprintf(&hb, "%d:%s;", recv, s)
							var c int64
							fmt.Sscanf(s, "[%d", &c)
							delivered[fmt.Sprint(c)]++
						}
					}
					hb.WriteString("|")
				}
				h := sha1.Sum([]byte(hb.String()))
				hs := hex.EncodeToString(h[:8])
				mu.Lock()
				res.Stats.Scenarios++
				res.Stats.Ops += len(sc.Ops)
				res.Stats.NotPerformed += notPerformed
				for _, op := range sc.Ops {
					k := op.Kind
					if op.M != nil {
						k = op.M.Kind
						if op.M.Kind == "call" && strings.HasPrefix(op.M.URI, "wamp.") {
							k = "metacall"
						}
					}
					res.Stats.OpKinds[k]++
					if op.Kind == "join" {
						res.Stats.Sessions++
					}
				}
				for _, tg := range sc.Tags {
					res.Stats.Tags[tg]++
				}
				for c, n := range delivered {
					res.Stats.Delivered[c] += n
				}
				if !hashes[hs] {
					hashes[hs] = true
					res.Stats.Distinct++
					for _, rule := range nontrivialRules(delivered, sc) {
						res.Stats.Nontrivial[rule]++
					}
				}
				if fail != nil {
					res.Failures = append(res.Failures, *fail)
				}
				if len(res.Samples) < 2 && corpusOf[sc] == "" {
					res.Samples = append(res.Samples, sc)
				}
				mu.Unlock()
			}
		}()
	}
	for _, sc := range scs {
		jobs <- sc
	}
	close(jobs)
	wg.Wait()
	out, _ := json.Marshal(res)
	if err := os.WriteFile(p.Out, out, 0o644); err != nil {
		t.Fatal(err)
	}
}

// nontrivialRules names the property-decisive situations a history exercised.
func nontrivialRules(delivered map[string]int, sc *Scenario) []string {
	var out []string
	if delivered["36"] >= 2 {
		out = append(out, "events>=2")
	}
	if delivered["68"] >= 1 && (delivered["50"] >= 1 || delivered["8"] >= 1) {
		out = append(out, "invocation+reply")
	}
	if delivered["69"] >= 1 || hasTag(sc, "call-timeout") || hasTag(sc, "cancel-kill") {
		out = append(out, "cancel-or-timeout")
	}
	if delivered["6"]+delivered["3"] >= 1 {
		out = append(out, "session-ended-with-state")
	}
	if hasTag(sc, "meta-kill") || hasTag(sc, "testament") || hasTag(sc, "modify-details") {
		out = append(out, "meta-api")
	}
	if hasTag(sc, "history-publication-bound") || hasTag(sc, "history-time-bound") {
		out = append(out, "history-filter")
	}
	if hasTag(sc, "disclose_me") {
		out = append(out, "disclosure")
	}
	return out
}

func hasTag(sc *Scenario, t string) bool {
	for _, x := range sc.Tags {
		if x == t {
			return true
		}
	}
	return false
}
