package drive

import (
	"fmt"
	"strconv"
	"strings"
)

type HistCfg struct {
	Topic string `json:"topic"`
	Match string `json:"match"`
	Limit int    `json:"limit"`
}

// Rule is one line of an authorizer decision table; first match wins,
// default allow.  Code 0 = any message type, URI nil = any, Sess -1 = any.
type Rule struct {
	Code int     `json:"code"`
	URI  *string `json:"uri,omitempty"`
	Sess int     `json:"sess"`
	Act  string  `json:"act"` // allow deny fail rewrite
	To   string  `json:"to,omitempty"`
}

type RealmCfg struct {
	Strict     bool      `json:"strict,omitempty"`
	Disclose   bool      `json:"disclose,omitempty"`
	MetaStrict bool      `json:"meta_strict,omitempty"`
	Kill       bool      `json:"kill,omitempty"`
	Modify     bool      `json:"modify,omitempty"`
	LocalAuthz bool      `json:"local_authz,omitempty"`
	LocalAuth  bool      `json:"local_auth,omitempty"` // RequireLocalAuth: in-process sessions authenticate like remote ones (anonymous)
	Hist       []HistCfg `json:"hist,omitempty"`
	Rules      []Rule    `json:"rules,omitempty"`
}

// Ref names an id that is only known at run time.
type Ref struct {
	Kind string `json:"kind"` // lit | sub | reg | inv
	Lit  int64  `json:"lit,omitempty"`
	Sess int    `json:"sess,omitempty"` // sub/reg: the session that asked; inv: the callee
	Req  int64  `json:"req,omitempty"`  // sub/reg: request id of the SUBSCRIBE/REGISTER
	Pick int    `json:"pick,omitempty"` // inv: index among the callee's unanswered invocations (mod n)
}

type Msg struct {
	Kind    string `json:"kind"` // pub sub unsub reg unreg call cancel yield err bye other
	Req     int64  `json:"req,omitempty"`
	Opts    Val    `json:"opts"`
	URI     string `json:"uri,omitempty"`
	Args    Val    `json:"args"`
	Kw      Val    `json:"kw"`
	Ref     *Ref   `json:"ref,omitempty"`
	ErrType int    `json:"err_type,omitempty"`
	ErrURI  string `json:"err_uri,omitempty"`
	Code    int    `json:"code,omitempty"`
	Final   bool   `json:"final,omitempty"` // yield/err: marks the invocation as answered for later picks
}

type Op struct {
	Kind  string `json:"k"` // join drop tick msg
	Realm int    `json:"r"`
	Sess  int    `json:"s"`
	Local bool   `json:"local,omitempty"`
	AuthLocal bool `json:"auth_local,omitempty"` // join of a local session in a realm with RequireLocalAuth
	Hello Val    `json:"hello"`
	Transport Val `json:"transport"` // join: transport details given to AttachClient (nil = none)
	Ms    int64  `json:"ms,omitempty"`
	M     *Msg   `json:"m,omitempty"`
}

type Scenario struct {
	Name   string     `json:"name"`
	Realms []RealmCfg `json:"realms"`
	Ops    []Op       `json:"ops"`
	Tags   []string   `json:"tags,omitempty"` // shape templates that fired (generator bookkeeping)
	// Template: only the realms below TplFrom are configured statically; the
	// others come into being from Config.RealmTemplate (= the configuration
	// the generator gives all realms) when their first session says HELLO.
	// The model is the same either way: a realm that exists from the start and
	// one created on first use are both init_realm.
	Template bool `json:"template,omitempty"`
	Debug    bool `json:"debug,omitempty"` // Config.Debug: extra logging only, behaviour must not depend on it
	TplFrom  int  `json:"tpl_from,omitempty"` // with Template: realms with index >= TplFrom come from the template (0 = all of them)
}

// A symbolic reference inside a payload: Val{T:'r', K:<int kind>, S:"sid:<idx>" | "pub:<name>"}.
func SidRef(kind byte, idx int) Val  { return Val{T: 'r', K: kind, S: "sid:" + strconv.Itoa(idx)} }
func PubRef(kind byte, name string) Val { return Val{T: 'r', K: kind, S: "pub:" + name} }

func modelSid(idx int) int64 { return int64(100 + idx) }

// resolveVal replaces symbolic references by concrete integers.
func resolveVal(v Val, sid func(idx int) string, pub func(name string) string) Val {
	switch v.T {
	case 'r':
		var s string
		if strings.HasPrefix(v.S, "sid:") {
			i, _ := strconv.Atoi(v.S[4:])
			s = sid(i)
		} else if strings.HasPrefix(v.S, "pub:") {
			s = pub(v.S[4:])
		} else {
			panic("bad ref " + v.S)
		}
		return Val{T: 'i', K: v.K, I: s}
	case 'l':
		out := Val{T: 'l'}
		for _, e := range v.L {
			out.L = append(out.L, resolveVal(e, sid, pub))
		}
		return out
	case 'd':
		out := Val{T: 'd'}
		for _, e := range v.D {
			out.D = append(out.D, KV{e.K, resolveVal(e.V, sid, pub)})
		}
		return out
	}
	return v
}

func (m *Msg) resolved(id int64, sid func(int) string, pub func(string) string) *Msg {
	c := *m
	c.Opts = resolveVal(m.Opts, sid, pub)
	c.Args = resolveVal(m.Args, sid, pub)
	c.Kw = resolveVal(m.Kw, sid, pub)
	c.Ref = &Ref{Kind: "lit", Lit: id}
	return &c
}

func orEmptyDict(v Val) Val {
	if v.T != 'd' {
		return Val{T: 'd'}
	}
	return v
}
func orEmptyList(v Val) Val {
	if v.T != 'l' {
		return Val{T: 'l'}
	}
	return v
}

// modelLine renders a (resolved) op for the extracted runner.
func modelLine(cmd string, op *Op, oracle int) string {
	var sb strings.Builder
	fmt.Fprintf(&sb, "%s %d ", cmd, op.Realm)
	switch op.Kind {
	case "join":
		l := 0
		if op.Local && !op.AuthLocal {
			// an in-process session that had to authenticate is, for the model,
			// a remote one (anonymous identity, no exemption from authorization:
			// the generator pairs RequireLocalAuth with RequireLocalAuthz)
			l = 1
		}
		fmt.Fprintf(&sb, "join %d %d ", modelSid(op.Sess), l)
		h := orEmptyDict(op.Hello)
		if op.Transport.T == 'd' && len(op.Transport.D) > 0 {
			// AttachClient puts non-empty transport details into HELLO.Details
			h = h.Set("transport", op.Transport)
		}
		h.Tokens(&sb)
	case "drop":
		fmt.Fprintf(&sb, "drop %d", modelSid(op.Sess))
	case "badjoin":
		return "tryrm 999999" // no model operation: the router of realms is unchanged
	case "tick":
		fmt.Fprintf(&sb, "tick %d", op.Ms)
	case "rmrealm":
		if cmd == "try" {
			return fmt.Sprintf("tryrm %d", op.Realm)
		}
		return fmt.Sprintf("rmrealm %d", op.Realm)
	case "msg":
		m := op.M
		fmt.Fprintf(&sb, "msg %d %d ", modelSid(op.Sess), oracle)
		id := int64(0)
		if m.Ref != nil {
			id = m.Ref.Lit
		}
		switch m.Kind {
		case "pub":
			fmt.Fprintf(&sb, "pub %d %s %s %s %s", m.Req, orEmptyDict(m.Opts).TokenString(), hx(m.URI), orEmptyList(m.Args).TokenString(), orEmptyDict(m.Kw).TokenString())
		case "sub":
			fmt.Fprintf(&sb, "sub %d %s %s", m.Req, orEmptyDict(m.Opts).TokenString(), hx(m.URI))
		case "unsub":
			fmt.Fprintf(&sb, "unsub %d %d", m.Req, id)
		case "reg":
			fmt.Fprintf(&sb, "reg %d %s %s", m.Req, orEmptyDict(m.Opts).TokenString(), hx(m.URI))
		case "unreg":
			fmt.Fprintf(&sb, "unreg %d %d", m.Req, id)
		case "call":
			fmt.Fprintf(&sb, "call %d %s %s %s %s", m.Req, orEmptyDict(m.Opts).TokenString(), hx(m.URI), orEmptyList(m.Args).TokenString(), orEmptyDict(m.Kw).TokenString())
		case "cancel":
			fmt.Fprintf(&sb, "cancel %d %s", m.Req, orEmptyDict(m.Opts).TokenString())
		case "yield":
			fmt.Fprintf(&sb, "yield %d %s %s %s", id, orEmptyDict(m.Opts).TokenString(), orEmptyList(m.Args).TokenString(), orEmptyDict(m.Kw).TokenString())
		case "err":
			fmt.Fprintf(&sb, "err %d %d %s %s %s %s", m.ErrType, id, orEmptyDict(m.Opts).TokenString(), hx(m.ErrURI), orEmptyList(m.Args).TokenString(), orEmptyDict(m.Kw).TokenString())
		case "bye":
			sb.WriteString("bye")
		case "other":
			fmt.Fprintf(&sb, "other %d", m.Code)
		default:
			panic("bad msg kind " + m.Kind)
		}
	default:
		panic("bad op kind " + op.Kind)
	}
	return sb.String()
}

func realmLine(idx int, c *RealmCfg, sessIdxToSid func(int) int64) string {
	var sb strings.Builder
	b := func(x bool) int {
		if x {
			return 1
		}
		return 0
	}
	fmt.Fprintf(&sb, "realm %d %d %d %d %d %d %d %d", idx, b(c.Strict), b(c.Disclose), b(c.MetaStrict), b(c.Kill), b(c.Modify), b(c.LocalAuthz), len(c.Hist))
	for _, h := range c.Hist {
		fmt.Fprintf(&sb, " %s %s %d", hx(h.Topic), hx(h.Match), h.Limit)
	}
	fmt.Fprintf(&sb, " %d", len(c.Rules))
	for _, r := range c.Rules {
		u := "*"
		if r.URI != nil {
			u = hx(*r.URI)
		}
		s := int64(0)
		if r.Sess >= 0 {
			s = sessIdxToSid(r.Sess)
		}
		fmt.Fprintf(&sb, " %d %s %d %s", r.Code, u, s, r.Act)
		if r.Act == "rewrite" {
			fmt.Fprintf(&sb, " %s", hx(r.To))
		}
	}
	return sb.String()
}
