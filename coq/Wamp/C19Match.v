(** * C19, pattern matching: theorems about the GENERATED translations of
      URI.PrefixMatch and URI.WildcardMatch (coq/gen/GenC19Match.v).

    The proofs evaluate the generated conditions symbolically and decide the
    resulting boolean facts by case analysis on the string equalities, so
    they do not depend on operand order or on how the condition is
    parenthesised. *)

From Coq Require Import List Bool Ascii Arith Lia.
From Nexus Require Import Wamp.UriRule Wamp.Match Wamp.MatchProofs.
From Nexus Require Import gen.GenC19Match.
Import ListNotations.

Definition prefix_match (u p : bytes) : option bool := gen_prefix_match u p.
Definition wildcard_match (u w : bytes) : option bool := gen_wildcard_match u w.

Ltac case_bytes_eqb :=
  repeat match goal with
         | |- context [bytes_eqb ?a ?b] => destruct (bytes_eqb_reflect a b)
         | H : context [bytes_eqb ?a ?b] |- _ => destruct (bytes_eqb_reflect a b)
         end.

Ltac case_nat_cmp :=
  repeat match goal with
         | |- context [Nat.eqb ?a ?b] => destruct (Nat.eqb_spec a b)
         | |- context [Nat.ltb ?a ?b] => destruct (Nat.ltb_spec a b)
         | |- context [Nat.leb ?a ?b] => destruct (Nat.leb_spec a b)
         end.

Theorem prefix_match_proof : forall u p,
    (exists b, prefix_match u p = Some b) /\ (prefix_match u p = Some true <-> prefix_rule u p).
Proof.
  intros u p. unfold prefix_match, gen_prefix_match, oret. split; [eexists; reflexivity|].
  rewrite <- has_prefix_iff. split; [intros H; injection H; auto|intros ->; reflexivity].
Qed.

(** The generated loop condition, once both indices are known to be in range. *)
Lemma wildcard_total : forall u w,
    wildcard_match u w =
    Some (Nat.eqb (length (split_dot u)) (length (split_dot w)) &&
          negb (existsb (comp_mismatch (split_dot u) (split_dot w)) (seq 0 (length (split_dot w))))).
Proof.
  intros u w. unfold wildcard_match, gen_wildcard_match.
  set (P := split_dot u). set (W := split_dot w).
  unfold oif, oret; cbn beta iota.
  destruct (Nat.eqb_spec (length P) (length W)) as [Hl|Hl]; cbn [negb andb].
  - rewrite (for_range_ret_spec _ _ _ _ (comp_mismatch P W)).
    + destruct (existsb (comp_mismatch P W) (seq 0 (length W))); reflexivity.
    + intros j Hj. rewrite !(oidx_nth W j) by lia. rewrite ?(oidx_nth P j) by (unfold bytes in *; lia).
      unfold comp_mismatch, oand, ostr_ne, ostr_eq, oor, onot, obin, oret.
      case_bytes_eqb; subst; simpl; try reflexivity; congruence.
  - reflexivity.
Qed.

Theorem wildcard_match_proof : forall u w,
    (exists b, wildcard_match u w = Some b) /\ (wildcard_match u w = Some true <-> wildcard_rule u w).
Proof.
  intros u w. rewrite wildcard_total. split; [eexists; reflexivity|].
  rewrite wildcard_rule_index. split.
  - intros H. injection H as H. apply andb_true_iff in H. destruct H as [H1 H2].
    apply Nat.eqb_eq in H1. apply negb_true_iff in H2. auto.
  - intros [H1 H2]. f_equal. apply andb_true_iff. split.
    + apply Nat.eqb_eq. exact H1.
    + apply negb_true_iff. exact H2.
Qed.
