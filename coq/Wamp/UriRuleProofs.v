(** * Proofs about the URI rule: abstraction to classes, the rule automaton,
      and the generic theorem "an expression that passes the two computed
      checks decides the rule". *)

From Coq Require Import List Bool Ascii NArith Lia.
From Nexus Require Import Wamp.Regex Wamp.RegexProofs Wamp.RegexEquiv Wamp.RegexEquivProofs Wamp.UriRule.
Import ListNotations.

Open Scope N_scope.

(** ** Decidable equalities are sound; enumerations are complete *)

Lemma cls_eqb_sound : forall a b, cls_eqb a b = true -> a = b.
Proof. destruct a, b; simpl; intros H; try discriminate; reflexivity. Qed.

Lemma cls_eqb_refl : forall a, cls_eqb a a = true.
Proof. destruct a; reflexivity. Qed.

Lemma ust_eqb_sound : forall a b, ust_eqb a b = true -> a = b.
Proof. destruct a, b; simpl; intros H; try discriminate; reflexivity. Qed.

Lemma cmask_eqb_sound : forall l m, cmask_eqb l m = true -> l = m.
Proof.
  induction l as [|a l IH]; destruct m as [|b m]; simpl; intros H; try discriminate; auto.
  apply andb_true_iff in H. destruct H as [H1 H2].
  apply cls_eqb_sound in H1. rewrite H1, (IH _ H2). reflexivity.
Qed.

Lemma ranges_eqb_sound : forall l m, ranges_eqb l m = true -> l = m.
Proof.
  induction l as [|[a b] l IH]; destruct m as [|[c d] m]; simpl; intros H; try discriminate; auto.
  apply andb_true_iff in H. destruct H as [H1 H2].
  unfold range_eqb in H1. simpl in H1. apply andb_true_iff in H1. destruct H1 as [Ha Hb].
  apply N.eqb_eq in Ha. apply N.eqb_eq in Hb. subst. rewrite (IH _ H2). reflexivity.
Qed.

Lemma cset_eqb_sound : forall c d, cset_eqb c d = true -> c = d.
Proof.
  intros [n1 r1] [n2 r2] H. unfold cset_eqb in H. simpl in H.
  apply andb_true_iff in H. destruct H as [H1 H2].
  apply eqb_prop in H1. apply ranges_eqb_sound in H2. subst. reflexivity.
Qed.

Lemma all_cls_complete : forall c, In c all_cls.
Proof. destruct c; simpl; tauto. Qed.

Lemma bools_complete : forall b, In b bools.
Proof. destruct b; simpl; tauto. Qed.

Lemma all_ascii_complete : forall a, In a all_ascii.
Proof.
  intros [b0 b1 b2 b3 b4 b5 b6 b7]. unfold all_ascii.
  repeat (apply in_flat_map; eexists; split; [apply bools_complete|]).
  apply in_map. apply bools_complete.
Qed.

(** ** Byte level versus class level *)

Lemma cm_mem_In : forall m c, cm_mem m c = true <-> In c m.
Proof.
  intros m c. unfold cm_mem. rewrite existsb_exists. split.
  - intros [x [Hin He]]. apply cls_eqb_sound in He. subst. exact Hin.
  - intros Hin. exists c. split; [exact Hin|apply cls_eqb_refl].
Qed.

Lemma cs_respects_spec : forall cs, cs_respects cs = true ->
    forall a, cs_mem cs a = cm_mem (abs_cs cs) (classify a).
Proof.
  intros cs H a. unfold cs_respects in H. rewrite forallb_forall in H.
  apply eqb_prop. apply H. apply all_ascii_complete.
Qed.

Lemma lang_abstract_fwd : forall r s,
    lang cs_mem r s -> respects_classes r = true -> lang cm_mem (abstract r) (classes s).
Proof.
  induction 1; simpl; intros Hr.
  - constructor.
  - constructor. rewrite <- (cs_respects_spec _ Hr). assumption.
  - apply andb_true_iff in Hr. destruct Hr. unfold classes. rewrite map_app.
    constructor; [apply IHlang1|apply IHlang2]; assumption.
  - apply andb_true_iff in Hr. destruct Hr. apply L_altl. auto.
  - apply andb_true_iff in Hr. destruct Hr. apply L_altr. auto.
  - constructor.
  - unfold classes. rewrite map_app. constructor; [apply IHlang1|apply IHlang2]; assumption.
Qed.

Lemma lang_abstract_bwd : forall ar x,
    lang cm_mem ar x -> forall r s, ar = abstract r -> respects_classes r = true ->
    x = classes s -> lang cs_mem r s.
Proof.
  induction 1; intros r0 s0 Ea Hr Ex; destruct r0; simpl in Ea; try discriminate Ea;
    inversion Ea; subst; simpl in Hr.
  - destruct s0; [constructor|discriminate Ex].
  - destruct s0 as [|b [|b' s0]]; try discriminate Ex.
    simpl in Ex. inversion Ex; subst. constructor.
    rewrite (cs_respects_spec _ Hr). assumption.
  - apply andb_true_iff in Hr. destruct Hr as [Hr1 Hr2].
    unfold classes in Ex. symmetry in Ex. apply map_eq_app in Ex.
    destruct Ex as [s1 [s2 [-> [E1 E2]]]].
    constructor; [eapply IHlang1|eapply IHlang2]; eauto.
  - apply andb_true_iff in Hr. destruct Hr as [Hr1 Hr2]. apply L_altl. eapply IHlang; eauto.
  - apply andb_true_iff in Hr. destruct Hr as [Hr1 Hr2]. apply L_altr. eapply IHlang; eauto.
  - destruct s0; [constructor|discriminate Ex].
  - unfold classes in Ex. symmetry in Ex. apply map_eq_app in Ex.
    destruct Ex as [s1 [s2 [-> [E1 E2]]]].
    constructor; [eapply IHlang1|eapply IHlang2]; eauto.
Qed.

Theorem matches_abstract : forall r, respects_classes r = true ->
    forall s, matches_b r s = matches_c (abstract r) (classes s).
Proof.
  intros r Hr s. apply eq_true_iff_eq. unfold matches_b, matches_c.
  rewrite (matches_lang cs_mem cset_eqb cset_eqb_sound).
  rewrite (matches_lang cm_mem cmask_eqb cmask_eqb_sound).
  split.
  - intros H. apply lang_abstract_fwd; assumption.
  - intros H. eapply lang_abstract_bwd; eauto.
Qed.

(** ** The rule automaton decides the rule *)

Lemma accepts_dead : forall strict m w, accepts_from (rule_dfa strict m) UDead w = false.
Proof. induction w; simpl; auto. Qed.

(** The rule, generalised over "the current component already has a byte". *)
Definition empties_from (seen : bool) (m : policy) (comps : list bytes) : bool :=
  match comps with
  | [] => true
  | h :: r =>
    match m with
    | MExact => (seen || nonempty h) && forallb nonempty r
    | MPrefix => match r with [] => true | _ => (seen || nonempty h) && forallb nonempty (removelast r) end
    | MWildcard => true
    end
  end.

Definition rule_from (seen strict : bool) (m : policy) (s : bytes) : bool :=
  forallb (comp_ok strict) (split_dot s) && empties_from seen m (split_dot s).

Lemma split_dot_nonnil : forall s, split_dot s <> [].
Proof.
  induction s as [|c t IH]; simpl; [discriminate|].
  destruct (is_dot c); [discriminate|]. destruct (split_dot t); discriminate.
Qed.

Lemma empties_from_false : forall m comps, comps <> [] -> empties_from false m comps = empties_ok m comps.
Proof.
  intros m [|h r] Hne; [congruence|]. destruct m; simpl; auto.
  destruct r; simpl; auto.
Qed.

Lemma rule_from_false : forall strict m s, rule_from false strict m s = uri_rule strict m s.
Proof.
  intros. unfold rule_from, uri_rule. rewrite empties_from_false; auto using split_dot_nonnil.
Qed.

Lemma classify_dot : forall c, is_dot c = true -> classify c = CDot.
Proof. intros c H. unfold classify. rewrite H. reflexivity. Qed.

Lemma dot_not_ok : forall strict c, is_dot c = true -> char_ok strict c = false.
Proof.
  intros strict c H. unfold char_ok, loose_char. destruct strict.
  - unfold is_dot in H. apply N.eqb_eq in H. unfold is_strict_char. rewrite H. reflexivity.
  - rewrite H. rewrite orb_true_r. reflexivity.
Qed.

Lemma classify_nodot : forall strict c, is_dot c = false ->
    comp_cls strict (classify c) = char_ok strict c /\ classify c <> CDot.
Proof.
  intros strict c H. unfold classify, char_ok, loose_char. rewrite H.
  destruct (is_hash c) eqn:Eh.
  - split; [|discriminate]. destruct strict; simpl.
    + unfold is_hash in Eh. apply N.eqb_eq in Eh. unfold is_strict_char. rewrite Eh. reflexivity.
    + rewrite orb_true_r. reflexivity.
  - destruct (is_ws c) eqn:Ew.
    + split; [|discriminate]. destruct strict; simpl; [|reflexivity].
      unfold is_ws in Ew. unfold is_strict_char.
      repeat (apply orb_true_iff in Ew; destruct Ew as [Ew|Ew]);
        apply N.eqb_eq in Ew; rewrite Ew; reflexivity.
    + destruct (is_strict_char c) eqn:Es; (split; [|discriminate]); destruct strict; reflexivity.
Qed.

Definition seen_of (q : ust) : bool := match q with U1 => true | _ => false end.

Lemma rule_dfa_from : forall strict m s q, q <> UDead ->
    accepts_from (rule_dfa strict m) q (classes s) = rule_from (seen_of q) strict m s.
Proof.
  intros strict m. induction s as [|c t IH]; intros q Hq.
  - unfold rule_from. simpl. destruct q, m; simpl; congruence.
  - unfold rule_from. simpl split_dot. simpl classes. simpl accepts_from.
    destruct (is_dot c) eqn:Ed.
    + rewrite (classify_dot _ Ed).
      pose proof (split_dot_nonnil t) as Hnn.
      destruct q; [| |congruence].
      * (* U0: an empty component *)
        simpl rule_step. simpl forallb.
        destruct m.
        -- rewrite accepts_dead. simpl. rewrite andb_false_r. reflexivity.
        -- rewrite accepts_dead. simpl. destruct (split_dot t); [congruence|].
           simpl. rewrite andb_false_r. reflexivity.
        -- rewrite IH by discriminate. unfold rule_from. simpl.
           destruct (split_dot t); reflexivity.
      * (* U1: the component ends *)
        simpl rule_step. rewrite IH by discriminate. unfold rule_from. simpl forallb.
        destruct m; simpl.
        -- destruct (split_dot t) as [|h r]; [congruence|]. simpl. reflexivity.
        -- destruct (split_dot t) as [|h r]; [congruence|]. simpl.
           destruct r; simpl; reflexivity.
        -- destruct (split_dot t); reflexivity.
    + destruct (classify_nodot strict c Ed) as [Hc Hnd].
      assert (Hstep : rule_step strict m q (classify c) =
                      if char_ok strict c then U1 else UDead).
      { simpl. destruct q; [| |congruence]; simpl; rewrite Hc;
          destruct (char_ok strict c); auto; destruct (classify c); try congruence; auto. }
      rewrite Hstep. pose proof (split_dot_nonnil t) as Hnn.
      destruct (split_dot t) as [|h r] eqn:Esp; [congruence|].
      destruct (char_ok strict c) eqn:Eok.
      * rewrite IH by discriminate. unfold rule_from. rewrite Esp. simpl. rewrite Eok. simpl.
        destruct m; simpl; try reflexivity.
        -- rewrite orb_true_r. reflexivity.
        -- destruct r; [reflexivity|]. rewrite orb_true_r. reflexivity.
      * rewrite accepts_dead. simpl. rewrite Eok. reflexivity.
Qed.

Theorem rule_dfa_correct : forall strict m s,
    accepts (rule_dfa strict m) (classes s) = uri_rule strict m s.
Proof.
  intros. unfold accepts. simpl d_init. rewrite rule_dfa_from by discriminate.
  apply rule_from_false.
Qed.

(** ** Merging runs of [COther] (rune view) does not change the verdict *)

Lemma rule_step_other_idem : forall strict m q,
    rule_step strict m (rule_step strict m q COther) COther = rule_step strict m q COther.
Proof. intros [] [] []; reflexivity. Qed.

Lemma merge_other_accepts : forall strict m w w', merge_other w w' ->
    forall q, accepts_from (rule_dfa strict m) q w = accepts_from (rule_dfa strict m) q w'.
Proof.
  induction 1; intros q; simpl; auto.
  rewrite IHmerge_other. simpl. rewrite rule_step_other_idem. reflexivity.
Qed.

(** ** Generic theorem used on the generated expressions *)

Theorem uri_regex_rule : forall fuel r strict m,
    respects_classes r = true -> uri_bisim_at fuel r strict m = true ->
    forall s, matches_b r s = uri_rule strict m s.
Proof.
  intros fuel r strict m Hr Hb s.
  rewrite (matches_abstract r Hr). unfold matches_c.
  rewrite (bisim_b_sound cm_mem cmask_eqb ust_eqb all_cls cmask_eqb_sound ust_eqb_sound
             all_cls_complete _ _ _ Hb).
  apply rule_dfa_correct.
Qed.

Theorem uri_regex_rune_view : forall fuel r strict m,
    respects_classes r = true -> uri_bisim_at fuel r strict m = true ->
    forall s w', merge_other (classes s) w' ->
    matches_c (abstract r) w' = uri_rule strict m s.
Proof.
  intros fuel r strict m Hr Hb s w' Hm. unfold matches_c.
  rewrite (bisim_b_sound cm_mem cmask_eqb ust_eqb all_cls cmask_eqb_sound ust_eqb_sound
             all_cls_complete _ _ _ Hb).
  unfold accepts. rewrite <- (merge_other_accepts strict m _ _ Hm).
  apply rule_dfa_correct.
Qed.
