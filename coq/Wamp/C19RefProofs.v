(** * C19: the generated model agrees with the executable reference model
      (what the runner [c19ref] computes is the rule the theorems are about). *)

From Coq Require Import List Bool Ascii NArith ZArith Lia ZifyN ZifyBool.
From Nexus Require Import Wamp.Regex Wamp.UriRule Wamp.Match Wamp.MatchProofs Wamp.Ids Wamp.Convert.
From Nexus Require Import Wamp.C19Uri Wamp.C19Match Wamp.C19Ids Wamp.C19RefModel Wamp.C19GenModel.
Import ListNotations.

Open Scope N_scope.

Lemma wildcard_ref_iff : forall u w, wildcard_ref u w = true <-> wildcard_rule u w.
Proof.
  intros u w. rewrite wildcard_rule_index. unfold wildcard_ref.
  rewrite andb_true_iff, Nat.eqb_eq, negb_true_iff. tauto.
Qed.

Lemma ref_valid_uri : forall strict m s,
    C19GenModel.m_valid_uri strict m s = C19RefModel.m_valid_uri strict m s.
Proof. exact valid_uri_rule_proof. Qed.

Lemma ref_prefix : forall u p, C19GenModel.m_prefix u p = C19RefModel.m_prefix u p.
Proof. reflexivity. Qed.

Lemma ref_wildcard : forall u w, C19GenModel.m_wildcard u w = C19RefModel.m_wildcard u w.
Proof. exact wildcard_total. Qed.

Lemma ref_is_new : forall last id, u64 last -> u64 id ->
    C19GenModel.m_is_new last id = C19RefModel.m_is_new last id.
Proof.
  intros last id Hl Hi. apply eq_true_iff_eq.
  change (C19GenModel.m_is_new last id) with (is_new last id).
  rewrite (is_new_proof last id Hl Hi).
  unfold C19RefModel.m_is_new, is_new_rule, two53. lia.
Qed.

Lemma ref_update : forall last id, u64 last -> u64 id ->
    C19GenModel.m_update last id = C19RefModel.m_update last id.
Proof.
  intros last id Hl Hi. unfold C19RefModel.m_update.
  change (is_new_rule last id) with (C19RefModel.m_is_new last id).
  rewrite <- (ref_is_new last id Hl Hi).
  unfold C19GenModel.m_update, C19GenModel.m_is_new, gen.GenC19Arith.gen_update_last_recv_id.
  destruct (gen.GenC19Arith.gen_is_new_recv_id last id); reflexivity.
Qed.

Lemma ref_idgen_next : forall s, s <= two53 ->
    C19GenModel.m_idgen_next s = C19RefModel.m_idgen_next s.
Proof.
  intros s H. destruct (idgen_next_step s H) as [H1 H2].
  unfold C19GenModel.m_idgen_next, C19RefModel.m_idgen_next, idgen_rule.
  unfold idgen_result, idgen_state in *.
  destruct (gen.GenC19Arith.gen_idgen_next s) as [a b0]. simpl in *. congruence.
Qed.

Lemma ref_as_id : forall v, wf_value v -> C19GenModel.m_as_id v = C19RefModel.m_as_id v.
Proof.
  intros v Hwf. pose proof (as_id_proof v Hwf) as H. pose proof (as_id_refused_zero_proof v) as H0.
  unfold as_id in H. unfold C19GenModel.m_as_id, C19RefModel.m_as_id.
  destruct (gen.GenC19Arith.gen_as_id (gen.GenC19Arith.gen_as_int64 v)) as [i ok]. simpl in *.
  rewrite <- H. destruct ok; [reflexivity|]. rewrite H0; reflexivity.
Qed.

Lemma ref_global_id : forall r, (0 <= r < gen.GenC19Arith.gen_global_id_bound)%Z ->
    C19GenModel.m_global_id r = C19RefModel.m_global_id r.
Proof. intros r H. apply (global_id_range_proof r H). Qed.
