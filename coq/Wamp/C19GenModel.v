(** * C19: the generated model under the runner's interface, the diagnostics
      of the two per-run regex obligations, and in-kernel test cases
      (definitions only). *)

From Coq Require Import List Bool Ascii NArith ZArith.
From Nexus Require Import Wamp.Regex Wamp.RegexEquiv Wamp.UriRule Wamp.Match Wamp.Ids Wamp.Convert.
From Nexus Require Import gen.GenC19Regex gen.GenC19Arith gen.GenC19Match.
Import ListNotations.

Open Scope N_scope.

Definition m_valid_uri (strict : bool) (m : policy) (s : bytes) : bool := gen_valid_uri strict m s.
Definition m_prefix (u p : bytes) : option bool := gen_prefix_match u p.
Definition m_wildcard (u w : bytes) : option bool := gen_wildcard_match u w.
Definition m_idgen_next (s : N) : N * N := gen_idgen_next s.
Definition m_is_new (last id : N) : bool := gen_is_new_recv_id last id.
Definition m_update (last id : N) : N * bool := gen_update_last_recv_id last id.
Definition m_as_id (v : value) : N * bool := gen_as_id (gen_as_int64 v).
Definition m_global_id (r : Z) : N := gen_global_id r.

(** For each of the six modes: does the selected expression respect the byte
    classes (and which bytes offend), is it bisimilar to the rule automaton
    (and which shortest class word, as representative bytes, tells them apart). *)
Definition modes : list (bool * policy) :=
  [(false, MExact); (false, MPrefix); (false, MWildcard); (true, MExact); (true, MPrefix); (true, MWildcard)].

Definition m_diag (_ : unit) : list ((bool * policy) * (bool * list ascii) * (bool * option bytes)) :=
  map (fun sm => let r := gen_select (fst sm) (snd sm) in
                 (sm, (respects_classes r, offenders r),
                  (uri_bisim r (fst sm) (snd sm), uri_diff r (fst sm) (snd sm)))) modes.

(** ** Cases replayed inside the kernel (coq/cases/C19Cases.v, written per run) *)

Inductive tcase :=
| TV (strict : bool) (m : policy) (s : list N) (r : bool)
| TP (u p : list N) (r : option bool)
| TW (u w : list N) (r : option bool)
| TN (s : N) (rs : list N)
| TI (last id : N) (r : bool)
| TU (last id newlast : N) (r : bool)
| TA (v : value) (id : N) (ok : bool).

Definition bytes_of (l : list N) : bytes := map ascii_of_N l.

Definition obool_eqb (a b : option bool) : bool :=
  match a, b with
  | Some x, Some y => Bool.eqb x y
  | None, None => true
  | _, _ => false
  end.

Fixpoint run_next (s : N) (k : nat) : list N :=
  match k with
  | O => []
  | S k' => let p := gen_idgen_next s in snd p :: run_next (fst p) k'
  end.

Fixpoint list_N_eqb (a b : list N) : bool :=
  match a, b with
  | [], [] => true
  | x :: a', y :: b' => (x =? y) && list_N_eqb a' b'
  | _, _ => false
  end.

Definition check_case (c : tcase) : bool :=
  match c with
  | TV strict m s r => Bool.eqb (m_valid_uri strict m (bytes_of s)) r
  | TP u p r => obool_eqb (m_prefix (bytes_of u) (bytes_of p)) r
  | TW u w r => obool_eqb (m_wildcard (bytes_of u) (bytes_of w)) r
  | TN s rs => list_N_eqb (run_next s (length rs)) rs
  | TI last id r => Bool.eqb (m_is_new last id) r
  | TU last id nl r => let p := m_update last id in (fst p =? nl) && Bool.eqb (snd p) r
  | TA v id ok => let p := m_as_id v in (fst p =? id) && Bool.eqb (snd p) ok
  end.

Definition failing_cases (cs : list tcase) : list tcase := filter (fun c => negb (check_case c)) cs.
