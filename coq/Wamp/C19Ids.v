(** * C19, ids: theorems about the GENERATED integer code
      (coq/gen/GenC19Arith.v: MaxID, deltaID, IDGen.Next, Session.IsNewRecvID,
      Session.UpdateLastRecvIDLocked, AsID, AsInt64, GlobalID).

    Every proof unfolds the generated definition, splits on the generated
    conditions and closes the branches with [lia] (machine arithmetic is
    present as explicit [mod 2^64]); nothing depends on the order or nesting
    of the conditions in the source. *)

From Coq Require Import NArith ZArith Lia Bool ZifyN ZifyBool.
From Nexus Require Import Wamp.Ids Wamp.Convert.
From Nexus Require Import gen.GenC19Arith.

Ltac Zify.zify_post_hook ::= Z.div_mod_to_equations.

Open Scope N_scope.

Ltac split_ifs :=
  repeat match goal with
         | |- context [if ?c then _ else _] => destruct c eqn:?
         | H : context [if ?c then _ else _] |- _ => destruct c eqn:?
         end.

Ltac unfold_gen :=
  unfold gen_idgen_next, gen_update_last_recv_id, gen_is_new_recv_id, gen_as_id, gen_global_id,
    gen_global_id_bound, gen_MaxID, gen_deltaID, u64_add, u64_sub, u64_of_i64, i64_of_u64,
    i64_of_i32, i64_of_u32, u64, i64, two64, two63, two53 in *;
  cbv zeta in *.

(** ** Names used by the property statements *)

Definition MaxID : N := gen_MaxID.
Definition deltaID : N := gen_deltaID.

(** IDGen.Next as a state transformer: [idgen_state s] is the field after
    the call, [idgen_result s] the id returned, from field value [s]. *)
Definition idgen_state (s : N) : N := fst (gen_idgen_next s).
Definition idgen_result (s : N) : N := snd (gen_idgen_next s).

(** The id returned by the (n+1)-th call on a fresh generator (field 0). *)
Definition nth_id (n : N) : N := idgen_result (iter_state idgen_state n 0).

Definition global_id (r : Z) : N := gen_global_id r.

Definition is_new (last id : N) : bool := gen_is_new_recv_id last id.
Definition update_last (last id : N) : N := fst (gen_update_last_recv_id last id).

Definition as_id (v : value) : option N :=
  let r := gen_as_id (gen_as_int64 v) in if snd r then Some (fst r) else None.

(** ** Constants *)

Lemma MaxID_value : MaxID = two53.
Proof. reflexivity. Qed.

Lemma deltaID_value : deltaID = 500.
Proof. reflexivity. Qed.

(** ** IDGen.Next *)

Lemma idgen_next_step : forall s, s <= two53 ->
    idgen_result s = (if s <? two53 then s + 1 else 1) /\ idgen_state s = idgen_result s.
Proof.
  intros s H. unfold idgen_result, idgen_state. unfold_gen. split_ifs; simpl; lia.
Qed.

Lemma idgen_next_range_proof : forall s, s <= two53 ->
    1 <= idgen_result s <= two53 /\ idgen_state s <= two53.
Proof.
  intros s H. destruct (idgen_next_step s H) as [H1 H2]. rewrite H2, H1.
  unfold two53 in *. split_ifs; lia.
Qed.

Lemma idgen_state_after : forall n,
    iter_state idgen_state n 0 = if n =? 0 then 0 else (n - 1) mod two53 + 1.
Proof.
  unfold iter_state. induction n as [|n IH] using N.peano_ind.
  - reflexivity.
  - rewrite N.iter_succ, IH.
    assert (Hle : (if n =? 0 then 0 else (n - 1) mod two53 + 1) <= two53).
    { unfold two53. split_ifs; lia. }
    destruct (idgen_next_step _ Hle) as [H1 H2]. rewrite H2, H1.
    unfold two53 in *. split_ifs; lia.
Qed.

Theorem idgen_seq_proof : forall n, nth_id n = n mod two53 + 1.
Proof.
  intros n. unfold nth_id. rewrite idgen_state_after.
  assert (Hle : (if n =? 0 then 0 else (n - 1) mod two53 + 1) <= two53).
  { unfold two53. split_ifs; lia. }
  destruct (idgen_next_step _ Hle) as [H1 _]. rewrite H1.
  unfold two53 in *. split_ifs; lia.
Qed.

(** ** GlobalID *)

Theorem global_id_range_proof : forall r, (0 <= r < gen_global_id_bound)%Z ->
    1 <= global_id r <= two53 /\ global_id r = Z.to_N r + 1.
Proof.
  intros r H. unfold global_id. unfold_gen. lia.
Qed.

Lemma global_id_bound_value : gen_global_id_bound = Z.of_N two53.
Proof. reflexivity. Qed.

(** ** IsNewRecvID / UpdateLastRecvID *)

Theorem is_new_proof : forall last id, u64 last -> u64 id ->
    (is_new last id = true <->
     1 <= id <= two53 /\
     (last = 0 \/ last < id \/ (id < last /\ last <= two53 + id /\ two53 + id < last + 500))).
Proof.
  intros last id Hl Hi. unfold is_new. unfold_gen. split_ifs; lia.
Qed.

Theorem update_last_proof : forall last id, u64 last -> u64 id ->
    update_last last id = (if is_new last id then id else last) /\
    snd (gen_update_last_recv_id last id) = is_new last id.
Proof.
  intros last id Hl Hi. unfold update_last, is_new, gen_update_last_recv_id.
  destruct (gen_is_new_recv_id last id); simpl; auto.
Qed.

Theorem last_recv_invariant_proof : forall last id, u64 last -> u64 id ->
    last <= two53 -> update_last last id <= two53.
Proof.
  intros last id Hl Hi Hle. destruct (update_last_proof last id Hl Hi) as [-> _].
  destruct (is_new last id) eqn:E; [|exact Hle].
  apply is_new_proof in E; auto. lia.
Qed.

(** ** AsID *)

Lemma clamp_pos_range : forall t,
    ((0 <? clamp_i64 t)%Z && (clamp_i64 t <=? Z.of_N two53)%Z) =
    match t with Some z => ((1 <=? z)%Z && (z <=? Z.of_N two53)%Z) | None => false end.
Proof.
  intros [z|]; unfold clamp_i64, min_i64, two63, two53; split_ifs; lia.
Qed.

Lemma clamp_id : forall z, (1 <= z <= Z.of_N two53)%Z -> clamp_i64 (Some z) = z.
Proof.
  intros z H. unfold clamp_i64, min_i64, two63, two53 in *. split_ifs; lia.
Qed.

Ltac finish_as_id :=
  repeat (cbv beta iota; cbn [fst snd]; split_ifs);
  try reflexivity; try discriminate; try (exfalso; lia); try (f_equal; lia).

Theorem as_id_proof : forall v, wf_value v -> as_id v = as_id_rule v.
Proof.
  intros v Hwf. unfold as_id, as_id_rule.
  destruct v; simpl in Hwf; simpl gen_as_int64; simpl int_value.
  1-7: unfold_gen; finish_as_id.
  - (* float64 *)
    unfold i64_of_f64, clamp_i64, min_i64. destruct (f64_trunc bits) as [z|]; unfold_gen; finish_as_id.
  - (* float32 *)
    unfold i64_of_f32, clamp_i64, min_i64. destruct (f32_trunc bits) as [z|]; unfold_gen; finish_as_id.
  - reflexivity.
Qed.

(** When AsID refuses, the id it returns is 0. *)
Theorem as_id_refused_zero_proof : forall v,
    snd (gen_as_id (gen_as_int64 v)) = false -> fst (gen_as_id (gen_as_int64 v)) = 0.
Proof.
  intros v. unfold gen_as_id. destruct (gen_as_int64 v); simpl; split_ifs; simpl; congruence.
Qed.

(** ** Forms used by the property file *)

Theorem is_new_window_proof : forall last id, u64 last -> u64 id ->
    (is_new last id = true <->
     1 <= id <= two53 /\
     (last = 0 \/ last < id \/
      (id < last /\ (0 <= Z.of_N two53 - Z.of_N last + Z.of_N id < 500)%Z))).
Proof.
  intros last id Hl Hi. rewrite (is_new_proof last id Hl Hi). unfold two53. lia.
Qed.

(** For a last id the session can actually hold (see [last_recv_invariant_proof])
    the lower bound of the window is automatic. *)
Theorem is_new_valid_last_proof : forall last id, last <= two53 -> u64 id ->
    (is_new last id = true <->
     1 <= id <= two53 /\ (last = 0 \/ id > last \/ (id < last /\ (two53 - last) + id < 500))).
Proof.
  intros last id Hl Hi. assert (u64 last) by (unfold u64, two64, two53 in *; lia).
  rewrite (is_new_proof last id H Hi). unfold two53 in *. lia.
Qed.

Theorem as_id_iff_proof : forall v i, wf_value v ->
    (as_id v = Some i <->
     exists z, int_value v = Some z /\ (1 <= z <= Z.of_N two53)%Z /\ i = Z.to_N z).
Proof.
  intros v i Hwf. rewrite (as_id_proof v Hwf). unfold as_id_rule.
  destruct (int_value v) as [z|].
  - destruct ((1 <=? z)%Z && (z <=? Z.of_N two53)%Z) eqn:E.
    + split.
      * intros H. injection H as <-. exists z. unfold two53 in *. repeat split; lia.
      * intros [z' [Hz [_ ->]]]. injection Hz as ->. reflexivity.
    + split; [discriminate|]. intros [z' [Hz [Hr _]]]. injection Hz as ->.
      unfold two53 in *. lia.
  - split; [discriminate|]. intros [z' [Hz _]]. discriminate.
Qed.
