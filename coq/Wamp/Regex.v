(** * Regular expressions: syntax, language, executable matcher (definitions only)

    Generic in the alphabet [A] and in the representation [C] of character
    sets ([mem c a] = "letter [a] belongs to set [c]").  Two instances are
    used for C19:

      - bytes:    A = ascii (a Go string is a sequence of bytes),
                  C = [cset] (a possibly negated list of byte ranges), the
                  form in which the translator emits the six literals of
                  /repo/wamp/identifier.go;
      - classes:  A = [cls] (five byte classes), C = list of classes.

    The meaning of an expression is the standard inductive language [lang];
    the matcher works with Antimirov partial derivatives (a state is a finite
    list of expressions) and is proved equivalent to [lang] in
    RegexProofs.v.

    Reading of the Go (RE2) expressions at byte level.  Go's regexp matches
    runes of the UTF-8 decoding, an invalid byte counting as the one-byte rune
    U+FFFD.  The translator only accepts pure-ASCII literals, so every
    character set of an expression is an ASCII set or the complement of one;
    a non-ASCII rune (1 to 4 bytes, all >= 0x80) therefore belongs to a set
    iff each of its bytes does (both hold exactly for the complemented sets).
    Hence the rune-level class word of a string is its byte-level class word
    with some runs of consecutive class-[COther] letters merged into one
    letter; [UriProofs.valid_uri_rune_view] proves that the verdict is
    invariant under such merging.  What remains trusted is that Go's regexp
    implements this textbook semantics for the subset
    (literals, escapes, [..], [^..], \s, groups, * + ?, |, anchoring ^..$). *)

From Coq Require Import List Bool.
Import ListNotations.

Set Implicit Arguments.

Section Regex.
  Variables (A C : Type).
  Variable mem : C -> A -> bool.
  Variable C_eqb : C -> C -> bool.

  Inductive re : Type :=
  | Emp : re                       (* no word *)
  | Eps : re                       (* the empty word *)
  | Chr : C -> re                  (* one letter of the set *)
  | Cat : re -> re -> re
  | Alt : re -> re -> re
  | Star : re -> re.

  Definition re_plus (r : re) : re := Cat r (Star r).
  Definition re_opt (r : re) : re := Alt r Eps.

  Inductive lang : re -> list A -> Prop :=
  | L_eps : lang Eps []
  | L_chr : forall c a, mem c a = true -> lang (Chr c) [a]
  | L_cat : forall r s u v, lang r u -> lang s v -> lang (Cat r s) (u ++ v)
  | L_altl : forall r s u, lang r u -> lang (Alt r s) u
  | L_altr : forall r s u, lang s u -> lang (Alt r s) u
  | L_star0 : forall r, lang (Star r) []
  | L_star1 : forall r u v, lang r u -> lang (Star r) v -> lang (Star r) (u ++ v).

  Fixpoint nullable (r : re) : bool :=
    match r with
    | Emp => false
    | Eps => true
    | Chr _ => false
    | Cat r s => nullable r && nullable s
    | Alt r s => nullable r || nullable s
    | Star _ => true
    end.

  (** Partial derivatives: [pd a r] is a list of expressions whose languages
      together are the left quotient of [lang r] by [a]. *)
  Fixpoint pd (a : A) (r : re) : list re :=
    match r with
    | Emp => []
    | Eps => []
    | Chr c => if mem c a then [Eps] else []
    | Cat r s => map (fun r' => Cat r' s) (pd a r) ++ (if nullable r then pd a s else [])
    | Alt r s => pd a r ++ pd a s
    | Star r => map (fun r' => Cat r' (Star r)) (pd a r)
    end.

  Fixpoint re_eqb (r s : re) : bool :=
    match r, s with
    | Emp, Emp => true
    | Eps, Eps => true
    | Chr c, Chr d => C_eqb c d
    | Cat r1 r2, Cat s1 s2 => re_eqb r1 s1 && re_eqb r2 s2
    | Alt r1 r2, Alt s1 s2 => re_eqb r1 s1 && re_eqb r2 s2
    | Star r, Star s => re_eqb r s
    | _, _ => false
    end.

  Definition mem_re (r : re) (R : list re) : bool := existsb (re_eqb r) R.

  Fixpoint dedup (R : list re) : list re :=
    match R with
    | [] => []
    | r :: R' => let D := dedup R' in if mem_re r D then D else r :: D
    end.

  (** One step of the set automaton; duplicates are dropped to keep states small. *)
  Definition pd_set (a : A) (R : list re) : list re := dedup (flat_map (pd a) R).

  Definition nullable_set (R : list re) : bool := existsb nullable R.

  Fixpoint matches_from (R : list re) (w : list A) : bool :=
    match w with
    | [] => nullable_set R
    | a :: w' => matches_from (pd_set a R) w'
    end.

  Definition matches (r : re) (w : list A) : bool := matches_from [r] w.

  (** Set inclusion / equality of states, used by the certificate checker. *)
  Definition incl_b (R S : list re) : bool := forallb (fun r => mem_re r S) R.
  Definition set_eqb (R S : list re) : bool := incl_b R S && incl_b S R.

End Regex.

Arguments Emp {C}.
Arguments Eps {C}.
