(** * Soundness of the certificate checker *)

From Coq Require Import List Bool.
From Nexus Require Import Wamp.Regex Wamp.RegexProofs Wamp.RegexEquiv.
Import ListNotations.

Set Implicit Arguments.

Section EquivProofs.
  Variables (A C Q : Type).
  Variable mem : C -> A -> bool.
  Variable C_eqb : C -> C -> bool.
  Variable Q_eqb : Q -> Q -> bool.
  Variable letters : list A.
  Hypothesis C_eqb_sound : forall c d, C_eqb c d = true -> c = d.
  Hypothesis Q_eqb_sound : forall p q, Q_eqb p q = true -> p = q.
  Hypothesis letters_all : forall a, In a letters.

  Notation matches_from := (matches_from mem C_eqb).
  Notation matches := (matches mem C_eqb).
  Notation pair_in := (pair_in C_eqb Q_eqb).
  Notation check_closed := (check_closed mem C_eqb Q_eqb letters).
  Notation check_pair := (check_pair mem C_eqb Q_eqb letters).
  Notation bisim_b := (bisim_b mem C_eqb Q_eqb letters).

  Lemma pair_in_inv : forall R q V, pair_in (R, q) V = true ->
      exists R', In (R', q) V /\ set_eqb C_eqb R R' = true.
  Proof.
    intros R q V H. unfold RegexEquiv.pair_in in H. apply existsb_exists in H.
    destruct H as [[R' q'] [Hin H]]. simpl in H. apply andb_true_iff in H.
    destruct H as [Hq Hs]. apply Q_eqb_sound in Hq. subst q'. eauto.
  Qed.

  Lemma closed_agree : forall (D : dfa A Q) V,
      forallb (check_pair D V) V = true ->
      forall w R q, pair_in (R, q) V = true -> matches_from R w = accepts_from D q w.
  Proof.
    intros D V HV. rewrite forallb_forall in HV.
    induction w as [|a w IH]; intros R q Hin.
    - apply pair_in_inv in Hin. destruct Hin as [R' [Hin Hs]].
      rewrite (set_eqb_matches mem C_eqb C_eqb_sound _ _ [] Hs).
      specialize (HV _ Hin). unfold RegexEquiv.check_pair in HV.
      apply andb_true_iff in HV. destruct HV as [Hag _].
      unfold pagree in Hag. simpl in Hag. apply eqb_prop in Hag. exact Hag.
    - apply pair_in_inv in Hin. destruct Hin as [R' [Hin Hs]].
      rewrite (set_eqb_matches mem C_eqb C_eqb_sound _ _ (a :: w) Hs).
      specialize (HV _ Hin). unfold RegexEquiv.check_pair in HV.
      apply andb_true_iff in HV. destruct HV as [_ Hsucc].
      rewrite forallb_forall in Hsucc. specialize (Hsucc a (letters_all a)).
      simpl. apply IH. exact Hsucc.
  Qed.

  Theorem check_closed_sound : forall r (D : dfa A Q) V,
      check_closed r D V = true -> forall w, matches r w = accepts D w.
  Proof.
    intros r D V H w. unfold RegexEquiv.check_closed in H.
    apply andb_true_iff in H. destruct H as [H0 HV].
    unfold Regex.matches, accepts. eapply closed_agree; eauto.
  Qed.

  Theorem bisim_b_sound : forall fuel r (D : dfa A Q),
      bisim_b fuel r D = true -> forall w, matches r w = accepts D w.
  Proof.
    intros fuel r D H w. unfold RegexEquiv.bisim_b in H.
    exact (check_closed_sound _ _ _ H w).
  Qed.

End EquivProofs.
