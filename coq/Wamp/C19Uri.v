(** * C19, URI validation: the per-run obligations over the GENERATED
      expressions (coq/gen/GenC19Regex.v) and the resulting theorem.

    Nothing here looks at the syntax of the expressions: both obligations are
    computed ([vm_compute]) from whatever the translator emitted, so a rewrite
    of a literal with the same language passes and a changed language does
    not. *)

From Coq Require Import List Bool.
From Nexus Require Import Wamp.Regex Wamp.RegexEquiv Wamp.UriRule Wamp.UriRuleProofs.
From Nexus Require Import gen.GenC19Regex.
Import ListNotations.

(** The model of URI.ValidURI: the generated decision tree applied to the
    generated expressions, matched at byte level. *)
Definition valid_uri (strict : bool) (m : policy) (s : bytes) : bool := gen_valid_uri strict m s.

(** Obligation 1: every character set of every selected expression is a union
    of the five byte classes (checked over all 256 byte values). *)
Lemma gen_respects_classes : forall strict m, respects_classes (gen_select strict m) = true.
Proof. intros [] []; vm_compute; reflexivity. Qed.

(** Obligation 2: the abstracted expression and the rule automaton of its
    mode are bisimilar (certificate proposed by [explore], checked by the
    verified [check_closed]). *)
Lemma gen_bisimilar : forall strict m, uri_bisim_at bisim_fuel (gen_select strict m) strict m = true.
Proof. intros [] []; vm_compute; reflexivity. Qed.

Theorem valid_uri_rule_proof : forall strict m s, valid_uri strict m s = uri_rule strict m s.
Proof.
  intros strict m s. unfold valid_uri, gen_valid_uri.
  apply (uri_regex_rule bisim_fuel); [apply gen_respects_classes|apply gen_bisimilar].
Qed.

(** The verdict does not depend on whether the expression is run on bytes or
    on the runes of the UTF-8 decoding (see the header of Regex.v). *)
Theorem valid_uri_rune_view_proof : forall strict m s w',
    merge_other (classes s) w' ->
    matches_c (abstract (gen_select strict m)) w' = valid_uri strict m s.
Proof.
  intros strict m s w' Hm. rewrite valid_uri_rule_proof.
  apply (uri_regex_rune_view bisim_fuel); [apply gen_respects_classes|apply gen_bisimilar|exact Hm].
Qed.
