(** * C19: the executable reference model (definitions only; no generated code)

    The rules of the property as boolean functions, packaged under the
    interface the OCaml runner (ocaml/c19/driver.ml) expects.  Extracted into
    the runner [c19ref]; used as the monitor on what the implementation
    returned and as the reference of the failing-input search when the
    generated model does not build. *)

From Coq Require Import List Bool Ascii NArith ZArith.
From Nexus Require Import Wamp.Regex Wamp.UriRule Wamp.Match Wamp.Ids Wamp.Convert.
Import ListNotations.

Open Scope N_scope.

Definition idgen_rule (s : N) : N := if s <? two53 then s + 1 else 1.

Definition is_new_rule (last id : N) : bool :=
  (1 <=? id) && (id <=? two53) &&
  ((last =? 0) || (last <? id) || ((id <? last) && (last <=? two53 + id) && (two53 + id <? last + 500))).

(** Interface of the runner. *)
Definition m_valid_uri (strict : bool) (m : policy) (s : bytes) : bool := uri_rule strict m s.
Definition m_prefix (u p : bytes) : option bool := Some (has_prefix u p).
Definition m_wildcard (u w : bytes) : option bool := Some (wildcard_ref u w).
Definition m_idgen_next (s : N) : N * N := (idgen_rule s, idgen_rule s).
Definition m_is_new (last id : N) : bool := is_new_rule last id.
Definition m_update (last id : N) : N * bool :=
  if is_new_rule last id then (id, true) else (last, false).
Definition m_as_id (v : value) : N * bool :=
  match as_id_rule v with Some i => (i, true) | None => (0, false) end.
Definition m_global_id (r : Z) : N := Z.to_N r + 1.

(** Diagnostics exist only for the generated expressions. *)
Definition m_diag (_ : unit) : list ((bool * policy) * (bool * list ascii) * (bool * option bytes)) := [].
