(** * Lemmas about prefix and wildcard matching (independent of generated code) *)

From Coq Require Import List Bool Ascii Arith Lia.
From Nexus Require Import Wamp.UriRule Wamp.Match.
Import ListNotations.

Lemma bytes_eqb_eq : forall a b, bytes_eqb a b = true <-> a = b.
Proof.
  induction a as [|x a IH]; destruct b as [|y b]; simpl; split; intros H;
    try discriminate; auto.
  - apply andb_true_iff in H. destruct H as [H1 H2]. apply Ascii.eqb_eq in H1.
    apply IH in H2. subst. reflexivity.
  - inversion H; subst. apply andb_true_iff. split; [apply Ascii.eqb_refl|apply IH; reflexivity].
Qed.

Lemma bytes_eqb_reflect : forall a b, reflect (a = b) (bytes_eqb a b).
Proof.
  intros a b. destruct (bytes_eqb a b) eqn:E; constructor.
  - apply bytes_eqb_eq. exact E.
  - intros H. apply bytes_eqb_eq in H. congruence.
Qed.

Theorem has_prefix_iff : forall p u, has_prefix u p = true <-> prefix_rule u p.
Proof.
  unfold prefix_rule. induction p as [|y p IH]; intros u; simpl.
  - split; [intros _; exists u; reflexivity|reflexivity].
  - destruct u as [|x u].
    + split; [discriminate|]. intros [t Ht]. discriminate Ht.
    + rewrite andb_true_iff, Ascii.eqb_eq, IH. split.
      * intros [-> [t ->]]. exists t. reflexivity.
      * intros [t Ht]. inversion Ht; subst. split; [reflexivity|exists t; reflexivity].
Qed.

(** ** The loop combinator *)

Lemma for_range_ret_spec : forall T n i (cond : nat -> option bool) (c : nat -> bool) (r e : option T),
    (forall j, i <= j < i + n -> cond j = Some (c j)) ->
    for_range_ret n i cond r e = if existsb c (seq i n) then r else e.
Proof.
  induction n as [|n IH]; intros i cond c r e H; simpl.
  - reflexivity.
  - rewrite (H i) by lia. destruct (c i); simpl; [reflexivity|].
    apply IH. intros j Hj. apply H. lia.
Qed.

Lemma existsb_seq_false : forall (c : nat -> bool) n,
    existsb c (seq 0 n) = false <-> forall j, j < n -> c j = false.
Proof.
  intros c n. split.
  - intros H j Hj. destruct (c j) eqn:E; [|reflexivity].
    assert (existsb c (seq 0 n) = true) as H'.
    { apply existsb_exists. exists j. split; [apply in_seq; lia|exact E]. }
    congruence.
  - intros H. destruct (existsb c (seq 0 n)) eqn:E; [|reflexivity].
    apply existsb_exists in E. destruct E as [j [Hin Hc]]. apply in_seq in Hin.
    rewrite H in Hc by lia. discriminate.
Qed.

Lemma Forall2_nth_iff : forall (A B : Type) (R : A -> B -> Prop) d1 d2 l1 l2,
    length l1 = length l2 ->
    (Forall2 R l1 l2 <-> forall j, j < length l1 -> R (nth j l1 d1) (nth j l2 d2)).
Proof.
  intros A B R d1 d2. induction l1 as [|a l1 IH]; destruct l2 as [|b l2]; simpl; intros Hl;
    try discriminate.
  - split; [intros _ j Hj; lia|constructor].
  - injection Hl as Hl. split.
    + intros H j Hj. inversion H; subst. destruct j; [assumption|].
      apply (proj1 (IH l2 Hl)); [assumption|lia].
    + intros H. constructor.
      * apply (H 0). lia.
      * apply (IH l2 Hl). intros j Hj. apply (H (S j)). lia.
Qed.

Lemma oidx_nth : forall l j, j < length l -> oidx l j = Some (nth j l []).
Proof. intros l j H. unfold oidx. apply nth_error_nth'. exact H. Qed.

Lemma comp_mismatch_false : forall P W j,
    comp_mismatch P W j = false <-> comp_matches (nth j P []) (nth j W []).
Proof.
  intros P W j. unfold comp_mismatch, comp_matches.
  destruct (bytes_eqb_reflect (nth j W []) []); destruct (bytes_eqb_reflect (nth j W []) (nth j P []));
    simpl; split; intros H; auto; try discriminate; destruct H; congruence.
Qed.

Lemma wildcard_rule_index : forall u w,
    wildcard_rule u w <->
    length (split_dot u) = length (split_dot w) /\
    existsb (comp_mismatch (split_dot u) (split_dot w)) (seq 0 (length (split_dot w))) = false.
Proof.
  intros u w. unfold wildcard_rule. split; intros [Hl H]; split; auto.
  - apply existsb_seq_false. intros j Hj. apply comp_mismatch_false.
    apply (proj1 (Forall2_nth_iff _ _ _ [] [] _ _ Hl) H). unfold bytes in *. lia.
  - apply (Forall2_nth_iff _ _ _ [] [] _ _ Hl). intros j Hj.
    apply comp_mismatch_false. apply (proj1 (existsb_seq_false _ _) H). unfold bytes in *. lia.
Qed.
