(** * Regex versus DFA: certificate checker (definitions only)

    [check_closed r D V] tests that the list [V] of pairs
    (state of the partial-derivative automaton of [r], state of [D]) contains
    the start pair, that both components of every pair agree on acceptance and
    that every successor of every pair under every letter is again in [V]
    (states of the regex side compared as sets).  [explore] proposes such a
    [V] (unverified, fuelled); [bisim_b] = check what [explore] proposed.
    Soundness ([RegexEquivProofs.check_closed_sound]) does not depend on
    [explore].  [find_diff] is the diagnostic twin: breadth-first search for a
    shortest word on which the two sides disagree. *)

From Coq Require Import List Bool.
From Nexus Require Import Wamp.Regex.
Import ListNotations.

Set Implicit Arguments.

Section Equiv.
  Variables (A C Q : Type).
  Variable mem : C -> A -> bool.
  Variable C_eqb : C -> C -> bool.
  Variable Q_eqb : Q -> Q -> bool.
  Variable letters : list A.

  Record dfa : Type := Dfa { d_init : Q; d_step : Q -> A -> Q; d_acc : Q -> bool }.

  Fixpoint accepts_from (D : dfa) (q : Q) (w : list A) : bool :=
    match w with
    | [] => d_acc D q
    | a :: w' => accepts_from D (d_step D q a) w'
    end.

  Definition accepts (D : dfa) (w : list A) : bool := accepts_from D (d_init D) w.

  Definition pstate : Type := (list (re C) * Q)%type.

  Definition pair_in (p : pstate) (V : list pstate) : bool :=
    existsb (fun p' => Q_eqb (snd p) (snd p') && set_eqb C_eqb (fst p) (fst p')) V.

  Definition psucc (D : dfa) (p : pstate) (a : A) : pstate :=
    (pd_set mem C_eqb a (fst p), d_step D (snd p) a).

  Definition pagree (D : dfa) (p : pstate) : bool :=
    Bool.eqb (nullable_set (fst p)) (d_acc D (snd p)).

  Definition check_pair (D : dfa) (V : list pstate) (p : pstate) : bool :=
    pagree D p && forallb (fun a => pair_in (psucc D p a) V) letters.

  Definition check_closed (r : re C) (D : dfa) (V : list pstate) : bool :=
    pair_in ([r], d_init D) V && forallb (check_pair D V) V.

  Fixpoint explore (fuel : nat) (D : dfa) (todo V : list pstate) : list pstate :=
    match fuel with
    | O => V
    | S f =>
      match todo with
      | [] => V
      | p :: todo' =>
        if pair_in p V then explore f D todo' V
        else explore f D (todo' ++ map (psucc D p) letters) (p :: V)
      end
    end.

  Definition bisim_fuel : nat := 2000.

  Definition bisim_b (fuel : nat) (r : re C) (D : dfa) : bool :=
    check_closed r D (explore fuel D [([r], d_init D)] []).

  (** Diagnostic: shortest word on which [r] and [D] disagree (breadth first;
      [None] when the reachable product is exhausted without disagreement or
      the fuel ran out). *)
  Fixpoint find_diff (fuel : nat) (D : dfa) (todo : list (pstate * list A)) (V : list pstate)
    : option (list A) :=
    match fuel with
    | O => None
    | S f =>
      match todo with
      | [] => None
      | (p, path) :: todo' =>
        if negb (pagree D p) then Some (rev path)
        else if pair_in p V then find_diff f D todo' V
        else find_diff f D (todo' ++ map (fun a => (psucc D p a, a :: path)) letters) (p :: V)
      end
    end.

  Definition diff_word (fuel : nat) (r : re C) (D : dfa) : option (list A) :=
    find_diff fuel D [(([r], d_init D), [])] [].

End Equiv.
