(** * The WAMP URI rule, byte classes, character sets (definitions only)

    A Go string is modelled as [bytes] = list of [ascii] (all 256 byte
    values).  [uri_rule strict m s] is the rule of the property written
    directly: split [s] at every '.', check every component.

      loose  : a component contains no whitespace (\t \n \f \r ' ' -- exactly
               Go/RE2's \s, which does NOT contain \v), no '.', no '#';
      strict : a component contains only [0-9a-z_];
      exact  : every component is non-empty;
      prefix : every component but the last is non-empty;
      wildcard : components may be empty. *)

From Coq Require Import List Bool Ascii NArith.
From Nexus Require Import Wamp.Regex Wamp.RegexEquiv.
Import ListNotations.

Open Scope N_scope.

Definition bytes := list ascii.

Inductive policy := MExact | MPrefix | MWildcard.

Definition policy_eqb (a b : policy) : bool :=
  match a, b with
  | MExact, MExact | MPrefix, MPrefix | MWildcard, MWildcard => true
  | _, _ => false
  end.

(** ** Character predicates of the rule *)

Definition code (a : ascii) : N := N_of_ascii a.

Definition is_dot (a : ascii) : bool := code a =? 46.
Definition is_hash (a : ascii) : bool := code a =? 35.
Definition is_ws (a : ascii) : bool :=
  (code a =? 9) || (code a =? 10) || (code a =? 12) || (code a =? 13) || (code a =? 32).
Definition is_strict_char (a : ascii) : bool :=
  ((48 <=? code a) && (code a <=? 57)) || ((97 <=? code a) && (code a <=? 122)) || (code a =? 95).

Definition loose_char (a : ascii) : bool := negb (is_ws a || is_dot a || is_hash a).

Definition char_ok (strict : bool) (a : ascii) : bool :=
  if strict then is_strict_char a else loose_char a.

(** ** Splitting at '.'  (= Go's strings.Split(s, ".")) *)

Fixpoint split_dot (s : bytes) : list bytes :=
  match s with
  | [] => [[]]
  | c :: t =>
    if is_dot c then [] :: split_dot t
    else match split_dot t with
         | [] => [[c]]
         | h :: r => (c :: h) :: r
         end
  end.

Definition nonempty (c : bytes) : bool := match c with [] => false | _ => true end.

Definition comp_ok (strict : bool) (c : bytes) : bool := forallb (char_ok strict) c.

Definition empties_ok (m : policy) (comps : list bytes) : bool :=
  match m with
  | MExact => forallb nonempty comps
  | MPrefix => forallb nonempty (removelast comps)
  | MWildcard => true
  end.

Definition uri_rule (strict : bool) (m : policy) (s : bytes) : bool :=
  let comps := split_dot s in
  forallb (comp_ok strict) comps && empties_ok m comps.

(** ** Byte classes *)

Inductive cls := CWs | CDot | CHash | CStrict | COther.

Definition cls_eqb (a b : cls) : bool :=
  match a, b with
  | CWs, CWs | CDot, CDot | CHash, CHash | CStrict, CStrict | COther, COther => true
  | _, _ => false
  end.

Definition all_cls : list cls := [CWs; CDot; CHash; CStrict; COther].

Definition classify (a : ascii) : cls :=
  if is_dot a then CDot
  else if is_hash a then CHash
  else if is_ws a then CWs
  else if is_strict_char a then CStrict
  else COther.

(** A representative byte of every class. *)
Definition repr (c : cls) : ascii :=
  match c with
  | CWs => " "%char | CDot => "."%char | CHash => "#"%char | CStrict => "a"%char | COther => "Z"%char
  end.

(** ** Character sets as emitted by the translator: possibly negated list of
       inclusive byte ranges. *)

Record cset : Type := CSet { cs_neg : bool; cs_ranges : list (N * N) }.

Definition in_range (n : N) (r : N * N) : bool := (fst r <=? n) && (n <=? snd r).

Definition cs_mem (cs : cset) (a : ascii) : bool :=
  xorb (cs_neg cs) (existsb (in_range (code a)) (cs_ranges cs)).

Definition range_eqb (r s : N * N) : bool := (fst r =? fst s) && (snd r =? snd s).

Fixpoint ranges_eqb (l m : list (N * N)) : bool :=
  match l, m with
  | [], [] => true
  | r :: l', s :: m' => range_eqb r s && ranges_eqb l' m'
  | _, _ => false
  end.

Definition cset_eqb (c d : cset) : bool :=
  Bool.eqb (cs_neg c) (cs_neg d) && ranges_eqb (cs_ranges c) (cs_ranges d).

(** Class-level sets: the list of classes contained (in the order of [all_cls]). *)
Definition cmask := list cls.

Definition cm_mem (m : cmask) (c : cls) : bool := existsb (cls_eqb c) m.

Fixpoint cmask_eqb (l m : cmask) : bool :=
  match l, m with
  | [], [] => true
  | a :: l', b :: m' => cls_eqb a b && cmask_eqb l' m'
  | _, _ => false
  end.

Definition abs_cs (cs : cset) : cmask := filter (fun c => cs_mem cs (repr c)) all_cls.

Fixpoint abstract (r : re cset) : re cmask :=
  match r with
  | Emp => Emp
  | Eps => Eps
  | Chr c => Chr (abs_cs c)
  | Cat r s => Cat (abstract r) (abstract s)
  | Alt r s => Alt (abstract r) (abstract s)
  | Star r => Star (abstract r)
  end.

Definition bools : list bool := [false; true].

Definition all_ascii : list ascii :=
  flat_map (fun b0 => flat_map (fun b1 => flat_map (fun b2 => flat_map (fun b3 =>
  flat_map (fun b4 => flat_map (fun b5 => flat_map (fun b6 => map (fun b7 =>
    Ascii b0 b1 b2 b3 b4 b5 b6 b7) bools) bools) bools) bools) bools) bools) bools) bools.

(** A set respects the classes when membership of a byte only depends on its class. *)
Definition cs_respects (cs : cset) : bool :=
  forallb (fun a => Bool.eqb (cs_mem cs a) (cm_mem (abs_cs cs) (classify a))) all_ascii.

Fixpoint respects_classes (r : re cset) : bool :=
  match r with
  | Emp | Eps => true
  | Chr c => cs_respects c
  | Cat r s | Alt r s => respects_classes r && respects_classes s
  | Star r => respects_classes r
  end.

(** Bytes of a set that break [cs_respects] (diagnostic for the failing-input search). *)
Definition cs_offenders (cs : cset) : list ascii :=
  filter (fun a => negb (Bool.eqb (cs_mem cs a) (cm_mem (abs_cs cs) (classify a)))) all_ascii.

Fixpoint offenders (r : re cset) : list ascii :=
  match r with
  | Emp | Eps => []
  | Chr c => cs_offenders c
  | Cat r s | Alt r s => offenders r ++ offenders s
  | Star r => offenders r
  end.

(** ** The automaton of the rule (three states) *)

Inductive ust := U0 (* at the start of a component *) | U1 (* inside a component *) | UDead.

Definition ust_eqb (a b : ust) : bool :=
  match a, b with
  | U0, U0 | U1, U1 | UDead, UDead => true
  | _, _ => false
  end.

Definition comp_cls (strict : bool) (c : cls) : bool :=
  match c with
  | CStrict => true
  | COther => negb strict
  | _ => false
  end.

Definition rule_step (strict : bool) (m : policy) (q : ust) (c : cls) : ust :=
  match q with
  | UDead => UDead
  | U0 => if comp_cls strict c then U1
          else match c, m with CDot, MWildcard => U0 | _, _ => UDead end
  | U1 => if comp_cls strict c then U1
          else match c with CDot => U0 | _ => UDead end
  end.

Definition rule_acc (m : policy) (q : ust) : bool :=
  match q with
  | U1 => true
  | U0 => match m with MExact => false | _ => true end
  | UDead => false
  end.

Definition rule_dfa (strict : bool) (m : policy) : dfa cls ust :=
  Dfa U0 (rule_step strict m) (rule_acc m).

(** Matching at byte level and at class level. *)
Definition matches_b (r : re cset) (s : bytes) : bool := matches cs_mem cset_eqb r s.
Definition matches_c (r : re cmask) (w : list cls) : bool := matches cm_mem cmask_eqb r w.
Definition classes (s : bytes) : list cls := map classify s.

Notation uri_bisim_at fuel r strict m :=
  (bisim_b cm_mem cmask_eqb ust_eqb all_cls fuel (abstract r) (rule_dfa strict m)).

Definition uri_bisim (r : re cset) (strict : bool) (m : policy) : bool :=
  uri_bisim_at bisim_fuel r strict m.

(** Diagnostic: a shortest class word on which the (abstracted) expression
    and the rule automaton disagree, as representative bytes. *)
Definition uri_diff (r : re cset) (strict : bool) (m : policy) : option bytes :=
  match diff_word cm_mem cmask_eqb ust_eqb all_cls bisim_fuel (abstract r) (rule_dfa strict m) with
  | Some w => Some (map repr w)
  | None => None
  end.

(** Rune view: [merge_other w w'] when [w'] is [w] with some runs of
    consecutive [COther] letters merged (a multi-byte UTF-8 sequence or an
    invalid byte seen as one rune by Go's regexp). *)
Inductive merge_other : list cls -> list cls -> Prop :=
| mo_nil : merge_other [] []
| mo_same : forall c w w', merge_other w w' -> merge_other (c :: w) (c :: w')
| mo_more : forall w w', merge_other w (COther :: w') -> merge_other (COther :: w) (COther :: w').
