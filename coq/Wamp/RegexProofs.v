(** * The partial-derivative matcher decides the inductive language *)

From Coq Require Import List Bool.
From Nexus Require Import Wamp.Regex.
Import ListNotations.

Set Implicit Arguments.

Section RegexProofs.
  Variables (A C : Type).
  Variable mem : C -> A -> bool.
  Variable C_eqb : C -> C -> bool.
  Hypothesis C_eqb_sound : forall c d, C_eqb c d = true -> c = d.

  Notation re := (re C).
  Notation lang := (lang mem).
  Notation pd := (pd mem).
  Notation pd_set := (pd_set mem C_eqb).
  Notation matches_from := (matches_from mem C_eqb).
  Notation matches := (matches mem C_eqb).
  Notation re_eqb := (re_eqb C_eqb).
  Notation mem_re := (mem_re C_eqb).
  Notation dedup := (dedup C_eqb).
  Notation incl_b := (incl_b C_eqb).
  Notation set_eqb := (set_eqb C_eqb).

  Lemma re_eqb_sound : forall r s : re, re_eqb r s = true -> r = s.
  Proof.
    induction r; destruct s; simpl; intros H; try discriminate; auto.
    - apply C_eqb_sound in H. congruence.
    - apply andb_true_iff in H. destruct H as [H1 H2].
      rewrite (IHr1 _ H1), (IHr2 _ H2). reflexivity.
    - apply andb_true_iff in H. destruct H as [H1 H2].
      rewrite (IHr1 _ H1), (IHr2 _ H2). reflexivity.
    - rewrite (IHr _ H). reflexivity.
  Qed.

  Lemma mem_re_In : forall r R, mem_re r R = true -> In r R.
  Proof.
    intros r R H. unfold Regex.mem_re in H. apply existsb_exists in H.
    destruct H as [x [Hin Heq]]. apply re_eqb_sound in Heq. subst. exact Hin.
  Qed.

  Lemma dedup_In : forall R r, In r (dedup R) <-> In r R.
  Proof.
    induction R as [|x R IH]; simpl; intros r.
    - tauto.
    - destruct (mem_re x (dedup R)) eqn:E.
      + rewrite IH. split; [auto|]. intros [->|H]; [|exact H].
        apply IH. apply mem_re_In. exact E.
      + simpl. rewrite IH. tauto.
  Qed.

  Lemma nullable_lang : forall r : re, nullable r = true <-> lang r [].
  Proof.
    induction r; simpl.
    - split; [discriminate|]. intros H. inversion H.
    - split; [constructor|reflexivity].
    - split; [discriminate|]. intros H. inversion H.
    - rewrite andb_true_iff, IHr1, IHr2. split.
      + intros [H1 H2]. change (@nil A) with (@nil A ++ []). constructor; assumption.
      + intros H. inversion H; subst.
        match goal with H : _ ++ _ = [] |- _ => apply app_eq_nil in H; destruct H; subst end.
        auto.
    - rewrite orb_true_iff, IHr1, IHr2. split.
      + intros [H|H]; [apply L_altl|apply L_altr]; exact H.
      + intros H. inversion H; subst; auto.
    - split; [constructor|reflexivity].
  Qed.

  Lemma lang_cat_cons : forall (r s : re) a w,
      lang (Cat r s) (a :: w) <->
      (exists u v, w = u ++ v /\ lang r (a :: u) /\ lang s v) \/
      (lang r [] /\ lang s (a :: w)).
  Proof.
    intros r s a w. split.
    - intros H. inversion H; subst. destruct u as [|b u].
      + right. simpl in *. subst. auto.
      + left. simpl in *.
        match goal with H : _ :: _ = _ :: _ |- _ => inversion H; subst end.
        exists u, v. auto.
    - intros [[u [v [-> [H1 H2]]]]|[H1 H2]].
      + change (a :: u ++ v) with ((a :: u) ++ v). constructor; assumption.
      + change (a :: w) with ([] ++ a :: w). constructor; assumption.
  Qed.

  Lemma lang_star_cons_inv : forall (r : re) x,
      lang (Star r) x -> forall a w, x = a :: w ->
      exists u v, w = u ++ v /\ lang r (a :: u) /\ lang (Star r) v.
  Proof.
    intros r x H. remember (Star r) as sr eqn:Esr.
    induction H; try discriminate Esr; intros a w Ex.
    - discriminate Ex.
    - inversion Esr; subst r0. destruct u as [|b u].
      + simpl in Ex. apply IHlang2; auto.
      + simpl in Ex. inversion Ex; subst. exists u, v. auto.
  Qed.

  Lemma lang_star_cons : forall (r : re) a w,
      lang (Star r) (a :: w) <->
      exists u v, w = u ++ v /\ lang r (a :: u) /\ lang (Star r) v.
  Proof.
    intros r a w. split.
    - intros H. eapply lang_star_cons_inv; eauto.
    - intros [u [v [-> [H1 H2]]]].
      change (a :: u ++ v) with ((a :: u) ++ v). constructor; assumption.
  Qed.

  Lemma pd_correct : forall (r : re) a w,
      lang r (a :: w) <-> exists r', In r' (pd a r) /\ lang r' w.
  Proof.
    induction r; intros a w; simpl.
    - split; [intros H; inversion H|intros [r' [[] _]]].
    - split; [intros H; inversion H|intros [r' [[] _]]].
    - split.
      + intros H. inversion H; subst.
        match goal with H : mem _ _ = true |- _ => rewrite H end.
        exists Eps. split; [left; reflexivity|constructor].
      + intros [r' [Hin Hl]]. destruct (mem c a) eqn:E; [|destruct Hin].
        destruct Hin as [<-|[]]. inversion Hl; subst. constructor. exact E.
    - rewrite lang_cat_cons. split.
      + intros [[u [v [-> [H1 H2]]]]|[H1 H2]].
        * apply IHr1 in H1. destruct H1 as [r' [Hin Hl]].
          exists (Cat r' r2). split.
          -- apply in_or_app. left. apply in_map_iff. eauto.
          -- constructor; assumption.
        * apply nullable_lang in H1. rewrite H1.
          apply IHr2 in H2. destruct H2 as [r' [Hin Hl]].
          exists r'. split; [apply in_or_app; right; exact Hin|exact Hl].
      + intros [r' [Hin Hl]]. apply in_app_or in Hin. destruct Hin as [Hin|Hin].
        * apply in_map_iff in Hin. destruct Hin as [r'' [<- Hin]].
          inversion Hl; subst. left. exists u, v. split; [reflexivity|].
          split; [apply IHr1; eauto|assumption].
        * destruct (nullable r1) eqn:E; [|destruct Hin].
          right. split; [apply nullable_lang; exact E|]. apply IHr2. eauto.
    - split.
      + intros H. inversion H; subst.
        * match goal with H : lang r1 _ |- _ => apply IHr1 in H; destruct H as [r' [Hin Hl]] end.
          exists r'. split; [apply in_or_app; left; exact Hin|exact Hl].
        * match goal with H : lang r2 _ |- _ => apply IHr2 in H; destruct H as [r' [Hin Hl]] end.
          exists r'. split; [apply in_or_app; right; exact Hin|exact Hl].
      + intros [r' [Hin Hl]]. apply in_app_or in Hin. destruct Hin as [Hin|Hin].
        * apply L_altl. apply IHr1. eauto.
        * apply L_altr. apply IHr2. eauto.
    - rewrite lang_star_cons. split.
      + intros [u [v [-> [H1 H2]]]]. apply IHr in H1. destruct H1 as [r' [Hin Hl]].
        exists (Cat r' (Star r)). split; [apply in_map_iff; eauto|constructor; assumption].
      + intros [r' [Hin Hl]]. apply in_map_iff in Hin. destruct Hin as [r'' [<- Hin]].
        inversion Hl; subst. exists u, v. split; [reflexivity|].
        split; [apply IHr; eauto|assumption].
  Qed.

  Lemma pd_set_In : forall a R r', In r' (pd_set a R) <-> exists r, In r R /\ In r' (pd a r).
  Proof.
    intros a R r'. unfold Regex.pd_set. rewrite dedup_In, in_flat_map. tauto.
  Qed.

  Theorem matches_from_lang : forall w R,
      matches_from R w = true <-> exists r, In r R /\ lang r w.
  Proof.
    induction w as [|a w IH]; intros R; simpl.
    - unfold nullable_set. rewrite existsb_exists. split.
      + intros [r [Hin Hn]]. exists r. split; [exact Hin|apply nullable_lang; exact Hn].
      + intros [r [Hin Hl]]. exists r. split; [exact Hin|apply nullable_lang; exact Hl].
    - rewrite IH. split.
      + intros [r' [Hin Hl]]. apply pd_set_In in Hin. destruct Hin as [r [HinR Hpd]].
        exists r. split; [exact HinR|]. apply pd_correct. eauto.
      + intros [r [HinR Hl]]. apply pd_correct in Hl. destruct Hl as [r' [Hpd Hl]].
        exists r'. split; [|exact Hl]. apply pd_set_In. eauto.
  Qed.

  Theorem matches_lang : forall r w, matches r w = true <-> lang r w.
  Proof.
    intros r w. unfold Regex.matches. rewrite matches_from_lang. split.
    - intros [r' [[<-|[]] H]]. exact H.
    - intros H. exists r. split; [left; reflexivity|exact H].
  Qed.

  (** States that are equal as sets accept the same words. *)
  Lemma incl_b_In : forall R S, incl_b R S = true -> forall r, In r R -> In r S.
  Proof.
    intros R S H r Hin. unfold Regex.incl_b in H. rewrite forallb_forall in H.
    apply mem_re_In. apply H. exact Hin.
  Qed.

  Lemma set_eqb_matches : forall R S w, set_eqb R S = true -> matches_from R w = matches_from S w.
  Proof.
    intros R S w H. unfold Regex.set_eqb in H. apply andb_true_iff in H. destruct H as [H1 H2].
    apply eq_true_iff_eq. rewrite !matches_from_lang. split.
    - intros [r [Hin Hl]]. exists r. split; [eapply incl_b_In; eauto|exact Hl].
    - intros [r [Hin Hl]]. exists r. split; [eapply incl_b_In; eauto|exact Hl].
  Qed.

End RegexProofs.
