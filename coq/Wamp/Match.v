(** * Pattern matching of URIs (definitions only)

    [has_prefix] is Go's strings.HasPrefix; [split_dot] (UriRule.v) is
    strings.Split(s, ".").  The combinators below are the target language of
    the translator for URI.WildcardMatch: expressions are evaluated in the
    option monad, [None] being a run-time panic (slice index out of range),
    so that "never panics" is part of the theorem rather than an artefact of
    a total [nth]. *)

From Coq Require Import List Bool Ascii.
From Nexus Require Import Wamp.UriRule.
Import ListNotations.

Fixpoint bytes_eqb (a b : bytes) : bool :=
  match a, b with
  | [], [] => true
  | x :: a', y :: b' => Ascii.eqb x y && bytes_eqb a' b'
  | _, _ => false
  end.

Fixpoint has_prefix (s p : bytes) {struct p} : bool :=
  match p with
  | [] => true
  | y :: p' => match s with
               | [] => false
               | x :: s' => Ascii.eqb x y && has_prefix s' p'
               end
  end.

(** ** Expression combinators (left-to-right evaluation, short-circuit && and ||) *)

Definition oret {T} (x : T) : option T := Some x.
Definition oidx (l : list bytes) (i : nat) : option bytes := nth_error l i.

Definition obin {T U} (f : T -> T -> U) (a b : option T) : option U :=
  match a with
  | None => None
  | Some x => match b with None => None | Some y => Some (f x y) end
  end.

Definition ostr_eq : option bytes -> option bytes -> option bool := obin bytes_eqb.
Definition ostr_ne : option bytes -> option bytes -> option bool :=
  obin (fun x y => negb (bytes_eqb x y)).

Definition oand (a b : option bool) : option bool :=
  match a with
  | None => None
  | Some false => Some false
  | Some true => b
  end.

Definition oor (a b : option bool) : option bool :=
  match a with
  | None => None
  | Some true => Some true
  | Some false => b
  end.

Definition onot (a : option bool) : option bool :=
  match a with None => None | Some x => Some (negb x) end.

Definition oif {T} (c : option bool) (a b : option T) : option T :=
  match c with
  | None => None
  | Some true => a
  | Some false => b
  end.

(** [for i := range xs { if cond(i) { return ret } }; rest] with [n = len(xs)],
    starting at index [i]. *)
Fixpoint for_range_ret {T} (n i : nat) (cond : nat -> option bool) (ret rest : option T) : option T :=
  match n with
  | O => rest
  | S n' => match cond i with
            | None => None
            | Some true => ret
            | Some false => for_range_ret n' (S i) cond ret rest
            end
  end.

(** ** The rule for wildcard patterns, written directly *)

Definition comp_matches (part wc : bytes) : Prop := wc = [] \/ part = wc.

Definition wildcard_rule (u w : bytes) : Prop :=
  length (split_dot u) = length (split_dot w) /\ Forall2 comp_matches (split_dot u) (split_dot w).

Definition prefix_rule (u p : bytes) : Prop := exists t, u = p ++ t.

(** Reference decision procedure for the wildcard rule, by index:
    component [j] of the pattern is non-empty and differs from component [j]
    of the URI. *)
Definition comp_mismatch (P W : list bytes) (j : nat) : bool :=
  negb (bytes_eqb (nth j W []) []) && negb (bytes_eqb (nth j W []) (nth j P [])).

Definition wildcard_ref (u w : bytes) : bool :=
  Nat.eqb (length (split_dot u)) (length (split_dot w)) &&
  negb (existsb (comp_mismatch (split_dot u) (split_dot w)) (seq 0 (length (split_dot w)))).
