(** * Dynamic values as seen by wamp.AsInt64 / wamp.AsID (definitions only)

    One constructor per Go dynamic type that AsInt64's type switch can
    mention, carrying the value: signed kinds as [Z], unsigned kinds as [N],
    floats as their IEEE-754 bit pattern.  [int]/[uint] are 64-bit (amd64, the
    platform the suite and the harness run on).  [VOther] stands for every
    other dynamic type (string, bool, nil, list, ...).

    [int_value v] is the mathematical integer a value denotes: the number
    itself for the integer kinds, the truncation towards zero of the finite
    real for floats, nothing for NaN, infinities and [VOther].  It is written
    without reference to any machine conversion.

    [i64_of_f64]/[i64_of_f32] are Go's [int64(f)] on amd64 (CVTTSD2SQ /
    CVTTSS2SQ): the truncation when it fits int64, else the "integer
    indefinite" value -2^63 (also for NaN). *)

From Coq Require Import NArith ZArith Bool.
From Nexus Require Import Wamp.Ids.

Open Scope Z_scope.

Inductive value :=
| VInt64 (z : Z) | VInt (z : Z) | VInt32 (z : Z)
| VID (n : N) | VUint64 (n : N) | VUint (n : N) | VUint32 (n : N)
| VFloat64 (bits : N) | VFloat32 (bits : N)
| VOther.

Definition wf_value (v : value) : Prop :=
  match v with
  | VInt64 z | VInt z => i64 z
  | VInt32 z => -2147483648 <= z < 2147483648
  | VID n | VUint64 n | VUint n => u64 n
  | VUint32 n => (n < 4294967296)%N
  | VFloat64 b => u64 b
  | VFloat32 b => (b < 4294967296)%N
  | VOther => True
  end.

(** ** IEEE-754 decoding (binary64: 1+11+52, bias 1023; binary32: 1+8+23, bias 127) *)

(** Truncation towards zero of [(-1)^sign * sig * 2^e]. *)
Definition trunc_scaled (sign : bool) (sig : Z) (e : Z) : Z :=
  let mag := if 0 <=? e then sig * 2 ^ e else sig / 2 ^ (- e) in
  if sign then - mag else mag.

Definition float_trunc (ebits mbits bias : Z) (bits : N) : option Z :=
  let b := Z.of_N bits in
  let m := b mod 2 ^ mbits in
  let e := (b / 2 ^ mbits) mod 2 ^ ebits in
  let sign := Z.odd (b / 2 ^ (mbits + ebits)) in
  if e =? 2 ^ ebits - 1 then None                       (* NaN, +-Inf *)
  else if e =? 0 then Some 0                            (* zero, subnormal: |x| < 1 *)
  else Some (trunc_scaled sign (2 ^ mbits + m) (e - bias - mbits)).

Definition f64_trunc (bits : N) : option Z := float_trunc 11 52 1023 bits.
Definition f32_trunc (bits : N) : option Z := float_trunc 8 23 127 bits.

Definition min_i64 : Z := - Z.of_N two63.

Definition clamp_i64 (t : option Z) : Z :=
  match t with
  | Some z => if (min_i64 <=? z) && (z <? Z.of_N two63) then z else min_i64
  | None => min_i64
  end.

Definition i64_of_f64 (bits : N) : Z := clamp_i64 (f64_trunc bits).
Definition i64_of_f32 (bits : N) : Z := clamp_i64 (f32_trunc bits).

Definition int_value (v : value) : option Z :=
  match v with
  | VInt64 z | VInt z | VInt32 z => Some z
  | VID n | VUint64 n | VUint n | VUint32 n => Some (Z.of_N n)
  | VFloat64 b => f64_trunc b
  | VFloat32 b => f32_trunc b
  | VOther => None
  end.

(** The rule for ids read from messages. *)
Definition as_id_rule (v : value) : option N :=
  match int_value v with
  | Some z => if (1 <=? z) && (z <=? Z.of_N two53) then Some (Z.to_N z) else None
  | None => None
  end.
