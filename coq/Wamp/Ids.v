(** * Machine integers for the translated id code (definitions only)

    A Go [uint64]/[wamp.ID] value is an [N] below 2^64, a Go [int64]/[int]
    value a [Z] in [-2^63, 2^63).  The translator (go/cmd/genc19) emits every
    [+]/[-] on [uint64] operands as [u64_add]/[u64_sub], i.e. with the
    reduction modulo 2^64 that the hardware performs; the theorems show the
    reduction never changes a result on the stated domain. *)

From Coq Require Import NArith ZArith.

Definition two64 : N := 18446744073709551616.      (* 2^64 *)
Definition two63 : N := 9223372036854775808.       (* 2^63 *)
Definition two53 : N := 9007199254740992.          (* 2^53 *)

Definition u64 (n : N) : Prop := (n < two64)%N.
Definition i64 (z : Z) : Prop := (- Z.of_N two63 <= z < Z.of_N two63)%Z.

Definition u64_add (a b : N) : N := ((a + b) mod two64)%N.
(** [a - b] on uint64: N subtraction truncates at 0, so 2^64 is added first. *)
Definition u64_sub (a b : N) : N := ((a + two64 - b) mod two64)%N.

(** Conversions [uint64(x)] for [x : int64] and [int64(x)] for [x : uint64]
    (two's complement reinterpretation). *)
Definition u64_of_i64 (z : Z) : N := Z.to_N (z mod Z.of_N two64)%Z.
Definition i64_of_u64 (n : N) : Z :=
  if (n <? two63)%N then Z.of_N n else (Z.of_N n - Z.of_N two64)%Z.

(** [int64(x)] for [x : int32] (already a [Z] in range) and [uint32]. *)
Definition i64_of_i32 (z : Z) : Z := z.
Definition i64_of_u32 (n : N) : Z := Z.of_N n.

(** Iterating a state transformer [n] times ([n] is an [N]: no unary numbers). *)
Definition iter_state {S : Type} (step : S -> S) (n : N) (s : S) : S := N.iter n step s.

Arguments u64_add : simpl never.
Arguments u64_sub : simpl never.
Arguments u64_of_i64 : simpl never.
Arguments i64_of_u64 : simpl never.
