(* C04: the accessors of package wamp never panic, whatever value they are
   given; a bare assertion panics exactly on a kind mismatch. *)
From Coq Require Import String List ZArith NArith Bool Lia Arith.
From Nexus Require Import Safety.Values Safety.Accessors.
Import ListNotations.
Open Scope string_scope.
Open Scope list_scope.

Lemma bind_no_panic {A B} (o : outcome A) (f : A -> outcome B) :
  o <> Panic -> (forall a, f a <> Panic) -> bind o f <> Panic.
Proof. destruct o; simpl; auto; congruence. Qed.

Lemma bind_ok_inv {A B} (o : outcome A) (f : A -> outcome B) :
  bind o f = Panic -> o = Panic \/ exists a, o = Ok a /\ f a = Panic.
Proof. destruct o; simpl; intros; eauto; discriminate. Qed.

Lemma drop_no_panic {A} (o : outcome A) : o <> Panic -> drop o <> Panic.
Proof. intros; unfold drop; apply bind_no_panic; auto; discriminate. Qed.

Lemma fold_bind_no_panic {A B} (g : A -> B -> outcome A) (l : list B) :
  (forall a b, g a b <> Panic) ->
  forall acc, acc <> Panic -> fold_left (fun o x => bind o (fun a => g a x)) l acc <> Panic.
Proof.
  intros Hg; induction l as [|x r IH]; simpl; intros acc Hacc; auto.
  apply IH. apply bind_no_panic; auto.
Qed.

(* ---- assertions ---- *)

Theorem bare_panics_iff t v : bare t v = Panic <-> has_type t v = false.
Proof. unfold bare; destruct (has_type t v); split; congruence. Qed.

Theorem comma_ok_total t v : comma_ok t v <> Panic.
Proof. unfold comma_ok; destruct (has_type t v); discriminate. Qed.

(* every type has a value of another type: nil *)
Lemma has_type_nil t : has_type t VNil = false.
Proof. destruct t; reflexivity. Qed.

(* ---- type-switch accessors ---- *)

Theorem as_string_total v : as_string v <> Panic.
Proof. destruct v; simpl; discriminate. Qed.

Theorem as_uri_total v : as_uri v <> Panic.
Proof. destruct v; simpl; discriminate. Qed.

Theorem as_int64_total v : as_int64 v <> Panic.
Proof. destruct v as [| | k z| | | | | | | | | | | |]; simpl; try discriminate; destruct k; discriminate. Qed.

Theorem as_id_total v : as_id v <> Panic.
Proof.
  unfold as_id; apply bind_no_panic; [apply as_int64_total|].
  intros [i ok]. destruct (ok && (0 <? i)%Z && (i <=? max_id)%Z); discriminate.
Qed.

Theorem as_float64_total v : as_float64_ok v <> Panic.
Proof. destruct v as [| | k z| | | | | | | | | | | |]; simpl; try discriminate; destruct k; discriminate. Qed.

Theorem as_bool_total v : as_bool v <> Panic.
Proof. destruct v; simpl; discriminate. Qed.

(* AsID accepts exactly the integers 1 .. 2^53 *)
Theorem as_id_range v i : as_id v = Ok (i, true) -> (0 < i <= max_id)%Z.
Proof.
  unfold as_id. destruct (as_int64 v) as [[j ok]| |] eqn:E; simpl; try discriminate.
  destruct ok; simpl; [|discriminate].
  destruct (0 <? j)%Z eqn:E1; simpl; [|discriminate].
  destruct (j <=? max_id)%Z eqn:E2; simpl; [|discriminate].
  intros H; inversion H; subst. apply Z.ltb_lt in E1. apply Z.leb_le in E2. lia.
Qed.

(* ---- reflect guards ---- *)

Lemma kind_of_not_iface v : kind_of v <> RInterface.
Proof. destruct v; discriminate. Qed.

Lemma rkind_eqb_eq a b : rkind_eqb a b = true <-> a = b.
Proof. destruct a, b; simpl; split; congruence. Qed.

Lemma r_kind_iface r : rkind_eqb (r_kind r) RInterface = true -> rv_iface r = true.
Proof.
  unfold r_kind; destruct (rv_iface r); auto.
  intros H; apply rkind_eqb_eq in H. exfalso; eapply kind_of_not_iface; eauto.
Qed.

(* key.Elem() under  key.Kind() == reflect.Interface *)
Lemma guarded_elem_no_panic r :
  (if rkind_eqb (r_kind r) RInterface then r_elem r else Ok r) <> Panic.
Proof.
  destruct (rkind_eqb (r_kind r) RInterface) eqn:E; [|discriminate].
  apply r_kind_iface in E. unfold r_elem; rewrite E; discriminate.
Qed.

(* val.MapKeys() / MapIndex under  val.Kind() == reflect.Map *)
Lemma map_entries_no_panic v :
  rkind_eqb (r_kind (value_of v)) RMap = true -> r_map_entries (value_of v) <> Panic.
Proof.
  unfold r_kind, value_of, r_map_entries; simpl. intros H; apply rkind_eqb_eq in H.
  destruct v; simpl in *; try discriminate.
Qed.

(* val.Len() / val.Index(i) under  val.Kind() == reflect.Slice *)
Lemma slice_elems_no_panic v :
  rkind_eqb (r_kind (value_of v)) RSlice = true -> r_slice_elems (value_of v) <> Panic.
Proof.
  unfold r_kind, value_of, r_slice_elems; simpl. intros H; apply rkind_eqb_eq in H.
  destruct v; simpl in *; try discriminate.
Qed.

(* cv.Convert(listType) under cv.Type().ConvertibleTo(listType) *)
Lemma convert_list_no_panic r : r_convertible_to_list r = true -> r_convert_list r <> Panic.
Proof.
  unfold r_convert_list; intros H; rewrite H.
  unfold r_convertible_to_list in H. apply andb_true_iff in H as [_ H].
  destruct (rv_val r); try discriminate.
Qed.

Lemma normalize_entry_no_panic rec :
  (forall v, rec v <> Panic) ->
  forall acc e, acc <> Panic -> normalize_entry rec acc e <> Panic.
Proof.
  intros Hrec acc [key cv] Hacc. unfold normalize_entry.
  apply bind_no_panic; auto. intros d.
  apply bind_no_panic; [apply guarded_elem_no_panic|]. intros key'.
  destruct (negb (rkind_eqb (r_kind key') RString)); [discriminate|].
  apply bind_no_panic; [apply Hrec|]. intros [nd|]; [discriminate|].
  apply bind_no_panic; [|discriminate].
  destruct (rkind_eqb (r_kind cv) RInterface) eqn:E; [|discriminate].
  apply bind_no_panic.
  - apply r_kind_iface in E. unfold r_elem; rewrite E; discriminate.
  - intros e. destruct (rkind_eqb (r_kind e) RSlice); [|discriminate].
    destruct (r_convertible_to_list e) eqn:C; [|discriminate].
    apply convert_list_no_panic; auto.
Qed.

Lemma fold_normalize_no_panic rec es :
  (forall v, rec v <> Panic) ->
  forall acc, acc <> Panic -> fold_left (normalize_entry rec) es acc <> Panic.
Proof.
  intros Hrec; induction es as [|e r IH]; simpl; intros acc Hacc; auto.
  apply IH. apply normalize_entry_no_panic; auto.
Qed.

Theorem normalize_dict_total fuel v : normalize_dict fuel v <> Panic.
Proof.
  revert v; induction fuel as [|f IH]; intros v; simpl; [discriminate|].
  destruct (negb (rkind_eqb (r_kind (value_of v)) RMap)) eqn:E; [discriminate|].
  apply negb_false_iff in E.
  apply bind_no_panic; [apply map_entries_no_panic; auto|].
  intros es. apply bind_no_panic; [|discriminate].
  apply fold_normalize_no_panic; auto; discriminate.
Qed.

Theorem normalize_total v : normalize v <> Panic.
Proof. apply normalize_dict_total. Qed.

Theorem as_dict_total v : as_dict v <> Panic.
Proof.
  destruct v; simpl; try discriminate;
    (apply bind_no_panic; [apply normalize_total| intros [nd|]; discriminate]).
Qed.

Theorem as_list_total v : as_list v <> Panic.
Proof.
  destruct v; simpl; try discriminate.
Qed.

Theorem list_to_strings_total l : list_to_strings l <> Panic.
Proof.
  induction l as [|x r IH]; simpl; [discriminate|].
  apply bind_no_panic; [apply as_string_total|]. intros [s ok]; simpl.
  destruct ok; [|discriminate].
  apply bind_no_panic; auto. intros [ss ok']; simpl; destruct ok'; discriminate.
Qed.

Theorem dict_child_total d k : dict_child d k <> Panic.
Proof.
  unfold dict_child. destruct (dict_get k d); try discriminate; apply normalize_total.
Qed.

Theorem run_accessor_total f v : known_accessor f = true -> run_accessor f v <> Panic.
Proof.
  intros K. unfold run_accessor.
  repeat match goal with
  | |- (if ?c then _ else _) <> Panic => destruct c eqn:?
  end;
  try (apply drop_no_panic;
       first [apply as_string_total | apply as_uri_total | apply as_int64_total | apply as_id_total
             | apply as_float64_total | apply as_bool_total | apply as_dict_total | apply as_list_total
             | apply normalize_total]);
  try discriminate.
  - destruct v; try discriminate; apply drop_no_panic; apply list_to_strings_total.
  - (* unknown name: contradicts known_accessor *)
    exfalso. unfold known_accessor in K. simpl in K.
    repeat match goal with H : String.eqb f _ = false |- _ => rewrite H in K end.
    discriminate.
Qed.

(* ---- the option / argument reading entry points ---- *)

Lemma features_of_total v : features_of v <> Panic.
Proof.
  unfold features_of. apply bind_no_panic.
  - destruct v; try discriminate; apply normalize_total.
  - intros [rd|]; [|discriminate].
    destruct (negb (has_key "features" rd)); [discriminate|].
    apply bind_no_panic.
    + destruct (lookup "features" rd); try discriminate; apply normalize_total.
    + intros [fd|]; discriminate.
Qed.

Theorem set_roles_total details : set_roles details <> Panic.
Proof.
  assert (H : forall d, (if negb (has_key "roles" d) then Ok []
            else bind (as_dict (lookup "roles" d)) (fun r =>
              match r with
              | (Some roles, true) =>
                  fold_left (fun acc kv => bind acc (fun a => bind (features_of (snd kv)) (fun fs => Ok (a ++ [(fst kv, fs)]))))
                            roles (Ok [])
              | _ => Ok []
              end)) <> Panic).
  { intros d. destruct (negb (has_key "roles" d)); [discriminate|].
    apply bind_no_panic; [apply as_dict_total|].
    intros [[roles|] [|]]; try discriminate.
    apply (fold_bind_no_panic (fun a kv => bind (features_of (snd kv)) (fun fs => Ok (a ++ [(fst kv, fs)])))).
    - intros a b. apply bind_no_panic; [apply features_of_total| discriminate].
    - discriminate. }
  destruct details; simpl; try discriminate; apply H.
Qed.

Theorem auth_methods_total details : auth_methods details <> Panic.
Proof.
  unfold auth_methods. apply bind_no_panic; [apply as_list_total|]. intros r.
  apply (fold_bind_no_panic (fun a v => bind (as_string v) (fun s =>
           if snd s && negb (String.eqb (fst s) "") then Ok (a ++ [fst s]) else Ok a))).
  - intros a b. apply bind_no_panic; [apply as_string_total|].
    intros s; destruct (snd s && negb (String.eqb (fst s) "")); discriminate.
  - discriminate.
Qed.

Lemma id_list_total v : id_list v <> Panic.
Proof.
  unfold id_list. apply bind_no_panic; [apply as_list_total|].
  intros [[l|] [|]]; try discriminate.
  apply (fold_bind_no_panic (fun a x => bind (as_id x) (fun i => if snd i then Ok (a ++ [fst i]) else Ok a))).
  - intros a b. apply bind_no_panic; [apply as_id_total|]. intros i; destruct (snd i); discriminate.
  - discriminate.
Qed.

Lemma attr_list_total v : attr_list v <> Panic.
Proof.
  unfold attr_list. apply bind_no_panic; [apply as_list_total|].
  intros [[l|] [|]]; try discriminate.
  apply (fold_bind_no_panic (fun a x => bind (as_string x) (fun s =>
           if snd s && negb (String.eqb (fst s) "") then Ok (a ++ [fst s]) else Ok a))).
  - intros a b. apply bind_no_panic; [apply as_string_total|].
    intros s; destruct (snd s && negb (String.eqb (fst s) "")); discriminate.
  - discriminate.
Qed.

Theorem publish_filter_total options : publish_filter options <> Panic.
Proof.
  unfold publish_filter.
  apply bind_no_panic; [apply id_list_total|]. intros _.
  apply bind_no_panic; [apply id_list_total|]. intros _.
  assert (H : forall d : list (string * value),
             fold_left (fun acc kv => bind acc (fun _ : unit => drop (attr_list (snd kv)))) d (Ok tt) <> Panic).
  { intros d.
    apply (fold_bind_no_panic (fun (_ : unit) (kv : string * value) => drop (attr_list (snd kv)))).
    - intros a b. apply drop_no_panic, attr_list_total.
    - discriminate. }
  destruct options; try discriminate; apply H.
Qed.

(* the statement used by Props/C04.v *)
Definition accessors_total_stmt : Prop :=
  (forall v, as_string v <> Panic) /\ (forall v, as_uri v <> Panic) /\
  (forall v, as_int64 v <> Panic) /\ (forall v, as_id v <> Panic) /\
  (forall v, as_float64_ok v <> Panic) /\ (forall v, as_bool v <> Panic) /\
  (forall v, as_dict v <> Panic) /\ (forall v, as_list v <> Panic) /\
  (forall fuel v, normalize_dict fuel v <> Panic) /\
  (forall l, list_to_strings l <> Panic) /\ (forall d k, dict_child d k <> Panic) /\
  (forall t v, comma_ok t v <> Panic) /\
  (forall o k, option_string o k <> Panic) /\ (forall o k, option_uri o k <> Panic) /\
  (forall o k, option_id o k <> Panic) /\ (forall o k, option_int64 o k <> Panic) /\
  (forall o k, option_flag o k <> Panic) /\
  (forall d, set_roles d <> Panic) /\ (forall d, auth_methods d <> Panic) /\
  (forall o, publish_filter o <> Panic) /\
  (forall t v, bare t v = Panic <-> has_type t v = false).

Theorem accessors_total_proof : accessors_total_stmt.
Proof.
  unfold accessors_total_stmt.
  repeat split;
    first [ apply as_string_total | apply as_uri_total | apply as_int64_total | apply as_id_total
          | apply as_float64_total | apply as_bool_total | apply as_dict_total | apply as_list_total
          | apply normalize_dict_total | apply list_to_strings_total | apply dict_child_total
          | apply comma_ok_total | apply set_roles_total | apply auth_methods_total | apply publish_filter_total
          | (intros; apply bind_no_panic; [first [apply as_string_total|apply as_uri_total|apply as_id_total|apply as_int64_total|apply as_bool_total] | discriminate])
          | apply bare_panics_iff ].
Qed.
