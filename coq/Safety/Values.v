(* C04 value universe: a WAMP value together with the Go dynamic type that the
   router's code can observe (type switches, assertions, reflect.Kind).
   Definitions only; proofs are in the *Proofs.v files. *)
From Coq Require Import String List ZArith NArith Bool.
Import ListNotations.
Open Scope string_scope.

(* integer kinds of Go that can sit in an `any` *)
Inductive ikind :=
| KInt | KInt8 | KInt16 | KInt32 | KInt64
| KUint | KUint8 | KUint16 | KUint32 | KUint64
| KID.                                    (* wamp.ID (uint64) *)

Inductive fkind := KF32 | KF64.

(* A float as far as the conversions int64(f) / float64(f) care: either a
   finite number given by its truncation toward zero, or NaN / infinity. *)
Inductive fl :=
| FFin (trunc : Z) (integral : bool)
| FNaN
| FInf (neg : bool).

Inductive value :=
| VNil
| VBool (b : bool)
| VInt (k : ikind) (z : Z)
| VFloat (k : fkind) (f : fl)
| VStr (s : string)                       (* string *)
| VURI (s : string)                       (* wamp.URI *)
| VBytes (s : string)                     (* []byte *)
| VList (l : list value)                  (* wamp.List *)
| VSliceAny (l : list value)              (* []any *)
| VSliceOf (elem : string) (l : list value)       (* []T, T not any: e.g. []string, []wamp.ID *)
| VDict (d : list (string * value))       (* wamp.Dict *)
| VMapAny (d : list (string * value))     (* map[string]any *)
| VMapOf (elem : string) (d : list (string * value))  (* map[string]T, T not any *)
| VMapAnyKey (d : list (value * value))   (* map[any]any (msgpack / cbor decoders) *)
| VOther (tag : string).                  (* struct, pointer, func, chan, ... *)

(* static Go types an assertion x.(T) can name *)
Inductive gotype :=
| TString | TBool | TInt | TInt64 | TUint64 | TFloat64 | TID | TURI | TBytes
| TDict | TList | TMapAny | TSliceAny
| TOther (name : string).

(* x.(T) succeeds exactly when the dynamic type IS T (no conversion) *)
Definition has_type (t : gotype) (v : value) : bool :=
  match t, v with
  | TString, VStr _ => true
  | TBool, VBool _ => true
  | TInt, VInt KInt _ => true
  | TInt64, VInt KInt64 _ => true
  | TUint64, VInt KUint64 _ => true
  | TFloat64, VFloat KF64 _ => true
  | TID, VInt KID _ => true
  | TURI, VURI _ => true
  | TBytes, VBytes _ => true
  | TDict, VDict _ => true
  | TList, VList _ => true
  | TMapAny, VMapAny _ => true
  | TSliceAny, VSliceAny _ => true
  | TOther n, VOther m => String.eqb n m
  | _, _ => false
  end.

(* Outcome of running a piece of router code. Panic is an ordinary value, so
   "never panics" is a statement about it. *)
Inductive outcome (A : Type) :=
| Ok (a : A)
| Err            (* the code took its error / refusal branch *)
| Panic.
Arguments Ok {A} a.
Arguments Err {A}.
Arguments Panic {A}.

Definition bind {A B} (o : outcome A) (f : A -> outcome B) : outcome B :=
  match o with Ok a => f a | Err => Err | Panic => Panic end.

Definition is_panic {A} (o : outcome A) : bool :=
  match o with Panic => true | _ => false end.

(* association lists *)
Fixpoint lookup (k : string) (d : list (string * value)) : value :=
  match d with
  | [] => VNil
  | (k', v) :: r => if String.eqb k k' then v else lookup k r
  end.

Fixpoint has_key (k : string) (d : list (string * value)) : bool :=
  match d with
  | [] => false
  | (k', _) :: r => String.eqb k k' || has_key k r
  end.

(* m[k] on a value used as a dict (a nil map reads as empty) *)
Definition dict_get (k : string) (v : value) : value :=
  match v with
  | VDict d | VMapAny d | VMapOf _ d => lookup k d
  | _ => VNil
  end.

Definition two63 : Z := 9223372036854775808%Z.
Definition two64 : Z := 18446744073709551616%Z.
Definition min_int64 : Z := (- two63)%Z.
Definition max_id : Z := 9007199254740992%Z.      (* 2^53 *)

(* int64(x) for an unsigned 64-bit x: two's complement wrap *)
Definition wrap64 (z : Z) : Z :=
  let m := (z mod two64)%Z in
  if (m <? two63)%Z then m else (m - two64)%Z.

(* int64(f) on amd64: out of range, NaN and infinities give the "integer
   indefinite" value 0x8000000000000000 *)
Definition float_to_int64 (f : fl) : Z :=
  match f with
  | FFin t _ => if ((min_int64 <=? t) && (t <? two63))%Z then t else min_int64
  | _ => min_int64
  end.
