(* C04: the site inventory's types (the generated file coq/gen/GenC04Sites.v
   is a list of [site]), what executing one site on arbitrary client data
   does ([exec]), and the decidable condition under which it cannot panic
   ([site_safe]).  Definitions only. *)
From Coq Require Import String List ZArith NArith Bool.
From Nexus Require Import Safety.Values Safety.Accessors.
Import ListNotations.
Open Scope string_scope.
Open Scope list_scope.

Inductive origin := OClient | ODerived | OInternal.

Inductive idx :=
| IdxConst (k : N)            (* x[k] *)
| IdxRange                    (* for i := range x { x[i] }  (or a container of the same length) *)
| IdxLoop (off slack : N)     (* for i := 0; i < len(x)-slack; i++ { x[i+off] } *)
| IdxLoopDown                 (* for i := len(x)-1; i >= 0; i-- { x[i] } *)
| IdxLast (k : N)             (* x[len(x)-k] *)
| IdxOther.                   (* anything else *)

Inductive sliceform :=
| SlFull                      (* x[:] *)
| SlPrefix                    (* x[len(p):] under strings.HasPrefix(x, p) *)
| SlClamp                     (* x[max(len(x)-e, 0):] under e > 0 *)
| SlUpToRange                 (* x[:i] / x[:i+1], i a range variable over x *)
| SlLenMinus (k : N)          (* x[:len(x)-k] *)
| SlFrom (k : N)              (* x[k:] *)
| SlUpTo (k : N)              (* x[:k] *)
| SlOther.

Inductive pguard :=
| PGNilArgument               (* if arg == nil { panic } on parameters *)
| PGError                     (* if err != nil { panic } *)
| PGConstArgument             (* argument check of a helper called with a constant *)
| PGStartupReply              (* unexpected reply while registering meta procedures at realm start *)
| PGSwitchDefault             (* default clause of a switch over a struct field *)
| PGUnconditional
| PGOther.

Inductive closepath :=
| CPExit (after_loop removed_broker removed_dealer : bool)
                              (* in the goroutine that ran the handler loop, after the loop returned
                                 and after the session was deleted from broker / dealer tables *)
| CPPreSession                (* in the attach path, before a handler exists for the peer *)
| CPShutdown (broker_stopped dealer_stopped : bool)
                              (* realm shutdown: after broker.close() / dealer.close() returned, for a
                                 session whose handler exited at shutdown without closing the peer *)
| CPOther.

(* the session lock held where the details map of a session is used *)
Inductive lockstate :=
| LSLocked          (* the lock of the session the details belong to *)
| LSAfterRemoval    (* the session was already deleted from the realm's client table: the only
                       concurrent writer (wamp.session.modify_details) can no longer find it *)
| LSFresh           (* the session was created in this function and is not shared yet *)
| LSWrongLock       (* some lock is held, but not the owner's *)
| LSUnlocked.

Inductive nonnil := NNMake | NNLit | NNNormalize | NNChecked | NNSessionDetails | NNComponent | NNUnknown.

Inductive skind :=
| SAssert (comma_ok : bool) (t : gotype)
| SAccessor (f : string)
| SKeyRead
| SIndex (i : idx) (len_ge : N)
| SSlice (f : sliceform) (len_ge : N)
| SPanic (g : pguard)
| SMsgDeref (nil_checked : bool)
| SMsgSend (assigned : bool)
| SPeerClose (p : closepath)
| SConnClose
| SShutdown
| SChanClose (role : string)
| SMapWrite (n : nonnil)
| SReflect (meth : string) (guarded : bool)
| SDiv (guarded : bool)
| SMakeLen (guarded : bool)
| SCallPanic (f : string)
| SDetailsUse (l : lockstate)
| SNilParam (nil_checked : bool).      (* dereference of a parameter that some call site passes as nil *)

(* s_file / s_func index the generated tables gen_files / gen_funcs (kept out
   of the record so that the inventory stays small); s_decoder marks package
   transport/serialize. *)
Record site := mkSite {
  s_file : N; s_line : N; s_func : N; s_decoder : bool;
  s_origin : origin; s_field : string; s_key : string; s_kind : skind }.

Inductive share_form := ShareIn | ShareNotIn | ShareUnconstrained | ShareNone.

(* ---------------------------------------------------------------- *)
(* Which sites the C04 obligations speak about: everything that touches
   client-controlled data, plus every explicit panic, peer close and
   transport delivery whatever its data.  The decoder package
   (transport/serialize) is inventoried but owned by C14. *)

Definition is_client (o : origin) : bool :=
  match o with OInternal => false | _ => true end.

Definition always_relevant (k : skind) : bool :=
  match k with SPeerClose _ | SPanic _ | SMsgSend _ | SDetailsUse _ | SNilParam _ => true | _ => false end.

Definition site_relevant (s : site) : bool :=
  negb (s_decoder s) &&
  (always_relevant (s_kind s) || is_client (s_origin s)).

Definition client_sites (l : list site) : list site := filter site_relevant l.

(* global facts computed from the whole inventory *)
Record gcfg := { nil_possible : bool; policy_ok : bool }.

Definition nil_may_be_delivered (l : list site) : bool :=
  existsb (fun s => match s_kind s with SMsgSend false => true | _ => false end) l.

(* ---------------------------------------------------------------- *)
(* Executing a site.  The environment carries everything the client (or the
   schedule) chooses: the value at the site's position, the length of the
   container, the loop counter / index value, and the rare events some guards
   speak about. *)

Record env := {
  e_val : value;          (* operand of an assertion / accessor *)
  e_len : N;              (* length of the indexed / sliced container *)
  e_i : N;                (* loop counter, arbitrary index, len(prefix), ... *)
  e_neg : bool;           (* the arbitrary index is negative *)
  e_msg_nil : bool;       (* the received message is a nil interface *)
  e_map_nil : bool;       (* the written map is nil *)
  e_nil_arg : bool;       (* a nil session / message pointer is passed *)
  e_env_error : bool;     (* crypto/rand fails, a meta procedure cannot be registered at start *)
  e_invariant_broken : bool; (* an internal table invariant is violated *)
  e_policy_panics : bool  (* the dealer reached: several callees under a policy the switch does not handle *)
}.

(* The domain of the property: what clients cannot choose. *)
Record env_wf (c : gcfg) (e : env) : Prop := {
  wf_nil_arg : e_nil_arg e = false;            (* in-process callers pass non-nil pointers (Go API contract) *)
  wf_env_error : e_env_error e = false;        (* the OS entropy source works; realm start-up succeeded *)
  wf_invariant : e_invariant_broken e = false; (* dealer table invariant: proved in Policy for the part used *)
  wf_msg_nil : e_msg_nil e = true -> nil_possible c = true;
  wf_policy : e_policy_panics e = true -> policy_ok c = false
}.

Inductive res := ROk | RErr | RPanic.

Definition of_outcome {A} (o : outcome A) : res :=
  match o with Ok _ => ROk | Err => RErr | Panic => RPanic end.

Definition exec_index (i : idx) (len_ge n c : N) (neg : bool) : res :=
  match i with
  | IdxConst k => if (len_ge <=? n)%N then (if (k <? n)%N then ROk else RPanic) else RErr
  | IdxRange => if (c <? n)%N then ROk else RErr
  | IdxLoop off slack => if (c + slack <? n)%N then (if (c + off <? n)%N then ROk else RPanic) else RErr
  | IdxLoopDown => if (c <? n)%N then ROk else RErr
  | IdxLast k => if (len_ge <=? n)%N then (if ((1 <=? k) && (k <=? n))%N then ROk else RPanic) else RErr
  | IdxOther => if negb neg && (c <? n)%N then ROk else RPanic
  end.

Definition exec_slice (f : sliceform) (len_ge n c : N) (neg : bool) : res :=
  match f with
  | SlFull => ROk
  | SlPrefix => if (c <=? n)%N then ROk else RErr          (* HasPrefix holds: len(p) <= len(x) *)
  | SlClamp => if (0 <? c)%N then ROk else RErr            (* start = max(n-c,0) is within [0,n] *)
  | SlUpToRange => if (c <? n)%N then ROk else RErr        (* i < n, so i+1 <= n *)
  | SlLenMinus k => if (len_ge <=? n)%N then (if (k <=? n)%N then ROk else RPanic) else RErr
  | SlFrom k => if (len_ge <=? n)%N then (if (k <=? n)%N then ROk else RPanic) else RErr
  | SlUpTo k => if (len_ge <=? n)%N then (if (k <=? n)%N then ROk else RPanic) else RErr
  | SlOther => if negb neg && (c <=? n)%N then ROk else RPanic
  end.

Definition exec (k : skind) (e : env) : res :=
  match k with
  | SAssert true t => of_outcome (comma_ok t (e_val e))
  | SAssert false t => of_outcome (bare t (e_val e))
  | SAccessor f => of_outcome (run_accessor f (e_val e))
  | SKeyRead => ROk                                       (* m[k] never panics, nil map included *)
  | SIndex i g => exec_index i g (e_len e) (e_i e) (e_neg e)
  | SSlice f g => exec_slice f g (e_len e) (e_i e) (e_neg e)
  | SPanic PGNilArgument => if e_nil_arg e then RPanic else ROk
  | SPanic PGError => if e_env_error e || e_invariant_broken e then RPanic else ROk
  | SPanic PGConstArgument => ROk
  | SPanic PGStartupReply => if e_env_error e then RPanic else ROk
  | SPanic PGSwitchDefault => if e_policy_panics e then RPanic else ROk
  | SPanic PGUnconditional => RPanic
  | SPanic PGOther => RPanic
  | SMsgDeref checked => if e_msg_nil e && negb checked then RPanic else ROk
  | SMsgSend assigned => if assigned then ROk else RPanic  (* a nil message reaches the router *)
  | SPeerClose _ => ROk                                    (* not value-level: see Safety/Close.v *)
  | SConnClose | SShutdown | SChanClose _ => ROk           (* idem: C06 / C15 *)
  | SMapWrite NNUnknown => if e_map_nil e then RPanic else ROk
  | SMapWrite _ => ROk
  | SReflect _ g => if g then ROk else RPanic
  | SDiv g => if g then ROk else RPanic
  | SMakeLen g => if g then ROk else RPanic
  | SCallPanic _ => RPanic
  | SDetailsUse _ => ROk                                   (* not value-level: see Safety/Locks.v *)
  | SNilParam checked => if checked then ROk else RPanic   (* the call site that passes nil exists *)
  end.

(* ---------------------------------------------------------------- *)
(* The decidable safety condition *)

Definition idx_safe (i : idx) (len_ge : N) : bool :=
  match i with
  | IdxConst k => (k <? len_ge)%N
  | IdxRange | IdxLoopDown => true
  | IdxLoop off slack => (off <=? slack)%N
  | IdxLast k => ((1 <=? k) && (k <=? len_ge))%N
  | IdxOther => false
  end.

Definition slice_safe (f : sliceform) (len_ge : N) : bool :=
  match f with
  | SlFull | SlPrefix | SlClamp | SlUpToRange => true
  | SlLenMinus k | SlFrom k | SlUpTo k => (k <=? len_ge)%N
  | SlOther => false
  end.

Definition closepath_ok (p : closepath) : bool :=
  match p with
  | CPExit l b d => l && b && d
  | CPPreSession => true
  | CPShutdown b d => b && d
  | CPOther => false
  end.

Definition kind_safe (c : gcfg) (k : skind) : bool :=
  match k with
  | SAssert ok _ => ok
  | SAccessor f => known_accessor f
  | SKeyRead => true
  | SIndex i g => idx_safe i g
  | SSlice f g => slice_safe f g
  | SPanic PGNilArgument | SPanic PGError | SPanic PGConstArgument | SPanic PGStartupReply => true
  | SPanic PGSwitchDefault => policy_ok c
  | SPanic PGUnconditional | SPanic PGOther => false
  | SMsgDeref checked => checked || negb (nil_possible c)
  | SMsgSend assigned => assigned
  | SPeerClose p => closepath_ok p
  | SConnClose | SShutdown | SChanClose _ => true
  | SMapWrite NNUnknown => false
  | SMapWrite _ => true
  | SReflect _ g => g
  | SDiv g => g
  | SMakeLen g => g
  | SCallPanic _ => false
  | SDetailsUse LSLocked | SDetailsUse LSAfterRemoval | SDetailsUse LSFresh => true
  | SDetailsUse _ => false
  | SNilParam checked => checked
  end.

Definition site_safe (c : gcfg) (s : site) : bool := kind_safe c (s_kind s).

(* ---------------------------------------------------------------- *)
(* Messages: arbitrary values in every position.  [m_field] gives the value
   of each message field by name (Options, Details, Arguments, ArgumentsKw,
   Extra, SessionDetails, ...); [m_pick] chooses the element / shape for
   positions that are not a fixed key (list elements, lengths, counters). *)

Record message := {
  m_field : string -> value;
  m_pick : N -> value;
  m_len : N -> N;
  m_count : N -> N;
  m_negidx : N -> bool
}.

Definition value_at (m : message) (s : site) : value :=
  if String.eqb (s_key s) "" then m_pick m (s_line s)
  else dict_get (s_key s) (m_field m (s_field s)).

(* the environment a message induces at a site; the non-client components
   are fixed to their in-domain values *)
Definition env_of (c : gcfg) (m : message) (s : site) : env :=
  {| e_val := value_at m s; e_len := m_len m (s_line s); e_i := m_count m (s_line s);
     e_neg := m_negidx m (s_line s);
     e_msg_nil := nil_possible c; e_map_nil := true;
     e_nil_arg := false; e_env_error := false; e_invariant_broken := false;
     e_policy_panics := negb (policy_ok c) |}.

Definition read (c : gcfg) (m : message) (s : site) : res := exec (s_kind s) (env_of c m s).

(* running every site of a table on one message: Panic if any site panics *)
Fixpoint read_sites (c : gcfg) (sites : list site) (m : message) : res :=
  match sites with
  | [] => ROk
  | s :: r => match read c m s with RPanic => RPanic | _ => read_sites c r m end
  end.
