(* C04: soundness and completeness of the decidable site condition. *)
From Coq Require Import String List ZArith NArith Bool Lia.
From Coq Require Import ZifyN ZifyBool.
From Nexus Require Import Safety.Values Safety.Accessors Safety.AccessorProofs Safety.Sites.
Import ListNotations.
Open Scope string_scope.
Open Scope list_scope.

Lemma of_outcome_panic {A} (o : outcome A) : of_outcome o = RPanic -> o = Panic.
Proof. destruct o; simpl; congruence. Qed.

Lemma exec_index_sound i g n c neg : idx_safe i g = true -> exec_index i g n c neg <> RPanic.
Proof.
  destruct i; simpl; intros H.
  - destruct (g <=? n)%N eqn:E; [|discriminate]. destruct (k <? n)%N eqn:E2; [discriminate|]. lia.
  - destruct (c <? n)%N; discriminate.
  - destruct (c + slack <? n)%N eqn:E; [|discriminate]. destruct (c + off <? n)%N eqn:E2; [discriminate|]. lia.
  - destruct (c <? n)%N; discriminate.
  - destruct (g <=? n)%N eqn:E; [|discriminate].
    destruct ((1 <=? k) && (k <=? n))%N eqn:E2; [discriminate|]. lia.
  - discriminate.
Qed.

Lemma exec_slice_sound f g n c neg : slice_safe f g = true -> exec_slice f g n c neg <> RPanic.
Proof.
  destruct f; simpl; intros H; try discriminate.
  - destruct (c <=? n)%N; discriminate.
  - destruct (0 <? c)%N; discriminate.
  - destruct (c <? n)%N; discriminate.
  - destruct (g <=? n)%N eqn:E; [|discriminate]. destruct (k <=? n)%N eqn:E2; [discriminate|]. lia.
  - destruct (g <=? n)%N eqn:E; [|discriminate]. destruct (k <=? n)%N eqn:E2; [discriminate|]. lia.
  - destruct (g <=? n)%N eqn:E; [|discriminate]. destruct (k <=? n)%N eqn:E2; [discriminate|]. lia.
Qed.

(* The once-proved lemma: a site the decidable condition accepts cannot
   panic, whatever the client puts at its position. *)
Theorem kind_safe_sound c k :
  kind_safe c k = true -> forall e, env_wf c e -> exec k e <> RPanic.
Proof.
  intros S e W. destruct k; simpl in *.
  - (* assertion *) destruct comma_ok; [|discriminate].
    intros H; apply of_outcome_panic in H. eapply comma_ok_total; eauto.
  - (* accessor *) intros H; apply of_outcome_panic in H. eapply run_accessor_total; eauto.
  - discriminate.
  - apply exec_index_sound; auto.
  - apply exec_slice_sound; auto.
  - (* explicit panic *)
    destruct g; simpl in *; try discriminate.
    + rewrite (wf_nil_arg _ _ W); discriminate.
    + rewrite (wf_env_error _ _ W), (wf_invariant _ _ W); discriminate.
    + rewrite (wf_env_error _ _ W); discriminate.
    + destruct (e_policy_panics e) eqn:E; [|discriminate].
      apply (wf_policy _ _ W) in E. congruence.
  - (* message dereference *)
    destruct (e_msg_nil e) eqn:E; [|discriminate]. simpl.
    destruct nil_checked; simpl; [discriminate|].
    apply (wf_msg_nil _ _ W) in E. simpl in S. rewrite E in S. discriminate.
  - destruct assigned; [discriminate|discriminate].
  - discriminate.
  - discriminate.
  - discriminate.
  - discriminate.
  - destruct n; simpl in *; discriminate.
  - destruct guarded; [discriminate|discriminate].
  - destruct guarded; [discriminate|discriminate].
  - destruct guarded; [discriminate|discriminate].
  - discriminate.
  - discriminate.
  - destruct nil_checked; [discriminate|discriminate].
Qed.

Corollary site_safe_sound c s :
  site_safe c s = true -> forall e, env_wf c e -> exec (s_kind s) e <> RPanic.
Proof. apply kind_safe_sound. Qed.

(* the environment induced by a message is inside the domain *)
Lemma env_of_wf c m s : env_wf c (env_of c m s).
Proof.
  constructor; simpl; auto.
  intros H. destruct (policy_ok c); simpl in *; congruence.
Qed.

Theorem read_sites_no_panic c sites :
  forallb (site_safe c) sites = true -> forall m, read_sites c sites m <> RPanic.
Proof.
  induction sites as [|s r IH]; simpl; intros H m; [discriminate|].
  apply andb_true_iff in H as [Hs Hr].
  destruct (read c m s) eqn:E; auto.
  exfalso. eapply site_safe_sound; eauto. apply env_of_wf.
Qed.

(* ---------------------------------------------------------------- *)
(* Completeness for the value-level kinds: when the condition rejects a
   site there is an in-domain environment (a concrete client value / list
   length) on which the site panics.  So the condition does not demand more
   than the property does, and a rejected site comes with a witness. *)

Definition base_env (v : value) (n i : N) (neg : bool) : env :=
  {| e_val := v; e_len := n; e_i := i; e_neg := neg; e_msg_nil := false; e_map_nil := true;
     e_nil_arg := false; e_env_error := false; e_invariant_broken := false; e_policy_panics := false |}.

Lemma base_env_wf c v n i neg : env_wf c (base_env v n i neg).
Proof. constructor; simpl; auto; discriminate. Qed.

Definition witness (k : skind) : option env :=
  match k with
  | SAssert false _ => Some (base_env VNil 0 0 false)
  | SIndex (IdxConst _) g => Some (base_env VNil g 0 false)
  | SIndex (IdxLoop _ slack) _ => Some (base_env VNil (slack + 1) 0 false)
  | SIndex (IdxLast _) g => Some (base_env VNil g 0 false)
  | SIndex IdxOther _ => Some (base_env VNil 0 0 false)
  | SSlice (SlLenMinus _) g | SSlice (SlFrom _) g | SSlice (SlUpTo _) g => Some (base_env VNil g 0 false)
  | SSlice SlOther _ => Some (base_env VNil 0 0 true)
  | SMapWrite NNUnknown => Some (base_env VNil 0 0 false)
  | _ => None
  end.

Theorem witness_panics c k e :
  kind_safe c k = false -> witness k = Some e -> env_wf c e /\ exec k e = RPanic.
Proof.
  intros U Hw. destruct k; simpl in *; try discriminate.
  - destruct comma_ok; [discriminate|]. inversion Hw; subst. split; [apply base_env_wf|].
    simpl. unfold bare. rewrite has_type_nil. reflexivity.
  - destruct i; simpl in *; try discriminate; inversion Hw; subst; (split; [apply base_env_wf|]); simpl.
    + rewrite N.leb_refl. destruct (k <? len_ge)%N eqn:E; [discriminate|]. reflexivity.
    + destruct (slack <? slack + 1)%N eqn:E1; [|lia].
      destruct (off <? slack + 1)%N eqn:E; [lia|reflexivity].
    + rewrite N.leb_refl. destruct ((1 <=? k) && (k <=? len_ge))%N eqn:E; [discriminate|]. reflexivity.
    + reflexivity.
  - destruct f; simpl in *; try discriminate; inversion Hw; subst; (split; [apply base_env_wf|]); simpl;
      try (rewrite N.leb_refl; destruct (k <=? len_ge)%N eqn:E; [discriminate|reflexivity]).
    reflexivity.
  - destruct n; simpl in *; try discriminate. inversion Hw; subst. split; [apply base_env_wf|]. reflexivity.
Qed.
