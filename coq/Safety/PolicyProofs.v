(* C04: the invocation-policy panic of dealer.syncCall is unreachable exactly
   when a further callee can join a registration only under a policy the
   selection switch handles. *)
From Coq Require Import String Ascii List Bool Arith Lia.
From Nexus Require Import Safety.Sites Safety.Policy.
Import ListNotations.
Open Scope string_scope.

Definition pinv (form : share_form) (set : list string) (r : reg) : Prop :=
  match r with
  | Some (q, n) => 1 < n -> shares form set q = true
  | None => True
  end.

Lemma pstep_inv form set r o : pinv form set r -> pinv form set (pstep form set r o).
Proof.
  destruct o as [p| |]; destruct r as [[q n]|]; simpl; auto.
  - intros H. destruct (shares form set q && String.eqb q p) eqn:E; simpl; auto.
    intros _; exact (proj1 (proj1 (andb_true_iff _ _) E)).
  - intros _ H; lia.
  - intros H. destruct n as [|[|n]]; simpl; auto; intros L; apply H; lia.
  - intros H. destruct n as [|[|n]]; simpl; auto; intros L; apply H; lia.
Qed.

Lemma prun_inv form set ops : pinv form set (prun form set ops).
Proof.
  unfold prun.
  assert (G : forall r, pinv form set r -> pinv form set (fold_left (pstep form set) ops r)).
  { induction ops as [|o r IH]; simpl; auto. intros r0 H. apply IH, pstep_inv; auto. }
  apply G; simpl; auto.
Qed.

Lemma mem_forallb p set cases :
  forallb (fun p => mem p cases) set = true -> mem p set = true -> mem p cases = true.
Proof.
  intros F M. unfold mem in M at 1. apply existsb_exists in M as (x & Hin & Heq).
  apply String.eqb_eq in Heq; subst. rewrite forallb_forall in F. auto.
Qed.

(* sound: with a conforming source no sequence of REGISTER / UNREGISTER /
   departures of sessions reaches the panicking clause *)
Theorem policy_sound form set cases :
  policy_conforms true form set cases = true ->
  forall ops, call_panics cases (prun form set ops) = false.
Proof.
  intros C ops. pose proof (prun_inv form set ops) as I.
  destruct (prun form set ops) as [[q n]|]; simpl in *; auto.
  destruct (Nat.ltb 1 n) eqn:L; simpl; auto.
  apply Nat.ltb_lt in L. specialize (I L).
  destruct form; simpl in *; try discriminate.
  rewrite (mem_forallb q set cases C I). reflexivity.
Qed.

(* when no panic exists in the source there is nothing to show *)
Theorem policy_absent form set cases : policy_conforms false form set cases = true.
Proof. reflexivity. Qed.

(* fresh strings *)
Lemma xs_length n : String.length (xs n) = n.
Proof. induction n; simpl; auto. Qed.

Lemma total_len_ge l s : In s l -> String.length s <= total_len l.
Proof.
  induction l as [|x r IH]; simpl; [tauto|]. intros [->|H]; [lia|]. specialize (IH H). lia.
Qed.

Lemma fresh_not_mem l : mem (fresh l) l = false.
Proof.
  unfold mem. apply not_true_iff_false. intros H.
  apply existsb_exists in H as (x & Hin & Heq). apply String.eqb_eq in Heq.
  apply total_len_ge in Hin. rewrite <- Heq in Hin. unfold fresh in Hin.
  rewrite xs_length in Hin. lia.
Qed.

Lemma mem_app_false p a b : mem p (a ++ b) = false -> mem p a = false /\ mem p b = false.
Proof. unfold mem. rewrite existsb_app. apply orb_false_iff. Qed.

(* refuted: a deny-list ("policy is neither "" nor single") lets a policy the
   switch does not know share the registration; two REGISTERs and a CALL
   reach the panic.  The witness policy is any string in neither list. *)
Theorem policy_refuted_notin set cases :
  exists p, call_panics cases (prun ShareNotIn set [PRegister p; PRegister p]) = true.
Proof.
  exists (fresh (set ++ cases)).
  destruct (mem_app_false _ _ _ (fresh_not_mem (set ++ cases))) as [Hs Hc].
  unfold prun; simpl. rewrite Hs. simpl. rewrite String.eqb_refl. simpl. rewrite Hc. reflexivity.
Qed.

Theorem policy_refuted_unconstrained set cases :
  exists p, call_panics cases (prun ShareUnconstrained set [PRegister p; PRegister p]) = true.
Proof.
  exists (fresh cases). unfold prun; simpl. rewrite String.eqb_refl. simpl.
  rewrite fresh_not_mem. reflexivity.
Qed.

(* the concrete witness for nexus as shipped: invoke = "bogus" *)
Example policy_refuted_shipped :
  call_panics ["first"; "last"; "random"; "roundrobin"]
              (prun ShareNotIn [""; "single"] [PRegister "bogus"; PRegister "bogus"]) = true.
Proof. reflexivity. Qed.

(* non-vacuity of policy_sound: the repaired form conforms, and a shared
   registration with two callees is reachable under it *)
Example policy_repaired_conforms :
  policy_conforms true ShareIn ["first"; "last"; "random"; "roundrobin"]
                  ["first"; "last"; "random"; "roundrobin"] = true /\
  prun ShareIn ["first"; "last"; "random"; "roundrobin"] [PRegister "random"; PRegister "random"] = Some ("random", 2).
Proof. split; reflexivity. Qed.
