(* C04: the per-run obligations over the inventory regenerated from the
   repository's working tree (coq/gen/GenC04Sites.v).  Each is decided by
   computation; the theorems of Props/C04.v lift them through the lemmas
   proved once in SiteProofs / CloseProofs / PolicyProofs. *)
From Coq Require Import String List NArith Bool.
From Nexus Require Import Safety.Values Safety.Accessors Safety.Sites Safety.Close Safety.Policy Safety.Locks.
From Nexus Require Import gen.GenC04Sites.
Import ListNotations.

Definition gen_policy_ok : bool :=
  policy_conforms gen_policy_panic_present gen_policy_share gen_policy_share_set gen_policy_cases.

Definition gen_cfg : gcfg :=
  {| nil_possible := nil_may_be_delivered gen_sites; policy_ok := gen_policy_ok |}.

Definition gen_client_sites : list site := client_sites gen_sites.

Definition gen_close_paths : list closepath := close_paths gen_sites.

(* no transport hands a nil message to the router *)
Lemma delivery_ok : nil_may_be_delivered gen_sites = false.
Proof. vm_compute. reflexivity. Qed.

(* a second callee joins a registration only under a policy the selection
   switch handles *)
Lemma policy_table_ok : gen_policy_ok = true.
Proof. vm_compute. reflexivity. Qed.

(* every peer close is on the exit path (after the loop, after removal from
   broker and dealer) or on the attach path *)
Lemma close_table_ok : close_sites_ok gen_close_paths = true.
Proof. vm_compute. reflexivity. Qed.

(* every use of a session's details map that can overlap a writer holds that
   session's lock *)
Definition gen_details_states : list lockstate := details_states gen_sites.

Lemma details_table_ok : details_ok gen_details_states = true.
Proof. vm_compute. reflexivity. Qed.

(* every site that touches client-controlled data, every explicit panic, peer
   close and transport delivery satisfies the decidable condition *)
Lemma site_table_ok : forallb (site_safe gen_cfg) gen_client_sites = true.
Proof. vm_compute. reflexivity. Qed.

(* non-vacuity of the inventory: the translator did find the router's
   option-reading code, the handler's exit path and the transports *)
Definition count (p : site -> bool) : nat := length (filter p gen_client_sites).

Lemma inventory_not_vacuous :
  Nat.leb 50 (count (fun s => match s_kind s with SAssert _ _ | SAccessor _ => true | _ => false end))= true /\
  Nat.leb 20 (count (fun s => match s_kind s with SIndex _ _ => true | _ => false end))= true /\
  existsb (fun p => match p with CPExit true true true => true | _ => false end) gen_close_paths = true /\
  Nat.leb 2 (count (fun s => match s_kind s with SMsgSend _ => true | _ => false end))= true /\
  Nat.leb 10 (count (fun s => match s_kind s with SPanic _ => true | _ => false end))= true /\
  Nat.leb 8 (length (filter (fun s => match s with LSLocked => true | _ => false end) gen_details_states)) = true /\
  Nat.leb 2 (count (fun s => match s_kind s with SNilParam _ => true | _ => false end)) = true.
Proof. vm_compute. repeat split. Qed.
