(* C04: close discipline of one client peer.

   A small transition system for ONE attached (or attaching) peer and the
   goroutines that can touch its outbound channel: the attach path, the
   session's handler goroutine with its exit path, the broker / dealer
   goroutines, which send to the session while it is in their tables and they
   are running, and realm shutdown.  The places where the code closes a peer
   are not written here: they are the [SPeerClose] entries of the generated
   inventory, each acting according to the classification the translator
   derived for it:
     CPExit      the goroutine that ran the handler loop, after the loop and
                 after the session was deleted from broker / dealer tables;
     CPPreSession the attach path, before a handler exists for the peer;
     CPShutdown  realm shutdown, after broker and dealer have stopped, for a
                 session whose handler exited at shutdown leaving the peer open;
     CPOther     anywhere else.
   Definitions only.  Router.Close / RemoveRealm as a whole is C06's
   (Conc/Shutdown); only what closes a client peer appears here. *)
From Coq Require Import List Bool Arith.
From Nexus Require Import Safety.Sites.
Import ListNotations.

Inductive aphase := APre | AStarted | AAborted.
Inductive hphase :=
| HNone            (* no handler yet *)
| HRunning
| HParked          (* handler exited at realm shutdown: session still in the tables, peer open *)
| HExited.         (* handler exited and closed the peer (or the realm did, at shutdown) *)

Record pstate := {
  chan_closed : bool;     (* the peer's outbound channel has been closed *)
  att : aphase;
  hnd : hphase;
  in_broker : bool;       (* the broker's tables reference the session *)
  in_dealer : bool;
  stopped : bool          (* broker and dealer goroutines have stopped *)
}.

Definition init : pstate :=
  {| chan_closed := false; att := APre; hnd := HNone; in_broker := false; in_dealer := false; stopped := false |}.

Inductive event :=
| EStartHandler                 (* handleSession: go handler *)
| EJoin (broker dealer : bool)  (* the handler processed SUBSCRIBE / REGISTER / CALL *)
| EHandlerSend                  (* the handler goroutine replies on the session's channel *)
| ERouterSend (from_broker : bool) (* broker / dealer goroutine sends to the session *)
| EShutdownExit                 (* the handler exits because the realm shuts down *)
| EStop                         (* realm.close: handlers awaited, then dealer.close(), broker.close() *)
| EClose (i : nat).             (* the i-th peer-close site of the inventory executes *)

Inductive cres :=
| CStep (s : pstate)
| CDisabled                     (* the event cannot happen in this state *)
| CPanicCloseClosed
| CPanicSendClosed.

Definition do_close (s : pstate) (s' : pstate) : cres :=
  if chan_closed s then CPanicCloseClosed else CStep s'.

Definition do_send (s : pstate) : cres :=
  if chan_closed s then CPanicSendClosed else CStep s.

Definition upd (s : pstate) (c : bool) (a : aphase) (h : hphase) (b d st : bool) : pstate :=
  {| chan_closed := c; att := a; hnd := h; in_broker := b; in_dealer := d; stopped := st |}.

Definition step (sites : list closepath) (s : pstate) (e : event) : cres :=
  match e with
  | EStartHandler =>
      match att s, hnd s, stopped s with
      | APre, HNone, false => CStep (upd s (chan_closed s) AStarted HRunning (in_broker s) (in_dealer s) false)
      | _, _, _ => CDisabled
      end
  | EJoin b d =>
      match hnd s with
      | HRunning => CStep (upd s (chan_closed s) (att s) (hnd s) (in_broker s || b) (in_dealer s || d) (stopped s))
      | _ => CDisabled
      end
  | EHandlerSend =>
      match hnd s with HRunning => do_send s | _ => CDisabled end
  | ERouterSend fb =>
      if (if fb then in_broker s else in_dealer s) && negb (stopped s) then do_send s else CDisabled
  | EShutdownExit =>
      match hnd s with
      | HRunning => CStep (upd s (chan_closed s) (att s) HParked (in_broker s) (in_dealer s) (stopped s))
      | _ => CDisabled
      end
  | EStop =>
      (* realm.close waits for every handler before it stops dealer and broker *)
      match hnd s with
      | HRunning => CDisabled
      | _ => CStep (upd s (chan_closed s) (att s) (hnd s) (in_broker s) (in_dealer s) true)
      end
  | EClose i =>
      match nth_error sites i with
      | None => CDisabled
      | Some CPPreSession =>
          (* attach path: only while no handler exists for the peer *)
          match att s, hnd s with
          | APre, HNone => do_close s (upd s true AAborted HNone (in_broker s) (in_dealer s) (stopped s))
          | _, _ => CDisabled
          end
      | Some (CPExit after_loop rb rd) =>
          (* the goroutine that ran the handler; if the close does not come
             after the loop it can execute while the handler is still running *)
          match hnd s with
          | HRunning =>
              do_close s (upd s true (att s) (if after_loop then HExited else HRunning)
                              (in_broker s && negb rb) (in_dealer s && negb rd) (stopped s))
          | _ => CDisabled
          end
      | Some (CPShutdown sb sd) =>
          (* realm.close closing the parked sessions; if the close is not
             ordered after both stops it can run while they still send *)
          match hnd s with
          | HParked =>
              if stopped s || negb (sb && sd)
              then do_close s (upd s true (att s) HExited (in_broker s) (in_dealer s) (stopped s))
              else CDisabled
          | _ => CDisabled
          end
      | Some CPOther =>
          (* some goroutine working on a message of the session closes the
             peer; the handler keeps running *)
          match hnd s with
          | HRunning => do_close s (upd s true (att s) HRunning (in_broker s) (in_dealer s) (stopped s))
          | _ => CDisabled
          end
      end
  end.

(* run a trace; disabled events are skipped *)
Fixpoint run (sites : list closepath) (s : pstate) (t : list event) : cres :=
  match t with
  | [] => CStep s
  | e :: r =>
      match step sites s e with
      | CStep s' => run sites s' r
      | CDisabled => run sites s r
      | p => p
      end
  end.

Definition close_paths (l : list site) : list closepath :=
  flat_map (fun s => match s_kind s with SPeerClose p => [p] | _ => [] end) l.

Definition close_sites_ok (l : list closepath) : bool := forallb closepath_ok l.

(* number of successful closes in a trace *)
Fixpoint closes (sites : list closepath) (s : pstate) (t : list event) : nat :=
  match t with
  | [] => 0
  | e :: r =>
      match step sites s e with
      | CStep s' => (if negb (chan_closed s) && chan_closed s' then 1 else 0) + closes sites s' r
      | CDisabled => closes sites s r
      | _ => 0
      end
  end.
