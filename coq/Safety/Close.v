(* C04: close discipline of one client peer.

   A small transition system for ONE attached (or attaching) peer and the
   goroutines that can touch its outbound channel: the attach path, the
   session's handler goroutine with its exit path, and the broker / dealer
   goroutines, which send to the session while it is in their tables.  The
   places where the code closes a peer are not written here: they are the
   [SPeerClose] entries of the generated inventory, each acting according to
   the classification the translator derived for it (exit path after the
   handler loop and after removal from the tables / attach path before a
   handler exists / anywhere else).  Definitions only.

   Not in this model (owned by C06, Conc/Shutdown): the WELCOME that
   AttachClient sends after the handler was started, Router.Close. *)
From Coq Require Import List Bool Arith.
From Nexus Require Import Safety.Sites.
Import ListNotations.

Inductive aphase := APre | AStarted | AAborted.
Inductive hphase := HNone | HRunning | HExited.

Record pstate := {
  chan_closed : bool;     (* the peer's outbound channel has been closed *)
  att : aphase;
  hnd : hphase;
  in_broker : bool;       (* the broker's tables reference the session *)
  in_dealer : bool
}.

Definition init : pstate :=
  {| chan_closed := false; att := APre; hnd := HNone; in_broker := false; in_dealer := false |}.

Inductive event :=
| EStartHandler                 (* handleSession: go handler *)
| EJoin (broker dealer : bool)  (* the handler processed SUBSCRIBE / REGISTER / CALL *)
| EHandlerSend                  (* the handler goroutine replies on the session's channel *)
| ERouterSend (from_broker : bool) (* broker / dealer goroutine sends to the session *)
| EClose (i : nat).             (* the i-th peer-close site of the inventory executes *)

Inductive cres :=
| CStep (s : pstate)
| CDisabled                     (* the event cannot happen in this state *)
| CPanicCloseClosed
| CPanicSendClosed.

Definition do_close (s : pstate) (s' : pstate) : cres :=
  if chan_closed s then CPanicCloseClosed else CStep s'.

Definition do_send (s : pstate) : cres :=
  if chan_closed s then CPanicSendClosed else CStep s.

Definition step (sites : list closepath) (s : pstate) (e : event) : cres :=
  match e with
  | EStartHandler =>
      match att s, hnd s with
      | APre, HNone => CStep {| chan_closed := chan_closed s; att := AStarted; hnd := HRunning;
                                in_broker := in_broker s; in_dealer := in_dealer s |}
      | _, _ => CDisabled
      end
  | EJoin b d =>
      match hnd s with
      | HRunning => CStep {| chan_closed := chan_closed s; att := att s; hnd := hnd s;
                             in_broker := in_broker s || b; in_dealer := in_dealer s || d |}
      | _ => CDisabled
      end
  | EHandlerSend =>
      match hnd s with HRunning => do_send s | _ => CDisabled end
  | ERouterSend fb =>
      if (if fb then in_broker s else in_dealer s) then do_send s else CDisabled
  | EClose i =>
      match nth_error sites i with
      | None => CDisabled
      | Some CPPreSession =>
          (* attach path: only while no handler exists for the peer *)
          match att s, hnd s with
          | APre, HNone => do_close s {| chan_closed := true; att := AAborted; hnd := HNone;
                                         in_broker := in_broker s; in_dealer := in_dealer s |}
          | _, _ => CDisabled
          end
      | Some (CPExit after_loop rb rd) =>
          (* the goroutine that ran the handler; if the close does not come
             after the loop it can execute while the handler is still running *)
          match hnd s with
          | HRunning =>
              do_close s {| chan_closed := true; att := att s;
                            hnd := if after_loop then HExited else HRunning;
                            in_broker := in_broker s && negb rb;
                            in_dealer := in_dealer s && negb rd |}
          | _ => CDisabled
          end
      | Some CPOther =>
          (* some goroutine working on a message of the session closes the
             peer; the handler keeps running *)
          match hnd s with
          | HRunning => do_close s {| chan_closed := true; att := att s; hnd := HRunning;
                                      in_broker := in_broker s; in_dealer := in_dealer s |}
          | _ => CDisabled
          end
      end
  end.

(* run a trace; disabled events are skipped *)
Fixpoint run (sites : list closepath) (s : pstate) (t : list event) : cres :=
  match t with
  | [] => CStep s
  | e :: r =>
      match step sites s e with
      | CStep s' => run sites s' r
      | CDisabled => run sites s r
      | p => p
      end
  end.

Definition close_paths (l : list site) : list closepath :=
  flat_map (fun s => match s_kind s with SPeerClose p => [p] | _ => [] end) l.

Definition close_sites_ok (l : list closepath) : bool := forallb closepath_ok l.

(* number of successful closes in a trace *)
Fixpoint closes (sites : list closepath) (s : pstate) (t : list event) : nat :=
  match t with
  | [] => 0
  | e :: r =>
      match step sites s e with
      | CStep s' => (if negb (chan_closed s) && chan_closed s' then 1 else 0) + closes sites s' r
      | CDisabled => closes sites s r
      | _ => 0
      end
  end.
