(* C04: unsynchronised access to the details map of a session.

   The lockset criterion for ONE shared object -- the details map of session
   X -- and the accesses the generated inventory lists for it ([SDetailsUse]):
   each access is made by some goroutine holding a set of session locks; two
   accesses conflict when they come from different goroutines, at least one
   writes, and no lock is common to both.  The writer the router always has is
   wamp.session.modify_details (realm goroutine, under X's lock).
   Definitions only. *)
From Coq Require Import List Bool Arith.
From Nexus Require Import Safety.Sites.
Import ListNotations.

(* locks are session names; the object's own lock is [owner] *)
Record access := { a_goroutine : nat; a_write : bool; a_locks : list nat }.

Definition common_lock (a b : access) : bool :=
  existsb (fun l => existsb (Nat.eqb l) (a_locks b)) (a_locks a).

Definition conflict (a b : access) : bool :=
  negb (Nat.eqb (a_goroutine a) (a_goroutine b)) && (a_write a || a_write b) && negb (common_lock a b).

Fixpoint race_free (l : list access) : bool :=
  match l with
  | [] => true
  | a :: r => forallb (fun b => negb (conflict a b)) r && race_free r
  end.

(* an access of the inventory, as the lock state the translator found says:
   under the owner's lock; or under another session's lock; or under none *)
Definition locks_of (owner other : nat) (s : lockstate) : list nat :=
  match s with
  | LSLocked => [owner]
  | LSWrongLock => [other]
  | _ => []
  end.

(* sites whose access can overlap a writer at all *)
Definition concurrent_state (s : lockstate) : bool :=
  match s with LSAfterRemoval | LSFresh => false | _ => true end.

Definition details_states (l : list site) : list lockstate :=
  flat_map (fun s => match s_kind s with SDetailsUse st => [st] | _ => [] end) l.

Definition details_ok (l : list lockstate) : bool :=
  forallb (fun s => match s with LSLocked | LSAfterRemoval | LSFresh => true | _ => false end) l.
