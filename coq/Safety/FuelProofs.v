(* C04: the fuel [S (depth v)] that [normalize] gives [normalize_dict] always
   suffices: the model never answers "out of fuel" on a value. *)
From Coq Require Import String List ZArith NArith Bool Lia Arith.
From Nexus Require Import Safety.Values Safety.Accessors Safety.AccessorProofs.
Import ListNotations.
Open Scope list_scope.

Lemma bind_no_err {A B} (o : outcome A) (f : A -> outcome B) :
  o <> Err -> (forall a, o = Ok a -> f a <> Err) -> bind o f <> Err.
Proof. destruct o; simpl; intros; auto; congruence. Qed.

(* depth of what a map entry's value holds *)
Definition entries_depth_lt (es : list (rv * rv)) (n : nat) : Prop :=
  forall k v, In (k, v) es -> depth (rv_val v) < n.

Lemma fold_max_in {A} (f : A -> nat) (l : list A) x :
  In x l -> f x <= fold_right (fun y m => Nat.max (f y) m) 0 l.
Proof.
  induction l as [|y r IH]; simpl; [tauto|]. intros [->|H]; [lia|]. specialize (IH H). lia.
Qed.

Lemma map_entries_depth v es :
  r_map_entries (value_of v) = Ok es -> entries_depth_lt es (depth v).
Proof.
  unfold r_map_entries, value_of; simpl. intros H k x Hin.
  destruct v; simpl in H; try discriminate; inversion H; subst; clear H;
    apply in_map_iff in Hin as ([a b] & E & Hin); inversion E; subst; simpl.
  - pose proof (fold_max_in (fun kv : string * value => depth (snd kv)) d (a, b) Hin). simpl in H. lia.
  - pose proof (fold_max_in (fun kv : string * value => depth (snd kv)) d (a, b) Hin). simpl in H. lia.
  - pose proof (fold_max_in (fun kv : string * value => depth (snd kv)) d (a, b) Hin). simpl in H. lia.
  - pose proof (fold_max_in (fun kv : value * value => Nat.max (depth (fst kv)) (depth (snd kv))) d (a, b) Hin). simpl in H. lia.
Qed.

Lemma guarded_elem_no_err r :
  (if rkind_eqb (r_kind r) RInterface then r_elem r else Ok r) <> Err.
Proof.
  destruct (rkind_eqb (r_kind r) RInterface) eqn:E; [|discriminate].
  apply r_kind_iface in E. unfold r_elem; rewrite E; discriminate.
Qed.

Lemma normalize_entry_no_err rec acc e :
  acc <> Err -> rec (r_interface (snd e)) <> Err -> normalize_entry rec acc e <> Err.
Proof.
  destruct e as [key cv]. intros Hacc Hrec. unfold normalize_entry.
  apply bind_no_err; auto. intros d _.
  apply bind_no_err; [apply guarded_elem_no_err|]. intros key' _.
  destruct (negb (rkind_eqb (r_kind key') RString)); [discriminate|].
  apply bind_no_err; auto. intros [nd|] _; [discriminate|].
  apply bind_no_err; [|discriminate].
  destruct (rkind_eqb (r_kind cv) RInterface) eqn:E; [|discriminate].
  apply bind_no_err.
  - apply r_kind_iface in E. unfold r_elem; rewrite E; discriminate.
  - intros e _. destruct (rkind_eqb (r_kind e) RSlice); [|discriminate].
    destruct (r_convertible_to_list e) eqn:C; [|discriminate].
    unfold r_convert_list. rewrite C.
    unfold r_convertible_to_list in C. apply andb_true_iff in C as [_ C].
    destruct (rv_val e); try discriminate.
Qed.

Lemma fold_normalize_no_err rec es :
  (forall k v, In (k, v) es -> rec (r_interface v) <> Err) ->
  forall acc, acc <> Err -> fold_left (normalize_entry rec) es acc <> Err.
Proof.
  induction es as [|[k v] r IH]; simpl; intros H acc Hacc; auto.
  apply IH; [intros; eapply H; eauto|].
  apply normalize_entry_no_err; auto. simpl. eapply H; eauto.
Qed.

Theorem normalize_dict_fuel fuel v : depth v < fuel -> normalize_dict fuel v <> Err.
Proof.
  revert v; induction fuel as [|f IH]; intros v L; [lia|]. simpl.
  destruct (negb (rkind_eqb (r_kind (value_of v)) RMap)) eqn:E; [discriminate|].
  apply bind_no_err.
  - unfold r_map_entries, value_of; simpl. apply negb_false_iff in E. apply rkind_eqb_eq in E.
    unfold r_kind in E; simpl in E. destruct v; simpl in *; try discriminate.
  - intros es Hes. apply bind_no_err; [|discriminate].
    apply fold_normalize_no_err; [|discriminate].
    intros k x Hin. apply IH. pose proof (map_entries_depth v es Hes k x Hin). unfold r_interface. lia.
Qed.

(* [normalize] is a total function in the strong sense: it answers Ok *)
Theorem normalize_answers v : exists d, normalize v = Ok d.
Proof.
  unfold normalize.
  pose proof (normalize_dict_fuel (S (depth v)) v (Nat.lt_succ_diag_r _)) as NE.
  pose proof (normalize_dict_total (S (depth v)) v) as NP.
  destruct (normalize_dict (S (depth v)) v); eauto; congruence.
Qed.
