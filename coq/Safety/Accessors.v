(* C04: exact models of the value accessors of package wamp (convert.go,
   dict.go, session.go:setRoles) over the value universe of Values.v.

   Go primitives that CAN panic are modelled as partial operations returning
   [Panic] (bare assertion, reflect methods applied to the wrong Kind, index
   out of range); the accessors are written with these primitives and with the
   same guards as the source, so that "the accessor never panics" is a theorem
   about the guards and not a consequence of how the model was totalised.
   Definitions only. *)
From Coq Require Import String List ZArith NArith Bool.
From Nexus Require Import Safety.Values.
Import ListNotations.
Open Scope string_scope.
Open Scope list_scope.

(* ---------------------------------------------------------------- *)
(* assertions *)

(* bare  x.(T)  *)
Definition bare (t : gotype) (v : value) : outcome value :=
  if has_type t v then Ok v else Panic.

(* y, ok := x.(T) : never panics; the zero value is irrelevant here *)
Definition comma_ok (t : gotype) (v : value) : outcome (value * bool) :=
  if has_type t v then Ok (v, true) else Ok (VNil, false).

(* ---------------------------------------------------------------- *)
(* type-switch accessors of convert.go *)

Definition as_string (v : value) : outcome (string * bool) :=
  match v with
  | VStr s | VBytes s | VURI s => Ok (s, true)
  | _ => Ok ("", false)
  end.

Definition as_uri (v : value) : outcome (string * bool) :=
  match v with
  | VURI s | VStr s | VBytes s => Ok (s, true)
  | _ => Ok ("", false)
  end.

Definition as_int64 (v : value) : outcome (Z * bool) :=
  match v with
  | VInt KInt64 z => Ok (z, true)
  | VInt KID z => Ok (wrap64 z, true)
  | VInt KUint64 z => Ok (wrap64 z, true)
  | VInt KInt z => Ok (z, true)
  | VInt KInt32 z => Ok (z, true)
  | VInt KUint z => Ok (wrap64 z, true)
  | VInt KUint32 z => Ok (z, true)
  | VFloat _ f => Ok (float_to_int64 f, true)
  | _ => Ok (0%Z, false)                  (* int8/16, uint8/16 are NOT accepted *)
  end.

Definition as_id (v : value) : outcome (Z * bool) :=
  bind (as_int64 v) (fun r =>
    let '(i, ok) := r in
    if ok && (0 <? i)%Z && (i <=? max_id)%Z then Ok (i, true) else Ok (0%Z, false)).

(* only the ok flag of AsFloat64 matters for control flow *)
Definition as_float64_ok (v : value) : outcome bool :=
  match v with
  | VFloat _ _ => Ok true
  | VInt KInt64 _ | VInt KID _ | VInt KUint64 _ | VInt KInt _ | VInt KInt32 _
  | VInt KUint _ | VInt KUint32 _ => Ok true
  | _ => Ok false
  end.

Definition as_bool (v : value) : outcome (bool * bool) :=
  match v with
  | VBool b => Ok (b, true)
  | _ => Ok (false, false)
  end.

(* ---------------------------------------------------------------- *)
(* package reflect, as far as NormalizeDict / AsList use it *)

Inductive rkind :=
| RInvalid | RBool | RInt | RFloat | RString | RSlice | RMap | RInterface | ROther.

Definition rkind_eqb (a b : rkind) : bool :=
  match a, b with
  | RInvalid, RInvalid | RBool, RBool | RInt, RInt | RFloat, RFloat | RString, RString
  | RSlice, RSlice | RMap, RMap | RInterface, RInterface | ROther, ROther => true
  | _, _ => false
  end.

(* Kind of reflect.ValueOf(v) *)
Definition kind_of (v : value) : rkind :=
  match v with
  | VNil => RInvalid
  | VBool _ => RBool
  | VInt _ _ => RInt
  | VFloat _ _ => RFloat
  | VStr _ | VURI _ => RString
  | VBytes _ | VList _ | VSliceAny _ | VSliceOf _ _ => RSlice
  | VDict _ | VMapAny _ | VMapOf _ _ | VMapAnyKey _ => RMap
  | VOther _ => ROther
  end.

(* a reflect.Value: either of interface type holding v (map / slice element of
   static type any) or of v's own concrete type *)
Record rv := RV { rv_iface : bool; rv_val : value }.

Definition value_of (v : value) : rv := RV false v.

Definition r_kind (r : rv) : rkind :=
  if rv_iface r then RInterface else kind_of (rv_val r).

(* Value.Elem: legal on Interface (and Pointer, not modelled) only *)
Definition r_elem (r : rv) : outcome rv :=
  if rv_iface r then Ok (RV false (rv_val r)) else Panic.

(* Value.Interface() *)
Definition r_interface (r : rv) : value := rv_val r.

(* MapKeys + MapIndex of each key: legal on Map only *)
Definition r_map_entries (r : rv) : outcome (list (rv * rv)) :=
  if rv_iface r then Panic else
  match rv_val r with
  | VDict d | VMapAny d => Ok (map (fun kv => (RV false (VStr (fst kv)), RV true (snd kv))) d)
  | VMapOf _ d => Ok (map (fun kv => (RV false (VStr (fst kv)), RV false (snd kv))) d)
  | VMapAnyKey d => Ok (map (fun kv => (RV true (fst kv), RV true (snd kv))) d)
  | _ => Panic
  end.

Definition byte_values (s : string) : list value :=
  map (fun a => VInt KUint8 (Z.of_nat (Ascii.nat_of_ascii a))) (list_ascii_of_string s).

(* Len + Index(i) for every i < Len: legal on Slice only *)
Definition r_slice_elems (r : rv) : outcome (list rv) :=
  if rv_iface r then Panic else
  match rv_val r with
  | VList l | VSliceAny l => Ok (map (RV true) l)
  | VSliceOf _ l => Ok (map (RV false) l)
  | VBytes s => Ok (map (RV false) (byte_values s))
  | _ => Panic
  end.

(* cv.Type().ConvertibleTo(reflect.TypeFor[List]()) for a slice value *)
Definition r_convertible_to_list (r : rv) : bool :=
  negb (rv_iface r) &&
  match rv_val r with
  | VList _ | VSliceAny _ => true
  | _ => false
  end.

(* Value.Convert(listType): panics unless convertible *)
Definition r_convert_list (r : rv) : outcome rv :=
  if r_convertible_to_list r then
    match rv_val r with
    | VList l | VSliceAny l => Ok (RV false (VList l))
    | _ => Panic
    end
  else Panic.

Definition key_string (r : rv) : string :=
  match rv_val r with VStr s | VURI s => s | _ => "" end.

(* ---------------------------------------------------------------- *)
(* dict.go: NormalizeDict, written with the source's guards.  Recursion is on
   explicit fuel (the nesting depth of the value); [None] is the nil Dict. *)

Definition dict := list (string * value).

Section Normalize.
  Variable rec : value -> outcome (option dict).

  Definition normalize_entry (acc : outcome dict) (e : rv * rv) : outcome dict :=
    bind acc (fun d =>
      let '(key, cv) := e in
      bind (if rkind_eqb (r_kind key) RInterface then r_elem key else Ok key) (fun key =>
        if negb (rkind_eqb (r_kind key) RString) then Ok d else
        bind (rec (r_interface cv)) (fun nv =>
          match nv with
          | Some nd => Ok (d ++ [(key_string key, VDict nd)])
          | None =>
              bind (if rkind_eqb (r_kind cv) RInterface then
                      bind (r_elem cv) (fun e =>
                        if rkind_eqb (r_kind e) RSlice then
                          if r_convertible_to_list e then r_convert_list e else Ok e
                        else Ok cv)
                    else Ok cv) (fun cv' =>
                Ok (d ++ [(key_string key, r_interface cv')]))
          end))).
End Normalize.

Fixpoint normalize_dict (fuel : nat) (v : value) : outcome (option dict) :=
  match fuel with
  | O => Err                                (* fuel exhausted: not a code path *)
  | S f =>
      let val := value_of v in
      if negb (rkind_eqb (r_kind val) RMap) then Ok None else
      bind (r_map_entries val) (fun es =>
        bind (fold_left (normalize_entry (normalize_dict f)) es (Ok [])) (fun d => Ok (Some d)))
  end.

(* nesting depth: fuel [S (depth v)] always suffices *)
Fixpoint depth (v : value) : nat :=
  match v with
  | VList l | VSliceAny l | VSliceOf _ l => S (fold_right (fun x m => Nat.max (depth x) m) O l)
  | VDict d | VMapAny d | VMapOf _ d => S (fold_right (fun kv m => Nat.max (depth (snd kv)) m) O d)
  | VMapAnyKey d => S (fold_right (fun kv m => Nat.max (Nat.max (depth (fst kv)) (depth (snd kv))) m) O d)
  | _ => O
  end.

Definition normalize (v : value) : outcome (option dict) := normalize_dict (S (depth v)) v.

(* AsDict *)
Definition as_dict (v : value) : outcome (option dict * bool) :=
  match v with
  | VNil => Ok (None, true)
  | _ => bind (normalize v) (fun n =>
           match n with Some d => Ok (Some d, true) | None => Ok (None, false) end)
  end.

(* AsList: type switch, then the reflect path *)
Definition as_list (v : value) : outcome (option (list value) * bool) :=
  match v with
  | VList l => Ok (Some l, true)
  | VSliceAny l => Ok (Some l, true)
  | VNil => Ok (None, true)
  | _ =>
      let val := value_of v in
      if negb (rkind_eqb (r_kind val) RSlice) then Ok (None, false) else
      bind (r_slice_elems val) (fun es => Ok (Some (map r_interface es), true))
  end.

(* ListToStrings *)
Fixpoint list_to_strings (l : list value) : outcome (list string * bool) :=
  match l with
  | [] => Ok ([], true)
  | x :: r =>
      bind (as_string x) (fun sx =>
        if snd sx then
          bind (list_to_strings r) (fun sr =>
            if snd sr then Ok (fst sx :: fst sr, true) else Ok ([], false))
        else Ok ([], false))
  end.

(* DictChild(dict, key) *)
Definition dict_child (d : value) (key : string) : outcome (option dict) :=
  let iface := dict_get key d in
  match iface with
  | VNil => Ok None
  | VDict c => Ok (Some c)                 (* child, ok := iface.(Dict) *)
  | _ => normalize iface
  end.

(* Option accessors: AsX(opts[name]) *)
Definition option_string (opts : value) (k : string) := bind (as_string (dict_get k opts)) (fun r => Ok (fst r)).
Definition option_uri (opts : value) (k : string) := bind (as_uri (dict_get k opts)) (fun r => Ok (fst r)).
Definition option_id (opts : value) (k : string) := bind (as_id (dict_get k opts)) (fun r => Ok (fst r)).
Definition option_int64 (opts : value) (k : string) := bind (as_int64 (dict_get k opts)) (fun r => Ok (fst r)).
Definition option_flag (opts : value) (k : string) := bind (as_bool (dict_get k opts)) (fun r => Ok (fst r)).

(* ---------------------------------------------------------------- *)
(* the accessor table: name used by the translator -> outcome on a value.
   An accessor name the model does not know yields Panic, so that a new,
   unmodelled accessor on client data breaks the conformance obligation. *)

Definition drop {A} (o : outcome A) : outcome unit := bind o (fun _ => Ok tt).

Definition run_accessor (name : string) (v : value) : outcome unit :=
  if String.eqb name "AsString" then drop (as_string v)
  else if String.eqb name "AsURI" then drop (as_uri v)
  else if String.eqb name "AsInt64" then drop (as_int64 v)
  else if String.eqb name "AsID" then drop (as_id v)
  else if String.eqb name "AsFloat64" then drop (as_float64_ok v)
  else if String.eqb name "AsBool" then drop (as_bool v)
  else if String.eqb name "AsDict" then drop (as_dict v)
  else if String.eqb name "AsList" then drop (as_list v)
  else if String.eqb name "NormalizeDict" then drop (normalize v)
  else if String.eqb name "ListToStrings" then
    match v with VList l | VSliceAny l => drop (list_to_strings l) | _ => Ok tt end
  else if String.eqb name "DictChild" then Ok tt       (* the looked-up value: see dict_child_total *)
  else if String.eqb name "DictValue" then Ok tt       (* a chain of DictChild along a router-side path; *)
  else if String.eqb name "DictFlag" then Ok tt        (* their bodies are inventoried like any function *)
  else if String.eqb name "OptionString" then drop (as_string v)
  else if String.eqb name "OptionURI" then drop (as_uri v)
  else if String.eqb name "OptionID" then drop (as_id v)
  else if String.eqb name "OptionInt64" then drop (as_int64 v)
  else if String.eqb name "OptionFlag" then drop (as_bool v)
  else Panic.

Definition known_accessor (name : string) : bool :=
  existsb (String.eqb name)
    ["AsString"; "AsURI"; "AsInt64"; "AsID"; "AsFloat64"; "AsBool"; "AsDict"; "AsList";
     "NormalizeDict"; "ListToStrings"; "DictChild"; "DictValue"; "DictFlag";
     "OptionString"; "OptionURI"; "OptionID"; "OptionInt64"; "OptionFlag"].

(* ---------------------------------------------------------------- *)
(* session.go: setRoles over HELLO details, with the source's accessors *)

Definition features_of (roleDict : value) : outcome (list string) :=
  (* roleDict, ok := _roleDict.(Dict); if !ok { roleDict = NormalizeDict(..); if nil continue } *)
  bind (match roleDict with
        | VDict d => Ok (Some d)
        | _ => normalize roleDict
        end) (fun rd =>
    match rd with
    | None => Ok []
    | Some rd =>
        if negb (has_key "features" rd) then Ok [] else
        let f := lookup "features" rd in
        bind (match f with VDict d => Ok (Some d) | _ => normalize f end) (fun fd =>
          match fd with
          | None => Ok []
          | Some fd =>
              (* if b, _ := iface.(bool); !b { continue } *)
              Ok (map fst (filter (fun kv => match snd kv with VBool true => true | _ => false end) fd))
          end)
    end).

Definition set_roles (details : value) : outcome (list (string * list string)) :=
  match details with
  | VDict d | VMapAny d | VMapOf _ d =>
      if negb (has_key "roles" d) then Ok [] else
      bind (as_dict (lookup "roles" d)) (fun r =>
        match r with
        | (Some roles, true) =>
            fold_left (fun acc kv =>
                         bind acc (fun a => bind (features_of (snd kv)) (fun fs => Ok (a ++ [(fst kv, fs)]))))
                      roles (Ok [])
        | _ => Ok []
        end)
  | _ => Ok []
  end.

(* realm.go: authClient's authmethods parsing *)
Definition auth_methods (details : value) : outcome (list string) :=
  bind (as_list (dict_get "authmethods" details)) (fun r =>
    let l := match fst r with Some l => l | None => [] end in
    let l := match l with [] => [VStr "anonymous"] | _ => l end in
    fold_left (fun acc v =>
                 bind acc (fun a => bind (as_string v) (fun s =>
                   if snd s && negb (String.eqb (fst s) "") then Ok (a ++ [fst s]) else Ok a)))
              l (Ok [])).

(* publishfilter.go: NewSimplePublishFilter's list parsing *)
Definition id_list (v : value) : outcome (list Z) :=
  bind (as_list v) (fun r =>
    match r with
    | (Some l, true) =>
        fold_left (fun acc x => bind acc (fun a => bind (as_id x) (fun i => if snd i then Ok (a ++ [fst i]) else Ok a)))
                  l (Ok [])
    | _ => Ok []
    end).

Definition attr_list (v : value) : outcome (list string) :=
  bind (as_list v) (fun r =>
    match r with
    | (Some l, true) =>
        fold_left (fun acc x => bind acc (fun a => bind (as_string x) (fun s =>
                     if snd s && negb (String.eqb (fst s) "") then Ok (a ++ [fst s]) else Ok a)))
                  l (Ok [])
    | _ => Ok []
    end).

Definition publish_filter (options : value) : outcome unit :=
  bind (id_list (dict_get "exclude" options)) (fun _ =>
  bind (id_list (dict_get "eligible" options)) (fun _ =>
    match options with
    | VDict d | VMapAny d =>
        fold_left (fun acc kv => bind acc (fun _ => drop (attr_list (snd kv)))) d (Ok tt)
    | _ => Ok tt
    end)).
