(* C04: checking the accessor models against what the REAL functions of
   package wamp returned on the same values (the harness dumps the real
   results; the check writes them as a list of [acase] into coq/cases/ and one
   vm_compute decides agreement inside the kernel).  Definitions only. *)
From Coq Require Import String List ZArith Bool.
From Nexus Require Import Safety.Values Safety.Accessors.
Import ListNotations.
Open Scope string_scope.

Inductive expect :=
| XStr (acc : string) (ok : bool) (s : string)        (* AsString / AsURI *)
| XInt (acc : string) (ok : bool) (z : Z)              (* AsInt64 / AsID *)
| XBool (ok : bool) (b : bool)                         (* AsBool *)
| XOk (acc : string) (ok : bool)                       (* AsFloat64, comma-ok assertions *)
| XDict (acc : string) (ok : bool) (isnil : bool) (keys : list (string * string))
                                                       (* AsDict / NormalizeDict: keys with the kind of their values *)
| XList (ok : bool) (isnil : bool) (len : nat)         (* AsList *)
| XBare (t : gotype) (panics : bool).                  (* bare assertion *)

Definition canon_val (v : value) : string :=
  match v with
  | VNil => "nil"
  | VDict _ => "Dict"
  | VList _ => "List"
  | VSliceAny _ => "SliceAny"
  | VMapAny _ => "MapAny"
  | _ => "other"
  end.

Fixpoint insert_sorted (kv : string * string) (l : list (string * string)) : list (string * string) :=
  match l with
  | [] => [kv]
  | x :: r => if String.leb (fst kv) (fst x) then kv :: l else x :: insert_sorted kv r
  end.

Definition sort_keys (l : list (string * string)) : list (string * string) :=
  fold_right insert_sorted [] l.

Definition pair_eqb (a b : string * string) : bool :=
  String.eqb (fst a) (fst b) && String.eqb (snd a) (snd b).

Fixpoint list_eqb {A} (eq : A -> A -> bool) (a b : list A) : bool :=
  match a, b with
  | [], [] => true
  | x :: r, y :: s => eq x y && list_eqb eq r s
  | _, _ => false
  end.

Definition dict_matches (d : option dict) (isnil : bool) (keys : list (string * string)) : bool :=
  match d with
  | None => isnil
  | Some l => negb isnil &&
              list_eqb pair_eqb (sort_keys (map (fun kv => (fst kv, canon_val (snd kv))) l)) (sort_keys keys)
  end.

Definition gotype_of (name : string) : gotype :=
  if String.eqb name "string" then TString
  else if String.eqb name "bool" then TBool
  else if String.eqb name "int" then TInt
  else if String.eqb name "wamp.ID" then TID
  else if String.eqb name "wamp.Dict" then TDict
  else TOther name.

Definition check (v : value) (x : expect) : bool :=
  match x with
  | XStr acc ok s =>
      match (if String.eqb acc "AsURI" then as_uri v else as_string v) with
      | Ok (s', ok') => Bool.eqb ok ok' && String.eqb s s'
      | _ => false
      end
  | XInt acc ok z =>
      match (if String.eqb acc "AsID" then as_id v else as_int64 v) with
      | Ok (z', ok') => Bool.eqb ok ok' && Z.eqb z z'
      | _ => false
      end
  | XBool ok b =>
      match as_bool v with Ok (b', ok') => Bool.eqb ok ok' && Bool.eqb b b' | _ => false end
  | XOk acc ok =>
      if String.eqb acc "AsFloat64" then
        match as_float64_ok v with Ok ok' => Bool.eqb ok ok' | _ => false end
      else
        match comma_ok (gotype_of acc) v with Ok (_, ok') => Bool.eqb ok ok' | _ => false end
  | XDict acc ok isnil keys =>
      if String.eqb acc "AsDict" then
        match as_dict v with Ok (d, ok') => Bool.eqb ok ok' && dict_matches d isnil keys | _ => false end
      else
        match normalize v with Ok d => dict_matches d isnil keys | _ => false end
  | XList ok isnil len =>
      match as_list v with
      | Ok (None, ok') => Bool.eqb ok ok' && isnil
      | Ok (Some l, ok') => Bool.eqb ok ok' && negb isnil && Nat.eqb (length l) len
      | _ => false
      end
  | XBare t panics => Bool.eqb panics (is_panic (bare t v))
  end.

Definition acase := (value * expect)%type.

Definition mismatches (cases : list acase) : list nat :=
  let fix go (i : nat) (l : list acase) : list nat :=
    match l with
    | [] => []
    | (v, x) :: r => if check v x then go (S i) r else i :: go (S i) r
    end in
  go 0 cases.
