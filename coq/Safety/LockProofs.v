(* C04: if every use of a session's details that can overlap a writer holds
   that session's lock, no two accesses conflict (lockset criterion); a use
   under another session's lock, or under none, conflicts with the writer. *)
From Coq Require Import List Bool Arith Lia.
From Nexus Require Import Safety.Sites Safety.Locks.
Import ListNotations.

Lemma common_owner owner a b :
  In owner (a_locks a) -> In owner (a_locks b) -> common_lock a b = true.
Proof.
  intros Ha Hb. unfold common_lock. apply existsb_exists. exists owner; split; auto.
  apply existsb_exists. exists owner; split; auto. apply Nat.eqb_refl.
Qed.

(* any set of accesses that all hold the owner's lock is race free *)
Theorem lockset_sound owner (l : list access) :
  (forall a, In a l -> In owner (a_locks a)) -> race_free l = true.
Proof.
  induction l as [|a r IH]; simpl; intros H; auto.
  apply andb_true_iff; split.
  - apply forallb_forall. intros b Hb. unfold conflict.
    rewrite (common_owner owner a b); auto. simpl. rewrite andb_false_r. reflexivity.
  - apply IH. intros; auto.
Qed.

(* the accesses of an accepted inventory: one per concurrent site, each by
   its own goroutine, plus the writer (modify_details) under the owner's lock *)
Definition accesses_of (owner other : nat) (states : list lockstate) (writer : access) : list access :=
  writer :: map (fun s => {| a_goroutine := 1; a_write := false; a_locks := locks_of owner other s |})
                (filter concurrent_state states).

Theorem details_discipline owner other states g :
  details_ok states = true ->
  race_free (accesses_of owner other states {| a_goroutine := g; a_write := true; a_locks := [owner] |}) = true.
Proof.
  intros OK. apply (lockset_sound owner). intros a [<-|Hin]; simpl; auto.
  apply in_map_iff in Hin as (s & <- & Hs). apply filter_In in Hs as [Hs C]. simpl.
  unfold details_ok in OK. rewrite forallb_forall in OK. specialize (OK s Hs).
  destruct s; simpl in *; auto; discriminate.
Qed.

(* refuted: a reader holding another session's lock (or none) while
   modify_details writes under the owner's *)
Theorem wrong_lock_races owner other :
  owner <> other ->
  race_free [ {| a_goroutine := 0; a_write := true; a_locks := [owner] |};
              {| a_goroutine := 1; a_write := false; a_locks := locks_of owner other LSWrongLock |} ] = false.
Proof.
  intros N. simpl. unfold conflict, common_lock; simpl.
  destruct (Nat.eqb owner other) eqn:E; [apply Nat.eqb_eq in E; contradiction|]. reflexivity.
Qed.

Theorem no_lock_races owner other :
  race_free [ {| a_goroutine := 0; a_write := true; a_locks := [owner] |};
              {| a_goroutine := 1; a_write := false; a_locks := locks_of owner other LSUnlocked |} ] = false.
Proof. reflexivity. Qed.

(* non-vacuity: publisher-side filter read under the subscriber's lock next to the writer *)
Example filter_read_is_ordered :
  details_ok [LSLocked; LSAfterRemoval] = true /\
  race_free (accesses_of 7 9 [LSLocked; LSAfterRemoval] {| a_goroutine := 0; a_write := true; a_locks := [7] |}) = true.
Proof. split; reflexivity. Qed.
