(* C04: the explicit panic in the default clause of the invocation-policy
   switch of dealer.syncCall ("multiple callees registered ... with 'single'
   policy") against the condition under which dealer.syncRegister lets a
   second callee join a registration.  Both are extracted from the source:
   [cases] are the constants the switch handles, [form]/[set] describe what is
   known about reg.policy where a callee is appended.  Definitions only. *)
From Coq Require Import String Ascii List Bool Arith.
From Nexus Require Import Safety.Sites.
Import ListNotations.
Open Scope string_scope.

Definition mem (p : string) (l : list string) : bool := existsb (String.eqb p) l.

(* may a further callee be appended to a registration whose policy is p? *)
Definition shares (form : share_form) (set : list string) (p : string) : bool :=
  match form with
  | ShareIn => mem p set
  | ShareNotIn => negb (mem p set)
  | ShareUnconstrained => true
  | ShareNone => false
  end.

(* one procedure's registration: policy fixed by the first registrant, number of callees *)
Definition reg := option (string * nat).

Inductive pop :=
| PRegister (policy : string)
| PUnregister
| PLeave.

Definition pstep (form : share_form) (set : list string) (r : reg) (o : pop) : reg :=
  match o, r with
  | PRegister p, None => Some (p, 1)
  | PRegister p, Some (q, n) =>
      if shares form set q && String.eqb q p then Some (q, S n) else r
  | PUnregister, Some (q, S (S n)) => Some (q, S n)
  | PUnregister, Some (_, _) => None
  | PUnregister, None => None
  | PLeave, Some (q, S (S n)) => Some (q, S n)
  | PLeave, _ => None
  end.

Definition prun (form : share_form) (set : list string) (ops : list pop) : reg :=
  fold_left (pstep form set) ops None.

(* syncCall reaches the panicking default clause *)
Definition call_panics (cases : list string) (r : reg) : bool :=
  match r with
  | Some (q, n) => Nat.ltb 1 n && negb (mem q cases)
  | None => false
  end.

(* the per-run obligation over the generated constants *)
Definition policy_conforms (present : bool) (form : share_form) (set cases : list string) : bool :=
  negb present ||
  match form with
  | ShareIn => forallb (fun p => mem p cases) set
  | ShareNone => true
  | ShareNotIn | ShareUnconstrained => false
  end.

(* a string that is in no finite list: longer than all of them *)
Fixpoint total_len (l : list string) : nat :=
  match l with [] => 0 | s :: r => String.length s + total_len r end.

Fixpoint xs (n : nat) : string :=
  match n with 0 => "" | S k => String "x"%char (xs k) end.

Definition fresh (l : list string) : string := xs (S (total_len l)).
