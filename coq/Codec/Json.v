(** * Codec.Json — JSON as ugorji/go/codec v1.3.1 writes it with nexus'
    handle, and a strict reader for it (definitions only; MODELLED).

    Encoder: faithful for null, booleans, integers, strings (the escaping
    table of [quoteStr], incl. [<>&] and U+2028/9), binary (nexus'
    [BinaryData] convention: NUL + standard base64, in a string), lists and
    dicts.  Floats are an OPAQUE TOKEN CLASS: their text is produced and read
    back by two Section variables ([fprint], [fparse] — Go's strconv as ugorji
    calls it), about which the round-trip theorem assumes only what is stated
    there.  Strings are modelled faithfully for valid UTF-8 only (Go replaces
    invalid sequences by U+FFFD; the model passes bytes >= 0x80 through).

    Decoder: RFC 8259 grammar (plus raw control characters inside strings,
    which ugorji accepts).  ugorji is laxer in many places; [JNo] therefore
    means "outside the modelled language — no claim", never "Go reports an
    error". *)
From Coq Require Import List NArith ZArith Bool.
From Coq Require Import Strings.Byte.
From Nexus Require Import Codec.Bytes Codec.Values Codec.Utf8 Codec.Tlv.
Import ListNotations.
Open Scope N_scope.

(** ** Characters *)
Definition c_quote := 0x22. Definition c_bslash := 0x5c. Definition c_slash := 0x2f.
Definition c_lbrack := 0x5b. Definition c_rbrack := 0x5d.
Definition c_lbrace := 0x7b. Definition c_rbrace := 0x7d.
Definition c_comma := 0x2c. Definition c_colon := 0x3a.
Definition c_minus := 0x2d. Definition c_plus := 0x2b. Definition c_dot := 0x2e.
Definition c_0 := 0x30. Definition c_9 := 0x39.
Definition c_e := 0x65. Definition c_E := 0x45.
Definition c_u := 0x75.

Definition lit (l : list N) : bytes := map n2b l.
Definition s_null := lit [0x6e; 0x75; 0x6c; 0x6c].
Definition s_true := lit [0x74; 0x72; 0x75; 0x65].
Definition s_false := lit [0x66; 0x61; 0x6c; 0x73; 0x65].

(** ** Integers in decimal *)

Definition digit_byte (d : N) : byte := n2b (c_0 + d).

(** most significant digit first; [fuel] bounds the number of digits *)
Fixpoint digits_fuel (fuel : nat) (n : N) (acc : bytes) : bytes :=
  match fuel with
  | O => acc
  | S f => if n <? 10 then digit_byte n :: acc
           else digits_fuel f (n / 10) (digit_byte (n mod 10) :: acc)
  end.

Definition dec_of_N (n : N) : bytes := digits_fuel (S (N.to_nat (N.log2 n))) n [].

Definition dec_of_Z (z : Z) : bytes :=
  if (z <? 0)%Z then n2b c_minus :: dec_of_N (Z.to_N (- z)) else dec_of_N (Z.to_N z).

Definition is_digit (b : byte) : bool := (c_0 <=? b2n b) && (b2n b <=? c_9).

(** Horner value of a digit string *)
Definition dec_val (ds : bytes) : N := fold_left (fun acc b => acc * 10 + (b2n b - c_0)) ds 0.

(** [0] or a non-empty digit string not starting with [0] *)
Definition int_digits_ok (ds : bytes) : bool :=
  match ds with
  | [] => false
  | [d] => is_digit d
  | d :: _ => is_digit d && negb (b2n d =? c_0) && forallb is_digit ds
  end.

(** ** Strings *)

Definition hexdig (n : N) : byte := if n <? 10 then n2b (c_0 + n) else n2b (0x61 + (n - 10)).

Definition u_escape (c : N) : bytes :=           (* \uXXXX, lower-case hex *)
  [n2b c_bslash; n2b c_u; hexdig (c / 4096); hexdig ((c / 256) mod 16);
   hexdig ((c / 16) mod 16); hexdig (c mod 16)].

(** one byte below 0x80, as [quoteStr] writes it (HTMLCharsAsIs = false) *)
Definition esc_ascii (b : byte) : bytes :=
  let n := b2n b in
  if n =? c_bslash then [n2b c_bslash; n2b c_bslash]
  else if n =? c_quote then [n2b c_bslash; n2b c_quote]
  else if n =? 0x0a then [n2b c_bslash; n2b 0x6e]
  else if n =? 0x09 then [n2b c_bslash; n2b 0x74]
  else if n =? 0x0d then [n2b c_bslash; n2b 0x72]
  else if n =? 0x08 then [n2b c_bslash; n2b 0x62]
  else if n =? 0x0c then [n2b c_bslash; n2b 0x66]
  else if (n <? 0x20) || (n =? 0x3c) || (n =? 0x3e) || (n =? 0x26) then u_escape n
  else [b].

Fixpoint quote_body (s : bytes) : bytes :=
  match s with
  | [] => []
  | b :: t =>
      if b2n b =? 0xE2 then
        match t with
        | b1 :: b2 :: t' =>
            if (b2n b1 =? 0x80) && ((b2n b2 =? 0xA8) || (b2n b2 =? 0xA9))
            then u_escape (0x2000 + (b2n b2 - 0x80)) ++ quote_body t'     (* U+2028 / U+2029 *)
            else b :: quote_body t
        | _ => b :: quote_body t
        end
      else if b2n b <? 0x80 then esc_ascii b ++ quote_body t
      else b :: quote_body t
  end.

Definition quote (s : bytes) : bytes := n2b c_quote :: quote_body s ++ [n2b c_quote].

Definition hexval (b : byte) : option N :=
  let n := b2n b in
  if (c_0 <=? n) && (n <=? c_9) then Some (n - c_0)
  else if (0x61 <=? n) && (n <=? 0x66) then Some (n - 0x61 + 10)
  else if (0x41 <=? n) && (n <=? 0x46) then Some (n - 0x41 + 10)
  else None.

Definition hex4 (a b c d : byte) : option N :=
  match hexval a, hexval b, hexval c, hexval d with
  | Some x, Some y, Some z, Some w => Some (((x * 16 + y) * 16 + z) * 16 + w)
  | _, _, _, _ => None
  end.

(** the body of a string up to and including the closing quote *)
Fixpoint unquote_body (bs : bytes) : option (bytes * bytes) :=
  match bs with
  | [] => None
  | b :: r =>
      let n := b2n b in
      if n =? c_quote then Some ([], r)
      else if n =? c_bslash then
        match r with
        | [] => None
        | e :: r1 =>
            let m := b2n e in
            let simple (c : N) :=
              match unquote_body r1 with Some (s, r') => Some (n2b c :: s, r') | None => None end in
            if m =? c_quote then simple c_quote
            else if m =? c_bslash then simple c_bslash
            else if m =? c_slash then simple c_slash
            else if m =? 0x62 then simple 0x08
            else if m =? 0x66 then simple 0x0c
            else if m =? 0x6e then simple 0x0a
            else if m =? 0x72 then simple 0x0d
            else if m =? 0x74 then simple 0x09
            else if m =? c_u then
              match r1 with
              | h1 :: h2 :: h3 :: h4 :: r2 =>
                  match hex4 h1 h2 h3 h4 with
                  | None => None
                  | Some c =>
                      if is_surrogate c then
                        (* only a well-formed pair is in the model *)
                        match r2 with
                        | p1 :: p2 :: l1 :: l2 :: l3 :: l4 :: r3 =>
                            match hex4 l1 l2 l3 l4 with
                            | Some c2 =>
                                if (b2n p1 =? c_bslash) && (b2n p2 =? c_u)
                                   && (c <=? 0xDBFF) && (0xDC00 <=? c2) && (c2 <=? 0xDFFF)
                                then match unquote_body r3 with
                                     | Some (s, r') =>
                                         Some (utf8_encode (0x10000 + (c - 0xD800) * 1024 + (c2 - 0xDC00)) ++ s, r')
                                     | None => None
                                     end
                                else None
                            | None => None
                            end
                        | _ => None
                        end
                      else match unquote_body r2 with
                           | Some (s, r') => Some (utf8_encode c ++ s, r')
                           | None => None
                           end
                  end
              | _ => None
              end
            else None
        end
      else match unquote_body r with
           | Some (s, r') => Some (b :: s, r')
           | None => None
           end
  end.

(** ** Base64 (standard alphabet, padded) for nexus' BinaryData convention *)
Definition b64char (n : N) : byte :=
  if n <? 26 then n2b (0x41 + n)
  else if n <? 52 then n2b (0x61 + (n - 26))
  else if n <? 62 then n2b (c_0 + (n - 52))
  else if n =? 62 then n2b 0x2b else n2b 0x2f.

Fixpoint base64 (bs : bytes) : bytes :=
  match bs with
  | [] => []
  | [a] =>
      let x := b2n a in
      [b64char (x / 4); b64char ((x mod 4) * 16); n2b 0x3d; n2b 0x3d]
  | [a; b] =>
      let x := b2n a in let y := b2n b in
      [b64char (x / 4); b64char ((x mod 4) * 16 + y / 16); b64char ((y mod 16) * 4); n2b 0x3d]
  | a :: b :: c :: t =>
      let x := b2n a in let y := b2n b in let z := b2n c in
      b64char (x / 4) :: b64char ((x mod 4) * 16 + y / 16)
      :: b64char ((y mod 16) * 4 + z / 64) :: b64char (z mod 64) :: base64 t
  end.

(** the JSON string payload of a binary value: "\x00" + base64 *)
Definition bin_string (b : bytes) : bytes := n2b 0 :: base64 b.

(** ** Numbers *)

Definition is_num_char (b : byte) : bool :=
  let n := b2n b in
  is_digit b || (n =? c_minus) || (n =? c_plus) || (n =? c_dot) || (n =? c_e) || (n =? c_E).

(** the maximal run of number characters ([jsonReadNum]) *)
Fixpoint span_num (bs : bytes) : bytes * bytes :=
  match bs with
  | b :: r => if is_num_char b then let '(t, r') := span_num r in (b :: t, r') else ([], bs)
  | [] => ([], [])
  end.

(** RFC 8259 number syntax, after the optional minus sign:
    int [frac] [exp] *)
Fixpoint all_digits1 (bs : bytes) : bool :=   (* one or more digits *)
  match bs with [] => false | [d] => is_digit d | d :: t => is_digit d && all_digits1 t end.

Fixpoint split_at (p : byte -> bool) (bs : bytes) : bytes * option bytes :=
  match bs with
  | [] => ([], None)
  | b :: r => if p b then ([], Some r)
              else let '(a, t) := split_at p r in (b :: a, t)
  end.

Definition exp_ok (e : bytes) : bool :=
  match e with
  | s :: ds => if (b2n s =? c_minus) || (b2n s =? c_plus) then all_digits1 ds else all_digits1 e
  | [] => false
  end.

Definition float_syntax_ok (tok : bytes) : bool :=
  let body := match tok with b :: r => if b2n b =? c_minus then r else tok | [] => [] end in
  let '(mant, ex) := split_at (fun b => (b2n b =? c_e) || (b2n b =? c_E)) body in
  let '(ip, fp) := split_at (fun b => b2n b =? c_dot) mant in
  int_digits_ok ip
  && match fp with Some f => all_digits1 f | None => true end
  && match ex with Some e => exp_ok e | None => true end
  && match fp, ex with None, None => false | _, _ => true end.   (* not integer-shaped *)

Section Json.
  (** Go's float formatting / parsing as ugorji's JSON handle calls it
      (strconv.AppendFloat with jsonFloatStrconvFmtPrec64; parseFloat64).
      Opaque: supplied by the driver at run time, assumed (in
      [json_roundtrip]) to invert each other on finite floats. *)
  Variable fprint : N -> bytes.
  Variable fparse : bytes -> option N.

  (** [parseNumber]: an integer when the token is [-]?digits within range,
      else a float *)
  Definition num_of_token (tok : bytes) : option value :=
    let as_float := if float_syntax_ok tok then option_map VFloat (fparse tok) else None in
    match tok with
    | [] => None
    | b :: r =>
        if b2n b =? c_minus then
          if int_digits_ok r then
            let n := dec_val r in
            if n <=? 2 ^ 63 then Some (VInt KI64 (- Z.of_N n)) else None
          else as_float
        else
          if int_digits_ok tok then
            let n := dec_val tok in
            if n <? 2 ^ 64 then Some (VInt KU64 (Z.of_N n))
            else option_map VFloat (fparse tok)      (* beyond uint64: read as a float *)
          else as_float
    end.

  Fixpoint jenc (v : value) : bytes :=
    match v with
    | VNull => s_null
    | VBool true => s_true
    | VBool false => s_false
    | VInt _ z => dec_of_Z z
    | VFloat f => if float_is_nan_or_inf f then s_null else fprint f
    | VStr s => quote s
    | VBin b => quote (bin_string b)
    | VList l =>
        n2b c_lbrack
        :: (fix go (l : list value) : bytes :=
              match l with
              | [] => []
              | [x] => jenc x
              | x :: t => jenc x ++ n2b c_comma :: go t
              end) l
        ++ [n2b c_rbrack]
    | VDict d =>
        n2b c_lbrace
        :: (fix go (d : list (bytes * value)) : bytes :=
              match d with
              | [] => []
              | [(k, x)] => quote k ++ n2b c_colon :: jenc x
              | (k, x) :: t => quote k ++ n2b c_colon :: jenc x ++ n2b c_comma :: go t
              end) d
        ++ [n2b c_rbrace]
    end.

  Definition is_ws (b : byte) : bool :=
    let n := b2n b in (n =? 0x20) || (n =? 0x09) || (n =? 0x0a) || (n =? 0x0d).

  Fixpoint skip_ws (bs : bytes) : bytes :=
    match bs with
    | b :: r => if is_ws b then skip_ws r else bs
    | [] => []
    end.

  (** [expect p bs]: [bs] starts with [p] *)
  Fixpoint expect (p bs : bytes) : option bytes :=
    match p, bs with
    | [], _ => Some bs
    | x :: p', y :: bs' => if byte_eqb x y then expect p' bs' else None
    | _ :: _, [] => None
    end.

  Inductive jres := JOk (v : value) (rest : bytes) | JNo | JFuel.
  Inductive jlres := JLOk (l : list value) (rest : bytes) | JLNo | JLFuel.
  Inductive jmres := JMOk (d : list (bytes * value)) (rest : bytes) | JMNo | JMFuel.

  Fixpoint jdec (d : nat) (fuel : nat) (bs : bytes) {struct fuel} : jres :=
    match fuel with
    | O => JFuel
    | S f =>
        match skip_ws bs with
        | [] => JNo
        | c :: r =>
            let n := b2n c in
            if n =? 0x6e then match expect (tl s_null) r with Some r' => JOk VNull r' | None => JNo end
            else if n =? 0x74 then match expect (tl s_true) r with Some r' => JOk (VBool true) r' | None => JNo end
            else if n =? 0x66 then match expect (tl s_false) r with Some r' => JOk (VBool false) r' | None => JNo end
            else if n =? c_quote then
              match unquote_body r with Some (s, r') => JOk (VStr s) r' | None => JNo end
            else if n =? c_lbrack then
              match skip_ws r with
              | c2 :: r2 =>
                  match d with
                  | O => JNo                     (* maximum decoding depth exceeded *)
                  | S d' =>
                      if b2n c2 =? c_rbrack then JOk (VList []) r2
                      else match jdec_elems d' f (c2 :: r2) with
                           | JLOk l r' => JOk (VList l) r'
                           | JLNo => JNo | JLFuel => JFuel
                           end
                  end
              | [] => JNo
              end
            else if n =? c_lbrace then
              match skip_ws r with
              | c2 :: r2 =>
                  match d with
                  | O => JNo
                  | S d' =>
                      if b2n c2 =? c_rbrace then JOk (VDict []) r2
                      else match jdec_members d' f (c2 :: r2) with
                           | JMOk m r' => JOk (VDict m) r'
                           | JMNo => JNo | JMFuel => JFuel
                           end
                  end
              | [] => JNo
              end
            else if (n =? c_minus) || is_digit c then
              let '(tok, r') := span_num (c :: r) in
              match num_of_token tok with Some v => JOk v r' | None => JNo end
            else JNo
        end
    end
  (** one or more values separated by commas, then the closing bracket *)
  with jdec_elems (d : nat) (fuel : nat) (bs : bytes) {struct fuel} : jlres :=
    match fuel with
    | O => JLFuel
    | S f =>
        match jdec d f bs with
        | JOk v r =>
            match skip_ws r with
            | c :: r' =>
                if b2n c =? c_rbrack then JLOk [v] r'
                else if b2n c =? c_comma then
                  match jdec_elems d f r' with
                  | JLOk l r'' => JLOk (v :: l) r''
                  | e => e
                  end
                else JLNo
            | [] => JLNo
            end
        | JNo => JLNo
        | JFuel => JLFuel
        end
    end
  (** one or more "key": value members separated by commas, then [}] *)
  with jdec_members (d : nat) (fuel : nat) (bs : bytes) {struct fuel} : jmres :=
    match fuel with
    | O => JMFuel
    | S f =>
        match skip_ws bs with
        | q :: r0 =>
            if b2n q =? c_quote then
              match unquote_body r0 with
              | Some (k, r1) =>
                  match skip_ws r1 with
                  | c :: r2 =>
                      if b2n c =? c_colon then
                        match jdec d f r2 with
                        | JOk v r3 =>
                            match skip_ws r3 with
                            | c' :: r4 =>
                                if b2n c' =? c_rbrace then JMOk [(k, v)] r4
                                else if b2n c' =? c_comma then
                                  match jdec_members d f r4 with
                                  | JMOk m r5 => JMOk ((k, v) :: m) r5
                                  | e => e
                                  end
                                else JMNo
                            | [] => JMNo
                            end
                        | JNo => JMNo
                        | JFuel => JMFuel
                        end
                      else JMNo
                  | [] => JMNo
                  end
              | None => JMNo
              end
            else JMNo
        | [] => JMNo
        end
    end.

  (** the domain of the JSON round-trip theorem.  [fdom] says for which
      binary64 values the float text oracle is assumed to behave (finite, and
      not in [2^52, 1e21) where ugorji writes an integer literal). *)
  Variable fdom : N -> bool.

  Fixpoint json_dom (v : value) : bool :=
    match v with
    | VNull => true
    | VBool _ => true
    | VInt k z => int_in_range k z
    | VFloat f => float_is_nan_or_inf f || fdom f
    | VStr s => utf8_valid s
    | VBin _ => true
    | VList l => forallb json_dom l
    | VDict d =>
        keys_nodup (map fst d)
        && forallb (fun kv => utf8_valid (fst kv) && json_dom (snd kv)) d
    end.

  Definition js_fuel_for (bs : bytes) : nat := S (length bs + length bs).

  Definition js_decode_raw (bs : bytes) : jres := jdec max_nesting (js_fuel_for bs) bs.

  (** in the common result type: [JNo] is "no claim" *)
  Definition js_decode (bs : bytes) : dres :=
    match js_decode_raw bs with
    | JOk v r => if dicts_ok v then DOk v r else DUnsup
    | JNo => DUnsup
    | JFuel => DFuel
    end.

  Definition js_encode : value -> bytes := jenc.
End Json.
