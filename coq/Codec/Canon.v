(** * Codec.Canon — what a round trip through each format does to a value
    and to a message (definitions only).

    [canon_X v] is the value [decode_X (encode_X v)] yields: the only change
    is the numeric KIND (MessagePack reads an unsigned integer up to 127 back
    as int64; CBOR and JSON give uint64 to every non-negative and int64 to
    every negative integer), plus, for JSON only, a binary value coming back
    as the string "\x00"+base64 (nexus' BinaryData convention) and NaN/±Inf
    written as null.  [msg_norm] identifies a nil and an empty list/dict field
    (the "norm" of DESIGN §7 C14). *)
From Coq Require Import List NArith ZArith Bool String.
From Coq Require Import Strings.Byte.
From Nexus Require Import Codec.Bytes Codec.Values Codec.Tlv Codec.MsgPack Codec.Cbor Codec.Json
     Codec.Schema Codec.MsgList Codec.Serial.
Import ListNotations.



Definition canon_mp : value -> value := canon_by mp_canon_head.
Definition canon_cb : value -> value := canon_by cb_canon_head.

Fixpoint canon_js (v : value) : value :=
  match v with
  | VInt _ z => if (z <? 0)%Z then VInt KI64 z else VInt KU64 z
  | VFloat f => if float_is_nan_or_inf f then VNull else v
  | VBin b => VStr (bin_string b)
  | VList l => VList (map canon_js l)
  | VDict d => VDict (map (fun kv => (fst kv, canon_js (snd kv))) d)
  | _ => v
  end.

Definition canon (fm : format) : value -> value :=
  match fm with FJson => canon_js | FMsgpack => canon_mp | FCbor => canon_cb end.

Definition canon_fval (fm : format) : fval -> fval := canon_fval_by (canon fm).

Definition canon_msg (fm : format) : msg -> msg := canon_msg_by (canon fm).

Definition fval_eqb (a b : fval) : bool :=
  match a, b with
  | FId x, FId y => Z.eqb x y
  | FStr x, FStr y => bytes_eqb x y
  | FDict None, FDict None => true
  | FDict (Some x), FDict (Some y) => value_eqb (VDict x) (VDict y)
  | FList None, FList None => true
  | FList (Some x), FList (Some y) => value_eqb (VList x) (VList y)
  | FMt x, FMt y => Z.eqb x y
  | _, _ => false
  end.

Fixpoint fvals_eqb (a b : list fval) : bool :=
  match a, b with
  | [], [] => true
  | x :: a', y :: b' => fval_eqb x y && fvals_eqb a' b'
  | _, _ => false
  end.

Definition msg_eqb (a b : msg) : bool :=
  String.eqb (m_struct a) (m_struct b) && fvals_eqb (m_fields a) (m_fields b).

(** The C14 monitor: [m'] (what [Deserialize (Serialize m)] returned) is the
    message [m], up to the numeric kinds of the format and nil/empty. *)

(** field-wise numeric equivalence of two messages (cross-format agreement) *)
Definition fval_equiv (a b : fval) : bool :=
  match fval_norm a, fval_norm b with
  | FId x, FId y => Z.eqb x y
  | FStr x, FStr y => bytes_eqb x y
  | FDict (Some x), FDict (Some y) => value_equiv (VDict x) (VDict y)
  | FList (Some x), FList (Some y) => value_equiv (VList x) (VList y)
  | FMt x, FMt y => Z.eqb x y
  | _, _ => false
  end.

Fixpoint fvals_equiv (a b : list fval) : bool :=
  match a, b with
  | [], [] => true
  | x :: a', y :: b' => fval_equiv x y && fvals_equiv a' b'
  | _, _ => false
  end.

Definition msg_equiv (a b : msg) : bool :=
  String.eqb (m_struct a) (m_struct b) && fvals_equiv (m_fields a) (m_fields b).

(** The C14 monitor: [m'] (what [Deserialize (Serialize m)] returned) is the
    message [m], up to the numeric kinds of the format and nil/empty.  For the
    binary formats the kinds are predicted exactly ([canon]); for JSON a float
    may legitimately come back as the integer it is exactly equal to (a
    binary64 from 2^52 upwards is written without a fraction), so messages are
    compared up to numeric equivalence. *)
Definition roundtrip_ok (fm : format) (m m' : msg) : bool :=
  match fm with
  | FJson => msg_equiv (canon_msg fm m) m'
  | _ => msg_eqb (msg_norm (canon_msg fm m)) (msg_norm m')
  end.

Definition value_roundtrip_ok (fm : format) (v v' : value) : bool :=
  match fm with
  | FJson => value_equiv (canon fm v) v'
  | _ => value_eqb (canon fm v) v'
  end.

(** ** Comparison up to the order of dict entries (a Go map has none): used by
    the in-kernel replay of sampled cases (coq/cases/cases_c14.v), where the
    expected outcome was printed with sorted keys. *)
Fixpoint bytes_leb (a b : bytes) : bool :=
  match a, b with
  | [], _ => true
  | _ :: _, [] => false
  | x :: a', y :: b' =>
      if N.ltb (b2n x) (b2n y) then true
      else if N.ltb (b2n y) (b2n x) then false
      else bytes_leb a' b'
  end.

Fixpoint insert_kv {A} (k : bytes) (v : A) (d : list (bytes * A)) : list (bytes * A) :=
  match d with
  | [] => [(k, v)]
  | (k', v') :: t => if bytes_leb k k' then (k, v) :: d else (k', v') :: insert_kv k v t
  end.

Definition sort_kv {A} (d : list (bytes * A)) : list (bytes * A) :=
  fold_right (fun kv acc => insert_kv (fst kv) (snd kv) acc) [] d.

Fixpoint value_sort (v : value) : value :=
  match v with
  | VList l => VList (map value_sort l)
  | VDict d => VDict (sort_kv (map (fun kv => (fst kv, value_sort (snd kv))) d))
  | _ => v
  end.

Definition fval_sort (v : fval) : fval :=
  match v with
  | FDict (Some d) => match value_sort (VDict d) with VDict d' => FDict (Some d') | _ => v end
  | FList (Some l) => FList (Some (map value_sort l))
  | _ => v
  end.

Definition msg_sort (m : msg) : msg := {| m_struct := m_struct m; m_fields := map fval_sort (m_fields m) |}.

Definition errk_eqb (a b : errk) : bool :=
  match a, b with
  | EDecode, EDecode | EInvalidMessage, EInvalidMessage | EFormat, EFormat | EUnknownType, EUnknownType => true
  | EField i, EField j => Nat.eqb i j
  | _, _ => false
  end.

Definition outcome_eqb (a b : outcome) : bool :=
  match a, b with
  | OOk x, OOk y => msg_eqb (msg_sort x) (msg_sort y)
  | OErr x, OErr y => errk_eqb x y
  | OPanic, OPanic | OUnsup, OUnsup | OFuel, OFuel => true
  | _, _ => false
  end.
