(** * Codec.MsgListProofs — [msg_to_list] / [list_to_msg]: round trip for every
    message of every struct of a schema satisfying [schema_ok]; the omit rule;
    totality ("never panics; a message only for a list with a known code and
    compatible items") for the guarded conversion; its refutation for Go's
    reflect conversion table. *)
From Coq Require Import List NArith ZArith Bool String Lia.
From Coq Require Import Strings.Byte.
From Coq Require Import ZifyN ZifyNat ZifyBool.
From Nexus Require Import Codec.Bytes Codec.BytesProofs Codec.Values Codec.Utf8 Codec.Schema Codec.MsgList.
Import ListNotations.

(** ** Never a panic *)

Lemma assign_field_no_panic (cv : conv_rule) (k : fkind) (v : value) :
  k <> FKOther -> v <> VNull -> assign_field cv k v <> APanic.
Proof.
  intros Hk Hv.
  destruct k; try congruence;
    destruct v as [| b | [|] z | f | s | s | l | d]; try congruence;
    destruct cv; cbn; try discriminate;
    repeat match goal with
           | |- context [float_exact_Z ?f] => destruct (float_exact_Z f)
           | |- context [if ?c then _ else _] => destruct c
           end; discriminate.
Qed.

Lemma fill_no_panic (cv : conv_rule) (fs : list field) :
  forallb field_ok fs = true ->
  forall i ds its, fill cv i fs ds its <> FillPanic.
Proof.
  induction fs as [|f fs IH]; intros Hok i ds its.
  - destruct ds, its; discriminate.
  - cbn [forallb] in Hok. apply andb_true_iff in Hok. destruct Hok as [Hf Hfs].
    destruct ds as [|d ds]; [destruct its; discriminate|].
    destruct its as [|it its]; [discriminate|].
    cbn [fill].
    assert (Hk : f_kind f <> FKOther).
    { unfold field_ok in Hf. apply andb_true_iff in Hf. destruct Hf as [Hf _].
      destruct (f_kind f); cbn in Hf; congruence. }
    destruct it as [| b | k z | x | s | s | l | m];
      try (match goal with
           | |- context [assign_field cv (f_kind f) ?v] =>
               pose proof (assign_field_no_panic cv (f_kind f) v Hk ltac:(discriminate)) as Hnp;
               destruct (assign_field cv (f_kind f) v); try congruence; try discriminate
           end);
      try (specialize (IH Hfs (S i) ds its); destruct (fill cv (S i) fs ds its); congruence).
Qed.

Lemma find_struct_name (n : string) (l : list sdesc) (s : sdesc) :
  find_struct n l = Some s -> s_name s = n.
Proof.
  induction l as [|x l IH]; cbn [find_struct]; [discriminate|].
  destruct (String.eqb n (s_name x)) eqn:E; [|exact IH].
  intros H. injection H as <-. apply String.eqb_eq in E. symmetry. exact E.
Qed.

Lemma find_struct_in (n : string) (l : list sdesc) (s : sdesc) :
  find_struct n l = Some s -> In s l.
Proof.
  induction l as [|x l IH]; cbn [find_struct]; [discriminate|].
  destruct (String.eqb n (s_name x)); [intros H; injection H as <-; left; reflexivity | intros H; right; auto].
Qed.

Lemma find_new_in (c : Z) (l : list newcase) (n : newcase) :
  find_new c l = Some n -> In n l /\ n_code n = c.
Proof.
  induction l as [|x l IH]; cbn [find_new]; [discriminate|].
  destruct (Z.eqb c (n_code x)) eqn:E.
  - intros H. injection H as <-. apply Z.eqb_eq in E. split; [left; reflexivity | congruence].
  - intros H. apply IH in H. destruct H; split; [right|]; assumption.
Qed.

Lemma schema_struct_ok (sc : schema) (s : sdesc) :
  schema_ok sc = true -> In s (sc_structs sc) -> struct_ok sc s = true.
Proof.
  unfold schema_ok. intros H Hin. repeat (apply andb_true_iff in H; destruct H as [H ?]).
  rewrite forallb_forall in H. apply H. exact Hin.
Qed.

Lemma struct_fields_ok (sc : schema) (s : sdesc) : struct_ok sc s = true -> forallb field_ok (s_fields s) = true.
Proof. unfold struct_ok. intros H. repeat (apply andb_true_iff in H; destruct H as [H ?]). exact H. Qed.

Theorem list_to_msg_no_panic (cv : conv_rule) (sc : schema) (code : Z) (vlist : list value) :
  schema_ok sc = true -> list_to_msg cv sc code vlist <> OPanic.
Proof.
  intros Hok. unfold list_to_msg.
  destruct (find_new code (sc_new sc)) as [n|] eqn:En; [|discriminate].
  destruct (find_new_in _ _ _ En) as [Hin Hc].
  assert (Hn : new_ok sc n = true).
  { unfold schema_ok in Hok. repeat (apply andb_true_iff in Hok; destruct Hok as [Hok ?]).
    match goal with H : forallb (new_ok sc) _ = true |- _ => rewrite forallb_forall in H; apply H; exact Hin end. }
  unfold new_ok in Hn.
  destruct (find_struct (n_struct n) (sc_structs sc)) as [s|] eqn:Es; [|discriminate].
  pose proof (struct_fields_ok sc s (schema_struct_ok sc s Hok (find_struct_in _ _ _ Es))) as Hf.
  pose proof (fill_no_panic cv (s_fields s) Hf 1%nat (map (default_of code (n_prefill n)) (s_fields s)) (tl vlist)) as Hp.
  destruct (fill cv 1 (s_fields s) _ (tl vlist)); congruence || discriminate.
Qed.

Theorem from_list_no_panic (cv : conv_rule) (cr : code_rule) (sc : schema) (vlist : list value) :
  schema_ok sc = true -> from_list cv cr sc vlist <> OPanic.
Proof.
  intros Hok. unfold from_list. destruct vlist as [|c rest]; [discriminate|].
  destruct (code_of cr c); [apply list_to_msg_no_panic; exact Hok | discriminate].
Qed.

(** with the guarded conversion the outcome is a message or an error, nothing else *)
Lemma assign_field_exact_no_unspec (k : fkind) (v : value) : assign_field CVExact k v <> AUnspec.
Proof.
  destruct k; destruct v as [| b | [|] z | f | s | s | l | d]; cbn; try discriminate;
    repeat match goal with
           | |- context [float_exact_Z ?f] => destruct (float_exact_Z f)
           | |- context [if ?c then _ else _] => destruct c eqn:?
           end; try discriminate; cbn in *; try lia; try congruence.
Qed.

(** ** A message only for compatible items (guarded conversion) *)

Lemma assign_field_exact_compatible (k : fkind) (v : value) (fv : fval) :
  assign_field CVExact k v = AOk fv -> compatible k v = true.
Proof.
  destruct k; destruct v as [| b | [|] z | f | s | s | l | d]; cbn; try discriminate; try reflexivity.
  all: repeat match goal with
           | |- context [float_exact_Z ?f] => destruct (float_exact_Z f)
           | |- context [if ?c then _ else _] => destruct c eqn:?
           end; try discriminate; try reflexivity.
  all: cbn in *; intros; try lia; try congruence.
Qed.

Lemma fill_exact_compatible (fs : list field) :
  forall i ds its out, List.length ds = List.length fs ->
                       fill CVExact i fs ds its = FillOk out -> fields_compatible_l fs its = true.
Proof.
  induction fs as [|f fs IH]; intros i ds its out Hl H; [reflexivity|].
  destruct its as [|it its]; [reflexivity|].
  destruct ds as [|d ds]; [discriminate|].
  cbn [List.length] in Hl. injection Hl as Hl.
  cbn [fill] in H. cbn [fields_compatible_l].
  remember (match it with VNull => AOk d | _ => assign_field CVExact (f_kind f) it end) as a eqn:A.
  destruct a as [v| | |]; try discriminate.
  destruct (fill CVExact (S i) fs ds its) as [out'| | |] eqn:F; try discriminate.
  rewrite (IH _ _ _ _ Hl F), andb_true_r.
  destruct it; try reflexivity; symmetry in A; apply assign_field_exact_compatible in A; exact A.
Qed.

Theorem from_list_exact_ok (cr : code_rule) (sc : schema) (vlist : list value) (m : msg) :
  from_list CVExact cr sc vlist = OOk m ->
  is_list_with_known_code cr sc vlist /\ fields_compatible cr sc vlist.
Proof.
  unfold from_list. destruct vlist as [|c rest]; [discriminate|].
  destruct (code_of cr c) as [code|] eqn:Ec; [|discriminate].
  unfold list_to_msg.
  destruct (find_new code (sc_new sc)) as [n|] eqn:En; [|discriminate].
  destruct (find_struct (n_struct n) (sc_structs sc)) as [s|] eqn:Es; [|discriminate].
  cbn [tl].
  destruct (fill CVExact 1 (s_fields s) (map (default_of code (n_prefill n)) (s_fields s)) rest) as [l| | |] eqn:F;
    try discriminate.
  intros _. split.
  - exists c, rest, code, n. auto.
  - intros c' rest' code' n' s' E Ec' En' Es'. injection E as <- <-.
    rewrite Ec in Ec'. injection Ec' as <-. rewrite En in En'. injection En' as <-.
    rewrite Es in Es'. injection Es' as <-.
    eapply fill_exact_compatible; [|exact F]. apply map_length.
Qed.

(** with the guarded conversion, [from_list] yields a message or an error *)
Lemma fill_exact_no_unspec (fs : list field) :
  forall i ds its, fill CVExact i fs ds its <> FillUnspec.
Proof.
  induction fs as [|f fs IH]; intros i ds its; [destruct ds, its; discriminate|].
  destruct ds as [|d ds]; [destruct its; discriminate|]. destruct its as [|it its]; [discriminate|].
  cbn [fill].
  remember (match it with VNull => AOk d | _ => assign_field CVExact (f_kind f) it end) as a eqn:A.
  destruct a as [v| | |]; try discriminate.
  - specialize (IH (S i) ds its). destruct (fill CVExact (S i) fs ds its); congruence.
  - exfalso. destruct it; try discriminate; symmetry in A; eapply assign_field_exact_no_unspec; exact A.
Qed.

Theorem from_list_exact_outcomes (cr : code_rule) (sc : schema) (vlist : list value) :
  schema_ok sc = true ->
  (exists m, from_list CVExact cr sc vlist = OOk m) \/ (exists e, from_list CVExact cr sc vlist = OErr e).
Proof.
  intros Hok. pose proof (from_list_no_panic CVExact cr sc vlist Hok) as Hp.
  unfold from_list in *. destruct vlist as [|c rest]; [right; eexists; reflexivity|].
  destruct (code_of cr c) as [code|]; [|right; eexists; reflexivity].
  unfold list_to_msg in *.
  destruct (find_new code (sc_new sc)) as [n|]; [|right; eexists; reflexivity].
  destruct (find_struct (n_struct n) (sc_structs sc)) as [s|]; [|congruence].
  pose proof (fill_exact_no_unspec (s_fields s) 1%nat (map (default_of code (n_prefill n)) (s_fields s)) (tl (c :: rest))) as Hu.
  destruct (fill CVExact 1 (s_fields s) _ (tl (c :: rest))); try congruence;
    [left | right]; eexists; reflexivity.
Qed.

(** ** msgToList: the omit rule *)

Definition drop_true (p : field * fval) : Prop := droppable (fst p) (snd p) = Some true.

Lemma trim_rev_spec (r kept : list (field * fval)) :
  trim_rev r = Some kept ->
  exists dropped,
    r = dropped ++ kept
    /\ Forall drop_true dropped
    /\ (match kept with
        | [] => r = []
        | [_] => True
        | p :: _ :: _ => droppable (fst p) (snd p) = Some false
        end).
Proof.
  revert kept. induction r as [|[f v] rest IH]; intros kept H.
  - cbn [trim_rev] in H. injection H as <-. exists []. auto.
  - cbn [trim_rev] in H. destruct rest as [|q rest'].
    + injection H as <-. exists []. auto.
    + destruct (droppable f v) as [[|]|] eqn:D; [| |discriminate].
      * apply IH in H. destruct H as [dropped [E [Hd Hk]]].
        exists ((f, v) :: dropped). split; [cbn [app]; rewrite E; reflexivity|].
        split; [constructor; [exact D | exact Hd]|].
        destruct kept as [|p [|p' kept']]; auto.
        (* kept = [] would mean q :: rest' = [] *)
        discriminate.
      * injection H as <-. exists []. split; [reflexivity|]. split; [constructor|]. exact D.
Qed.

(** The list is the code followed by the first [k] fields, in order and in
    position; everything after them is omitempty-and-empty; the last kept field
    is not, unless only field 0 is left. *)
Theorem omit_rule_generic (sc : schema) (m : msg) (l : list value) :
  msg_to_list sc m = M2LOk l ->
  exists s k,
    find_struct (m_struct m) (sc_structs sc) = Some s
    /\ l = VInt KI64 (s_code s) :: map fval_to_value (firstn k (m_fields m))
    /\ (k <= List.length (m_fields m))%nat
    /\ Forall drop_true (skipn k (combine (s_fields s) (m_fields m)))
    /\ (k <= 1 \/ exists p, nth_error (combine (s_fields s) (m_fields m)) (k - 1) = Some p
                            /\ droppable (fst p) (snd p) = Some false)%nat
    /\ (m_fields m <> [] -> 1 <= k)%nat.
Proof.
  unfold msg_to_list. destruct (find_struct (m_struct m) (sc_structs sc)) as [s|] eqn:Es; [|discriminate].
  destruct (msg_well_typed s m) eqn:Wt; cbn [negb]; [|discriminate].
  destruct (trim_rev (rev (combine (s_fields s) (m_fields m)))) as [kept|] eqn:T; [|discriminate].
  intros H. injection H as <-.
  apply trim_rev_spec in T. destruct T as [dropped [E [Hd Hk]]].
  unfold msg_well_typed in Wt. apply andb_true_iff in Wt. destruct Wt as [Hlen _]. apply Nat.eqb_eq in Hlen.
  exists s, (List.length kept). split; [reflexivity|].
  set (ps := combine (s_fields s) (m_fields m)) in *.
  assert (Eps : ps = rev kept ++ rev dropped).
  { rewrite <- (rev_involutive ps), E, rev_app_distr. reflexivity. }
  assert (Lps : List.length ps = List.length (m_fields m)).
  { unfold ps. rewrite combine_length. lia. }
  assert (Fk : firstn (List.length kept) ps = rev kept).
  { rewrite Eps, <- (rev_length kept), firstn_app, Nat.sub_diag, firstn_all. cbn [firstn]. apply app_nil_r. }
  assert (Sk : skipn (List.length kept) ps = rev dropped).
  { rewrite Eps, <- (rev_length kept), skipn_app, Nat.sub_diag, skipn_all. reflexivity. }
  assert (Lk : (List.length kept <= List.length (m_fields m))%nat).
  { rewrite <- Lps, Eps, app_length, rev_length. lia. }
  split.
  - f_equal.
    assert (Es2 : map snd (firstn (List.length kept) ps) = firstn (List.length kept) (m_fields m)).
    { rewrite <- firstn_map. unfold ps. f_equal.
      clear - Hlen. revert Hlen. generalize (m_fields m) as vs. generalize (s_fields s) as fs.
      induction fs as [|f fs IH]; intros [|v vs] H; cbn in *; try reflexivity; try discriminate.
      f_equal. apply IH. lia. }
    rewrite <- Es2, Fk. rewrite map_map. reflexivity.
  - split; [exact Lk|]. split.
    + rewrite Sk. apply Forall_rev. exact Hd.
    + split.
      * destruct kept as [|p [|p' kept']]; [left; cbn; lia | left; cbn; lia |].
        right. exists p. split; [|exact Hk].
        rewrite Eps.
        assert (Hl : List.length (rev (p :: p' :: kept')) = S (S (List.length kept'))) by (rewrite rev_length; reflexivity).
        rewrite nth_error_app1 by (rewrite Hl; cbn [List.length]; lia).
        cbn [List.length]. replace (S (S (List.length kept')) - 1)%nat with (List.length (rev (p' :: kept')))
          by (rewrite rev_length; cbn [List.length]; lia).
        change (rev (p :: p' :: kept')) with (rev (p' :: kept') ++ [p]).
        rewrite nth_error_app2 by lia. rewrite Nat.sub_diag. reflexivity.
      * intros Hne. destruct kept as [|p kept']; [|cbn; lia].
        exfalso. rewrite Hk in *. (* rev ps = [] *)
        assert (ps = []) by (rewrite <- (rev_involutive ps), Hk; reflexivity).
        rewrite H in Lps. cbn in Lps. destruct (m_fields m); [congruence | discriminate].
Qed.

(** any field that is not omitempty-and-empty is kept, and so is every field
    before it — "a keyword-arguments dict without positional arguments keeps
    its position" *)
Corollary kept_in_position (sc : schema) (m : msg) (l : list value) (s : sdesc) (j : nat) (p : field * fval) :
  msg_to_list sc m = M2LOk l ->
  find_struct (m_struct m) (sc_structs sc) = Some s ->
  nth_error (combine (s_fields s) (m_fields m)) j = Some p ->
  droppable (fst p) (snd p) = Some false ->
  forall i v, (i <= j)%nat -> nth_error (m_fields m) i = Some v -> nth_error l (S i) = Some (fval_to_value v).
Proof.
  intros H Es Hj Hd i v Hij Hv.
  apply omit_rule_generic in H. destruct H as [s' [k [Es' [El [Hk [Hdrop _]]]]]].
  rewrite Es in Es'. injection Es' as <-.
  assert (Hjk : (j < k)%nat).
  { destruct (Nat.lt_ge_cases j k) as [L|G]; [exact L|exfalso].
    rewrite Forall_forall in Hdrop.
    assert (In p (skipn k (combine (s_fields s) (m_fields m)))).
    { rewrite <- (firstn_skipn k (combine (s_fields s) (m_fields m))) in Hj.
      assert (Lf : (List.length (firstn k (combine (s_fields s) (m_fields m))) <= k)%nat) by apply firstn_le_length.
      rewrite nth_error_app2 in Hj by lia. eapply nth_error_In. exact Hj. }
    specialize (Hdrop p H). unfold drop_true in Hdrop. congruence. }
  rewrite El. cbn [nth_error]. rewrite nth_error_map.
  assert (E : nth_error (firstn k (m_fields m)) i = Some v).
  { rewrite <- (firstn_skipn k (m_fields m)) in Hv.
    rewrite nth_error_app1 in Hv; [exact Hv|]. rewrite firstn_length. lia. }
  rewrite E. reflexivity.
Qed.

(** ** Round trip: msg -> list -> (format's numeric kinds) -> msg *)

Lemma wrap_u64_id z : (0 <= z < 18446744073709551616)%Z -> wrap_u64 z = z.
Proof. intros H. unfold wrap_u64. change (2 ^ 64)%Z with 18446744073709551616%Z. apply Z.mod_small. lia. Qed.

Lemma wrap_i64_id z : (-9223372036854775808 <= z < 9223372036854775808)%Z -> wrap_i64 z = z.
Proof.
  intros H. unfold wrap_i64.
  change (Z.to_N (z mod 2 ^ 64)) with (uint_of_Z 64 z). apply sint_uint_64. exact H.
Qed.

Lemma in_range_u64 z : int_in_range KU64 z = true <-> (0 <= z < 18446744073709551616)%Z.
Proof. unfold int_in_range. change (2 ^ 64)%Z with 18446744073709551616%Z. lia. Qed.

Lemma in_range_i64 z : int_in_range KI64 z = true <-> (-9223372036854775808 <= z < 9223372036854775808)%Z.
Proof. unfold int_in_range. change (2 ^ 63)%Z with 9223372036854775808%Z. lia. Qed.

Definition nil_container (v : fval) : bool :=
  match v with FDict None | FList None => true | _ => false end.

(** what a default may be, by field kind *)
Definition dflt_ok (k : fkind) (d : fval) : Prop :=
  match k with
  | FKDict => d = FDict None \/ d = FDict (Some [])
  | FKList => d = FList None \/ d = FList (Some [])
  | FKUri | FKStr => d = FStr []
  | _ => True
  end.

Section RoundTrip.
  Variable c : value -> value.
  Variable cr : code_rule.
  Hypothesis c_null : c VNull = VNull.
  Hypothesis c_str : forall s, c (VStr s) = VStr s.
  Hypothesis c_int : forall k z, int_in_range k z = true ->
                                 exists k', c (VInt k z) = VInt k' z /\ int_in_range k' z = true.
  Hypothesis c_list : forall l, c (VList l) = VList (map c l).
  Hypothesis c_dict : forall d, c (VDict d) = VDict (map (fun kv => (fst kv, c (snd kv))) d).
  Hypothesis c_code : forall code, (0 <= code < 9223372036854775808)%Z -> code_of cr (c (VInt KI64 code)) = Some code.

  Lemma assign_rt (k : fkind) (v : fval) :
    wf_fval k v = true -> nil_container v = false ->
    c (fval_to_value v) <> VNull
    /\ assign_field CVExact k (c (fval_to_value v)) = AOk (canon_fval_by c v).
  Proof.
    intros Hwf Hnil. unfold wf_fval in Hwf. apply andb_true_iff in Hwf. destruct Hwf as [Hk Hr].
    destruct v as [n | s | [d|] | [l|] | z]; destruct k; cbn [fval_kind_ok] in Hk; try discriminate;
      cbn [nil_container] in Hnil; try discriminate; cbn [fval_to_value canon_fval_by].
    - (* id *)
      destruct (c_int KU64 n Hr) as [k' [E Hr']]. rewrite E. split; [discriminate|].
      apply in_range_u64 in Hr.
      destruct k'; cbn.
      + assert (H0 : (0 <=? n)%Z = true) by lia. rewrite H0. cbn. rewrite wrap_u64_id by lia. reflexivity.
      + rewrite wrap_u64_id by lia. reflexivity.
    - rewrite c_str. split; [discriminate | reflexivity].
    - rewrite c_str. split; [discriminate | reflexivity].
    - rewrite c_dict. split; [discriminate | reflexivity].
    - rewrite c_list. split; [discriminate | reflexivity].
    - (* message type *)
      destruct (c_int KI64 z Hr) as [k' [E Hr']]. rewrite E. split; [discriminate|].
      apply in_range_i64 in Hr.
      destruct k'; cbn.
      + rewrite wrap_i64_id by lia. reflexivity.
      + apply in_range_u64 in Hr'.
        assert (H0 : (z <? 9223372036854775808)%Z = true) by lia.
        change (2 ^ 63)%Z with 9223372036854775808%Z.
        rewrite H0. cbn. rewrite wrap_i64_id by lia. reflexivity.
  Qed.

  Lemma fval_norm_nil_default (k : fkind) (v d : fval) :
    fval_kind_ok k v = true -> nil_container v = true -> dflt_ok k d ->
    fval_norm d = fval_norm (canon_fval_by c v).
  Proof.
    intros Hk Hn Hd.
    destruct v as [n | s | [m|] | [l|] | z]; cbn [nil_container] in Hn; try discriminate;
      destruct k; cbn [fval_kind_ok] in Hk; try discriminate; cbn [dflt_ok] in Hd;
      destruct Hd as [-> | ->]; reflexivity.
  Qed.

  Lemma fval_norm_dropped_default (f : field) (v d : fval) :
    fval_kind_ok (f_kind f) v = true -> droppable f v = Some true -> dflt_ok (f_kind f) d ->
    fval_norm d = fval_norm (canon_fval_by c v).
  Proof.
    intros Hk Hdrop Hd. unfold droppable in Hdrop.
    destruct (f_omit f); [|discriminate].
    destruct v as [n | s | [m|] | [l|] | z]; cbn [fval_len] in Hdrop; try discriminate;
      destruct (f_kind f); cbn [fval_kind_ok] in Hk; try discriminate; cbn [dflt_ok] in Hd.
    all: try (destruct Hd as [-> | ->]).
    all: try subst d.
    all: try reflexivity.
    all: injection Hdrop as Hdrop; apply N.eqb_eq in Hdrop.
    all: try (destruct s; [reflexivity | rewrite len_cons in Hdrop; lia]).
    all: try (destruct m; [reflexivity | rewrite len_cons in Hdrop; lia]).
    all: try (destruct l; [reflexivity | rewrite len_cons in Hdrop; lia]).
  Qed.

  (** the loop of [listToMsg] over the kept prefix of the fields *)
  Lemma fill_rt (dflt : field -> fval) :
    forall (fs : list field) (vs : list fval) (k i : nat),
      List.length fs = List.length vs ->
      Forall (fun p => wf_fval (f_kind (fst p)) (snd p) = true) (combine fs vs) ->
      Forall (fun f => dflt_ok (f_kind f) (dflt f)) fs ->
      Forall drop_true (skipn k (combine fs vs)) ->
      exists out,
        fill CVExact i fs (map dflt fs) (map c (map fval_to_value (firstn k vs))) = FillOk out
        /\ map fval_norm out = map fval_norm (map (canon_fval_by c) vs).
  Proof.
    induction fs as [|f fs IH]; intros vs k i Hlen Hwf Hd Hdrop.
    - destruct vs; [|discriminate]. exists []. split; [|reflexivity].
      destruct (map c (map fval_to_value (firstn k []))); reflexivity.
    - destruct vs as [|v vs]; [discriminate|]. cbn [List.length] in Hlen. injection Hlen as Hlen.
      cbn [combine] in Hwf, Hdrop. inversion Hwf as [|? ? Hv Hwf']; subst.
      inversion Hd as [|? ? Hdf Hd']; subst. cbn [fst snd] in Hv.
      assert (Hkind : fval_kind_ok (f_kind f) v = true)
        by (unfold wf_fval in Hv; apply andb_true_iff in Hv; tauto).
      destruct k as [|k].
      + (* nothing kept from here on: all defaults *)
        cbn [firstn map]. cbn [skipn] in Hdrop. inversion Hdrop as [|? ? Hdv Hdrop']; subst.
        destruct (IH vs 0%nat (S i) Hlen Hwf' Hd') as [out [Hf Hn]].
        { cbn [skipn]. exact Hdrop'. }
        cbn [firstn map] in Hf.
        exists (map dflt (f :: fs)). split.
        * cbn [map fill]. reflexivity.
        * cbn [map]. f_equal.
          -- eapply fval_norm_dropped_default; eauto.
          -- (* the tail: fill with no items returns the defaults *)
             assert (E : out = map dflt fs).
             { destruct fs as [|f' fs']; cbn [map fill] in Hf; injection Hf as <-; reflexivity. }
             rewrite <- E. exact Hn.
      + cbn [firstn map skipn] in *.
        destruct (IH vs k (S i) Hlen Hwf' Hd' Hdrop) as [out [Hf Hn]].
        destruct (nil_container v) eqn:Hnil.
        * (* nil list / dict: encoded as nil, skipped by listToMsg, default stays *)
          assert (Ev : c (fval_to_value v) = VNull).
          { destruct v as [n | s | [m|] | [l|] | z]; cbn [nil_container] in Hnil; try discriminate; cbn; exact c_null. }
          exists (dflt f :: out). split.
          -- cbn [fill]. rewrite Ev. rewrite Hf. reflexivity.
          -- cbn [map]. f_equal; [|exact Hn]. eapply fval_norm_nil_default; eauto.
        * destruct (assign_rt (f_kind f) v Hv Hnil) as [Hnn Ha].
          exists (canon_fval_by c v :: out). split.
          -- cbn [fill].
             destruct (c (fval_to_value v)) eqn:Ec; try congruence; rewrite Ha, Hf; reflexivity.
          -- cbn [map]. f_equal. exact Hn.
  Qed.

  Lemma droppable_some (f : field) (v : fval) :
    field_ok f = true -> fval_kind_ok (f_kind f) v = true -> droppable f v <> None.
  Proof.
    unfold field_ok, droppable. intros Hf Hk.
    destruct (f_omit f); [|discriminate].
    apply andb_true_iff in Hf. destruct Hf as [_ Hf]. cbn [negb orb] in Hf.
    destruct v as [n | s | [m|] | [l|] | z]; cbn [fval_len]; try discriminate;
      destruct (f_kind f); cbn in Hk, Hf; discriminate.
  Qed.

  Lemma trim_rev_total (r : list (field * fval)) :
    Forall (fun p => droppable (fst p) (snd p) <> None) r -> exists kept, trim_rev r = Some kept.
  Proof.
    induction 1 as [|[f v] rest Hp _ IH]; [exists []; reflexivity|].
    cbn [trim_rev]. destruct rest as [|q rest']; [eexists; reflexivity|].
    cbn [fst snd] in Hp. destruct (droppable f v) as [[|]|]; [exact IH | eexists; reflexivity | congruence].
  Qed.

  Lemma names_unique (fs : list field) (f f' : field) :
    names_nodup (map f_name fs) = true -> In f fs -> In f' fs -> f_name f = f_name f' -> f = f'.
  Proof.
    induction fs as [|x fs IH]; intros Hnd Hf Hf' E; [destruct Hf|].
    cbn [map names_nodup] in Hnd. apply andb_true_iff in Hnd. destruct Hnd as [Hx Hnd].
    apply negb_true_iff in Hx.
    assert (Hno : forall g, In g fs -> f_name g <> f_name x).
    { intros g Hg Eg.
      assert (existsb (String.eqb (f_name x)) (map f_name fs) = true).
      { apply existsb_exists. exists (f_name g). split; [apply in_map; exact Hg | apply String.eqb_eq; auto]. }
      congruence. }
    destruct Hf as [<-|Hf]; destruct Hf' as [<-|Hf']; auto.
    - exfalso. apply (Hno f' Hf'). auto.
    - exfalso. apply (Hno f Hf). auto.
  Qed.

  Lemma find_prefill_in (n : string) (pre : list (string * pfv)) (pv : pfv) :
    find_prefill n pre = Some pv -> In (n, pv) pre.
  Proof.
    induction pre as [|[k x] pre IH]; cbn [find_prefill]; [discriminate|].
    destruct (String.eqb n k) eqn:E.
    - intros H. injection H as <-. apply String.eqb_eq in E. subst. left. reflexivity.
    - intros H. right. auto.
  Qed.

  Lemma default_of_ok (code : Z) (pre : list (string * pfv)) (fs : list field) :
    names_nodup (map f_name fs) = true -> forallb (prefill_ok fs) pre = true ->
    Forall (fun f => dflt_ok (f_kind f) (default_of code pre f)) fs.
  Proof.
    intros Hnd Hpre. apply Forall_forall. intros f Hf. unfold default_of.
    destruct (find_prefill (f_name f) pre) as [pv|] eqn:E.
    - apply find_prefill_in in E. rewrite forallb_forall in Hpre. specialize (Hpre _ E).
      unfold prefill_ok in Hpre. apply existsb_exists in Hpre. destruct Hpre as [f' [Hf' Hp]].
      cbn [fst snd] in Hp. apply andb_true_iff in Hp. destruct Hp as [En Hk]. apply String.eqb_eq in En.
      assert (f' = f) by (eapply names_unique; eauto). subst f'.
      destruct pv; destruct (f_kind f); cbn in Hk; try discriminate; cbn; auto.
    - destruct (f_kind f); cbn; auto.
  Qed.

  Theorem msglist_roundtrip_generic (sc : schema) (m : msg) :
    schema_ok sc = true -> wf_msg sc m = true ->
    exists l m',
      msg_to_list sc m = M2LOk l
      /\ from_list CVExact cr sc (map c l) = OOk m'
      /\ msg_norm m' = msg_norm (canon_msg_by c m).
  Proof.
    intros Hok Hwf. unfold wf_msg in Hwf.
    destruct (find_struct (m_struct m) (sc_structs sc)) as [s|] eqn:Es; [|discriminate].
    apply andb_true_iff in Hwf. destruct Hwf as [Hlen Hall]. apply Nat.eqb_eq in Hlen.
    pose proof (find_struct_name _ _ _ Es) as Hname.
    pose proof (schema_struct_ok sc s Hok (find_struct_in _ _ _ Es)) as Hs.
    pose proof (struct_fields_ok sc s Hs) as Hfok.
    assert (Hall' : Forall (fun p => wf_fval (f_kind (fst p)) (snd p) = true) (combine (s_fields s) (m_fields m))).
    { apply Forall_forall. rewrite forallb_forall in Hall. exact Hall. }
    assert (Hkinds : Forall (fun p => fval_kind_ok (f_kind (fst p)) (snd p) = true) (combine (s_fields s) (m_fields m))).
    { eapply Forall_impl; [|exact Hall']. intros p Hp. unfold wf_fval in Hp. apply andb_true_iff in Hp. tauto. }
    (* msg_to_list succeeds *)
    assert (Hwt : msg_well_typed s m = true).
    { unfold msg_well_typed. rewrite Hlen, Nat.eqb_refl. cbn [andb].
      apply forallb_forall. rewrite Forall_forall in Hkinds. exact Hkinds. }
    assert (Hdr : Forall (fun p => droppable (fst p) (snd p) <> None) (rev (combine (s_fields s) (m_fields m)))).
    { apply Forall_rev. apply Forall_forall. intros [f v] Hin. cbn [fst snd].
      apply droppable_some.
      - rewrite forallb_forall in Hfok. apply Hfok. apply in_combine_l in Hin. exact Hin.
      - rewrite Forall_forall in Hkinds. apply (Hkinds (f, v) Hin). }
    destruct (trim_rev_total _ Hdr) as [kept Hkept].
    assert (Hm2l : exists l, msg_to_list sc m = M2LOk l).
    { unfold msg_to_list. rewrite Es, Hwt. cbn [negb]. rewrite Hkept. eexists; reflexivity. }
    destruct Hm2l as [l Hl]. exists l.
    destruct (omit_rule_generic sc m l Hl) as [s' [k [Es' [El [Hk [Hdrop _]]]]]].
    rewrite Es in Es'. injection Es' as <-.
    (* the NewMessage case of this struct *)
    unfold struct_ok in Hs. repeat (apply andb_true_iff in Hs; destruct Hs as [Hs ?]).
    match goal with H : (_ && _)%bool = true |- _ => apply andb_true_iff in H; destruct H as [Hc0 Hc1] end.
    destruct (find_new (s_code s) (sc_new sc)) as [n|] eqn:En; [|discriminate].
    match goal with H : (String.eqb _ _ && _)%bool = true |- _ => apply andb_true_iff in H; destruct H as [Hns Hpre] end.
    apply String.eqb_eq in Hns.
    assert (Hnd : names_nodup (map f_name (s_fields s)) = true) by assumption.
    destruct (fill_rt (default_of (s_code s) (n_prefill n)) (s_fields s) (m_fields m) k 1%nat Hlen Hall'
                (default_of_ok _ _ _ Hnd Hpre) Hdrop) as [out [Hfill Hnorm]].
    exists {| m_struct := s_name s; m_fields := out |}.
    split; [exact Hl|]. split.
    - rewrite El. cbn [map]. unfold from_list.
      rewrite c_code by lia.
      unfold list_to_msg. rewrite En, Hns. rewrite Hname at 1. rewrite Es. cbn [tl]. rewrite Hfill. reflexivity.
    - unfold msg_norm, canon_msg_by. cbn [m_struct m_fields]. rewrite Hnorm, Hname. reflexivity.
  Qed.
End RoundTrip.
