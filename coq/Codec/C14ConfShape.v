(** * Codec.C14ConfShape — per-run conformance of the recognised SHAPE of
    msgToList / listToMsg / the three Deserialize methods /
    BinaryData.MarshalJSON (as the translator read them from /repo today) with
    the shape the C14 theorems are about.  On a tree that still has the
    reflect conversion table in listToMsg ([sh_conv = CVReflect]) or decodes
    straight into a []any ([sh_top_* = TRIntoSlice]) this lemma does not
    compile: the check then shows the concrete failing inputs
    (Props/C14.v: [list_to_msg_compat_refuted], [deserialize_map_refuted]). *)
From Nexus Require Import Codec.Schema Codec.SerialProofs gen.GenC14Schema.

Lemma gen_shape_intended : gen_shape = intended_shape.
Proof. reflexivity. Qed.
