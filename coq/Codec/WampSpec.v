(** * Codec.WampSpec — the wire layout of the 24 WAMP messages nexus
    implements, as the WAMP specification (and the comments of wamp/message.go)
    give it: message code, Go struct, and for each list position after the
    code the field (name, type, whether a trailing empty value is omitted).
    Hand-written; [C14Conf.gen_schema_is_wamp] compares the schema the
    translator reads from /repo on every run with this table, so that a struct
    whose fields are reordered, retyped or re-tagged — which changes what goes
    over the wire to OTHER implementations even though nexus still round-trips
    with itself — is noticed.  (Definitions only.) *)
From Coq Require Import List ZArith Bool String.
From Nexus Require Import Codec.Schema.
Import ListNotations.
Open Scope string_scope.

Definition wamp_spec : list (Z * string * list (string * fkind * bool)) := [
  (1%Z, "Hello", [("Realm", FKUri, false); ("Details", FKDict, false)]);
  (2%Z, "Welcome", [("ID", FKId, false); ("Details", FKDict, false)]);
  (3%Z, "Abort", [("Details", FKDict, false); ("Reason", FKUri, false)]);
  (4%Z, "Challenge", [("AuthMethod", FKStr, false); ("Extra", FKDict, false)]);
  (5%Z, "Authenticate", [("Signature", FKStr, false); ("Extra", FKDict, false)]);
  (6%Z, "Goodbye", [("Details", FKDict, false); ("Reason", FKUri, false)]);
  (8%Z, "Error", [("Type", FKMsgType, false); ("Request", FKId, false); ("Details", FKDict, false); ("Error", FKUri, false); ("Arguments", FKList, true); ("ArgumentsKw", FKDict, true)]);
  (16%Z, "Publish", [("Request", FKId, false); ("Options", FKDict, false); ("Topic", FKUri, false); ("Arguments", FKList, true); ("ArgumentsKw", FKDict, true)]);
  (17%Z, "Published", [("Request", FKId, false); ("Publication", FKId, false)]);
  (32%Z, "Subscribe", [("Request", FKId, false); ("Options", FKDict, false); ("Topic", FKUri, false)]);
  (33%Z, "Subscribed", [("Request", FKId, false); ("Subscription", FKId, false)]);
  (34%Z, "Unsubscribe", [("Request", FKId, false); ("Subscription", FKId, false)]);
  (35%Z, "Unsubscribed", [("Request", FKId, false)]);
  (36%Z, "Event", [("Subscription", FKId, false); ("Publication", FKId, false); ("Details", FKDict, false); ("Arguments", FKList, true); ("ArgumentsKw", FKDict, true)]);
  (48%Z, "Call", [("Request", FKId, false); ("Options", FKDict, false); ("Procedure", FKUri, false); ("Arguments", FKList, true); ("ArgumentsKw", FKDict, true)]);
  (49%Z, "Cancel", [("Request", FKId, false); ("Options", FKDict, false)]);
  (50%Z, "Result", [("Request", FKId, false); ("Details", FKDict, false); ("Arguments", FKList, true); ("ArgumentsKw", FKDict, true)]);
  (64%Z, "Register", [("Request", FKId, false); ("Options", FKDict, false); ("Procedure", FKUri, false)]);
  (65%Z, "Registered", [("Request", FKId, false); ("Registration", FKId, false)]);
  (66%Z, "Unregister", [("Request", FKId, false); ("Registration", FKId, false)]);
  (67%Z, "Unregistered", [("Request", FKId, false)]);
  (68%Z, "Invocation", [("Request", FKId, false); ("Registration", FKId, false); ("Details", FKDict, false); ("Arguments", FKList, true); ("ArgumentsKw", FKDict, true)]);
  (69%Z, "Interrupt", [("Request", FKId, false); ("Options", FKDict, false)]);
  (70%Z, "Yield", [("Request", FKId, false); ("Options", FKDict, false); ("Arguments", FKList, true); ("ArgumentsKw", FKDict, true)])
].

Definition field_matches (f : field) (e : string * fkind * bool) : bool :=
  String.eqb (f_name f) (fst (fst e)) && fkind_eqb (f_kind f) (snd (fst e)) && Bool.eqb (f_omit f) (snd e).

Fixpoint fields_match (fs : list field) (es : list (string * fkind * bool)) : bool :=
  match fs, es with
  | [], [] => true
  | f :: fs', e :: es' => field_matches f e && fields_match fs' es'
  | _, _ => false
  end.

(** every message of the table is constructed by NewMessage(code) as the
    named struct with exactly these fields, and NewMessage knows no other code *)
Definition schema_is_wamp (sc : schema) : bool :=
  forallb (fun e =>
             let '(code, name, fields) := e in
             match find_new code (sc_new sc) with
             | Some n =>
                 String.eqb (n_struct n) name
                 && match find_struct name (sc_structs sc) with
                    | Some s => Z.eqb (s_code s) code && fields_match (s_fields s) fields
                    | None => false
                    end
             | None => false
             end) wamp_spec
  && Nat.eqb (List.length (sc_new sc)) (List.length wamp_spec)
  && Nat.eqb (List.length (sc_structs sc)) (List.length wamp_spec).
