(** * Codec.MsgPack — MessagePack header layout as ugorji/go/codec v1.3.1
    writes and reads it (definitions only; the codec is MODELLED, not verified).

    Parametric in the two handle options nexus' [InitMsgpackHandle] may set
    ([WriteExt], [RawToString]); the translator emits the current values
    ([gen_mp_opts]) and the theorems are about the model at those values. *)
From Coq Require Import List NArith ZArith Bool.
From Coq Require Import Strings.Byte.
From Nexus Require Import Codec.Bytes Codec.Values Codec.Tlv.
Import ListNotations.
Open Scope N_scope.

Record mp_opts := { mp_write_ext : bool; mp_raw_to_string : bool }.

Section MsgPack.
  Variable o : mp_opts.

  (** [writeContainerLen] for the four container types *)
  Definition mp_len_head (fixcut fixmin b8 b16 b32 : N) (n : N) : bytes :=
    if (0 <? fixcut) && (n <? fixcut) then [n2b (fixmin + n)]
    else if (0 <? b8) && (n <? 256) then [n2b b8; n2b n]
    else if n <? 65536 then n2b b16 :: be_enc 2 n
    else n2b b32 :: be_enc 4 n.

  Definition mp_write_int (z : Z) : bytes :=          (* EncodeInt *)
    if (127 <? z)%Z then
      if (z <=? 32767)%Z then n2b 0xd1 :: be_enc 2 (uint_of_Z 16 z)
      else if (z <=? 2147483647)%Z then n2b 0xd2 :: be_enc 4 (uint_of_Z 32 z)
      else n2b 0xd3 :: be_enc 8 (uint_of_Z 64 z)
    else if (-32 <=? z)%Z then [n2b (uint_of_Z 8 z)]
    else if (-128 <=? z)%Z then [n2b 0xd0; n2b (uint_of_Z 8 z)]
    else if (-32768 <=? z)%Z then n2b 0xd1 :: be_enc 2 (uint_of_Z 16 z)
    else if (-2147483648 <=? z)%Z then n2b 0xd2 :: be_enc 4 (uint_of_Z 32 z)
    else n2b 0xd3 :: be_enc 8 (uint_of_Z 64 z).

  Definition mp_write_uint (u : N) : bytes :=         (* EncodeUint *)
    if u <=? 127 then [n2b u]
    else if u <=? 255 then [n2b 0xcc; n2b u]
    else if u <=? 65535 then n2b 0xcd :: be_enc 2 u
    else if u <=? 4294967295 then n2b 0xce :: be_enc 4 u
    else n2b 0xcf :: be_enc 8 u.

  Definition mp_write_head (h : head) : bytes :=
    match h with
    | HNull => [n2b 0xc0]
    | HBool true => [n2b 0xc3]
    | HBool false => [n2b 0xc2]
    | HInt KI64 z => mp_write_int z
    | HInt KU64 z => mp_write_uint (Z.to_N z)
    | HFloat f => n2b 0xcb :: be_enc 8 f
    | HStr n =>
        if mp_write_ext o then mp_len_head 32 0xa0 0xd9 0xda 0xdb n   (* str *)
        else mp_len_head 32 0xa0 0 0xda 0xdb n                        (* legacy raw *)
    | HBin n =>
        if mp_write_ext o then mp_len_head 0 0 0xc4 0xc5 0xc6 n       (* bin *)
        else mp_len_head 32 0xa0 0 0xda 0xdb n                        (* legacy raw *)
    | HArr n => mp_len_head 16 0x90 0 0xdc 0xdd n
    | HMap n => mp_len_head 16 0x80 0 0xde 0xdf n
    end.

  (** read [k] bytes as an unsigned big-endian number *)
  Definition rd (k : N) (r : bytes) (f : N -> bytes -> hres) : hres :=
    match take k r with
    | Some (a, r') => f (be_dec a) r'
    | None => HErr
    end.

  (** what a str-family / bin-family header decodes to ([DecodeNaked]) *)
  Definition mp_str_head (n : N) : head :=
    if mp_write_ext o || mp_raw_to_string o then HStr n else HBin n.
  Definition mp_bin_head (n : N) : head :=
    if mp_raw_to_string o then HStr n else HBin n.

  Definition mp_read_head (bs : bytes) : hres :=
    match bs with
    | [] => HErr
    | b :: r =>
        let t := b2n b in
        if t <=? 0x7f then HOk (HInt KI64 (Z.of_N t)) r
        else if t <=? 0x8f then HOk (HMap (t - 0x80)) r
        else if t <=? 0x9f then HOk (HArr (t - 0x90)) r
        else if t <=? 0xbf then HOk (mp_str_head (t - 0xa0)) r
        else if t =? 0xc0 then HOk HNull r
        else if t =? 0xc1 then HErr
        else if t =? 0xc2 then HOk (HBool false) r
        else if t =? 0xc3 then HOk (HBool true) r
        else if t =? 0xc4 then rd 1 r (fun n r' => HOk (mp_bin_head n) r')
        else if t =? 0xc5 then rd 2 r (fun n r' => HOk (mp_bin_head n) r')
        else if t =? 0xc6 then rd 4 r (fun n r' => HOk (mp_bin_head n) r')
        else if t <=? 0xc9 then HUnsup                               (* ext 8/16/32 *)
        else if t =? 0xca then HUnsup                                (* float32 *)
        else if t =? 0xcb then rd 8 r (fun n r' => HOk (HFloat n) r')
        else if t =? 0xcc then rd 1 r (fun n r' => HOk (HInt KU64 (Z.of_N n)) r')
        else if t =? 0xcd then rd 2 r (fun n r' => HOk (HInt KU64 (Z.of_N n)) r')
        else if t =? 0xce then rd 4 r (fun n r' => HOk (HInt KU64 (Z.of_N n)) r')
        else if t =? 0xcf then rd 8 r (fun n r' => HOk (HInt KU64 (Z.of_N n)) r')
        else if t =? 0xd0 then rd 1 r (fun n r' => HOk (HInt KI64 (sint 8 n)) r')
        else if t =? 0xd1 then rd 2 r (fun n r' => HOk (HInt KI64 (sint 16 n)) r')
        else if t =? 0xd2 then rd 4 r (fun n r' => HOk (HInt KI64 (sint 32 n)) r')
        else if t =? 0xd3 then rd 8 r (fun n r' => HOk (HInt KI64 (sint 64 n)) r')
        else if t <=? 0xd8 then HUnsup                               (* fixext *)
        else if t =? 0xd9 then rd 1 r (fun n r' => HOk (mp_str_head n) r')
        else if t =? 0xda then rd 2 r (fun n r' => HOk (mp_str_head n) r')
        else if t =? 0xdb then rd 4 r (fun n r' => HOk (mp_str_head n) r')
        else if t =? 0xdc then rd 2 r (fun n r' => HOk (HArr n) r')
        else if t =? 0xdd then rd 4 r (fun n r' => HOk (HArr n) r')
        else if t =? 0xde then rd 2 r (fun n r' => HOk (HMap n) r')
        else if t =? 0xdf then rd 4 r (fun n r' => HOk (HMap n) r')
        else HOk (HInt KI64 (sint 8 t)) r                            (* 0xe0..0xff *)
    end.

  Definition mp_encode : value -> bytes := enc mp_write_head.
  Definition mp_decode : bytes -> dres := decode mp_read_head false.
  Definition mp_decode_raw : bytes -> dres := decode_raw mp_read_head false.
End MsgPack.

(** the options nexus sets today (checked against [gen_mp_opts] on every run) *)
Definition mp_opts_nexus : mp_opts := {| mp_write_ext := true; mp_raw_to_string := false |}.

(** What decoding an encoded header yields ([WriteExt = true]): an unsigned
    integer up to 127 comes back as int64 (positive fixnum is read as signed). *)
Definition mp_canon_head (h : head) : head :=
  match h with
  | HInt KU64 z => if (z <=? 127)%Z then HInt KI64 z else HInt KU64 z
  | _ => h
  end.

(** Headers the layout writes faithfully: integers of their kind's range,
    binary64 bit patterns, lengths below 2^32. *)
Definition mp_wf_head (h : head) : bool :=
  match h with
  | HNull | HBool _ => true
  | HInt k z => int_in_range k z
  | HFloat f => f <? 2 ^ 64
  | HStr n | HBin n | HArr n | HMap n => n <? 2 ^ 32
  end.
