(** * Codec.Tlv — header-driven binary codec, generic in the header layout
    (definitions only).

    MessagePack and CBOR share one shape: a header says what follows (a scalar
    carried in the header, a byte string of [n] bytes, [n] items, [n]
    key/value pairs).  The encoder/decoder for the value universe is written
    once over [write_head]/[read_head]; [MsgPack.v] and [Cbor.v] supply the
    two header layouts.  The decoder is total on explicit fuel; the top-level
    entry points use fuel [fuel_for input = 2 * length input + 1] (each item
    costs at most two units — one in [dec], one in [dec_seq]/[dec_map] — and
    consumes at least one byte) and [TlvProofs] shows that this never runs
    out, on any input. *)
From Coq Require Import List NArith ZArith Bool.
From Coq Require Import Strings.Byte.
From Nexus Require Import Codec.Bytes Codec.Values.
Import ListNotations.
Open Scope N_scope.

Inductive head :=
| HNull
| HBool (b : bool)
| HInt (k : ikind) (z : Z)
| HFloat (bits : N)
| HStr (n : N)
| HBin (n : N)
| HArr (n : N)
| HMap (n : N).

(** [HErr]: the codec reports a decode error.  [HUnsup]: a construct the
    third-party codec accepts but that lies outside the modelled universe
    (extension types, tags, indefinite lengths, half/single floats, …): the
    model makes no claim about it. *)
Inductive hres := HOk (h : head) (rest : bytes) | HErr | HUnsup.

Inductive dres := DOk (v : value) (rest : bytes) | DErr | DUnsup | DFuel.
Inductive sres := SOk (l : list value) (rest : bytes) | SErr | SUnsup | SFuel.
Inductive mres := MOk (d : list (bytes * value)) (rest : bytes) | MErr | MUnsup | MFuel.

(** ugorji's decoders refuse containers nested deeper than this
    ([decDefMaxDepth] = 1024, checked with [>=] after the increment). *)
Definition max_nesting : nat := 1023.

Fixpoint depth (v : value) : nat :=
  match v with
  | VList l => S (fold_right (fun x acc => Nat.max (depth x) acc) O l)
  | VDict d => S (fold_right (fun kv acc => Nat.max (depth (snd kv)) acc) O d)
  | _ => O
  end.

Section Tlv.
  Variable write_head : head -> bytes.
  Variable read_head : bytes -> hres.
  (** how anything but a string header in map-key position is treated: [true]
      = no claim (CBOR: ugorji reads the low five bits of ANY byte there as a
      length), [false] = decode error (MessagePack) *)
  Variable lax_keys : bool.

  Fixpoint enc (v : value) : bytes :=
    match v with
    | VNull => write_head HNull
    | VBool b => write_head (HBool b)
    | VInt k z => write_head (HInt k z)
    | VFloat f => write_head (HFloat f)
    | VStr s => write_head (HStr (len s)) ++ s
    | VBin s => write_head (HBin (len s)) ++ s
    | VList l => write_head (HArr (len l)) ++ concat (map enc l)
    | VDict d =>
        write_head (HMap (len d))
        ++ concat (map (fun kv => write_head (HStr (len (fst kv))) ++ fst kv ++ enc (snd kv)) d)
    end.

  (** A map key, as the codec reads one into a [map[string]any]: a text or a
      byte string.  ugorji also takes nil (as "") and an array of small
      integers in key position: outside the model ([None]). *)
  Definition dec_key (bs : bytes) : option (option (bytes * bytes)) :=
    (* Some (Some (k, rest)) | Some None = error | None = no claim *)
    match read_head bs with
    | HOk (HStr n) r | HOk (HBin n) r =>
        match take n r with Some (k, r') => Some (Some (k, r')) | None => Some None end
    | HOk HNull _ | HOk (HArr _) _ => None
    | HOk _ _ => if lax_keys then None else Some None
    | HErr => if lax_keys then None else Some None
    | HUnsup => None
    end.

  (** [d]: how many more levels of containers may be opened; [fuel]: see above *)
  Fixpoint dec (d : nat) (fuel : nat) (bs : bytes) {struct fuel} : dres :=
    match fuel with
    | O => DFuel
    | S f =>
        match read_head bs with
        | HErr => DErr
        | HUnsup => DUnsup
        | HOk h r =>
            match h with
            | HNull => DOk VNull r
            | HBool b => DOk (VBool b) r
            | HInt k z => DOk (VInt k z) r
            | HFloat x => DOk (VFloat x) r
            | HStr n => match take n r with Some (s, r') => DOk (VStr s) r' | None => DErr end
            | HBin n => match take n r with Some (s, r') => DOk (VBin s) r' | None => DErr end
            | HArr n =>
                match d with
                | O => DErr                        (* maximum decoding depth exceeded *)
                | S d' =>
                    match dec_seq d' f n r with
                    | SOk l r' => DOk (VList l) r'
                    | SErr => DErr | SUnsup => DUnsup | SFuel => DFuel
                    end
                end
            | HMap n =>
                match d with
                | O => DErr
                | S d' =>
                    match dec_map d' f n r with
                    | MOk m r' => DOk (VDict m) r'
                    | MErr => DErr | MUnsup => DUnsup | MFuel => DFuel
                    end
                end
            end
        end
    end
  with dec_seq (d : nat) (fuel : nat) (n : N) (bs : bytes) {struct fuel} : sres :=
    match fuel with
    | O => SFuel
    | S f =>
        if n =? 0 then SOk [] bs
        else match dec d f bs with
             | DOk v r =>
                 match dec_seq d f (N.pred n) r with
                 | SOk l r' => SOk (v :: l) r'
                 | e => e
                 end
             | DErr => SErr | DUnsup => SUnsup | DFuel => SFuel
             end
    end
  with dec_map (d : nat) (fuel : nat) (n : N) (bs : bytes) {struct fuel} : mres :=
    match fuel with
    | O => MFuel
    | S f =>
        if n =? 0 then MOk [] bs
        else match dec_key bs with
             | None => MUnsup
             | Some None => MErr
             | Some (Some (k, r)) =>
                 match dec d f r with
                 | DOk v r' =>
                     match dec_map d f (N.pred n) r' with
                     | MOk m r'' => MOk ((k, v) :: m) r''
                     | e => e
                     end
                 | DErr => MErr | DUnsup => MUnsup | DFuel => MFuel
                 end
             end
    end.

  Definition fuel_for (bs : bytes) : nat := S (length bs + length bs).

  (** Top-level decode of one item from a byte string; trailing bytes are
      returned (the Go decoder ignores them).  A stream map with a repeated
      key is outside the model (see [dicts_ok]). *)
  Definition decode_raw (bs : bytes) : dres := dec max_nesting (fuel_for bs) bs.

  Definition decode (bs : bytes) : dres :=
    match decode_raw bs with
    | DOk v r => if dicts_ok v then DOk v r else DUnsup
    | e => e
    end.

  (** What [Decode(&v)] with [var v []any] does on the UNREPAIRED tree: an
      array gives its items; nil gives an empty slice; a MAP is flattened into
      key, value, key, value, … (every key read as an ordinary item). *)
  Definition decode_into_slice_orig (bs : bytes) : sres :=
    match read_head bs with
    | HOk (HArr n) r =>
        match dec_seq (pred max_nesting) (fuel_for bs) n r with
        | SOk l r' => if forallb dicts_ok l then SOk l r' else SUnsup
        | e => e
        end
    | HOk (HMap n) r =>
        match dec_seq (pred max_nesting) (fuel_for bs) (2 * n) r with
        | SOk l r' => if forallb dicts_ok l then SOk l r' else SUnsup
        | e => e
        end
    | HOk HNull r => SOk [] r
    | HOk _ _ => SErr
    | HErr => SErr
    | HUnsup => SUnsup
    end.
End Tlv.

(** ** Well-formed values and canonical form, generic in the header layout *)
Section TlvWf.
  (** which headers the layout can write faithfully (integer ranges, length limits) *)
  Variable wf_head : head -> bool.

  Fixpoint wfv (v : value) : bool :=
    match v with
    | VNull => wf_head HNull
    | VBool b => wf_head (HBool b)
    | VInt k z => wf_head (HInt k z)
    | VFloat f => wf_head (HFloat f)
    | VStr s => wf_head (HStr (len s))
    | VBin s => wf_head (HBin (len s))
    | VList l => wf_head (HArr (len l)) && forallb wfv l
    | VDict d =>
        wf_head (HMap (len d)) && keys_nodup (map fst d)
        && forallb (fun kv => wf_head (HStr (len (fst kv))) && wfv (snd kv)) d
    end.
End TlvWf.

Section CanonBy.
  (** what reading back a written header yields *)
  Variable ch : head -> head.
  Fixpoint canon_by (v : value) : value :=
    match v with
    | VInt k z => match ch (HInt k z) with HInt k' z' => VInt k' z' | _ => v end
    | VList l => VList (map canon_by l)
    | VDict d => VDict (map (fun kv => (fst kv, canon_by (snd kv))) d)
    | _ => v
    end.
End CanonBy.
