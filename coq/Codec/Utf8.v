(** * Codec.Utf8 — UTF-8 encoding of a code point and validity of a byte
    string (definitions only; Go's [unicode/utf8] rules: shortest form, no
    surrogates, at most U+10FFFF). *)
From Coq Require Import List NArith Bool.
From Coq Require Import Strings.Byte.
From Nexus Require Import Codec.Bytes.
Import ListNotations.
Open Scope N_scope.

Definition is_surrogate (c : N) : bool := (0xD800 <=? c) && (c <=? 0xDFFF).

Definition valid_rune (c : N) : bool := (c <=? 0x10FFFF) && negb (is_surrogate c).

Definition replacement_char : bytes := [n2b 0xEF; n2b 0xBF; n2b 0xBD].

(** Go's [utf8.EncodeRune] / [string(rune(c))]: invalid runes give U+FFFD. *)
Definition utf8_encode (c : N) : bytes :=
  if negb (valid_rune c) then replacement_char
  else if c <=? 0x7F then [n2b c]
  else if c <=? 0x7FF then [n2b (0xC0 + c / 64); n2b (0x80 + c mod 64)]
  else if c <=? 0xFFFF then
    [n2b (0xE0 + c / 4096); n2b (0x80 + (c / 64) mod 64); n2b (0x80 + c mod 64)]
  else
    [n2b (0xF0 + c / 262144); n2b (0x80 + (c / 4096) mod 64);
     n2b (0x80 + (c / 64) mod 64); n2b (0x80 + c mod 64)].

Definition cont (b : byte) : bool := let n := b2n b in (0x80 <=? n) && (n <=? 0xBF).
Definition in_rng (b : byte) (lo hi : N) : bool := let n := b2n b in (lo <=? n) && (n <=? hi).

(** Unicode Table 3-7 (well-formed UTF-8 byte sequences) *)
Fixpoint utf8_valid (bs : bytes) : bool :=
  match bs with
  | [] => true
  | b0 :: r0 =>
      let n := b2n b0 in
      if n <=? 0x7F then utf8_valid r0
      else match r0 with
           | [] => false
           | b1 :: r1 =>
               if in_rng b0 0xC2 0xDF then cont b1 && utf8_valid r1
               else match r1 with
                    | [] => false
                    | b2 :: r2 =>
                        if n =? 0xE0 then in_rng b1 0xA0 0xBF && cont b2 && utf8_valid r2
                        else if in_rng b0 0xE1 0xEC || in_rng b0 0xEE 0xEF
                             then cont b1 && cont b2 && utf8_valid r2
                        else if n =? 0xED then in_rng b1 0x80 0x9F && cont b2 && utf8_valid r2
                        else match r2 with
                             | [] => false
                             | b3 :: r3 =>
                                 if n =? 0xF0 then in_rng b1 0x90 0xBF && cont b2 && cont b3 && utf8_valid r3
                                 else if in_rng b0 0xF1 0xF3 then cont b1 && cont b2 && cont b3 && utf8_valid r3
                                 else if n =? 0xF4 then in_rng b1 0x80 0x8F && cont b2 && cont b3 && utf8_valid r3
                                 else false
                             end
                    end
           end
  end.
