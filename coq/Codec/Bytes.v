(** * Codec.Bytes — byte strings, big-endian integers (definitions only).

    A byte is Coq's [Init.Byte.byte] (256 constructors), so that "for all
    byte strings" in the C14 theorems is literally [forall bs : list byte].
    Arithmetic is done in [N] through [b2n]/[n2b]. *)
From Coq Require Import List NArith ZArith Bool.
From Coq Require Import Strings.Byte.
Import ListNotations.
Open Scope N_scope.

Definition bytes := list byte.

Definition b2n (b : byte) : N := Byte.to_N b.

(** total: reduces modulo 256 (Go's [byte(x)] conversion) *)
Definition n2b (n : N) : byte :=
  match Byte.of_N (n mod 256) with Some b => b | None => x00 end.

Definition byte_eqb (a b : byte) : bool := N.eqb (b2n a) (b2n b).

Fixpoint bytes_eqb (a b : bytes) : bool :=
  match a, b with
  | [], [] => true
  | x :: a', y :: b' => byte_eqb x y && bytes_eqb a' b'
  | _, _ => false
  end.

Definition len {A} (l : list A) : N := N.of_nat (length l).

(** [be_enc k n]: the [k] low-order bytes of [n], most significant first
    (Go's [bigen.PutUintXX(uintXX(n))]). *)
Fixpoint be_enc (k : nat) (n : N) : bytes :=
  match k with
  | O => []
  | S k' => n2b (n / 256 ^ N.of_nat k') :: be_enc k' n
  end.

Definition be_dec (bs : bytes) : N :=
  fold_left (fun acc b => acc * 256 + b2n b) bs 0.

(** [take n bs]: split off the first [n] bytes; [None] when fewer remain
    (the codec's "unexpected EOF"). Structural on [bs]. *)
Fixpoint take (n : N) (bs : bytes) {struct bs} : option (bytes * bytes) :=
  if n =? 0 then Some ([], bs)
  else match bs with
       | [] => None
       | b :: r => match take (N.pred n) r with
                   | Some (a, r') => Some (b :: a, r')
                   | None => None
                   end
       end.

(** two's complement reading of a [k]-bit pattern *)
Definition sint (bits : N) (u : N) : Z :=
  if u <? 2 ^ (bits - 1) then Z.of_N u else (Z.of_N u - Z.of_N (2 ^ bits))%Z.

(** the [bits]-bit pattern of a signed integer (Go's [uintXX(i)]) *)
Definition uint_of_Z (bits : N) (z : Z) : N :=
  Z.to_N (z mod Z.of_N (2 ^ bits)).

(** ASCII helpers for the JSON model *)
Definition ascii_bytes (l : list N) : bytes := map n2b l.
