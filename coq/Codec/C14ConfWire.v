(** * Codec.C14ConfWire — per-run conformance: the message structs read from
    /repo today lay the 24 WAMP messages out as the WAMP specification does
    ([Codec.WampSpec]): same code, same struct, same fields in the same list
    positions with the same types and omitempty flags, and no other message. *)
From Nexus Require Import Codec.Schema Codec.WampSpec gen.GenC14Schema.

Lemma gen_schema_is_wamp : schema_is_wamp gen_schema = true.
Proof. vm_compute. reflexivity. Qed.
