(** * Codec.MsgList — [msgToList] / [listToMsg] and the [Serialize] /
    [Deserialize] wrappers of /repo/transport/serialize, generic over the
    generated schema (definitions only).

    A message is the name of its Go struct plus one typed value per field.
    [msg_to_list] mirrors [msgToList] (trailing omitempty-and-empty fields are
    dropped by walking back from the last field, never past field 0).
    [list_to_msg] mirrors [listToMsg] statement by statement: unknown code ->
    error; loop over fields while items remain; nil item skipped; assignable
    -> set; convertible -> convert and set; kinds differ -> error; map ->
    assignMap; slice -> assignSlice; otherwise the code panics -> [OPanic].
    The Go reflect conversion table is MODELLED for the types a decoder can
    produce ([gotype]). *)
From Coq Require Import List NArith ZArith Bool String.
From Coq Require Import Strings.Byte.
From Nexus Require Import Codec.Bytes Codec.Values Codec.Utf8 Codec.Schema.
Import ListNotations.

Inductive fval :=
| FId (n : Z)                                   (* wamp.ID *)
| FStr (s : bytes)                              (* wamp.URI or string *)
| FDict (d : option (list (bytes * value)))     (* wamp.Dict; None = nil map *)
| FList (l : option (list value))               (* wamp.List; None = nil slice *)
| FMt (z : Z).                                  (* wamp.MessageType *)

Record msg := { m_struct : string; m_fields : list fval }.

Inductive errk :=
| EDecode            (* the codec reported an error *)
| EInvalidMessage    (* "invalid message": no items / not a list *)
| EFormat            (* "unsupported message format": item 0 is not an acceptable code *)
| EUnknownType       (* "unsupported message type": NewMessage returned nil *)
| EField (i : nat).  (* "field i not recognized": incompatible item for field i (1-based) *)

Inductive outcome :=
| OOk (m : msg)
| OErr (e : errk)
| OPanic             (* the Go code would panic *)
| OUnsup             (* input outside the modelled universe: no claim *)
| OFuel.             (* the model's decoder ran out of fuel (proved impossible) *)

(** ** msgToList *)

Definition fval_kind_ok (k : fkind) (v : fval) : bool :=
  match k, v with
  | FKId, FId _ | FKUri, FStr _ | FKStr, FStr _ | FKDict, FDict _ | FKList, FList _
  | FKMsgType, FMt _ => true
  | _, _ => false
  end.

(** what the encoder is handed for a field ([val.Field(i).Interface()]); a nil
    map or slice is encoded as nil *)
Definition fval_to_value (v : fval) : value :=
  match v with
  | FId n => VInt KU64 n
  | FStr s => VStr s
  | FDict None => VNull
  | FDict (Some d) => VDict d
  | FList None => VNull
  | FList (Some l) => VList l
  | FMt z => VInt KI64 z
  end.

(** [val.Field(i).Len()]: panics for kinds without a length *)
Definition fval_len (v : fval) : option N :=
  match v with
  | FStr s => Some (len s)
  | FDict None | FList None => Some 0%N
  | FDict (Some d) => Some (len d)
  | FList (Some l) => Some (len l)
  | FId _ | FMt _ => None
  end.

(** the loop's [break] condition negated: the field is dropped *)
Definition droppable (f : field) (v : fval) : option bool :=
  if f_omit f then
    match fval_len v with
    | Some n => Some (N.eqb n 0)
    | None => None                      (* reflect panics *)
    end
  else Some false.

(** [rev_fs]: the (field, value) pairs from the LAST field to the first.
    Returns the kept pairs, still reversed. *)
Fixpoint trim_rev (rev_fs : list (field * fval)) : option (list (field * fval)) :=
  match rev_fs with
  | [] => Some []
  | [x] => Some [x]                     (* last = 0: kept without looking *)
  | (f, v) :: rest =>
      match droppable f v with
      | None => None
      | Some true => trim_rev rest
      | Some false => Some rev_fs
      end
  end.

Inductive m2l_res := M2LOk (l : list value) | M2LPanic | M2LIllTyped.

Definition msg_well_typed (s : sdesc) (m : msg) : bool :=
  Nat.eqb (List.length (s_fields s)) (List.length (m_fields m))
  && forallb (fun p => fval_kind_ok (f_kind (fst p)) (snd p)) (combine (s_fields s) (m_fields m)).

Definition msg_to_list (sc : schema) (m : msg) : m2l_res :=
  match find_struct (m_struct m) (sc_structs sc) with
  | None => M2LIllTyped
  | Some s =>
      if negb (msg_well_typed s m) then M2LIllTyped
      else match trim_rev (rev (combine (s_fields s) (m_fields m))) with
           | None => M2LPanic
           | Some kept => M2LOk (VInt KI64 (s_code s) :: map (fun p => fval_to_value (snd p)) (rev kept))
           end
  end.

(** a message whose fields have the types of its struct and whose integers
    fit their Go types (uint64 for ids, int for the ERROR request type) *)
Definition wf_fval (k : fkind) (v : fval) : bool :=
  fval_kind_ok k v
  && match v with
     | FId n => int_in_range KU64 n
     | FMt z => int_in_range KI64 z
     | _ => true
     end.

Definition wf_msg (sc : schema) (m : msg) : bool :=
  match find_struct (m_struct m) (sc_structs sc) with
  | Some s =>
      Nat.eqb (List.length (s_fields s)) (List.length (m_fields m))
      && forallb (fun p => wf_fval (f_kind (fst p)) (snd p)) (combine (s_fields s) (m_fields m))
  | None => false
  end.

(** ** listToMsg *)

(** the Go types a decoder hands to [listToMsg] *)
Inductive gotype := TBool | TInt64 | TUint64 | TFloat64 | TString | TBytes | TSliceAny | TMapStrAny.
Inductive gokind := GKBool | GKInt | GKInt64 | GKUint64 | GKFloat64 | GKString | GKSlice | GKMap.

Definition type_of (v : value) : option gotype :=      (* None: untyped nil *)
  match v with
  | VNull => None
  | VBool _ => Some TBool
  | VInt KI64 _ => Some TInt64
  | VInt KU64 _ => Some TUint64
  | VFloat _ => Some TFloat64
  | VStr _ => Some TString
  | VBin _ => Some TBytes
  | VList _ => Some TSliceAny
  | VDict _ => Some TMapStrAny
  end.

Definition kind_of_type (t : gotype) : gokind :=
  match t with
  | TBool => GKBool | TInt64 => GKInt64 | TUint64 => GKUint64 | TFloat64 => GKFloat64
  | TString => GKString | TBytes => GKSlice | TSliceAny => GKSlice | TMapStrAny => GKMap
  end.

Definition kind_of_field (k : fkind) : option gokind :=
  match k with
  | FKId => Some GKUint64 | FKMsgType => Some GKInt
  | FKUri | FKStr => Some GKString
  | FKDict => Some GKMap | FKList => Some GKSlice
  | FKOther => None
  end.

Definition gokind_eqb (a b : gokind) : bool :=
  match a, b with
  | GKBool, GKBool | GKInt, GKInt | GKInt64, GKInt64 | GKUint64, GKUint64
  | GKFloat64, GKFloat64 | GKString, GKString | GKSlice, GKSlice | GKMap, GKMap => true
  | _, _ => false
  end.

(** [reflect.Type.AssignableTo]: identical types, or identical underlying
    types with one side unnamed ([]any -> wamp.List, map[string]any ->
    wamp.Dict; string -> string).  uint64 -> wamp.ID and string -> wamp.URI are
    NOT assignable (both sides named). *)
Definition assignable (t : gotype) (k : fkind) : bool :=
  match t, k with
  | TString, FKStr | TSliceAny, FKList | TMapStrAny, FKDict => true
  | _, _ => false
  end.

(** [reflect.Type.ConvertibleTo] — Go's conversion rules: numeric <-> numeric;
    string <- string, []byte, AND ANY INTEGER (rune conversion). *)
Definition convertible (t : gotype) (k : fkind) : bool :=
  match k, t with
  | (FKId | FKMsgType), (TInt64 | TUint64 | TFloat64) => true
  | (FKUri | FKStr), (TString | TBytes | TInt64 | TUint64) => true
  | FKList, TSliceAny | FKDict, TMapStrAny => true
  | _, _ => false
  end.

(** the value-preservation guard of the repaired [listToMsg] *)
Definition converts_exactly (v : value) (k : fkind) : bool :=
  match k, v with
  | (FKUri | FKStr), (VStr _ | VBin _) => true
  | (FKUri | FKStr), _ => false
  | FKId, VInt KI64 z => (0 <=? z)%Z
  | FKId, VFloat f =>
      match float_exact_Z f with Some z => (0 <=? z)%Z && (z <? 2 ^ 64)%Z | None => false end
  | FKMsgType, VInt KU64 z => (z <? 2 ^ 63)%Z
  | FKMsgType, VFloat f =>
      match float_exact_Z f with Some z => (- 2 ^ 63 <=? z)%Z && (z <? 2 ^ 63)%Z | None => false end
  | _, _ => true
  end.

Inductive ares := AOk (v : fval) | AErr | APanic | AUnspec.

Definition wrap_u64 (z : Z) : Z := (z mod 2 ^ 64)%Z.
Definition wrap_i64 (z : Z) : Z := sint 64 (Z.to_N (z mod 2 ^ 64)).

(** [string(rune(x))] as reflect's cvtIntString/cvtUintString do it *)
Definition rune_string (z : Z) : bytes :=
  if ((0 <=? z) && (z <=? 0x10FFFF))%Z then utf8_encode (Z.to_N z) else replacement_char.

(** [arg.Convert(f.Type())].  A float that is not exactly an integer of the
    target type has an implementation-specific result in Go: [AUnspec] (only
    reachable under [CVReflect]). *)
Definition convert (v : value) (k : fkind) : ares :=
  match k, v with
  | FKId, VInt _ z => AOk (FId (wrap_u64 z))
  | FKId, VFloat f =>
      match float_exact_Z f with
      | Some z => if ((0 <=? z) && (z <? 2 ^ 64))%Z then AOk (FId z) else AUnspec
      | None => AUnspec
      end
  | FKMsgType, VInt _ z => AOk (FMt (wrap_i64 z))
  | FKMsgType, VFloat f =>
      match float_exact_Z f with
      | Some z => if ((- 2 ^ 63 <=? z) && (z <? 2 ^ 63))%Z then AOk (FMt z) else AUnspec
      | None => AUnspec
      end
  | (FKUri | FKStr), VStr s => AOk (FStr s)
  | (FKUri | FKStr), VBin s => AOk (FStr s)
  | (FKUri | FKStr), VInt _ z => AOk (FStr (rune_string z))
  | FKList, VList l => AOk (FList (Some l))
  | FKDict, VDict d => AOk (FDict (Some d))
  | _, _ => APanic                      (* not convertible: never called *)
  end.

(** [assignSlice] on a []byte item: every byte becomes a uint8 element *)
Definition assign_slice (v : value) : ares :=
  match v with
  | VBin s => AOk (FList (Some (map (fun b => VInt KU64 (Z.of_N (b2n b))) s)))
  | VList l => AOk (FList (Some l))
  | _ => APanic
  end.

Definition assign_map (v : value) : ares :=
  match v with
  | VDict d => AOk (FDict (Some d))
  | _ => APanic
  end.

Section ListToMsg.
  Variable cv : conv_rule.

  (** one iteration of the loop body for a non-nil item *)
  Definition assign_field (k : fkind) (v : value) : ares :=
    match type_of v, kind_of_field k with
    | None, _ => APanic                 (* nil is skipped before *)
    | _, None => APanic                 (* field of a type the model does not know *)
    | Some t, Some fk =>
        if assignable t k then convert v k
        else if convertible t k
                && match cv with CVExact => converts_exactly v k | _ => true end
             then convert v k
        else if negb (gokind_eqb (kind_of_type t) fk) then AErr
        else match fk with
             | GKMap => assign_map v
             | GKSlice => assign_slice v
             | _ => APanic              (* panic("internal message field …") *)
             end
    end.

  Inductive fill_res := FillOk (l : list fval) | FillErr (i : nat) | FillPanic | FillUnspec.

  (** [fs]/[defaults]: remaining fields and their current (zero or
      pre-filled) values; [items]: remaining list items; [i]: 1-based index *)
  Fixpoint fill (i : nat) (fs : list field) (defaults : list fval) (items : list value) : fill_res :=
    match fs, defaults, items with
    | f :: fs', d :: ds', it :: its' =>
        match (match it with VNull => AOk d | _ => assign_field (f_kind f) it end) with
        | AOk v =>
            match fill (S i) fs' ds' its' with
            | FillOk l => FillOk (v :: l)
            | e => e
            end
        | AErr => FillErr i
        | APanic => FillPanic
        | AUnspec => FillUnspec
        end
    | _, ds, _ => FillOk ds             (* no more fields (extra items ignored) or no more items *)
    end.

  Definition zero_of (k : fkind) : fval :=
    match k with
    | FKId => FId 0 | FKUri | FKStr => FStr [] | FKDict => FDict None | FKList => FList None
    | FKMsgType => FMt 0 | FKOther => FId 0
    end.

  Definition default_of (code : Z) (pre : list (string * pfv)) (f : field) : fval :=
    match find_prefill (f_name f) pre with
    | Some PFCode => FMt code
    | Some PFEmptyDict => FDict (Some [])
    | Some PFEmptyList => FList (Some [])
    | None => zero_of (f_kind f)
    end.

  (** [listToMsg(msgType, vlist)]; [vlist] includes item 0 (the code item) *)
  Definition list_to_msg (sc : schema) (code : Z) (vlist : list value) : outcome :=
    match find_new code (sc_new sc) with
    | None => OErr EUnknownType
    | Some n =>
        match find_struct (n_struct n) (sc_structs sc) with
        | None => OPanic                (* the switch names a struct the translator did not find *)
        | Some s =>
            match fill 1 (s_fields s) (map (default_of code (n_prefill n)) (s_fields s)) (tl vlist) with
            | FillOk l => OOk {| m_struct := s_name s; m_fields := l |}
            | FillErr i => OErr (EField i)
            | FillPanic => OPanic
            | FillUnspec => OUnsup
            end
        end
    end.

  (** the code item, per serializer *)
  Definition code_of (cr : code_rule) (v : value) : option Z :=
    match cr, v with
    | CRUint64Only, VInt KU64 z => Some (wrap_i64 z)                 (* int(utyp) *)
    | CRInt64OrUint64, VInt KI64 z => Some z
    | CRInt64OrUint64, VInt KU64 z => if (z <? 2 ^ 63)%Z then Some z else None
    | _, _ => None
    end.

  (** from the decoded item list to the message ([Deserialize] after decoding) *)
  Definition from_list (cr : code_rule) (sc : schema) (vlist : list value) : outcome :=
    match vlist with
    | [] => OErr EInvalidMessage
    | c :: _ =>
        match code_of cr c with
        | None => OErr EFormat
        | Some code => list_to_msg sc code vlist
        end
    end.
End ListToMsg.

(** ** What a round trip does to a message, given what it does to a value *)

Definition canon_fval_by (c : value -> value) (v : fval) : fval :=
  match v with
  | FDict (Some d) => FDict (Some (map (fun kv => (fst kv, c (snd kv))) d))
  | FList (Some l) => FList (Some (map c l))
  | _ => v
  end.

Definition canon_msg_by (c : value -> value) (m : msg) : msg :=
  {| m_struct := m_struct m; m_fields := map (canon_fval_by c) (m_fields m) |}.

(** nil and empty containers are the same message content *)
Definition fval_norm (v : fval) : fval :=
  match v with
  | FDict None => FDict (Some [])
  | FList None => FList (Some [])
  | _ => v
  end.

Definition msg_norm (m : msg) : msg :=
  {| m_struct := m_struct m; m_fields := map fval_norm (m_fields m) |}.

(** ** Predicates used by the theorems *)

(** the item list names a message type the router knows *)
Definition is_list_with_known_code (cr : code_rule) (sc : schema) (vlist : list value) : Prop :=
  exists c rest code n, vlist = c :: rest /\ code_of cr c = Some code /\ find_new code (sc_new sc) = Some n.

(** "compatible field types": the item can be stored in a field of kind [k]
    without changing its meaning — nil (field left alone); a string or byte
    string for a URI/string field; a dict for a dict field; a list (or a byte
    string, taken as a list of small integers) for a list field; for an
    integer field an integer, or a float that is exactly an integer, within
    the field's range. *)
Definition compatible (k : fkind) (v : value) : bool :=
  match v, k with
  | VNull, _ => true
  | (VStr _ | VBin _), (FKUri | FKStr) => true
  | VDict _, FKDict => true
  | (VList _ | VBin _), FKList => true
  | VInt KU64 _, FKId => true
  | VInt KI64 z, FKId => (0 <=? z)%Z
  | VInt KI64 _, FKMsgType => true
  | VInt KU64 z, FKMsgType => (z <? 2 ^ 63)%Z
  | VFloat f, FKId =>
      match float_exact_Z f with Some z => (0 <=? z)%Z && (z <? 2 ^ 64)%Z | None => false end
  | VFloat f, FKMsgType =>
      match float_exact_Z f with Some z => (- 2 ^ 63 <=? z)%Z && (z <? 2 ^ 63)%Z | None => false end
  | _, _ => false
  end.

Fixpoint fields_compatible_l (fs : list field) (items : list value) : bool :=
  match fs, items with
  | f :: fs', it :: its' => compatible (f_kind f) it && fields_compatible_l fs' its'
  | _, _ => true
  end.

Definition fields_compatible (cr : code_rule) (sc : schema) (vlist : list value) : Prop :=
  forall c rest code n s,
    vlist = c :: rest -> code_of cr c = Some code ->
    find_new code (sc_new sc) = Some n -> find_struct (n_struct n) (sc_structs sc) = Some s ->
    fields_compatible_l (s_fields s) rest = true.
