(** * Codec.Serial — [Serialize] / [Deserialize] / [SerializeDataItem] /
    [DeserializeDataItem] of the three nexus serializers, assembled from the
    codec models and [MsgList] (definitions only).

    Everything the translator reads from the code is a parameter: the schema,
    the MessagePack handle options, and the recognised shape of the
    serializer functions ([ser_shape]: how the item list is obtained, how the
    code item is read, whether conversions are guarded). *)
From Coq Require Import List NArith ZArith Bool String.
From Coq Require Import Strings.Byte.
From Nexus Require Import Codec.Bytes Codec.Values Codec.Tlv Codec.MsgPack Codec.Cbor Codec.Json
     Codec.Schema Codec.MsgList.
Import ListNotations.

Inductive format := FJson | FMsgpack | FCbor.

Section Serial.
  Variable fprint : N -> bytes.
  Variable fparse : bytes -> option N.
  Variable mo : mp_opts.
  Variable sh : ser_shape.
  Variable sc : schema.

  Definition encode_value (fm : format) (v : value) : bytes :=
    match fm with
    | FJson => js_encode fprint v
    | FMsgpack => mp_encode mo v
    | FCbor => cb_encode v
    end.

  (** [DeserializeDataItem(data, &x)] with [var x any] *)
  Definition decode_value (fm : format) (bs : bytes) : dres :=
    match fm with
    | FJson => js_decode fparse bs
    | FMsgpack => mp_decode mo bs
    | FCbor => cb_decode bs
    end.

  Definition top_rule_of (fm : format) : top_rule :=
    match fm with FJson => sh_top_json sh | FMsgpack => sh_top_msgpack sh | FCbor => sh_top_cbor sh end.

  Definition code_rule_of (fm : format) : code_rule :=
    match fm with FJson => sh_code_json sh | FMsgpack => sh_code_msgpack sh | FCbor => sh_code_cbor sh end.

  (** the item list [Deserialize] hands to [listToMsg] *)
  Definition items_of (fm : format) (bs : bytes) : sres :=
    match fm, top_rule_of fm with
    | FMsgpack, TRIntoSlice => decode_into_slice_orig (mp_read_head mo) false bs
    | FCbor, TRIntoSlice => decode_into_slice_orig cb_read_head true bs
    | _, _ =>
        match decode_value fm bs with
        | DOk (VList l) r => SOk l r
        | DOk VNull r => SOk [] r
        | DOk _ _ => SErr
        | DErr => SErr
        | DUnsup => SUnsup
        | DFuel => SFuel
        end
    end.

  Definition deserialize (fm : format) (bs : bytes) : outcome :=
    match items_of fm bs with
    | SOk l _ => from_list (sh_conv sh) (code_rule_of fm) sc l
    | SErr => OErr EDecode
    | SUnsup => OUnsup
    | SFuel => OFuel
    end.

  Inductive ser_res := SerOk (bs : bytes) | SerPanic | SerIllTyped.

  Definition serialize (fm : format) (m : msg) : ser_res :=
    match msg_to_list sc m with
    | M2LOk l => SerOk (encode_value fm (VList l))
    | M2LPanic => SerPanic
    | M2LIllTyped => SerIllTyped
    end.
End Serial.
