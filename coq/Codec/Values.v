(** * Codec.Values — the WAMP value universe (definitions only).

    A value carries the Go dynamic kind a decoder can produce (and that
    [listToMsg]'s reflection cascade can observe):
      VNull            nil
      VBool b          bool
      VInt KI64 z      int64   (any signed Go integer kind on the way in)
      VInt KU64 z      uint64  (any unsigned Go integer kind on the way in)
      VFloat bits      float64, as its IEEE-754 binary64 bit pattern
      VStr s           string  (bytes, normally UTF-8)
      VBin b           []byte
      VList l          []any
      VDict d          map[string]any, as an association list (see [dict_norm]) *)
From Coq Require Import List NArith ZArith Bool.
From Coq Require Import Strings.Byte.
From Nexus Require Import Codec.Bytes.
Import ListNotations.

Inductive ikind := KI64 | KU64.

Inductive value :=
| VNull
| VBool (b : bool)
| VInt (k : ikind) (z : Z)
| VFloat (bits : N)
| VStr (s : bytes)
| VBin (b : bytes)
| VList (l : list value)
| VDict (d : list (bytes * value)).

(** Nested induction principle: the list and dict cases get [Forall]. *)
Section value_ind.
  Variable P : value -> Prop.
  Hypothesis Hnull : P VNull.
  Hypothesis Hbool : forall b, P (VBool b).
  Hypothesis Hint : forall k z, P (VInt k z).
  Hypothesis Hfloat : forall b, P (VFloat b).
  Hypothesis Hstr : forall s, P (VStr s).
  Hypothesis Hbin : forall s, P (VBin s).
  Hypothesis Hlist : forall l, Forall P l -> P (VList l).
  Hypothesis Hdict : forall d, Forall (fun kv => P (snd kv)) d -> P (VDict d).

  Fixpoint value_ind' (v : value) : P v :=
    match v with
    | VNull => Hnull
    | VBool b => Hbool b
    | VInt k z => Hint k z
    | VFloat b => Hfloat b
    | VStr s => Hstr s
    | VBin s => Hbin s
    | VList l =>
        Hlist l ((fix go (l : list value) : Forall P l :=
                    match l with
                    | [] => Forall_nil _
                    | x :: t => Forall_cons x (value_ind' x) (go t)
                    end) l)
    | VDict d =>
        Hdict d ((fix go (d : list (bytes * value)) : Forall (fun kv => P (snd kv)) d :=
                    match d with
                    | [] => Forall_nil _
                    | kv :: t => Forall_cons kv (value_ind' (snd kv)) (go t)
                    end) d)
    end.
End value_ind.

Definition ikind_eqb (a b : ikind) : bool :=
  match a, b with KI64, KI64 | KU64, KU64 => true | _, _ => false end.

Fixpoint value_eqb (a b : value) {struct a} : bool :=
  match a, b with
  | VNull, VNull => true
  | VBool x, VBool y => Bool.eqb x y
  | VInt k x, VInt k' y => ikind_eqb k k' && Z.eqb x y
  | VFloat x, VFloat y => N.eqb x y
  | VStr x, VStr y => bytes_eqb x y
  | VBin x, VBin y => bytes_eqb x y
  | VList x, VList y =>
      (fix go (x y : list value) {struct x} : bool :=
         match x, y with
         | [], [] => true
         | u :: x', w :: y' => value_eqb u w && go x' y'
         | _, _ => false
         end) x y
  | VDict x, VDict y =>
      (fix go (x y : list (bytes * value)) {struct x} : bool :=
         match x, y with
         | [], [] => true
         | (k, u) :: x', (k', w) :: y' => bytes_eqb k k' && value_eqb u w && go x' y'
         | _, _ => false
         end) x y
  | _, _ => false
  end.

(** ** Ranges *)
Definition int_in_range (k : ikind) (z : Z) : bool :=
  match k with
  | KI64 => (Z.leb (- 2 ^ 63) z && Z.ltb z (2 ^ 63))%Z
  | KU64 => (Z.leb 0 z && Z.ltb z (2 ^ 64))%Z
  end.

(** every dict, at every level, has pairwise distinct keys (a Go map) *)
Fixpoint keys_nodup (ks : list bytes) : bool :=
  match ks with
  | [] => true
  | k :: t => negb (existsb (bytes_eqb k) t) && keys_nodup t
  end.

Fixpoint dicts_ok (v : value) : bool :=
  match v with
  | VList l => forallb dicts_ok l
  | VDict d => keys_nodup (map fst d) && forallb (fun kv => dicts_ok (snd kv)) d
  | _ => true
  end.

(** ** Dictionaries as Go maps.

    A Go map holds one value per key.  What ugorji does with a key that
    occurs twice in one stream map depends on the types of the two values (the
    second is decoded INTO the first when that is a map or slice, and is an
    error when the types do not fit): such streams are outside the model
    ([dicts_ok] false -> no claim).  [dict_norm]/[value_norm] (last value wins)
    are kept for reference only. *)
Fixpoint dict_put {A} (k : bytes) (v : A) (d : list (bytes * A)) : list (bytes * A) :=
  match d with
  | [] => [(k, v)]
  | (k', v') :: t => if bytes_eqb k k' then (k', v) :: t else (k', v') :: dict_put k v t
  end.

Definition dict_norm {A} (d : list (bytes * A)) : list (bytes * A) :=
  fold_left (fun acc kv => dict_put (fst kv) (snd kv) acc) d [].

Fixpoint value_norm (v : value) : value :=
  match v with
  | VList l => VList (map value_norm l)
  | VDict d => VDict (dict_norm (map (fun kv => (fst kv, value_norm (snd kv))) d))
  | _ => v
  end.

Fixpoint dict_get {A} (k : bytes) (d : list (bytes * A)) : option A :=
  match d with
  | [] => None
  | (k', v) :: t => if bytes_eqb k k' then Some v else dict_get k t
  end.

(** ** Exact integer value of a binary64 bit pattern.

    [float_exact_Z bits = Some z] iff the float is finite and its value is the
    integer [z] (so [-0.0] gives [Some 0]); [None] for fractions, NaN, ±Inf.
    Used for the numeric equivalence of [cross_format] and for the repaired
    [listToMsg] (a float is accepted for an integer field only when the
    conversion is exact). *)
Definition float_exact_Z (bits : N) : option Z :=
  let sign := N.testbit bits 63 in
  let e := ((bits / 2 ^ 52) mod 2048)%N in
  let m := (bits mod 2 ^ 52)%N in
  let apply_sign (n : N) : Z := if sign then (- Z.of_N n)%Z else Z.of_N n in
  if (e =? 2047)%N then None
  else if (e =? 0)%N then (if (m =? 0)%N then Some 0%Z else None)
  else
    let sig := (2 ^ 52 + m)%N in
    if (1075 <=? e)%N then Some (apply_sign (sig * 2 ^ (e - 1075))%N)
    else
      let sh := (1075 - e)%N in
      if (52 <? sh)%N then None
      else if (sig mod 2 ^ sh =? 0)%N then Some (apply_sign (sig / 2 ^ sh)%N)
      else None.

Definition float_is_nan_or_inf (bits : N) : bool :=
  (((bits / 2 ^ 52) mod 2048) =? 2047)%N.

(** ** Numeric equivalence ("up to numeric kind").

    Two numbers are equivalent when they denote the same mathematical number:
    integers by value whatever their kind; floats by bits; an integer and a
    float when the float is exactly that integer. *)
Definition num_equiv_b (a b : value) : option bool :=
  match a, b with
  | VInt _ x, VInt _ y => Some (Z.eqb x y)
  | VFloat x, VFloat y => Some (N.eqb x y)
  | VInt _ x, VFloat f | VFloat f, VInt _ x =>
      Some (match float_exact_Z f with Some z => Z.eqb z x | None => false end)
  | _, _ => None
  end.

Fixpoint value_equiv (a b : value) {struct a} : bool :=
  match num_equiv_b a b with
  | Some r => r
  | None =>
      match a, b with
      | VNull, VNull => true
      | VBool x, VBool y => Bool.eqb x y
      | VStr x, VStr y => bytes_eqb x y
      | VBin x, VBin y => bytes_eqb x y
      | VList x, VList y =>
          (fix go (x y : list value) {struct x} : bool :=
             match x, y with
             | [], [] => true
             | u :: x', w :: y' => value_equiv u w && go x' y'
             | _, _ => false
             end) x y
      | VDict x, VDict y =>
          (fix go (x y : list (bytes * value)) {struct x} : bool :=
             match x, y with
             | [], [] => true
             | (k, u) :: x', (k', w) :: y' => bytes_eqb k k' && value_equiv u w && go x' y'
             | _, _ => false
             end) x y
      | _, _ => false
      end
  end.
