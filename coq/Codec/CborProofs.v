(** * Codec.CborProofs — the CBOR header layout satisfies the facts of
    TlvProofs; hence round trip and totality for CBOR. *)
From Coq Require Import List NArith ZArith Bool Lia.
From Coq Require Import Strings.Byte.
From Coq Require Import ZifyN ZifyNat ZifyBool.
From Nexus Require Import Codec.Bytes Codec.BytesProofs Codec.Values Codec.Tlv Codec.TlvProofs Codec.Cbor.
Import ListNotations.
Open Scope N_scope.

Ltac Zify.zify_post_hook ::= Z.div_mod_to_equations.

Ltac closed_ifs :=
  repeat match goal with
         | |- context [if ?c then _ else _] =>
             let v := eval vm_compute in c in
             match v with
             | true => change c with true
             | false => change c with false
             end; cbv iota
         end.

Ltac ifs :=
  repeat match goal with
         | |- context [if ?c then _ else _] => destruct c eqn:?; try lia
         end.

(** what [cb_read_head] does once the argument [n] of a header of major type
    [major] (0..5) is known *)
Definition cb_after (major n : N) (r' : bytes) : hres :=
  if major =? 0 then HOk (HInt KU64 (Z.of_N n)) r'
  else if major =? 1 then
    if n <? 2 ^ 63 then HOk (HInt KI64 (-1 - Z.of_N n)) r' else HUnsup
  else if 2 ^ 63 <=? n then HUnsup
  else if major =? 2 then HOk (HBin n) r'
  else if major =? 3 then HOk (HStr n) r'
  else if major =? 4 then HOk (HArr n) r'
  else HOk (HMap n) r'.

Lemma cb_read_head_low (t : N) (r : bytes) :
  t < 192 ->
  cb_read_head (n2b t :: r) =
  match cb_read_arg (t mod 32) r with
  | AErr => HErr
  | AIndef => if t / 32 <=? 1 then HErr else HUnsup
  | AOk n r' => cb_after (t / 32) n r'
  end.
Proof.
  intros H. unfold cb_read_head. cbv zeta. rewrite b2n_n2b_small by lia.
  destruct (t / 32 =? 7) eqn:E7; [lia|]. destruct (t / 32 =? 6) eqn:E6; [lia|]. reflexivity.
Qed.

Lemma cb_arg1 x r : x < 256 -> cb_read_arg 24 (n2b x :: r) = AOk x r.
Proof.
  intros H. unfold cb_read_arg. closed_ifs. rewrite take_n2b1, be_dec_1 by exact H. reflexivity.
Qed.
Lemma cb_arg2 x r : x < 65536 -> cb_read_arg 25 (be_enc 2 x ++ r) = AOk x r.
Proof.
  intros H. unfold cb_read_arg. closed_ifs. rewrite take_be2, be_dec_enc_2 by exact H. reflexivity.
Qed.
Lemma cb_arg4 x r : x < 4294967296 -> cb_read_arg 26 (be_enc 4 x ++ r) = AOk x r.
Proof.
  intros H. unfold cb_read_arg. closed_ifs. rewrite take_be4, be_dec_enc_4 by exact H. reflexivity.
Qed.
Lemma cb_arg8 x r : x < 18446744073709551616 -> cb_read_arg 27 (be_enc 8 x ++ r) = AOk x r.
Proof.
  intros H. unfold cb_read_arg. closed_ifs. rewrite take_be8, be_dec_enc_8 by exact H. reflexivity.
Qed.

Lemma cb_read_uint (m v : N) (r : bytes) :
  m <= 5 -> v < 18446744073709551616 ->
  cb_read_head (cb_uint (32 * m) v ++ r) = cb_after m v r.
Proof.
  intros Hm Hv. unfold cb_uint.
  destruct (v <=? 23) eqn:E0; [|destruct (v <=? 255) eqn:E1; [|destruct (v <=? 65535) eqn:E2; [|destruct (v <=? 4294967295) eqn:E3]]];
    cbn [app]; rewrite cb_read_head_low by lia.
  - replace ((32 * m + v) mod 32) with v by lia. replace ((32 * m + v) / 32) with m by lia.
    unfold cb_read_arg. rewrite E0. reflexivity.
  - replace ((32 * m + 24) mod 32) with 24 by lia. replace ((32 * m + 24) / 32) with m by lia.
    rewrite cb_arg1 by lia. reflexivity.
  - replace ((32 * m + 25) mod 32) with 25 by lia. replace ((32 * m + 25) / 32) with m by lia.
    rewrite cb_arg2 by lia. reflexivity.
  - replace ((32 * m + 26) mod 32) with 26 by lia. replace ((32 * m + 26) / 32) with m by lia.
    rewrite cb_arg4 by lia. reflexivity.
  - replace ((32 * m + 27) mod 32) with 27 by lia. replace ((32 * m + 27) / 32) with m by lia.
    rewrite cb_arg8 by lia. reflexivity.
Qed.

Lemma cb_rw_len (m n : N) (r : bytes) (mk : N -> head) :
  2 <= m <= 5 -> n < 2 ^ 63 ->
  (forall r', cb_after m n r' = HOk (mk n) r') ->
  cb_read_head (cb_uint (32 * m) n ++ r) = HOk (mk n) r.
Proof.
  intros Hm Hn Hk. change (2 ^ 63) with 9223372036854775808 in Hn.
  rewrite cb_read_uint by lia. apply Hk.
Qed.

Lemma cb_after_len (m n : N) (r : bytes) :
  2 <= m <= 5 -> n < 2 ^ 63 ->
  cb_after m n r = HOk (if m =? 2 then HBin n else if m =? 3 then HStr n else if m =? 4 then HArr n else HMap n) r.
Proof.
  intros Hm Hn. unfold cb_after.
  destruct (m =? 0) eqn:?; [lia|]. destruct (m =? 1) eqn:?; [lia|].
  destruct (2 ^ 63 <=? n) eqn:?; [lia|].
  destruct (m =? 2); [reflexivity|]. destruct (m =? 3); [reflexivity|]. destruct (m =? 4); reflexivity.
Qed.

Lemma cb_after_0 n r : cb_after 0 n r = HOk (HInt KU64 (Z.of_N n)) r.
Proof. reflexivity. Qed.

Lemma cb_after_1 n r : n < 9223372036854775808 -> cb_after 1 n r = HOk (HInt KI64 (-1 - Z.of_N n)) r.
Proof.
  intros H. unfold cb_after. change (1 =? 0) with false. change (1 =? 1) with true. cbv iota.
  change (2 ^ 63) with 9223372036854775808. destruct (n <? 9223372036854775808) eqn:E; [reflexivity | lia].
Qed.

Lemma cb_rw_simple t h r :
  t = 0xf4 /\ h = HBool false \/ t = 0xf5 /\ h = HBool true \/ t = 0xf6 /\ h = HNull ->
  cb_read_head (n2b t :: r) = HOk h r.
Proof.
  intros [[-> ->]|[[-> ->]|[-> ->]]]; unfold cb_read_head; cbv zeta; rewrite b2n_n2b_small by lia; closed_ifs; reflexivity.
Qed.

Lemma cb_rw_int k z r : int_in_range k z = true ->
  cb_read_head (cb_write_head (HInt k z) ++ r) = HOk (cb_canon_head (HInt k z)) r.
Proof.
  intros Hwf. cbn [cb_write_head cb_canon_head].
  assert (Hr : (- 9223372036854775808 <= z < 18446744073709551616)%Z).
  { destruct k; unfold int_in_range in Hwf; apply andb_true_iff in Hwf; destruct Hwf as [A B];
      change (2 ^ 63)%Z with 9223372036854775808%Z in *; change (2 ^ 64)%Z with 18446744073709551616%Z in *; lia. }
  destruct (z <? 0)%Z eqn:Es.
  - change 0x20 with (32 * 1). rewrite cb_read_uint by lia.
    rewrite cb_after_1 by lia. f_equal. f_equal. lia.
  - change 0x00 with (32 * 0).
    rewrite cb_read_uint by lia. rewrite cb_after_0. f_equal. f_equal. lia.
Qed.

Lemma cb_rw_float f r : f < 18446744073709551616 ->
  cb_read_head (cb_write_head (HFloat f) ++ r) = HOk (HFloat f) r.
Proof.
  intros Hwf. cbn [cb_write_head app].
  unfold cb_read_head. cbv zeta. rewrite b2n_n2b_small by lia. closed_ifs.
  rewrite take_be8, be_dec_enc_8 by lia. reflexivity.
Qed.

Lemma cb_rw_container (m n : N) (r : bytes) :
  2 <= m <= 5 -> n < 2 ^ 63 ->
  cb_read_head (cb_uint (32 * m) n ++ r)
  = HOk (if m =? 2 then HBin n else if m =? 3 then HStr n else if m =? 4 then HArr n else HMap n) r.
Proof.
  intros Hm Hn. assert (Hn' : n < 18446744073709551616) by (change (2 ^ 63) with 9223372036854775808 in Hn; lia).
  rewrite cb_read_uint by lia. apply cb_after_len; assumption.
Qed.

Lemma cb_read_write (h : head) (r : bytes) :
  cb_wf_head h = true -> cb_read_head (cb_write_head h ++ r) = HOk (cb_canon_head h) r.
Proof.
  destruct h as [| [|] | k z | f | n | n | n | n]; intros Hwf.
  - apply cb_rw_simple. auto.
  - apply cb_rw_simple. auto.
  - apply cb_rw_simple. auto.
  - apply cb_rw_int. exact Hwf.
  - apply cb_rw_float. apply N.ltb_lt in Hwf. exact Hwf.
  - apply N.ltb_lt in Hwf. exact (cb_rw_container 3 n r ltac:(lia) Hwf).
  - apply N.ltb_lt in Hwf. exact (cb_rw_container 2 n r ltac:(lia) Hwf).
  - apply N.ltb_lt in Hwf. exact (cb_rw_container 4 n r ltac:(lia) Hwf).
  - apply N.ltb_lt in Hwf. exact (cb_rw_container 5 n r ltac:(lia) Hwf).
Qed.

Lemma cb_canon_shape (h : head) :
  match h with
  | HInt k z => exists k', cb_canon_head h = HInt k' z
  | _ => cb_canon_head h = h
  end.
Proof.
  destruct h as [| b | k z | f | n | n | n | n]; cbn [cb_canon_head]; try reflexivity.
  destruct (z <? 0)%Z; [exists KI64 | exists KU64]; reflexivity.
Qed.

Lemma cb_uint_nonempty bd v : (1 <= length (cb_uint bd v))%nat.
Proof.
  unfold cb_uint. repeat match goal with |- context [if ?c then _ else _] => destruct c end; cbn [length]; lia.
Qed.

Lemma cb_write_nonempty (h : head) : (1 <= length (cb_write_head h))%nat.
Proof.
  destruct h as [| [|] | k z | f | n | n | n | n]; cbn [cb_write_head length]; try lia; try apply cb_uint_nonempty.
  destruct (z <? 0)%Z; apply cb_uint_nonempty.
Qed.

Lemma cb_read_arg_consumes info r0 n r' : cb_read_arg info r0 = AOk n r' -> (length r' <= length r0)%nat.
Proof.
  unfold cb_read_arg. intros H.
  destruct (info <=? 23); [injection H as _ <-; lia|].
  destruct (info <=? 27).
  - destruct (take _ r0) as [[a r1]|] eqn:T; [|discriminate]. injection H as _ <-. apply take_rest_length in T. exact T.
  - destruct (info =? 31); discriminate.
Qed.

Lemma cb_read_consumes (bs : bytes) (h : head) (r : bytes) :
  cb_read_head bs = HOk h r -> (length r < length bs)%nat.
Proof.
  destruct bs as [|b r0]; [discriminate|]. unfold cb_read_head. cbv zeta. cbn [length]. intros H.
  destruct (b2n b / 32 =? 7).
  - repeat match type of H with (if ?c then _ else _) = _ => destruct c end; try discriminate;
      try (injection H as _ <-; lia).
    destruct (take 8 r0) as [[a r1]|] eqn:T; [|discriminate]. injection H as _ <-.
    apply take_rest_length in T. lia.
  - destruct (b2n b / 32 =? 6); [discriminate|].
    destruct (cb_read_arg (b2n b mod 32) r0) as [n r'| |] eqn:A.
    + apply cb_read_arg_consumes in A.
      repeat match type of H with (if ?c then _ else _) = _ => destruct c end; try discriminate;
        injection H as _ <-; lia.
    + discriminate.
    + destruct (b2n b / 32 <=? 1); discriminate.
Qed.

(** ** CBOR: round trip on the whole value universe, totality *)

Definition cb_wfv : value -> bool := wfv cb_wf_head.

Theorem cb_roundtrip_max (v : value) (r : bytes) :
  cb_wfv v = true -> (depth v <= max_nesting)%nat ->
  cb_decode (cb_encode v ++ r) = DOk (canon_by cb_canon_head v) r.
Proof.
  intros Hwf Hd. unfold cb_decode, cb_encode, cb_wfv in *.
  apply (decode_encode cb_write_head cb_read_head true cb_canon_head cb_wf_head
           cb_read_write cb_canon_shape cb_write_nonempty); assumption.
Qed.

Theorem cb_roundtrip_any_depth (v : value) (r : bytes) (d fuel : nat) :
  cb_wfv v = true -> (depth v <= d)%nat -> (2 * length (cb_encode v ++ r) + 1 <= fuel)%nat ->
  dec cb_read_head true d fuel (cb_encode v ++ r) = DOk (canon_by cb_canon_head v) r.
Proof.
  intros Hwf Hd Hf. unfold cb_encode, cb_wfv in *.
  apply (dec_enc cb_write_head cb_read_head true cb_canon_head cb_wf_head
           cb_read_write cb_canon_shape cb_write_nonempty); assumption.
Qed.

Theorem cb_decode_total (bs : bytes) : cb_decode bs <> DFuel.
Proof. unfold cb_decode. apply decode_total. apply cb_read_consumes. Qed.
