(** * Codec.Schema — the shape of what the translator reads from
    /repo/wamp/message.go and /repo/transport/serialize/*.go (definitions only).

    [coq/gen/GenC14Schema.v] (regenerated on every run) is a term of these
    types; [MsgList.v] is generic over it; [C14Conf.v] states what the proofs
    need of it ([schema_ok gen_schema = true], handle options, code rules,
    recognised function shapes). *)
From Coq Require Import List ZArith Bool String.
Import ListNotations.

(** Go type of a message struct field *)
Inductive fkind :=
| FKId        (* wamp.ID           uint64 *)
| FKUri       (* wamp.URI          string *)
| FKStr       (* string *)
| FKDict      (* wamp.Dict         map[string]any *)
| FKList      (* wamp.List         []any *)
| FKMsgType   (* wamp.MessageType  int *)
| FKOther.    (* anything else: not understood *)

Record field := { f_name : string; f_kind : fkind; f_omit : bool (* `wamp:"omitempty"` *) }.

(** a struct with a [MessageType()] method returning the constant [s_code] *)
Record sdesc := { s_name : string; s_code : Z; s_fields : list field }.

(** fields pre-filled by a [NewMessage] case ([&Error{Type: t, Details: Dict{}}]) *)
Inductive pfv := PFCode | PFEmptyDict | PFEmptyList.

(** one case of the [NewMessage] switch *)
Record newcase := { n_code : Z; n_struct : string; n_prefill : list (string * pfv) }.

Record schema := { sc_structs : list sdesc; sc_new : list newcase }.

(** How a [Deserialize] method reads the message code from item 0 *)
Inductive code_rule :=
| CRUint64Only      (* v[0].(uint64), typ := int(utyp)                     (JSON, CBOR) *)
| CRInt64OrUint64   (* v[0].(int64), else uint64 <= math.MaxInt            (MessagePack) *)
| CRUnknown.

(** How a [Deserialize] method obtains the item list *)
Inductive top_rule :=
| TRIntoSlice       (* var v []any; Decode(&v)           — a stream MAP is flattened into the slice *)
| TRAnyThenAssert   (* var x any; Decode(&x); x.([]any)  — anything but an array is rejected *)
| TRUnknown.

(** Whether [listToMsg] guards the reflect conversion *)
Inductive conv_rule :=
| CVReflect         (* arg.Type().ConvertibleTo(f.Type())                 — Go's conversion table *)
| CVExact           (* … && value-preserving (no int->string, no wrap, no truncation) *)
| CVUnknown.

Record ser_shape := {
  sh_code_json : code_rule; sh_code_msgpack : code_rule; sh_code_cbor : code_rule;
  sh_top_json : top_rule; sh_top_msgpack : top_rule; sh_top_cbor : top_rule;
  sh_conv : conv_rule;
  (* msgToList *)
  sh_m2l_trailing_loop : bool;    (* for last := NumField-1; last > 0; last-- { if !omitempty || Len > 0 {break} } *)
  sh_m2l_keeps_prefix : bool;     (* ret has last+2 items: code, then fields 0..last in order *)
  (* listToMsg *)
  sh_l2m_unknown_code_err : bool; (* NewMessage(t) == nil -> error *)
  sh_l2m_loop_bounds : bool;      (* i < NumField && i < len(vlist)-1 *)
  sh_l2m_nil_skip : bool;         (* vlist[i+1] == nil -> continue *)
  sh_l2m_cascade_order : bool;    (* assignable, convertible, kind mismatch -> error, map, slice, panic *)
  (* JSON binary convention *)
  sh_bin_prefix_nul : bool        (* BinaryData.MarshalJSON: "\x00" + base64.StdEncoding *)
}.

Definition fkind_eqb (a b : fkind) : bool :=
  match a, b with
  | FKId, FKId | FKUri, FKUri | FKStr, FKStr | FKDict, FKDict | FKList, FKList
  | FKMsgType, FKMsgType | FKOther, FKOther => true
  | _, _ => false
  end.

Fixpoint find_struct (n : string) (l : list sdesc) : option sdesc :=
  match l with
  | [] => None
  | s :: t => if String.eqb n (s_name s) then Some s else find_struct n t
  end.

Fixpoint find_new (c : Z) (l : list newcase) : option newcase :=
  match l with
  | [] => None
  | n :: t => if Z.eqb c (n_code n) then Some n else find_new c t
  end.

Fixpoint find_prefill (n : string) (l : list (string * pfv)) : option pfv :=
  match l with
  | [] => None
  | (k, v) :: t => if String.eqb n k then Some v else find_prefill n t
  end.

(** ** What the C14 proofs need of a schema (decidable; checked on the
    generated term by [vm_compute] on every run). *)

(** an omitempty tag only on kinds that have a [Len()] (else [msgToList] panics) *)
Definition field_ok (f : field) : bool :=
  negb (fkind_eqb (f_kind f) FKOther)
  && (negb (f_omit f)
      || fkind_eqb (f_kind f) FKDict || fkind_eqb (f_kind f) FKList
      || fkind_eqb (f_kind f) FKUri || fkind_eqb (f_kind f) FKStr).

(** a pre-filled field exists and has the kind of the pre-filled value *)
Definition prefill_ok (fs : list field) (p : string * pfv) : bool :=
  existsb (fun f => String.eqb (f_name f) (fst p)
                    && match snd p with
                       | PFCode => fkind_eqb (f_kind f) FKMsgType
                       | PFEmptyDict => fkind_eqb (f_kind f) FKDict
                       | PFEmptyList => fkind_eqb (f_kind f) FKList
                       end) fs.

Fixpoint names_nodup (l : list string) : bool :=
  match l with
  | [] => true
  | x :: t => negb (existsb (String.eqb x) t) && names_nodup t
  end.

Fixpoint codes_nodup (l : list Z) : bool :=
  match l with
  | [] => true
  | x :: t => negb (existsb (Z.eqb x) t) && codes_nodup t
  end.

Definition struct_ok (sc : schema) (s : sdesc) : bool :=
  forallb field_ok (s_fields s)
  && names_nodup (map f_name (s_fields s))
  && (Z.leb 0 (s_code s) && Z.ltb (s_code s) (2 ^ 63))%Z
  (* NewMessage(MessageType()) gives this very struct back *)
  && match find_new (s_code s) (sc_new sc) with
     | Some n => String.eqb (n_struct n) (s_name s)
                 && forallb (prefill_ok (s_fields s)) (n_prefill n)
     | None => false
     end.

Definition new_ok (sc : schema) (n : newcase) : bool :=
  match find_struct (n_struct n) (sc_structs sc) with
  | Some s => Z.eqb (s_code s) (n_code n)
  | None => false
  end.

Definition schema_ok (sc : schema) : bool :=
  forallb (struct_ok sc) (sc_structs sc)
  && forallb (new_ok sc) (sc_new sc)
  && names_nodup (map s_name (sc_structs sc))
  && codes_nodup (map n_code (sc_new sc)).
