(** * Codec.C14Conf — per-run conformance of what the translator read from
    /repo TODAY (coq/gen/GenC14Schema.v) with what the C14 proofs need:
    the schema is well formed ([schema_ok]: every message struct has known
    field kinds, omitempty only on kinds with a length, NewMessage and
    MessageType() agree, ERROR's pre-filled fields exist with the right kind)
    and the MessagePack handle has the options the model was proved for.
    Decided by computation on the generated term. *)
From Coq Require Import List ZArith Bool String.
From Coq Require Import NArith.
From Coq Require Import Strings.Byte.
From Nexus Require Import Codec.Bytes Codec.Values Codec.Tlv Codec.Schema Codec.MsgPack Codec.MsgList Codec.Serial
     Codec.SerialProofs gen.GenC14Schema.
Import ListNotations.

Lemma gen_schema_ok : schema_ok gen_schema = true.
Proof. vm_compute. reflexivity. Qed.

Lemma gen_mp_opts_ok : gen_mp_opts = mp_opts_nexus.
Proof. reflexivity. Qed.

(** all message codes the translator saw have a NewMessage case and a struct *)
Lemma gen_codes_covered :
  forallb (fun p => match find_new (snd p) (sc_new gen_schema) with Some _ => true | None => false end) gen_codes = true.
Proof. vm_compute. reflexivity. Qed.

(** ** Witnesses against the UNREPAIRED behaviour (the faithful model of a
    tree whose listToMsg uses reflect's conversion table / whose Deserialize
    decodes straight into a []any).  Each is replayed on the real code by the
    check (go/cmd/c14drive probe). *)

Definition b (l : list N) : bytes := map n2b l.

(** [32, 1, {}, 65]: the integer 65 where SUBSCRIBE.Topic (a URI) is expected *)
Definition w_int_for_uri : list value := [VInt KU64 32; VInt KU64 1; VDict []; VInt KU64 65].
(** [32, -1, {}, "a"]: a negative Request id *)
Definition w_negative_id : list value := [VInt KU64 32; VInt KI64 (-1); VDict []; VStr (b [97])].
(** [8, 2^64-1, 1, {}, "a"]: ERROR.Type out of the int range *)
Definition w_big_msgtype : list value :=
  [VInt KU64 8; VInt KU64 18446744073709551615; VInt KU64 1; VDict []; VStr (b [97])].

Lemma reflect_accepts_int_for_uri :
  from_list CVReflect CRUint64Only gen_schema w_int_for_uri
  = OOk {| m_struct := "Subscribe"; m_fields := [FId 1; FDict (Some []); FStr (b [65])] |}.
Proof. vm_compute. reflexivity. Qed.

Lemma reflect_accepts_negative_id :
  from_list CVReflect CRUint64Only gen_schema w_negative_id
  = OOk {| m_struct := "Subscribe"; m_fields := [FId 18446744073709551615; FDict (Some []); FStr (b [97])] |}.
Proof. vm_compute. reflexivity. Qed.

Lemma reflect_accepts_big_msgtype :
  from_list CVReflect CRUint64Only gen_schema w_big_msgtype
  = OOk {| m_struct := "Error"; m_fields := [FMt (-1); FId 1; FDict (Some []); FStr (b [97]); FList None; FDict None] |}.
Proof. vm_compute. reflexivity. Qed.

Lemma not_compatible (vlist : list value) (c : value) (rest : list value) (code : Z) (n : newcase) (s : sdesc) :
  vlist = c :: rest -> code_of CRUint64Only c = Some code ->
  find_new code (sc_new gen_schema) = Some n -> find_struct (n_struct n) (sc_structs gen_schema) = Some s ->
  fields_compatible_l (s_fields s) rest = false ->
  ~ fields_compatible CRUint64Only gen_schema vlist.
Proof.
  intros E1 E2 E3 E4 E5 H. specialize (H c rest code n s E1 E2 E3 E4). congruence.
Qed.

Lemma list_to_msg_compat_refuted_proof :
  exists (vlist : list value) (m : msg),
    from_list CVReflect CRUint64Only gen_schema vlist = OOk m
    /\ ~ fields_compatible CRUint64Only gen_schema vlist.
Proof.
  exists w_int_for_uri. eexists. split; [exact reflect_accepts_int_for_uri|].
  eapply not_compatible; [reflexivity | vm_compute; reflexivity | vm_compute; reflexivity | vm_compute; reflexivity | vm_compute; reflexivity].
Qed.

(** the MessagePack MAP {16: 1, {}: "a.b"} comes out as the PUBLISH [16, 1, {}, "a.b"] *)
Definition w_map_bytes : bytes := b [0x82; 0x10; 0x01; 0x80; 0xa3; 0x61; 0x2e; 0x62].

Lemma deserialize_map_refuted_proof :
  exists (bs : bytes) (m : msg),
    deserialize (fun _ => None) gen_mp_opts unrepaired_shape gen_schema FMsgpack bs = OOk m
    /\ (forall l r, mp_decode gen_mp_opts bs <> DOk (VList l) r).
Proof.
  exists w_map_bytes. eexists. split; [vm_compute; reflexivity|].
  intros l r. vm_compute. discriminate.
Qed.

(** the guarded conversion and the list-only top level reject all of them *)
Lemma exact_rejects_witnesses :
  from_list CVExact CRUint64Only gen_schema w_int_for_uri = OErr (EField 3)
  /\ from_list CVExact CRUint64Only gen_schema w_negative_id = OErr (EField 1)
  /\ from_list CVExact CRUint64Only gen_schema w_big_msgtype = OErr (EField 1)
  /\ deserialize (fun _ => None) gen_mp_opts intended_shape gen_schema FMsgpack w_map_bytes = OErr EDecode.
Proof. repeat split; vm_compute; reflexivity. Qed.
