(** * Codec.TlvProofs — round trip and totality of the generic header-driven
    codec, for ANY header layout satisfying four local facts.  MsgPackProofs
    and CborProofs establish the four facts for their layouts. *)
From Coq Require Import List NArith ZArith Bool Lia.
From Coq Require Import Strings.Byte.
From Coq Require Import ZifyN ZifyNat ZifyBool.
From Nexus Require Import Codec.Bytes Codec.BytesProofs Codec.Values Codec.Tlv.
Import ListNotations.

(** ** [value_norm] is the identity on values whose dicts have distinct keys *)

Lemma existsb_false_forall {A} (p : A -> bool) (l : list A) :
  existsb p l = false -> forall x, In x l -> p x = false.
Proof.
  induction l as [|a l IH]; cbn [existsb]; intros H x Hx; [destruct Hx|].
  apply orb_false_iff in H. destruct H as [Ha Hl]. destruct Hx as [<-|Hx]; auto.
Qed.

Lemma dict_put_fresh {A} (k : bytes) (v : A) (d : list (bytes * A)) :
  existsb (bytes_eqb k) (map fst d) = false -> dict_put k v d = d ++ [(k, v)].
Proof.
  induction d as [|[k' v'] d IH]; cbn [dict_put map existsb fst app]; intros H; [reflexivity|].
  apply orb_false_iff in H. destruct H as [H1 H2]. rewrite H1, IH by exact H2. reflexivity.
Qed.

Lemma dict_norm_acc {A} (d acc : list (bytes * A)) :
  keys_nodup (map fst d) = true ->
  (forall k, In k (map fst d) -> existsb (bytes_eqb k) (map fst acc) = false) ->
  fold_left (fun acc kv => dict_put (fst kv) (snd kv) acc) d acc = acc ++ d.
Proof.
  revert acc. induction d as [|[k v] d IH]; intros acc Hnd Hdis; cbn [fold_left].
  - rewrite app_nil_r. reflexivity.
  - cbn [map fst keys_nodup] in Hnd. apply andb_true_iff in Hnd. destruct Hnd as [Hk Hnd].
    apply negb_true_iff in Hk.
    cbn [fst snd]. rewrite dict_put_fresh by (apply Hdis; left; reflexivity).
    rewrite IH.
    + rewrite <- app_assoc. reflexivity.
    + exact Hnd.
    + intros k' Hk'. rewrite map_app, existsb_app. cbn [map fst existsb].
      rewrite (Hdis k') by (right; exact Hk'). cbn [orb]. rewrite orb_false_r.
      (* k' <> k because k does not occur in the keys of d *)
      pose proof (existsb_false_forall _ _ Hk k' Hk') as E.
      destruct (bytes_eqb k' k) eqn:E2; [|reflexivity].
      apply bytes_eqb_eq in E2. subst k'. rewrite bytes_eqb_refl in E. discriminate.
Qed.

Lemma dict_norm_id {A} (d : list (bytes * A)) : keys_nodup (map fst d) = true -> dict_norm d = d.
Proof.
  intros H. unfold dict_norm. rewrite dict_norm_acc; [reflexivity | exact H | intros; reflexivity].
Qed.

Lemma map_id_Forall {A} (f : A -> A) (l : list A) : Forall (fun x => f x = x) l -> map f l = l.
Proof. induction 1 as [|x l Hx _ IH]; cbn [map]; [reflexivity | rewrite Hx, IH; reflexivity]. Qed.

Lemma value_norm_id (v : value) : dicts_ok v = true -> value_norm v = v.
Proof.
  induction v as [| | | | | |l IH|d IH] using value_ind'; intros H; try reflexivity.
  - cbn [value_norm dicts_ok] in *. f_equal. apply map_id_Forall.
    rewrite forallb_forall in H. rewrite Forall_forall in *. intros x Hx. apply IH; auto.
  - cbn [value_norm dicts_ok] in *. apply andb_true_iff in H. destruct H as [Hk Hd].
    assert (E : map (fun kv : bytes * value => (fst kv, value_norm (snd kv))) d = d).
    { apply map_id_Forall. rewrite forallb_forall in Hd. rewrite Forall_forall in *.
      intros [k x] Hx. cbn [fst snd]. f_equal. apply (IH (k, x) Hx). apply (Hd (k, x) Hx). }
    rewrite E, dict_norm_id by exact Hk. reflexivity.
Qed.

Lemma Nsucc_eqb0 (x : N) : (N.succ x =? 0)%N = false.
Proof. apply N.eqb_neq. lia. Qed.

Section Generic.
  Variable write_head : head -> bytes.
  Variable read_head : bytes -> hres.
  Variable lax_keys : bool.
  Variable canon_head : head -> head.
  Variable wf_head : head -> bool.

  (** the four facts about a header layout *)
  Hypothesis read_write : forall h r, wf_head h = true -> read_head (write_head h ++ r) = HOk (canon_head h) r.
  Hypothesis canon_shape :
    forall h, match h with
              | HInt k z => exists k', canon_head h = HInt k' z
              | _ => canon_head h = h
              end.
  Hypothesis write_nonempty : forall h, (1 <= length (write_head h))%nat.

  Notation enc := (enc write_head).
  Notation dec := (dec read_head lax_keys).
  Notation dec_seq := (dec_seq read_head lax_keys).
  Notation dec_map := (dec_map read_head lax_keys).
  Notation dec_key := (dec_key read_head lax_keys).
  Notation wfv := (wfv wf_head).
  Notation canon := (canon_by canon_head).

  Lemma dec_S d f bs :
    dec d (S f) bs =
    match read_head bs with
    | HErr => DErr
    | HUnsup => DUnsup
    | HOk h r =>
        match h with
        | HNull => DOk VNull r
        | HBool b => DOk (VBool b) r
        | HInt k z => DOk (VInt k z) r
        | HFloat x => DOk (VFloat x) r
        | HStr n => match take n r with Some (s, r') => DOk (VStr s) r' | None => DErr end
        | HBin n => match take n r with Some (s, r') => DOk (VBin s) r' | None => DErr end
        | HArr n =>
            match d with
            | O => DErr
            | S d' =>
                match dec_seq d' f n r with
                | SOk l r' => DOk (VList l) r'
                | SErr => DErr | SUnsup => DUnsup | SFuel => DFuel
                end
            end
        | HMap n =>
            match d with
            | O => DErr
            | S d' =>
                match dec_map d' f n r with
                | MOk m r' => DOk (VDict m) r'
                | MErr => DErr | MUnsup => DUnsup | MFuel => DFuel
                end
            end
        end
    end.
  Proof. reflexivity. Qed.

  Lemma dec_seq_S d f n bs :
    dec_seq d (S f) n bs =
    if (n =? 0)%N then SOk [] bs
    else match dec d f bs with
         | DOk v r =>
             match dec_seq d f (N.pred n) r with
             | SOk l r' => SOk (v :: l) r'
             | e => e
             end
         | DErr => SErr | DUnsup => SUnsup | DFuel => SFuel
         end.
  Proof. reflexivity. Qed.

  Lemma dec_map_S d f n bs :
    dec_map d (S f) n bs =
    if (n =? 0)%N then MOk [] bs
    else match dec_key bs with
         | None => MUnsup
         | Some None => MErr
         | Some (Some (k, r)) =>
             match dec d f r with
             | DOk v r' =>
                 match dec_map d f (N.pred n) r' with
                 | MOk m r'' => MOk ((k, v) :: m) r''
                 | e => e
                 end
             | DErr => MErr | DUnsup => MUnsup | DFuel => MFuel
             end
         end.
  Proof. reflexivity. Qed.

  Lemma enc_nonempty (v : value) : (1 <= length (enc v))%nat.
  Proof.
    destruct v; cbn [Tlv.enc]; rewrite ?app_length; pose proof (write_nonempty HNull);
      match goal with |- context [write_head ?h] => pose proof (write_nonempty h) end; lia.
  Qed.

  Lemma canon_not_int (h : head) : (forall k z, h <> HInt k z) -> canon_head h = h.
  Proof. intros H. pose proof (canon_shape h) as C. destruct h; try exact C. exfalso. eapply H. reflexivity. Qed.

  (** the sequence and map loops, given the round trip of each element *)
  Lemma dec_seq_enc (l : list value) :
    Forall (fun v => forall d fuel r, (depth v <= d)%nat -> (2 * length (enc v ++ r) + 1 <= fuel)%nat ->
                                      dec d fuel (enc v ++ r) = DOk (canon v) r) l ->
    forall d fuel r,
      Forall (fun v => (depth v <= d)%nat) l ->
      (2 * length (concat (map enc l) ++ r) + 2 <= fuel)%nat ->
      dec_seq d fuel (len l) (concat (map enc l) ++ r) = SOk (map canon l) r.
  Proof.
    induction 1 as [|v l Hv _ IH]; intros d fuel r Hd Hf.
    - destruct fuel as [|f]; [lia|]. rewrite dec_seq_S. rewrite len_nil. reflexivity.
    - destruct fuel as [|f]; [lia|].
      cbn [map concat] in *. rewrite <- app_assoc in *.
      inversion Hd as [|? ? Hdv Hdl]; subst.
      rewrite dec_seq_S. rewrite len_cons.
      rewrite Nsucc_eqb0.
      rewrite Hv by (try assumption; lia).
      rewrite N.pred_succ.
      pose proof (enc_nonempty v) as Hne. rewrite app_length in Hf.
      rewrite IH by (try assumption; lia). reflexivity.
  Qed.

  Lemma dec_key_enc (k : bytes) (r : bytes) :
    wf_head (HStr (len k)) = true ->
    dec_key (write_head (HStr (len k)) ++ k ++ r) = Some (Some (k, r)).
  Proof.
    intros H. unfold Tlv.dec_key. rewrite read_write by exact H.
    rewrite canon_not_int by (intros; discriminate). rewrite take_app. reflexivity.
  Qed.

  Lemma dec_map_enc (m : list (bytes * value)) :
    Forall (fun kv => wf_head (HStr (len (fst kv))) = true /\
                      forall d fuel r, (depth (snd kv) <= d)%nat -> (2 * length (enc (snd kv) ++ r) + 1 <= fuel)%nat ->
                                       dec d fuel (enc (snd kv) ++ r) = DOk (canon (snd kv)) r) m ->
    forall d fuel r,
      Forall (fun kv => (depth (snd kv) <= d)%nat) m ->
      (2 * length (concat (map (fun kv => write_head (HStr (len (fst kv))) ++ fst kv ++ enc (snd kv)) m) ++ r) + 2 <= fuel)%nat ->
      dec_map d fuel (len m) (concat (map (fun kv => write_head (HStr (len (fst kv))) ++ fst kv ++ enc (snd kv)) m) ++ r)
      = MOk (map (fun kv => (fst kv, canon (snd kv))) m) r.
  Proof.
    induction 1 as [|[k v] m [Hk Hv] _ IH]; intros d fuel r Hd Hf.
    - destruct fuel as [|f]; [lia|]. rewrite dec_map_S. rewrite len_nil. reflexivity.
    - destruct fuel as [|f]; [lia|].
      cbn [map concat fst snd] in *. repeat rewrite <- app_assoc in *.
      inversion Hd as [|? ? Hdv Hdl]; subst. cbn [snd] in Hdv.
      rewrite dec_map_S. rewrite len_cons.
      rewrite Nsucc_eqb0.
      rewrite dec_key_enc by exact Hk.
      do 3 rewrite app_length in Hf.
      pose proof (write_nonempty (HStr (len k))) as Hw.
      pose proof (enc_nonempty v) as Hne.
      rewrite Hv by (try assumption; rewrite app_length; lia).
      rewrite N.pred_succ.
      rewrite IH by (try assumption; lia). reflexivity.
  Qed.

  Lemma fold_max_le (l : list value) (d : nat) :
    (fold_right (fun x acc => Nat.max (depth x) acc) O l <= d)%nat -> Forall (fun v => (depth v <= d)%nat) l.
  Proof.
    induction l as [|x l IH]; cbn [fold_right]; intros H; constructor; [lia | apply IH; lia].
  Qed.

  Lemma fold_max_le_dict (m : list (bytes * value)) (d : nat) :
    (fold_right (fun kv acc => Nat.max (depth (snd kv)) acc) O m <= d)%nat ->
    Forall (fun kv => (depth (snd kv) <= d)%nat) m.
  Proof.
    induction m as [|x m IH]; cbn [fold_right]; intros H; constructor; [lia | apply IH; lia].
  Qed.

  (** ** Round trip *)
  Theorem dec_enc (v : value) :
    wfv v = true ->
    forall d fuel r, (depth v <= d)%nat -> (2 * length (enc v ++ r) + 1 <= fuel)%nat ->
                     dec d fuel (enc v ++ r) = DOk (canon v) r.
  Proof.
    induction v as [| b | k z | f | s | s | l IH | m IH] using value_ind'; intros Hwf d fuel r Hd Hf;
      (destruct fuel as [|fu]; [lia|]); cbn [Tlv.enc Tlv.wfv canon_by] in *.
    - rewrite dec_S. rewrite read_write by exact Hwf.
      rewrite canon_not_int by (intros; discriminate). reflexivity.
    - rewrite dec_S. rewrite read_write by exact Hwf.
      rewrite canon_not_int by (intros; discriminate). reflexivity.
    - rewrite dec_S. rewrite read_write by exact Hwf.
      destruct (canon_shape (HInt k z)) as [k' E]. rewrite E. reflexivity.
    - rewrite dec_S. rewrite read_write by exact Hwf.
      rewrite canon_not_int by (intros; discriminate). reflexivity.
    - rewrite dec_S. rewrite <- app_assoc. rewrite read_write by exact Hwf.
      rewrite canon_not_int by (intros; discriminate). rewrite take_app. reflexivity.
    - rewrite dec_S. rewrite <- app_assoc. rewrite read_write by exact Hwf.
      rewrite canon_not_int by (intros; discriminate). rewrite take_app. reflexivity.
    - apply andb_true_iff in Hwf. destruct Hwf as [Hh Hl].
      rewrite dec_S. rewrite <- app_assoc. rewrite read_write by exact Hh.
      rewrite canon_not_int by (intros; discriminate).
      cbn [depth] in Hd. destruct d as [|d']; [lia|].
      rewrite <- app_assoc, app_length in Hf. pose proof (write_nonempty (HArr (len l))) as Hw.
      rewrite dec_seq_enc.
      + reflexivity.
      + rewrite forallb_forall in Hl. rewrite Forall_forall in *. intros x Hx. apply IH; auto.
      + apply fold_max_le. lia.
      + lia.
    - apply andb_true_iff in Hwf. destruct Hwf as [Hh Hl]. apply andb_true_iff in Hh. destruct Hh as [Hh Hnd].
      rewrite dec_S. rewrite <- app_assoc. rewrite read_write by exact Hh.
      rewrite canon_not_int by (intros; discriminate).
      cbn [depth] in Hd. destruct d as [|d']; [lia|].
      rewrite <- app_assoc, app_length in Hf. pose proof (write_nonempty (HMap (len m))) as Hw.
      rewrite dec_map_enc.
      + reflexivity.
      + rewrite forallb_forall in Hl. rewrite Forall_forall in *. intros [k x] Hx.
        specialize (Hl (k, x) Hx). apply andb_true_iff in Hl. destruct Hl as [Hk Hx'].
        cbn [fst snd] in *. split; [exact Hk|]. apply (IH (k, x) Hx). exact Hx'.
      + apply fold_max_le_dict. lia.
      + lia.
  Qed.

  (** ** The top-level statements *)

  Lemma wfv_dicts_ok (v : value) : wfv v = true -> dicts_ok v = true.
  Proof.
    induction v as [| | | | | |l IH|m IH] using value_ind'; intros H; try reflexivity; cbn [Tlv.wfv dicts_ok] in *.
    - apply andb_true_iff in H. destruct H as [_ H]. rewrite forallb_forall in *. rewrite Forall_forall in IH. auto.
    - apply andb_true_iff in H. destruct H as [H Hl]. apply andb_true_iff in H. destruct H as [_ Hk].
      rewrite Hk. cbn [andb]. rewrite forallb_forall in *. rewrite Forall_forall in IH.
      intros [k x] Hx. specialize (Hl (k, x) Hx). apply andb_true_iff in Hl. destruct Hl as [_ Hl].
      apply (IH (k, x) Hx). exact Hl.
  Qed.

  Lemma canon_dicts_ok (v : value) : dicts_ok v = true -> dicts_ok (canon v) = true.
  Proof.
    induction v as [| | k z | | | |l IH|m IH] using value_ind'; intros H; try reflexivity; cbn [canon_by dicts_ok] in *.
    - destruct (canon_shape (HInt k z)) as [k' E]. rewrite E. reflexivity.
    - rewrite forallb_forall in *. rewrite Forall_forall in IH. intros y Hy. apply in_map_iff in Hy.
      destruct Hy as [x [<- Hx]]. auto.
    - apply andb_true_iff in H. destruct H as [Hk Hl].
      assert (E : map fst (map (fun kv : bytes * value => (fst kv, canon (snd kv))) m) = map fst m)
        by (rewrite map_map; apply map_ext; reflexivity).
      rewrite E, Hk. cbn [andb].
      rewrite forallb_forall in *. rewrite Forall_forall in IH. intros y Hy. apply in_map_iff in Hy.
      destruct Hy as [[k x] [<- Hx]]. cbn [snd]. apply (IH (k, x) Hx). apply (Hl (k, x) Hx).
  Qed.

  Theorem decode_encode (v : value) (r : bytes) :
    wfv v = true -> (depth v <= max_nesting)%nat ->
    decode read_head lax_keys (enc v ++ r) = DOk (canon v) r.
  Proof.
    intros Hwf Hd. unfold decode, decode_raw, fuel_for.
    rewrite dec_enc by (try assumption; lia).
    rewrite canon_dicts_ok by (apply wfv_dicts_ok; exact Hwf). reflexivity.
  Qed.
End Generic.

Section Total.
  Variable read_head : bytes -> hres.
  Variable lax_keys : bool.
  Hypothesis read_consumes : forall bs h r, read_head bs = HOk h r -> (length r < length bs)%nat.

  Notation dec := (dec read_head lax_keys).
  Notation dec_seq := (dec_seq read_head lax_keys).
  Notation dec_map := (dec_map read_head lax_keys).
  Notation dec_key := (dec_key read_head lax_keys).

  (** ** Totality: fuel linear in the input length never runs out, on ANY input *)

  Lemma dec_key_consumes (bs k r : bytes) : dec_key bs = Some (Some (k, r)) -> (length r < length bs)%nat.
  Proof.
    unfold Tlv.dec_key. intros H.
    destruct (read_head bs) as [h r0| |] eqn:E; try discriminate; try (destruct lax_keys; discriminate).
    pose proof (read_consumes _ _ _ E) as Hc.
    destruct h; try (destruct lax_keys; discriminate); try discriminate;
      (destruct (take n r0) as [[a r1]|] eqn:T; [|discriminate]);
      injection H as <- <-; apply take_rest_length in T; lia.
  Qed.

  Lemma dec_result_shorter :
    forall fuel,
      (forall d bs v r, dec d fuel bs = DOk v r -> (length r < length bs)%nat)
      /\ (forall d n bs l r, dec_seq d fuel n bs = SOk l r -> (length r <= length bs)%nat)
      /\ (forall d n bs m r, dec_map d fuel n bs = MOk m r -> (length r <= length bs)%nat).
  Proof.
    induction fuel as [|f [IHd [IHs IHm]]]; (split; [|split]); intros d.
    - intros bs v r H. discriminate.
    - intros n bs l r H. discriminate.
    - intros n bs m r H. discriminate.
    - intros bs v r H. rewrite dec_S in H.
      destruct (read_head bs) as [h r0| |] eqn:E; try discriminate.
      pose proof (read_consumes _ _ _ E) as Hc.
      destruct h.
      + injection H as <- <-. exact Hc.
      + injection H as <- <-. exact Hc.
      + injection H as <- <-. exact Hc.
      + injection H as <- <-. exact Hc.
      + destruct (take n r0) as [[a r1]|] eqn:T; [|discriminate]. injection H as <- <-.
        apply take_rest_length in T. lia.
      + destruct (take n r0) as [[a r1]|] eqn:T; [|discriminate]. injection H as <- <-.
        apply take_rest_length in T. lia.
      + destruct d as [|d']; [discriminate|].
        destruct (Tlv.dec_seq read_head lax_keys d' f n r0) as [l r1| | |] eqn:S; try discriminate.
        injection H as <- <-. apply IHs in S. lia.
      + destruct d as [|d']; [discriminate|].
        destruct (Tlv.dec_map read_head lax_keys d' f n r0) as [l r1| | |] eqn:S; try discriminate.
        injection H as <- <-. apply IHm in S. lia.
    - intros n bs l r H. rewrite dec_seq_S in H.
      destruct (n =? 0)%N; [injection H as <- <-; lia|].
      destruct (Tlv.dec read_head lax_keys d f bs) as [v r0| | |] eqn:D; try discriminate.
      destruct (Tlv.dec_seq read_head lax_keys d f (N.pred n) r0) as [l' r1| | |] eqn:S; try discriminate.
      injection H as <- <-. apply IHd in D. apply IHs in S. lia.
    - intros n bs m r H. rewrite dec_map_S in H.
      destruct (n =? 0)%N; [injection H as <- <-; lia|].
      destruct (Tlv.dec_key read_head lax_keys bs) as [[[k r0]|]|] eqn:K; try discriminate.
      destruct (Tlv.dec read_head lax_keys d f r0) as [v r1| | |] eqn:D; try discriminate.
      destruct (Tlv.dec_map read_head lax_keys d f (N.pred n) r1) as [m' r2| | |] eqn:S; try discriminate.
      injection H as <- <-. apply dec_key_consumes in K. apply IHd in D. apply IHm in S. lia.
  Qed.

  Lemma dec_no_fuel :
    forall fuel,
      (forall d bs, (2 * length bs + 1 <= fuel)%nat -> dec d fuel bs <> DFuel)
      /\ (forall d n bs, (2 * length bs + 2 <= fuel)%nat -> dec_seq d fuel n bs <> SFuel)
      /\ (forall d n bs, (2 * length bs + 2 <= fuel)%nat -> dec_map d fuel n bs <> MFuel).
  Proof.
    induction fuel as [|f [IHd [IHs IHm]]]; (split; [|split]); intros d.
    - intros bs H. lia.
    - intros n bs H. lia.
    - intros n bs H. lia.
    - intros bs Hf. rewrite dec_S.
      destruct (read_head bs) as [h r0| |] eqn:E; try discriminate.
      pose proof (read_consumes _ _ _ E) as Hc.
      destruct h; try discriminate.
      + destruct (take n r0) as [[a r1]|]; discriminate.
      + destruct (take n r0) as [[a r1]|]; discriminate.
      + destruct d as [|d']; [discriminate|].
        destruct (Tlv.dec_seq read_head lax_keys d' f n r0) as [l r1| | |] eqn:S; try discriminate.
        exfalso. eapply IHs; [|exact S]. lia.
      + destruct d as [|d']; [discriminate|].
        destruct (Tlv.dec_map read_head lax_keys d' f n r0) as [l r1| | |] eqn:S; try discriminate.
        exfalso. eapply IHm; [|exact S]. lia.
    - intros n bs Hf. rewrite dec_seq_S.
      destruct (n =? 0)%N; [discriminate|].
      destruct (Tlv.dec read_head lax_keys d f bs) as [v r0| | |] eqn:D; try discriminate.
      + pose proof (proj1 (dec_result_shorter f) _ _ _ _ D) as Hs.
        destruct (Tlv.dec_seq read_head lax_keys d f (N.pred n) r0) as [l' r1| | |] eqn:S; try discriminate.
        exfalso. eapply IHs; [|exact S]. lia.
      + exfalso. eapply IHd; [|exact D]. lia.
    - intros n bs Hf. rewrite dec_map_S.
      destruct (n =? 0)%N; [discriminate|].
      destruct (Tlv.dec_key read_head lax_keys bs) as [[[k r0]|]|] eqn:K; try discriminate.
      pose proof (dec_key_consumes _ _ _ K) as Hk.
      destruct (Tlv.dec read_head lax_keys d f r0) as [v r1| | |] eqn:D; try discriminate.
      + pose proof (proj1 (dec_result_shorter f) _ _ _ _ D) as Hs.
        destruct (Tlv.dec_map read_head lax_keys d f (N.pred n) r1) as [m' r2| | |] eqn:S; try discriminate.
        exfalso. eapply IHm; [|exact S]. lia.
      + exfalso. eapply IHd; [|exact D]. lia.
  Qed.

  Theorem decode_raw_total (bs : bytes) : decode_raw read_head lax_keys bs <> DFuel.
  Proof. unfold decode_raw, fuel_for. apply (proj1 (dec_no_fuel _)). lia. Qed.

  Theorem decode_total (bs : bytes) : decode read_head lax_keys bs <> DFuel.
  Proof.
    unfold decode. pose proof (decode_raw_total bs) as H.
    destruct (decode_raw read_head lax_keys bs) as [v r| | |]; try congruence.
    destruct (dicts_ok v); discriminate.
  Qed.

End Total.
