(** * Codec.Cbor — CBOR header layout as ugorji/go/codec v1.3.1 writes and
    reads it with nexus' handle (definitions only; MODELLED, not verified).

    Outside the model ([HUnsup]): tags, indefinite lengths, half/single
    floats, [undefined], negative integers below -2^63 and lengths >= 2^63
    (which ugorji wraps or reinterprets). *)
From Coq Require Import List NArith ZArith Bool.
From Coq Require Import Strings.Byte.
From Nexus Require Import Codec.Bytes Codec.Values Codec.Tlv.
Import ListNotations.
Open Scope N_scope.

(** [encUint v bd]: major-type base [bd] (multiple of 32) with argument [v] *)
Definition cb_uint (bd : N) (v : N) : bytes :=
  if v <=? 23 then [n2b (bd + v)]
  else if v <=? 255 then [n2b (bd + 24); n2b v]
  else if v <=? 65535 then n2b (bd + 25) :: be_enc 2 v
  else if v <=? 4294967295 then n2b (bd + 26) :: be_enc 4 v
  else n2b (bd + 27) :: be_enc 8 v.

Definition cb_write_head (h : head) : bytes :=
  match h with
  | HNull => [n2b 0xf6]
  | HBool true => [n2b 0xf5]
  | HBool false => [n2b 0xf4]
  | HInt _ z => if (z <? 0)%Z then cb_uint 0x20 (Z.to_N (-1 - z)) else cb_uint 0x00 (Z.to_N z)
  | HFloat f => n2b 0xfb :: be_enc 8 f
  | HStr n => cb_uint 0x60 n
  | HBin n => cb_uint 0x40 n
  | HArr n => cb_uint 0x80 n
  | HMap n => cb_uint 0xa0 n
  end.

Inductive cb_arg := AOk (n : N) (rest : bytes) | AErr | AIndef.

(** [decUint]: the argument of a header whose low five bits are [info] *)
Definition cb_read_arg (info : N) (r : bytes) : cb_arg :=
  if info <=? 23 then AOk info r
  else if info <=? 27 then
    let k := if info =? 24 then 1 else if info =? 25 then 2 else if info =? 26 then 4 else 8 in
    match take k r with
    | Some (a, r') => AOk (be_dec a) r'
    | None => AErr
    end
  else if info =? 31 then AIndef
  else AErr.

Definition cb_read_head (bs : bytes) : hres :=
  match bs with
  | [] => HErr
  | b :: r =>
      let t := b2n b in
      let major := t / 32 in
      let info := t mod 32 in
      if major =? 7 then
        if t =? 0xf4 then HOk (HBool false) r
        else if t =? 0xf5 then HOk (HBool true) r
        else if t =? 0xf6 then HOk HNull r
        else if t =? 0xf7 then HUnsup                      (* undefined: read as nil *)
        else if t =? 0xf9 then HUnsup                      (* half float *)
        else if t =? 0xfa then HUnsup                      (* single float *)
        else if t =? 0xfb then
          match take 8 r with Some (a, r') => HOk (HFloat (be_dec a)) r' | None => HErr end
        else HErr                                          (* other simple values, break *)
      else if major =? 6 then HUnsup                       (* tags *)
      else
        match cb_read_arg info r with
        | AErr => HErr
        | AIndef => if major <=? 1 then HErr else HUnsup
        | AOk n r' =>
            if major =? 0 then HOk (HInt KU64 (Z.of_N n)) r'
            else if major =? 1 then
              if n <? 2 ^ 63 then HOk (HInt KI64 (-1 - Z.of_N n)) r' else HUnsup
            else if 2 ^ 63 <=? n then HUnsup
            else if major =? 2 then HOk (HBin n) r'
            else if major =? 3 then HOk (HStr n) r'
            else if major =? 4 then HOk (HArr n) r'
            else HOk (HMap n) r'
        end
  end.

Definition cb_encode : value -> bytes := enc cb_write_head.
Definition cb_decode : bytes -> dres := decode cb_read_head true.
Definition cb_decode_raw : bytes -> dres := decode_raw cb_read_head true.

(** What decoding an encoded header yields: the integer kind follows the
    sign (major type 0 -> uint64, major type 1 -> int64). *)
Definition cb_canon_head (h : head) : head :=
  match h with
  | HInt _ z => if (z <? 0)%Z then HInt KI64 z else HInt KU64 z
  | _ => h
  end.

(** Headers the layout writes faithfully: integers within the int64 / uint64
    range of their kind, binary64 bit patterns, lengths below 2^63. *)
Definition cb_wf_head (h : head) : bool :=
  match h with
  | HNull | HBool _ => true
  | HInt k z => int_in_range k z
  | HFloat f => f <? 2 ^ 64
  | HStr n | HBin n | HArr n | HMap n => n <? 2 ^ 63
  end.
