(** * Codec.SerialProofs — the three formats' canonical forms satisfy what
    [msglist_roundtrip_generic] needs; end-to-end
    [deserialize (serialize m) = m] (up to numeric kind and nil/empty) for
    MessagePack and CBOR; cross-format agreement of the canonical forms. *)
From Coq Require Import List NArith ZArith Bool String Lia.
From Coq Require Import Strings.Byte.
From Coq Require Import ZifyN ZifyNat ZifyBool.
From Nexus Require Import Codec.Bytes Codec.BytesProofs Codec.Values Codec.Tlv Codec.TlvProofs
     Codec.MsgPack Codec.MsgPackProofs Codec.Cbor Codec.CborProofs Codec.Utf8 Codec.Json Codec.JsonProofs
     Codec.Schema Codec.MsgList Codec.MsgListProofs Codec.Serial Codec.Canon.
Import ListNotations.

(** the repaired / intended shape of the serializer functions *)
Definition intended_shape : ser_shape := {|
  sh_code_json := CRUint64Only; sh_code_msgpack := CRInt64OrUint64; sh_code_cbor := CRUint64Only;
  sh_top_json := TRAnyThenAssert; sh_top_msgpack := TRAnyThenAssert; sh_top_cbor := TRAnyThenAssert;
  sh_conv := CVExact;
  sh_m2l_trailing_loop := true; sh_m2l_keeps_prefix := true;
  sh_l2m_unknown_code_err := true; sh_l2m_loop_bounds := true; sh_l2m_nil_skip := true;
  sh_l2m_cascade_order := true; sh_bin_prefix_nul := true |}.

(** the shape of the UNREPAIRED tree: Go's reflect conversion table in
    listToMsg, items decoded straight into a []any *)
Definition unrepaired_shape : ser_shape := {|
  sh_code_json := CRUint64Only; sh_code_msgpack := CRInt64OrUint64; sh_code_cbor := CRUint64Only;
  sh_top_json := TRIntoSlice; sh_top_msgpack := TRIntoSlice; sh_top_cbor := TRIntoSlice;
  sh_conv := CVReflect;
  sh_m2l_trailing_loop := true; sh_m2l_keeps_prefix := true;
  sh_l2m_unknown_code_err := true; sh_l2m_loop_bounds := true; sh_l2m_nil_skip := true;
  sh_l2m_cascade_order := true; sh_bin_prefix_nul := true |}.

(** ** The canonical forms and the code rules *)

Lemma canon_mp_int k z : int_in_range k z = true ->
  exists k', canon_mp (VInt k z) = VInt k' z /\ int_in_range k' z = true.
Proof.
  intros H. unfold canon_mp. cbn [canon_by mp_canon_head]. destruct k.
  - exists KI64. auto.
  - destruct (z <=? 127)%Z eqn:E.
    + exists KI64. split; [reflexivity|]. apply in_range_u64 in H. apply in_range_i64. lia.
    + exists KU64. auto.
Qed.

Lemma canon_sign_int k z : int_in_range k z = true ->
  exists k', (if (z <? 0)%Z then VInt KI64 z else VInt KU64 z) = VInt k' z /\ int_in_range k' z = true.
Proof.
  intros H. destruct (z <? 0)%Z eqn:E.
  - exists KI64. split; [reflexivity|]. destruct k; [exact H|]. apply in_range_u64 in H. lia.
  - exists KU64. split; [reflexivity|]. apply in_range_u64. destruct k.
    + apply in_range_i64 in H. lia.
    + apply in_range_u64 in H. lia.
Qed.

Lemma canon_cb_int k z : int_in_range k z = true ->
  exists k', canon_cb (VInt k z) = VInt k' z /\ int_in_range k' z = true.
Proof.
  intros H. unfold canon_cb. cbn [canon_by cb_canon_head].
  destruct (canon_sign_int k z H) as [k' [E R]]. exists k'. split; [|exact R].
  destruct (z <? 0)%Z; exact E.
Qed.

Lemma canon_js_int k z : int_in_range k z = true ->
  exists k', canon_js (VInt k z) = VInt k' z /\ int_in_range k' z = true.
Proof. intros H. cbn [canon_js]. apply (canon_sign_int k z H). Qed.

Lemma code_mp code : (0 <= code < 9223372036854775808)%Z ->
  code_of CRInt64OrUint64 (canon_mp (VInt KI64 code)) = Some code.
Proof. reflexivity. Qed.

Lemma code_sign code : (0 <= code < 9223372036854775808)%Z ->
  code_of CRUint64Only (if (code <? 0)%Z then VInt KI64 code else VInt KU64 code) = Some code.
Proof.
  intros H. destruct (code <? 0)%Z eqn:E; [lia|]. cbn [code_of]. rewrite wrap_i64_id by lia. reflexivity.
Qed.

Lemma code_cb code : (0 <= code < 9223372036854775808)%Z ->
  code_of CRUint64Only (canon_cb (VInt KI64 code)) = Some code.
Proof. intros H. unfold canon_cb. cbn [canon_by cb_canon_head]. pose proof (code_sign code H). destruct (code <? 0)%Z; assumption. Qed.

Lemma code_js code : (0 <= code < 9223372036854775808)%Z ->
  code_of CRUint64Only (canon_js (VInt KI64 code)) = Some code.
Proof. intros H. cbn [canon_js]. apply code_sign. exact H. Qed.

Definition code_rule_intended (fm : format) : code_rule :=
  match fm with FJson => CRUint64Only | FMsgpack => CRInt64OrUint64 | FCbor => CRUint64Only end.

(** ** msg -> list -> format's kinds -> msg, for each of the three formats *)
Theorem msglist_roundtrip_fmt (sc : schema) (fm : format) (m : msg) :
  schema_ok sc = true -> wf_msg sc m = true ->
  exists l m',
    msg_to_list sc m = M2LOk l
    /\ from_list CVExact (code_rule_intended fm) sc (map (canon fm) l) = OOk m'
    /\ msg_norm m' = msg_norm (canon_msg fm m).
Proof.
  intros Hok Hwf. destruct fm; unfold canon_msg, canon, code_rule_intended.
  - apply (msglist_roundtrip_generic canon_js CRUint64Only); auto using canon_js_int, code_js.
  - apply (msglist_roundtrip_generic canon_mp CRInt64OrUint64); auto using canon_mp_int, code_mp.
  - apply (msglist_roundtrip_generic canon_cb CRUint64Only); auto using canon_cb_int, code_cb.
Qed.

(** ** End to end for the two binary formats *)

(** the payload of a message is encodable by the layout [wfh] *)
Definition payload_ok (wfh : head -> bool) (m : msg) : bool :=
  forallb (fun v => wfv wfh (fval_to_value v)) (m_fields m)
  && (len (m_fields m) <? 1000)%N.

Definition payload_depth_ok (m : msg) : Prop :=
  Forall (fun v => (depth (fval_to_value v) < max_nesting)%nat) (m_fields m).

Lemma forallb_firstn {A} (p : A -> bool) (l : list A) (k : nat) : forallb p l = true -> forallb p (firstn k l) = true.
Proof.
  revert k. induction l as [|x l IH]; intros [|k] H; cbn [firstn forallb] in *; auto.
  apply andb_true_iff in H. destruct H as [H1 H2]. rewrite H1, IH; auto.
Qed.

Lemma Forall_firstn {A} (P : A -> Prop) (l : list A) (k : nat) : Forall P l -> Forall P (firstn k l).
Proof.
  revert k. induction l as [|x l IH]; intros [|k] H; cbn [firstn]; auto. inversion H; subst. constructor; auto.
Qed.

Lemma In_firstn {A} (k : nat) (l : list A) (x : A) : In x (firstn k l) -> In x l.
Proof.
  revert k. induction l as [|y l IH]; intros [|k] H; cbn [firstn] in H; try destruct H; [left; assumption | right; eauto].
Qed.

Lemma list_depth_le (l : list value) (d : nat) :
  (1 <= d)%nat -> Forall (fun v => (depth v < d)%nat) l -> (depth (VList l) <= d)%nat.
Proof.
  intros Hd H. cbn [depth].
  assert (G : (fold_right (fun x acc => Nat.max (depth x) acc) O l < d)%nat).
  { induction H as [|x l Hx _ IH]; cbn [fold_right]; lia. }
  lia.
Qed.

Section EndToEnd.
  Variable write_head : head -> bytes.
  Variable read_head : bytes -> hres.
  Variable lax_keys : bool.
  Variable canon_head : head -> head.
  Variable wf_head : head -> bool.
  Variable cr : code_rule.
  Hypothesis read_write : forall h r, wf_head h = true -> read_head (write_head h ++ r) = HOk (canon_head h) r.
  Hypothesis canon_shape :
    forall h, match h with
              | HInt k z => exists k', canon_head h = HInt k' z
              | _ => canon_head h = h
              end.
  Hypothesis write_nonempty : forall h, (1 <= List.length (write_head h))%nat.
  Hypothesis wf_code : forall code, (0 <= code < 9223372036854775808)%Z -> wf_head (HInt KI64 code) = true.
  Hypothesis wf_short_array : forall n, (n < 1001)%N -> wf_head (HArr n) = true.
  Hypothesis c_int : forall k z, int_in_range k z = true ->
                                 exists k', canon_by canon_head (VInt k z) = VInt k' z /\ int_in_range k' z = true.
  Hypothesis c_code : forall code, (0 <= code < 9223372036854775808)%Z ->
                                   code_of cr (canon_by canon_head (VInt KI64 code)) = Some code.

  Notation c := (canon_by canon_head).

  Theorem end_to_end (sc : schema) (m : msg) (trailing : bytes) :
    schema_ok sc = true -> wf_msg sc m = true ->
    payload_ok wf_head m = true -> payload_depth_ok m ->
    exists l m',
      msg_to_list sc m = M2LOk l
      /\ decode read_head lax_keys (enc write_head (VList l) ++ trailing) = DOk (VList (map c l)) trailing
      /\ from_list CVExact cr sc (map c l) = OOk m'
      /\ msg_norm m' = msg_norm (canon_msg_by c m).
  Proof.
    intros Hok Hwf Hpay Hdepth.
    destruct (msglist_roundtrip_generic c cr eq_refl (fun s => eq_refl) c_int (fun l => eq_refl) (fun d => eq_refl) c_code
                sc m Hok Hwf) as [l [m' [Hl [Hfrom Hnorm]]]].
    exists l, m'. split; [exact Hl|]. split; [|split; assumption].
    destruct (omit_rule_generic sc m l Hl) as [s [k [Es [El [Hk _]]]]].
    unfold payload_ok in Hpay. apply andb_true_iff in Hpay. destruct Hpay as [Hall Hshort].
    (* the struct's code is in range *)
    pose proof (schema_struct_ok sc s Hok (find_struct_in _ _ _ Es)) as Hs.
    unfold struct_ok in Hs. repeat (apply andb_true_iff in Hs; destruct Hs as [Hs ?]).
    match goal with H : (_ && _)%bool = true |- _ => apply andb_true_iff in H; destruct H as [Hc0 Hc1] end.
    change (2 ^ 63)%Z with 9223372036854775808%Z in Hc1.
    assert (Hwfl : wfv wf_head (VList l) = true).
    { cbn [wfv]. apply andb_true_iff. split.
      - apply wf_short_array. rewrite El. unfold len in *. cbn [List.length]. rewrite map_length, firstn_length. lia.
      - rewrite El. cbn [forallb wfv]. rewrite wf_code by lia. cbn [andb].
        rewrite forallb_forall. intros x Hx. apply in_map_iff in Hx. destruct Hx as [v [<- Hv]].
        rewrite forallb_forall in Hall. apply Hall. eapply (In_firstn k). exact Hv. }
    assert (Hdl : (depth (VList l) <= max_nesting)%nat).
    { apply list_depth_le; [unfold max_nesting; lia|]. rewrite El. constructor; [cbn; unfold max_nesting; lia|].
      apply Forall_forall. intros x Hx. apply in_map_iff in Hx. destruct Hx as [v [<- Hv]].
      unfold payload_depth_ok in Hdepth. rewrite Forall_forall in Hdepth. apply Hdepth. eapply (In_firstn k). exact Hv. }
    rewrite (decode_encode write_head read_head lax_keys canon_head wf_head read_write canon_shape write_nonempty
               (VList l) trailing Hwfl Hdl).
    reflexivity.
  Qed.
End EndToEnd.

(** ** MessagePack and CBOR: Deserialize (Serialize m) = m, up to numeric kind and nil/empty *)

Lemma canon_by_mp_int k z : int_in_range k z = true ->
  exists k', canon_by mp_canon_head (VInt k z) = VInt k' z /\ int_in_range k' z = true.
Proof. exact (canon_mp_int k z). Qed.

Lemma canon_by_cb_int k z : int_in_range k z = true ->
  exists k', canon_by cb_canon_head (VInt k z) = VInt k' z /\ int_in_range k' z = true.
Proof. exact (canon_cb_int k z). Qed.

Theorem msgpack_serialize_deserialize (fprint : N -> bytes) (fparse : bytes -> option N)
        (sc : schema) (m : msg) (trailing : bytes) :
  schema_ok sc = true -> wf_msg sc m = true ->
  payload_ok mp_wf_head m = true -> payload_depth_ok m ->
  exists bs m',
    serialize fprint mp_opts_nexus sc FMsgpack m = SerOk bs
    /\ deserialize fparse mp_opts_nexus intended_shape sc FMsgpack (bs ++ trailing) = OOk m'
    /\ msg_norm m' = msg_norm (canon_msg FMsgpack m).
Proof.
  intros Hok Hwf Hpay Hd.
  destruct (end_to_end (mp_write_head mp_opts_nexus) (mp_read_head mp_opts_nexus) false mp_canon_head mp_wf_head
              CRInt64OrUint64 mp_read_write mp_canon_shape (mp_write_nonempty mp_opts_nexus)
              (fun code H => proj2 (in_range_i64 code) ltac:(lia))
              (fun n H => proj2 (N.ltb_lt n (2 ^ 32)) ltac:(change (2 ^ 32)%N with 4294967296%N; lia))
              canon_by_mp_int code_mp sc m trailing Hok Hwf Hpay Hd)
    as [l [m' [Hl [Hdec [Hfrom Hnorm]]]]].
  exists (mp_encode mp_opts_nexus (VList l)), m'. split; [|split].
  - unfold serialize. rewrite Hl. reflexivity.
  - unfold deserialize, items_of, top_rule_of, decode_value. cbn [intended_shape sh_top_msgpack].
    unfold mp_decode, mp_encode. rewrite Hdec. cbn [code_rule_of sh_code_msgpack sh_conv intended_shape]. exact Hfrom.
  - exact Hnorm.
Qed.

Theorem cbor_serialize_deserialize (fprint : N -> bytes) (fparse : bytes -> option N) (mo : mp_opts)
        (sc : schema) (m : msg) (trailing : bytes) :
  schema_ok sc = true -> wf_msg sc m = true ->
  payload_ok cb_wf_head m = true -> payload_depth_ok m ->
  exists bs m',
    serialize fprint mo sc FCbor m = SerOk bs
    /\ deserialize fparse mo intended_shape sc FCbor (bs ++ trailing) = OOk m'
    /\ msg_norm m' = msg_norm (canon_msg FCbor m).
Proof.
  intros Hok Hwf Hpay Hd.
  destruct (end_to_end cb_write_head cb_read_head true cb_canon_head cb_wf_head
              CRUint64Only cb_read_write cb_canon_shape cb_write_nonempty
              (fun code H => proj2 (in_range_i64 code) ltac:(lia))
              (fun n H => proj2 (N.ltb_lt n (2 ^ 63)) ltac:(change (2 ^ 63)%N with 9223372036854775808%N; lia))
              canon_by_cb_int code_cb sc m trailing Hok Hwf Hpay Hd)
    as [l [m' [Hl [Hdec [Hfrom Hnorm]]]]].
  exists (cb_encode (VList l)), m'. split; [|split].
  - unfold serialize. rewrite Hl. reflexivity.
  - unfold deserialize, items_of, top_rule_of, decode_value. cbn [intended_shape sh_top_cbor].
    unfold cb_decode, cb_encode. rewrite Hdec. cbn [code_rule_of sh_code_cbor sh_conv intended_shape]. exact Hfrom.
  - exact Hnorm.
Qed.

(** ** Cross-format: the three canonical forms agree up to numeric kind *)

Lemma value_equiv_list_map (c1 c2 : value -> value) (l : list value) :
  Forall (fun v => value_equiv (c1 v) (c2 v) = true) l ->
  value_equiv (VList (map c1 l)) (VList (map c2 l)) = true.
Proof.
  intros H. cbn [value_equiv num_equiv_b].
  induction H as [|x l Hx _ IH]; cbn [map]; [reflexivity|]. rewrite Hx. exact IH.
Qed.

Lemma value_equiv_dict_map (c1 c2 : value -> value) (d : list (bytes * value)) :
  Forall (fun kv => value_equiv (c1 (snd kv)) (c2 (snd kv)) = true) d ->
  value_equiv (VDict (map (fun kv => (fst kv, c1 (snd kv))) d)) (VDict (map (fun kv => (fst kv, c2 (snd kv))) d)) = true.
Proof.
  intros H. cbn [value_equiv num_equiv_b].
  induction H as [|[k x] d Hx _ IH]; cbn [map fst snd]; [reflexivity|].
  cbn [snd] in Hx. rewrite bytes_eqb_refl, Hx. exact IH.
Qed.

(** two "kind only" canonical forms of the same value are numerically equivalent *)
Lemma canon_by_equiv (h1 h2 : head -> head) :
  (forall k z, exists k', h1 (HInt k z) = HInt k' z) ->
  (forall k z, exists k', h2 (HInt k z) = HInt k' z) ->
  forall v, value_equiv (canon_by h1 v) (canon_by h2 v) = true.
Proof.
  intros H1 H2. induction v as [| b | k z | f | s | s | l IH | d IH] using value_ind'; cbn [canon_by].
  - reflexivity.
  - cbn. apply Bool.eqb_reflx.
  - destruct (H1 k z) as [k1 E1]. destruct (H2 k z) as [k2 E2]. rewrite E1, E2. cbn. apply Z.eqb_refl.
  - cbn. apply N.eqb_refl.
  - cbn. apply bytes_eqb_refl.
  - cbn. apply bytes_eqb_refl.
  - apply value_equiv_list_map. exact IH.
  - apply value_equiv_dict_map. exact IH.
Qed.

Theorem cross_format_msgpack_cbor (v : value) : value_equiv (canon_mp v) (canon_cb v) = true.
Proof.
  apply canon_by_equiv.
  - intros k z. destruct (mp_canon_shape (HInt k z)) as [k' E]. exists k'. exact E.
  - intros k z. destruct (cb_canon_shape (HInt k z)) as [k' E]. exists k'. exact E.
Qed.

(** JSON has no binary type and no NaN/Inf: on the other values it agrees too *)
Fixpoint json_plain (v : value) : bool :=
  match v with
  | VBin _ => false
  | VFloat f => negb (float_is_nan_or_inf f)
  | VList l => forallb json_plain l
  | VDict d => forallb (fun kv => json_plain (snd kv)) d
  | _ => true
  end.

Theorem cross_format_json_cbor (v : value) : json_plain v = true -> value_equiv (canon_js v) (canon_cb v) = true.
Proof.
  induction v as [| b | k z | f | s | s | l IH | d IH] using value_ind'; intros Hp; cbn [canon_js]; unfold canon_cb in *; cbn [canon_by].
  - reflexivity.
  - cbn. apply Bool.eqb_reflx.
  - cbn [cb_canon_head]. destruct (z <? 0)%Z; cbn; apply Z.eqb_refl.
  - cbn [json_plain] in Hp. apply negb_true_iff in Hp. rewrite Hp. cbn. apply N.eqb_refl.
  - cbn. apply bytes_eqb_refl.
  - discriminate.
  - cbn [json_plain] in Hp. apply value_equiv_list_map.
    rewrite forallb_forall in Hp. rewrite Forall_forall in *. intros x Hx. apply IH; auto.
  - cbn [json_plain] in Hp. apply value_equiv_dict_map.
    rewrite forallb_forall in Hp. rewrite Forall_forall in *. intros [k x] Hx. apply (IH (k, x) Hx). apply (Hp (k, x) Hx).
Qed.

(** ** JSON: round trip on the stated domain; Deserialize (Serialize m) *)

Section JsonTop.
  Variable fprint : N -> bytes.
  Variable fparse : bytes -> option N.
  Variable fdom : N -> bool.
  Hypothesis float_text :
    forall f, fdom f = true ->
              float_is_nan_or_inf f = false
              /\ forallb is_num_char (fprint f) = true
              /\ (exists b t, fprint f = b :: t /\ (b2n b = c_minus \/ is_digit b = true))
              /\ num_of_token fparse (fprint f) = Some (VFloat f).

  Lemma canon_js_dicts_ok (v : value) : json_dom fdom v = true -> dicts_ok (canon_js v) = true.
  Proof.
    induction v as [| b | k z | f | s | s | l IH | m IH] using value_ind'; intros H; cbn [canon_js]; try reflexivity.
    - destruct (z <? 0)%Z; reflexivity.
    - destruct (float_is_nan_or_inf f); reflexivity.
    - cbn [json_dom dicts_ok] in *. rewrite forallb_forall in *. rewrite Forall_forall in IH.
      intros y Hy. apply in_map_iff in Hy. destruct Hy as [x [<- Hx]]. auto.
    - cbn [json_dom dicts_ok] in *. apply andb_true_iff in H. destruct H as [Hk Hl].
      assert (E : map fst (map (fun kv : bytes * value => (fst kv, canon_js (snd kv))) m) = map fst m)
        by (rewrite map_map; apply map_ext; reflexivity).
      rewrite E, Hk. cbn [andb].
      rewrite forallb_forall in *. rewrite Forall_forall in IH. intros y Hy. apply in_map_iff in Hy.
      destruct Hy as [[k x] [<- Hx]]. cbn [snd]. apply (IH (k, x) Hx).
      specialize (Hl (k, x) Hx). cbn [fst snd] in Hl. apply andb_true_iff in Hl. tauto.
  Qed.

  Theorem json_roundtrip_top (v : value) (rest : bytes) :
    json_dom fdom v = true -> (depth v <= max_nesting)%nat -> delim_ok rest = true ->
    js_decode fparse (js_encode fprint v ++ rest) = DOk (canon_js v) rest.
  Proof.
    intros Hd Hdep Hr. unfold js_decode, js_decode_raw, js_encode, js_fuel_for.
    rewrite (jdec_jenc fprint fparse fdom float_text v Hd) by (try assumption; lia).
    rewrite canon_js_dicts_ok by exact Hd. reflexivity.
  Qed.

  (** the payload of a message is in the JSON domain *)
  Definition payload_json_ok (m : msg) : bool :=
    forallb (fun v => json_dom fdom (fval_to_value v)) (m_fields m).

  Theorem json_serialize_deserialize (mo : mp_opts) (sc : schema) (m : msg) (trailing : bytes) :
    schema_ok sc = true -> wf_msg sc m = true ->
    payload_json_ok m = true -> payload_depth_ok m -> delim_ok trailing = true ->
    exists bs m',
      serialize fprint mo sc FJson m = SerOk bs
      /\ deserialize fparse mo intended_shape sc FJson (bs ++ trailing) = OOk m'
      /\ msg_norm m' = msg_norm (canon_msg FJson m).
  Proof.
    intros Hok Hwf Hpay Hdepth Htr.
    destruct (msglist_roundtrip_generic canon_js CRUint64Only eq_refl (fun s => eq_refl) canon_js_int
                (fun l => eq_refl) (fun d => eq_refl) code_js sc m Hok Hwf) as [l [m' [Hl [Hfrom Hnorm]]]].
    exists (js_encode fprint (VList l)), m'. split; [|split].
    - unfold serialize. rewrite Hl. reflexivity.
    - destruct (omit_rule_generic sc m l Hl) as [s [k [Es [El [Hk _]]]]].
      pose proof (schema_struct_ok sc s Hok (find_struct_in _ _ _ Es)) as Hs.
      unfold struct_ok in Hs. repeat (apply andb_true_iff in Hs; destruct Hs as [Hs ?]).
      match goal with H : (_ && _)%bool = true |- _ => apply andb_true_iff in H; destruct H as [Hc0 Hc1] end.
      assert (Hdl : json_dom fdom (VList l) = true).
      { cbn [json_dom]. rewrite El. cbn [forallb json_dom].
        assert (Hc : int_in_range KI64 (s_code s) = true).
        { apply in_range_i64. change (2 ^ 63)%Z with 9223372036854775808%Z in Hc1. lia. }
        rewrite Hc. cbn [andb]. rewrite forallb_forall. intros x Hx. apply in_map_iff in Hx.
        destruct Hx as [v [<- Hv]]. unfold payload_json_ok in Hpay. rewrite forallb_forall in Hpay.
        apply Hpay. eapply (In_firstn k). exact Hv. }
      assert (Hdep : (depth (VList l) <= max_nesting)%nat).
      { apply list_depth_le; [unfold max_nesting; lia|]. rewrite El. constructor; [cbn; unfold max_nesting; lia|].
        apply Forall_forall. intros x Hx. apply in_map_iff in Hx. destruct Hx as [v [<- Hv]].
        unfold payload_depth_ok in Hdepth. rewrite Forall_forall in Hdepth. apply Hdepth. eapply (In_firstn k). exact Hv. }
      unfold deserialize, items_of, top_rule_of, decode_value. cbn [intended_shape sh_top_json].
      rewrite (json_roundtrip_top (VList l) trailing Hdl Hdep Htr).
      cbn [canon_js code_rule_of sh_code_json sh_conv intended_shape]. exact Hfrom.
    - exact Hnorm.
  Qed.
End JsonTop.

(** ugorji writes a float as a FLOAT token (with '.' or exponent) exactly
    outside [2^52, 1e21); inside, the text is an integer literal and the round
    trip changes the value (see fixes/C14-json-large-float.md).  This is the
    largest [fdom] the hypothesis [float_text] can hold on for Go's printer. *)
Definition json_float_dom (bits : N) : bool :=
  negb (float_is_nan_or_inf bits)
  && (let e := ((bits / 2 ^ 52) mod 2048)%N in
      let a := (bits mod 2 ^ 63)%N in
      (e <? 1075)%N || (4921056587992461136 <=? a)%N).   (* |f| < 2^52  or  |f| >= 1e21 *)

(** JSON against any "kind only" canonical form (MessagePack as well as CBOR) *)
Lemma canon_js_equiv_by (h : head -> head) :
  (forall k z, exists k', h (HInt k z) = HInt k' z) ->
  forall v, json_plain v = true -> value_equiv (canon_js v) (canon_by h v) = true.
Proof.
  intros Hh. induction v as [| b | k z | f | s | s | l IH | d IH] using value_ind'; intros Hp; cbn [canon_js canon_by].
  - reflexivity.
  - cbn. apply Bool.eqb_reflx.
  - destruct (Hh k z) as [k' E]. rewrite E. destruct (z <? 0)%Z; cbn; apply Z.eqb_refl.
  - cbn [json_plain] in Hp. apply negb_true_iff in Hp. rewrite Hp. cbn. apply N.eqb_refl.
  - cbn. apply bytes_eqb_refl.
  - discriminate.
  - cbn [json_plain] in Hp. apply value_equiv_list_map.
    rewrite forallb_forall in Hp. rewrite Forall_forall in *. intros x Hx. apply IH; auto.
  - cbn [json_plain] in Hp. apply value_equiv_dict_map.
    rewrite forallb_forall in Hp. rewrite Forall_forall in *. intros [k x] Hx. apply (IH (k, x) Hx). apply (Hp (k, x) Hx).
Qed.

Theorem cross_format_all (v : value) :
  value_equiv (canon_mp v) (canon_cb v) = true
  /\ (json_plain v = true ->
      value_equiv (canon_js v) (canon_mp v) = true /\ value_equiv (canon_js v) (canon_cb v) = true).
Proof.
  split; [apply cross_format_msgpack_cbor|]. intros Hp. split.
  - apply canon_js_equiv_by; [|exact Hp]. intros k z. destruct (mp_canon_shape (HInt k z)) as [k' E]. eauto.
  - apply cross_format_json_cbor. exact Hp.
Qed.

(** … and at message level: what the three Deserialize return for the
    serializations of one message are the same message up to numeric kind *)
Lemma fval_equiv_canon (c1 c2 : value -> value) (v : fval) :
  (forall x, value_equiv (VList (map c1 x)) (VList (map c2 x)) = true) ->
  (forall d, value_equiv (VDict (map (fun kv => (fst kv, c1 (snd kv))) d)) (VDict (map (fun kv => (fst kv, c2 (snd kv))) d)) = true) ->
  fval_equiv (canon_fval_by c1 v) (canon_fval_by c2 v) = true.
Proof.
  intros Hl Hd. destruct v as [n | s | [d|] | [l|] | z]; cbn [canon_fval_by fval_equiv fval_norm].
  - apply Z.eqb_refl.
  - apply bytes_eqb_refl.
  - apply Hd.
  - reflexivity.
  - apply Hl.
  - reflexivity.
  - apply Z.eqb_refl.
Qed.

Theorem cross_format_msg_mp_cbor (m : msg) : msg_equiv (canon_msg FMsgpack m) (canon_msg FCbor m) = true.
Proof.
  unfold msg_equiv, canon_msg, canon_msg_by. cbn [m_struct m_fields]. rewrite String.eqb_refl. cbn [andb].
  induction (m_fields m) as [|v vs IH]; cbn [map fvals_equiv]; [reflexivity|].
  rewrite IH, andb_true_r. apply fval_equiv_canon.
  - intros x. apply value_equiv_list_map. apply Forall_forall. intros y _. apply cross_format_msgpack_cbor.
  - intros d. apply value_equiv_dict_map. apply Forall_forall. intros y _. apply cross_format_msgpack_cbor.
Qed.
