(** * Codec.BytesProofs — facts about bytes, big-endian numbers, [take]. *)
From Coq Require Import List NArith ZArith Bool Lia.
From Coq Require Import Strings.Byte.
From Coq Require Import ZifyN ZifyNat ZifyBool.
From Nexus Require Import Codec.Bytes.
Import ListNotations.
Open Scope N_scope.

Lemma pow2_pos (a b : N) : 0 < a -> 0 < a ^ b.
Proof. intros H. assert (a ^ b <> 0) by (apply N.pow_nonzero; lia). lia. Qed.

Lemma b2n_lt (b : byte) : b2n b < 256.
Proof. unfold b2n. pose proof (Byte.to_N_bounded b). lia. Qed.

Lemma n2b_b2n (b : byte) : n2b (b2n b) = b.
Proof.
  unfold n2b, b2n. rewrite N.mod_small by (pose proof (Byte.to_N_bounded b); lia).
  rewrite Byte.of_to_N. reflexivity.
Qed.

Lemma b2n_n2b (n : N) : b2n (n2b n) = n mod 256.
Proof.
  unfold n2b, b2n.
  assert (H : n mod 256 < 256) by (apply N.mod_lt; lia).
  destruct (Byte.of_N (n mod 256)) as [b|] eqn:E.
  - apply Byte.to_of_N in E. exact E.
  - exfalso. apply Byte.of_N_None_iff in E. lia.
Qed.

Lemma b2n_n2b_small (n : N) : n < 256 -> b2n (n2b n) = n.
Proof. intros H. rewrite b2n_n2b. apply N.mod_small. exact H. Qed.

Lemma b2n_inj (a b : byte) : b2n a = b2n b -> a = b.
Proof. intros H. rewrite <- (n2b_b2n a), <- (n2b_b2n b), H. reflexivity. Qed.

Lemma byte_eqb_eq (a b : byte) : byte_eqb a b = true <-> a = b.
Proof.
  unfold byte_eqb. rewrite N.eqb_eq. split; [apply b2n_inj | intros ->; reflexivity].
Qed.

Lemma byte_eqb_refl (a : byte) : byte_eqb a a = true.
Proof. apply byte_eqb_eq. reflexivity. Qed.

Lemma bytes_eqb_eq (a b : bytes) : bytes_eqb a b = true <-> a = b.
Proof.
  revert b. induction a as [|x a IH]; intros [|y b]; cbn [bytes_eqb]; try (split; congruence).
  rewrite andb_true_iff, byte_eqb_eq, IH. split; [intros [-> ->]; reflexivity | intros H; injection H; auto].
Qed.

Lemma bytes_eqb_refl (a : bytes) : bytes_eqb a a = true.
Proof. apply bytes_eqb_eq. reflexivity. Qed.

Lemma bytes_eqb_neq (a b : bytes) : bytes_eqb a b = false <-> a <> b.
Proof.
  destruct (bytes_eqb a b) eqn:E.
  - apply bytes_eqb_eq in E. split; [discriminate | congruence].
  - split; [intros _ H; apply bytes_eqb_eq in H; congruence | reflexivity].
Qed.

(** ** Big-endian numbers *)

Lemma be_enc_length k n : length (be_enc k n) = k.
Proof. induction k as [|k IH]; cbn [be_enc length]; [reflexivity | rewrite IH; reflexivity]. Qed.

Lemma fold_be_app (a b : bytes) (acc : N) :
  fold_left (fun acc b => acc * 256 + b2n b) (a ++ b) acc
  = fold_left (fun acc b => acc * 256 + b2n b) b (fold_left (fun acc b => acc * 256 + b2n b) a acc).
Proof. apply fold_left_app. Qed.

Lemma be_dec_enc_acc k : forall n acc,
  fold_left (fun acc b => acc * 256 + b2n b) (be_enc k n) acc = acc * 256 ^ N.of_nat k + n mod 256 ^ N.of_nat k.
Proof.
  induction k as [|k IH]; intros n acc.
  - cbn [be_enc fold_left]. change (N.of_nat 0) with 0. rewrite N.pow_0_r, N.mod_1_r. lia.
  - cbn [be_enc fold_left]. rewrite IH, b2n_n2b.
    rewrite Nat2N.inj_succ, N.pow_succ_r'.
    set (p := 256 ^ N.of_nat k).
    assert (Hp : 0 < p) by (unfold p; apply pow2_pos; lia).
    (* n mod (256*p) = ((n/p) mod 256) * p + n mod p *)
    assert (E : n mod (256 * p) = ((n / p) mod 256) * p + n mod p).
    { rewrite (N.mul_comm 256 p). rewrite N.mod_mul_r by lia. lia. }
    rewrite E. lia.
Qed.

Lemma be_dec_enc k n : be_dec (be_enc k n) = n mod 256 ^ N.of_nat k.
Proof. unfold be_dec. rewrite be_dec_enc_acc. lia. Qed.

Lemma be_dec_enc_small k n : n < 256 ^ N.of_nat k -> be_dec (be_enc k n) = n.
Proof. intros H. rewrite be_dec_enc. apply N.mod_small. exact H. Qed.

Lemma be_dec_bound (bs : bytes) : be_dec bs < 256 ^ N.of_nat (length bs).
Proof.
  unfold be_dec.
  assert (G : forall bs acc k, acc < 256 ^ N.of_nat k ->
            fold_left (fun acc b => acc * 256 + b2n b) bs acc < 256 ^ N.of_nat (k + length bs)).
  { clear bs. induction bs as [|b bs IH]; intros acc k H; cbn [fold_left length].
    - rewrite Nat.add_0_r. exact H.
    - replace (k + S (length bs))%nat with (S k + length bs)%nat by lia.
      apply IH. rewrite Nat2N.inj_succ, N.pow_succ_r'. pose proof (b2n_lt b). lia. }
  specialize (G bs 0 0%nat). cbn [Nat.add] in G. apply G. cbn. lia.
Qed.

(** ** take *)

Lemma len_app {A} (a b : list A) : len (a ++ b) = len a + len b.
Proof. unfold len. rewrite app_length. lia. Qed.

Lemma len_cons {A} (x : A) (l : list A) : len (x :: l) = N.succ (len l).
Proof. unfold len. cbn [length]. lia. Qed.

Lemma len_nil {A} : len (@nil A) = 0.
Proof. reflexivity. Qed.

Lemma take_app (s r : bytes) : take (len s) (s ++ r) = Some (s, r).
Proof.
  induction s as [|b s IH].
  - cbn [app]. rewrite len_nil. destruct r; reflexivity.
  - cbn [app take]. rewrite len_cons.
    destruct (N.succ (len s) =? 0) eqn:E; [lia|].
    rewrite N.pred_succ, IH. reflexivity.
Qed.

Lemma take_spec (n : N) : forall (bs a r : bytes), take n bs = Some (a, r) -> bs = a ++ r /\ len a = n.
Proof.
  intros bs. revert n. induction bs as [|b bs IH]; intros n a r H.
  - cbn [take] in H. destruct (n =? 0) eqn:E; [|discriminate].
    injection H as <- <-. split; [reflexivity | rewrite len_nil; lia].
  - cbn [take] in H. destruct (n =? 0) eqn:E.
    + injection H as <- <-. split; [reflexivity | rewrite len_nil; lia].
    + destruct (take (N.pred n) bs) as [[a' r']|] eqn:T; [|discriminate].
      injection H as <- <-. apply IH in T. destruct T as [-> L].
      split; [reflexivity | rewrite len_cons; lia].
Qed.

Lemma take_rest_length (n : N) (bs a r : bytes) :
  take n bs = Some (a, r) -> (length r <= length bs)%nat.
Proof. intros H. apply take_spec in H. destruct H as [-> _]. rewrite app_length. lia. Qed.

(** ** Two's complement *)

Lemma sint_uint (bits : N) (z : Z) :
  0 < bits ->
  (- Z.of_N (2 ^ (bits - 1)) <= z < Z.of_N (2 ^ (bits - 1)))%Z ->
  sint bits (uint_of_Z bits z) = z.
Proof.
  intros Hb Hz. unfold sint, uint_of_Z.
  assert (E : 2 ^ bits = 2 * 2 ^ (bits - 1)).
  { rewrite <- N.pow_succ_r'. f_equal. lia. }
  set (h := 2 ^ (bits - 1)) in *.
  assert (Hh : 0 < h) by (unfold h; apply pow2_pos; lia).
  rewrite E.
  destruct (Z_lt_le_dec z 0) as [Hneg|Hpos].
  - assert (M : (z mod Z.of_N (2 * h) = z + Z.of_N (2 * h))%Z).
    { symmetry. apply Z.mod_unique with (q := (-1)%Z); lia. }
    rewrite M.
    destruct (Z.to_N (z + Z.of_N (2 * h)) <? h) eqn:L; lia.
  - assert (M : (z mod Z.of_N (2 * h) = z)%Z) by (apply Z.mod_small; lia).
    rewrite M.
    destruct (Z.to_N z <? h) eqn:L; lia.
Qed.

Lemma uint_of_Z_lt (bits : N) (z : Z) : uint_of_Z bits z < 2 ^ bits.
Proof.
  unfold uint_of_Z.
  assert (0 < 2 ^ bits) by (apply pow2_pos; lia).
  pose proof (Z.mod_pos_bound z (Z.of_N (2 ^ bits))). lia.
Qed.

(** ** Fixed-width instances (literal bounds, so that [lia] can use them) *)

Lemma take_be (k : nat) (x : N) (r : bytes) : take (N.of_nat k) (be_enc k x ++ r) = Some (be_enc k x, r).
Proof.
  replace (N.of_nat k) with (len (be_enc k x)) by (unfold len; rewrite be_enc_length; reflexivity).
  apply take_app.
Qed.

Lemma take_be1 x r : take 1 (be_enc 1 x ++ r) = Some (be_enc 1 x, r). Proof. exact (take_be 1 x r). Qed.
Lemma take_be2 x r : take 2 (be_enc 2 x ++ r) = Some (be_enc 2 x, r). Proof. exact (take_be 2 x r). Qed.
Lemma take_be4 x r : take 4 (be_enc 4 x ++ r) = Some (be_enc 4 x, r). Proof. exact (take_be 4 x r). Qed.
Lemma take_be8 x r : take 8 (be_enc 8 x ++ r) = Some (be_enc 8 x, r). Proof. exact (take_be 8 x r). Qed.

Lemma take_n2b1 x r : take 1 (n2b x :: r) = Some ([n2b x], r).
Proof. cbn [take]. change (1 =? 0) with false. cbv iota. change (N.pred 1) with 0. destruct r; reflexivity. Qed.

Lemma be_dec_1 x : x < 256 -> be_dec [n2b x] = x.
Proof. intros H. unfold be_dec. cbn [fold_left]. rewrite b2n_n2b_small by exact H. lia. Qed.
Lemma be_dec_enc_1 x : x < 256 -> be_dec (be_enc 1 x) = x.
Proof. intros H. apply (be_dec_enc_small 1). exact H. Qed.
Lemma be_dec_enc_2 x : x < 65536 -> be_dec (be_enc 2 x) = x.
Proof. intros H. apply (be_dec_enc_small 2). exact H. Qed.
Lemma be_dec_enc_4 x : x < 4294967296 -> be_dec (be_enc 4 x) = x.
Proof. intros H. apply (be_dec_enc_small 4). exact H. Qed.
Lemma be_dec_enc_8 x : x < 18446744073709551616 -> be_dec (be_enc 8 x) = x.
Proof. intros H. apply (be_dec_enc_small 8). exact H. Qed.

Lemma sint_uint_8 z : (-128 <= z < 128)%Z -> sint 8 (uint_of_Z 8 z) = z.
Proof. intros H. apply sint_uint; [lia|]. exact H. Qed.
Lemma sint_uint_16 z : (-32768 <= z < 32768)%Z -> sint 16 (uint_of_Z 16 z) = z.
Proof. intros H. apply sint_uint; [lia|]. exact H. Qed.
Lemma sint_uint_32 z : (-2147483648 <= z < 2147483648)%Z -> sint 32 (uint_of_Z 32 z) = z.
Proof. intros H. apply sint_uint; [lia|]. exact H. Qed.
Lemma sint_uint_64 z : (-9223372036854775808 <= z < 9223372036854775808)%Z -> sint 64 (uint_of_Z 64 z) = z.
Proof. intros H. apply sint_uint; [lia|]. exact H. Qed.

Lemma uint_of_Z_8 z : uint_of_Z 8 z < 256. Proof. exact (uint_of_Z_lt 8 z). Qed.
Lemma uint_of_Z_16 z : uint_of_Z 16 z < 65536. Proof. exact (uint_of_Z_lt 16 z). Qed.
Lemma uint_of_Z_32 z : uint_of_Z 32 z < 4294967296. Proof. exact (uint_of_Z_lt 32 z). Qed.
Lemma uint_of_Z_64 z : uint_of_Z 64 z < 18446744073709551616. Proof. exact (uint_of_Z_lt 64 z). Qed.

Lemma uint_of_Z_8_val z : (-128 <= z < 256)%Z ->
  Z.of_N (uint_of_Z 8 z) = if (z <? 0)%Z then (z + 256)%Z else z.
Proof.
  intros H. unfold uint_of_Z. change (Z.of_N (2 ^ 8)) with 256%Z.
  destruct (z <? 0)%Z eqn:E.
  - assert (M : (z mod 256 = z + 256)%Z) by (symmetry; apply Z.mod_unique with (q := (-1)%Z); lia). lia.
  - rewrite Z.mod_small by lia. lia.
Qed.
