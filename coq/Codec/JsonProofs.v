(** * Codec.JsonProofs — JSON: decimal integers, string quoting, and the
    round trip of the whole encoder/decoder pair on the stated domain. *)
From Coq Require Import List NArith ZArith Bool Lia.
From Coq Require Import Strings.Byte.
From Coq Require Import ZifyN ZifyNat ZifyBool.
From Nexus Require Import Codec.Bytes Codec.BytesProofs Codec.Values Codec.Utf8 Codec.Tlv Codec.TlvProofs Codec.Json Codec.Canon.
Import ListNotations.
Open Scope N_scope.

Ltac Zify.zify_post_hook ::= Z.div_mod_to_equations.

(** ** Decimal integers *)

Definition hstep (a : N) (b : byte) : N := a * 10 + (b2n b - c_0).
Definition horner (ds : bytes) (a : N) : N := fold_left hstep ds a.

Lemma dec_val_horner ds : dec_val ds = horner ds 0.
Proof. reflexivity. Qed.

Lemma digit_byte_val d : d < 10 -> b2n (digit_byte d) - c_0 = d.
Proof. intros H. unfold digit_byte, c_0. rewrite b2n_n2b_small by lia. lia. Qed.

Lemma digit_byte_is_digit d : d < 10 -> is_digit (digit_byte d) = true.
Proof. intros H. unfold is_digit, digit_byte, c_0, c_9. rewrite b2n_n2b_small by lia. lia. Qed.

Lemma digits_fuel_horner fuel : forall n acc,
  n < 10 ^ N.of_nat fuel -> horner (digits_fuel fuel n acc) 0 = horner acc n.
Proof.
  induction fuel as [|f IH]; intros n acc Hn.
  - cbn [digits_fuel]. change (N.of_nat 0) with 0 in Hn. rewrite N.pow_0_r in Hn.
    replace n with 0 by lia. reflexivity.
  - cbn [digits_fuel]. destruct (n <? 10) eqn:E.
    + unfold horner. cbn [fold_left]. unfold hstep at 2. rewrite digit_byte_val by lia. reflexivity.
    + rewrite IH.
      * unfold horner. cbn [fold_left]. unfold hstep at 2. rewrite digit_byte_val by (apply N.mod_lt; lia).
        f_equal. lia.
      * rewrite Nat2N.inj_succ, N.pow_succ_r' in Hn.
        apply N.div_lt_upper_bound; lia.
Qed.

Lemma pow2_le_pow10 k : 2 ^ k <= 10 ^ k.
Proof. apply N.pow_le_mono_l. lia. Qed.

Lemma lt_pow10_log2 n : n < 10 ^ N.of_nat (S (N.to_nat (N.log2 n))).
Proof.
  rewrite Nat2N.inj_succ, N2Nat.id.
  destruct (N.eq_dec n 0) as [->|Hn]; [cbn; lia|].
  pose proof (N.log2_spec n ltac:(lia)) as [_ H]. pose proof (pow2_le_pow10 (N.succ (N.log2 n))). lia.
Qed.

Lemma dec_val_dec_of_N n : dec_val (dec_of_N n) = n.
Proof.
  unfold dec_of_N. rewrite dec_val_horner, digits_fuel_horner by apply lt_pow10_log2. reflexivity.
Qed.

Lemma digits_fuel_all_digits fuel : forall n acc,
  forallb is_digit acc = true -> forallb is_digit (digits_fuel fuel n acc) = true.
Proof.
  induction fuel as [|f IH]; intros n acc Ha; cbn [digits_fuel]; [exact Ha|].
  destruct (n <? 10) eqn:E.
  - cbn [forallb]. rewrite digit_byte_is_digit by lia. exact Ha.
  - apply IH. cbn [forallb]. rewrite digit_byte_is_digit by (apply N.mod_lt; lia). exact Ha.
Qed.

Lemma digit_byte_nonzero d : 1 <= d < 10 -> (b2n (digit_byte d) =? c_0) = false.
Proof. intros H. unfold digit_byte, c_0. rewrite b2n_n2b_small by lia. lia. Qed.

Lemma digits_fuel_ok fuel : forall n acc,
  (1 <= fuel)%nat -> n < 10 ^ N.of_nat fuel -> (1 <= n \/ acc = []) -> forallb is_digit acc = true ->
  int_digits_ok (digits_fuel fuel n acc) = true.
Proof.
  induction fuel as [|f IH]; intros n acc Hf Hn Hz Ha; [lia|].
  cbn [digits_fuel]. destruct (n <? 10) eqn:E.
  - destruct acc as [|a acc'].
    + cbn [int_digits_ok]. apply digit_byte_is_digit. lia.
    + destruct Hz as [Hz|Hz]; [|discriminate].
      cbn [int_digits_ok]. rewrite digit_byte_is_digit by lia. rewrite digit_byte_nonzero by lia.
      cbn [negb andb forallb]. rewrite digit_byte_is_digit by lia. exact Ha.
  - assert (Hf' : (1 <= f)%nat).
    { destruct f; [|lia]. change (N.of_nat 1) with 1 in Hn. rewrite N.pow_1_r in Hn. lia. }
    apply IH.
    + exact Hf'.
    + rewrite Nat2N.inj_succ, N.pow_succ_r' in Hn. apply N.div_lt_upper_bound; lia.
    + left. apply N.div_le_lower_bound; lia.
    + cbn [forallb]. rewrite digit_byte_is_digit by (apply N.mod_lt; lia). exact Ha.
Qed.

Lemma dec_of_N_ok n : int_digits_ok (dec_of_N n) = true.
Proof.
  unfold dec_of_N. apply digits_fuel_ok; [lia | apply lt_pow10_log2 | right; reflexivity | reflexivity].
Qed.

Lemma dec_of_N_digits n : forallb is_digit (dec_of_N n) = true.
Proof. unfold dec_of_N. apply digits_fuel_all_digits. reflexivity. Qed.

Lemma int_digits_ok_nonempty ds : int_digits_ok ds = true -> exists d r, ds = d :: r /\ is_digit d = true.
Proof.
  destruct ds as [|d [|d' r]]; cbn [int_digits_ok]; intros H; [discriminate | eauto |].
  apply andb_true_iff in H. destruct H as [H _]. apply andb_true_iff in H. destruct H as [H _]. eauto.
Qed.

(** ** Number tokens *)

Definition delim_ok (rest : bytes) : bool :=
  match rest with [] => true | b :: _ => negb (is_num_char b) end.

Lemma span_num_app (ds rest : bytes) :
  forallb is_num_char ds = true -> delim_ok rest = true -> span_num (ds ++ rest) = (ds, rest).
Proof.
  intros Hd Hr. induction ds as [|d ds IH]; cbn [app].
  - destruct rest as [|b r]; [reflexivity|]. cbn [span_num]. cbn [delim_ok] in Hr.
    apply negb_true_iff in Hr. rewrite Hr. reflexivity.
  - cbn [forallb] in Hd. apply andb_true_iff in Hd. destruct Hd as [H1 H2].
    cbn [span_num]. rewrite H1, (IH H2). reflexivity.
Qed.

Lemma digit_is_num_char b : is_digit b = true -> is_num_char b = true.
Proof. intros H. unfold is_num_char. rewrite H. reflexivity. Qed.

Lemma digits_num_chars ds : forallb is_digit ds = true -> forallb is_num_char ds = true.
Proof.
  induction ds as [|d ds IH]; cbn [forallb]; [reflexivity|]. intros H.
  apply andb_true_iff in H. destruct H as [H1 H2]. rewrite digit_is_num_char, IH; auto.
Qed.

Lemma minus_byte : b2n (n2b c_minus) = c_minus.
Proof. reflexivity. Qed.

Lemma minus_is_num_char : is_num_char (n2b c_minus) = true.
Proof. reflexivity. Qed.

Lemma dec_of_Z_num_chars z : forallb is_num_char (dec_of_Z z) = true.
Proof.
  unfold dec_of_Z. destruct (z <? 0)%Z; [cbn [forallb]; rewrite minus_is_num_char; cbn [andb]|];
    apply digits_num_chars, dec_of_N_digits.
Qed.

Lemma digit_not_minus d : is_digit d = true -> (b2n d =? c_minus) = false.
Proof. unfold is_digit, c_0, c_9, c_minus. lia. Qed.

Section JsonNum.
  Variable fparse : bytes -> option N.

  Lemma num_of_token_int (k : ikind) (z : Z) :
    int_in_range k z = true ->
    num_of_token fparse (dec_of_Z z) = Some (if (z <? 0)%Z then VInt KI64 z else VInt KU64 z).
  Proof.
    intros Hr. unfold dec_of_Z, num_of_token.
    assert (Hz : (- 9223372036854775808 <= z < 18446744073709551616)%Z).
    { destruct k; unfold int_in_range in Hr; change (2 ^ 63)%Z with 9223372036854775808%Z in Hr;
        change (2 ^ 64)%Z with 18446744073709551616%Z in Hr; lia. }
    destruct (z <? 0)%Z eqn:Es.
    - rewrite minus_byte, N.eqb_refl. rewrite dec_of_N_ok, dec_val_dec_of_N.
      change (2 ^ 63) with 9223372036854775808.
      destruct (Z.to_N (- z) <=? 9223372036854775808) eqn:E; [|lia]. do 2 f_equal. lia.
    - destruct (int_digits_ok_nonempty _ (dec_of_N_ok (Z.to_N z))) as [d [r [E Hd]]].
      rewrite E. rewrite (digit_not_minus d Hd). rewrite <- E.
      rewrite dec_of_N_ok, dec_val_dec_of_N. change (2 ^ 64) with 18446744073709551616.
      destruct (Z.to_N z <? 18446744073709551616) eqn:E2; [|lia]. do 2 f_equal. lia.
  Qed.
End JsonNum.

(** ** Strings *)

Lemma hexval_hexdig k : k < 16 -> hexval (hexdig k) = Some k.
Proof.
  intros H. unfold hexval, hexdig, c_0, c_9.
  destruct (k <? 10) eqn:E; rewrite b2n_n2b_small by lia.
  - destruct ((48 <=? 48 + k) && (48 + k <=? 57)) eqn:E2; [f_equal; lia | lia].
  - destruct ((48 <=? 97 + (k - 10)) && (97 + (k - 10) <=? 57)) eqn:E2; [lia|].
    destruct ((97 <=? 97 + (k - 10)) && (97 + (k - 10) <=? 102)) eqn:E3; [f_equal; lia | lia].
Qed.

Lemma hex4_u_escape (c : N) (r : bytes) :
  c < 65536 ->
  exists h1 h2 h3 h4, u_escape c = [n2b c_bslash; n2b c_u; h1; h2; h3; h4] /\ hex4 h1 h2 h3 h4 = Some c.
Proof.
  intros H. unfold u_escape. do 4 eexists. split; [reflexivity|].
  unfold hex4. rewrite !hexval_hexdig by (try apply N.mod_lt; try lia; apply N.div_lt_upper_bound; lia).
  f_equal. lia.
Qed.

(** the reader undoes one escaped/verbatim step and continues *)
Lemma unquote_simple_escape (e : N) (c : N) (t : bytes) :
  (e = c_quote /\ c = c_quote) \/ (e = c_bslash /\ c = c_bslash) \/ (e = 0x6e /\ c = 0x0a)
  \/ (e = 0x74 /\ c = 0x09) \/ (e = 0x72 /\ c = 0x0d) \/ (e = 0x62 /\ c = 0x08) \/ (e = 0x66 /\ c = 0x0c) ->
  unquote_body (n2b c_bslash :: n2b e :: t)
  = match unquote_body t with Some (s, r') => Some (n2b c :: s, r') | None => None end.
Proof.
  intros H. cbn [unquote_body].
  change (b2n (n2b c_bslash)) with c_bslash.
  change (c_bslash =? c_quote) with false. change (c_bslash =? c_bslash) with true. cbv iota.
  destruct H as [[-> ->]|[[-> ->]|[[-> ->]|[[-> ->]|[[-> ->]|[[-> ->]|[-> ->]]]]]]]; reflexivity.
Qed.

Lemma unquote_u_escape_ascii (c : N) (t : bytes) :
  c < 128 ->
  unquote_body (u_escape c ++ t)
  = match unquote_body t with Some (s, r') => Some (n2b c :: s, r') | None => None end.
Proof.
  intros H. destruct (hex4_u_escape c t ltac:(lia)) as [h1 [h2 [h3 [h4 [E Hh]]]]].
  rewrite E. cbn [app unquote_body].
  change (b2n (n2b c_bslash)) with c_bslash. change (b2n (n2b c_u)) with c_u.
  change (c_bslash =? c_quote) with false. change (c_bslash =? c_bslash) with true. cbv iota.
  change (c_u =? c_quote) with false. change (c_u =? c_bslash) with false. change (c_u =? c_slash) with false.
  change (c_u =? 0x62) with false. change (c_u =? 0x66) with false. change (c_u =? 0x6e) with false.
  change (c_u =? 0x72) with false. change (c_u =? 0x74) with false. change (c_u =? c_u) with true. cbv iota.
  rewrite Hh.
  assert (Hs : is_surrogate c = false) by (unfold is_surrogate; lia). rewrite Hs.
  assert (Hu : utf8_encode c = [n2b c]).
  { unfold utf8_encode, valid_rune. rewrite Hs.
    destruct (c <=? 0x10FFFF) eqn:E1; [|lia]. cbn [andb negb]. destruct (c <=? 0x7F) eqn:E2; [reflexivity|lia]. }
  rewrite Hu. reflexivity.
Qed.

Lemma unquote_verbatim (b : byte) (t : bytes) :
  (b2n b =? c_quote) = false -> (b2n b =? c_bslash) = false ->
  unquote_body (b :: t)
  = match unquote_body t with Some (s, r') => Some (b :: s, r') | None => None end.
Proof. intros H1 H2. cbn [unquote_body]. rewrite H1, H2. reflexivity. Qed.

Lemma unquote_esc_ascii (b : byte) (t : bytes) :
  b2n b < 128 ->
  unquote_body (esc_ascii b ++ t)
  = match unquote_body t with Some (s, r') => Some (b :: s, r') | None => None end.
Proof.
  intros Hb. unfold esc_ascii.
  set (n := b2n b) in *.
  assert (Eb : n2b n = b) by (unfold n; apply n2b_b2n).
  destruct (n =? c_bslash) eqn:E1.
  { cbn [app]. rewrite (unquote_simple_escape c_bslash c_bslash) by tauto. apply N.eqb_eq in E1. rewrite <- E1, Eb. reflexivity. }
  destruct (n =? c_quote) eqn:E2.
  { cbn [app]. rewrite (unquote_simple_escape c_quote c_quote) by tauto. apply N.eqb_eq in E2. rewrite <- E2, Eb. reflexivity. }
  destruct (n =? 0x0a) eqn:E3.
  { cbn [app]. rewrite (unquote_simple_escape 0x6e 0x0a) by tauto. apply N.eqb_eq in E3. rewrite <- E3, Eb. reflexivity. }
  destruct (n =? 0x09) eqn:E4.
  { cbn [app]. rewrite (unquote_simple_escape 0x74 0x09) by tauto. apply N.eqb_eq in E4. rewrite <- E4, Eb. reflexivity. }
  destruct (n =? 0x0d) eqn:E5.
  { cbn [app]. rewrite (unquote_simple_escape 0x72 0x0d) by tauto. apply N.eqb_eq in E5. rewrite <- E5, Eb. reflexivity. }
  destruct (n =? 0x08) eqn:E6.
  { cbn [app]. rewrite (unquote_simple_escape 0x62 0x08) by tauto. apply N.eqb_eq in E6. rewrite <- E6, Eb. reflexivity. }
  destruct (n =? 0x0c) eqn:E7.
  { cbn [app]. rewrite (unquote_simple_escape 0x66 0x0c) by tauto. apply N.eqb_eq in E7. rewrite <- E7, Eb. reflexivity. }
  destruct ((n <? 0x20) || (n =? 0x3c) || (n =? 0x3e) || (n =? 0x26)) eqn:E8.
  { rewrite unquote_u_escape_ascii by exact Hb. rewrite Eb. reflexivity. }
  cbn [app]. apply unquote_verbatim; fold n; assumption.
Qed.

Lemma utf8_2028 : utf8_encode 0x2028 = [n2b 0xE2; n2b 0x80; n2b 0xA8].
Proof. reflexivity. Qed.
Lemma utf8_2029 : utf8_encode 0x2029 = [n2b 0xE2; n2b 0x80; n2b 0xA9].
Proof. reflexivity. Qed.

Lemma unquote_u_escape_sep (c : N) (t : bytes) :
  c = 0x2028 \/ c = 0x2029 ->
  unquote_body (u_escape c ++ t)
  = match unquote_body t with Some (s, r') => Some (utf8_encode c ++ s, r') | None => None end.
Proof.
  intros H. destruct (hex4_u_escape c t ltac:(lia)) as [h1 [h2 [h3 [h4 [E Hh]]]]].
  rewrite E. cbn [app unquote_body].
  change (b2n (n2b c_bslash)) with c_bslash. change (b2n (n2b c_u)) with c_u.
  change (c_bslash =? c_quote) with false. change (c_bslash =? c_bslash) with true. cbv iota.
  change (c_u =? c_quote) with false. change (c_u =? c_bslash) with false. change (c_u =? c_slash) with false.
  change (c_u =? 0x62) with false. change (c_u =? 0x66) with false. change (c_u =? 0x6e) with false.
  change (c_u =? 0x72) with false. change (c_u =? 0x74) with false. change (c_u =? c_u) with true. cbv iota.
  rewrite Hh.
  assert (Hs : is_surrogate c = false) by (unfold is_surrogate; lia). rewrite Hs. reflexivity.
Qed.

(** the string body followed by the closing quote reads back as the string *)
Lemma unquote_quote_body_len (k : nat) : forall (s rest : bytes),
  (length s <= k)%nat -> unquote_body (quote_body s ++ n2b c_quote :: rest) = Some (s, rest).
Proof.
  induction k as [|k IH]; intros s rest Hl.
  - destruct s; [|cbn in Hl; lia]. reflexivity.
  - destruct s as [|b t]; [reflexivity|]. cbn [length] in Hl.
    cbn [quote_body].
    destruct (b2n b =? 0xE2) eqn:E.
    + assert (Hv : forall t', unquote_body (b :: t') = match unquote_body t' with Some (s, r') => Some (b :: s, r') | None => None end).
      { intros t'. apply unquote_verbatim; apply N.eqb_eq in E; rewrite E; reflexivity. }
      destruct t as [|b1 [|b2 t']].
      * cbn [quote_body app]. rewrite Hv. reflexivity.
      * cbn [app]. rewrite Hv. rewrite IH by (cbn [length] in *; lia). reflexivity.
      * destruct ((b2n b1 =? 0x80) && ((b2n b2 =? 0xA8) || (b2n b2 =? 0xA9))) eqn:E2.
        -- apply andb_true_iff in E2. destruct E2 as [E21 E22]. apply N.eqb_eq in E, E21.
           rewrite <- app_assoc.
           assert (Hc : 0x2000 + (b2n b2 - 0x80) = 0x2028 \/ 0x2000 + (b2n b2 - 0x80) = 0x2029) by lia.
           rewrite unquote_u_escape_sep by exact Hc.
           rewrite IH by (cbn [length] in *; lia).
           assert (Hb : b = n2b 0xE2) by (apply b2n_inj; rewrite E; reflexivity).
           assert (Hb1 : b1 = n2b 0x80) by (apply b2n_inj; rewrite E21; reflexivity).
           destruct Hc as [Hc|Hc]; rewrite Hc.
           ++ assert (Hb2 : b2 = n2b 0xA8) by (apply b2n_inj; rewrite b2n_n2b_small by lia; lia).
              rewrite utf8_2028, Hb, Hb1, Hb2. reflexivity.
           ++ assert (Hb2 : b2 = n2b 0xA9) by (apply b2n_inj; rewrite b2n_n2b_small by lia; lia).
              rewrite utf8_2029, Hb, Hb1, Hb2. reflexivity.
        -- cbn [app]. rewrite Hv. rewrite IH by (cbn [length] in *; lia). reflexivity.
    + destruct (b2n b <? 0x80) eqn:E2.
      * rewrite <- app_assoc. rewrite unquote_esc_ascii by lia. rewrite IH by lia. reflexivity.
      * cbn [app]. rewrite unquote_verbatim by (unfold c_quote, c_bslash; lia). rewrite IH by lia. reflexivity.
Qed.

Lemma unquote_quote_body (s rest : bytes) :
  unquote_body (quote_body s ++ n2b c_quote :: rest) = Some (s, rest).
Proof. apply (unquote_quote_body_len (length s)). lia. Qed.

(** ** Structure *)

Lemma skip_ws_nonws (b : byte) (t : bytes) : is_ws b = false -> skip_ws (b :: t) = b :: t.
Proof. intros H. cbn [skip_ws]. rewrite H. reflexivity. Qed.

Lemma expect_app (p r : bytes) : expect p (p ++ r) = Some r.
Proof. induction p as [|x p IH]; cbn [expect app]; [destruct r; reflexivity|]. rewrite byte_eqb_refl. exact IH. Qed.

Fixpoint jenc_elems (fprint : N -> bytes) (l : list value) : bytes :=
  match l with
  | [] => []
  | [x] => jenc fprint x
  | x :: t => jenc fprint x ++ n2b c_comma :: jenc_elems fprint t
  end.

Fixpoint jenc_members (fprint : N -> bytes) (d : list (bytes * value)) : bytes :=
  match d with
  | [] => []
  | [(k, x)] => quote k ++ n2b c_colon :: jenc fprint x
  | (k, x) :: t => quote k ++ n2b c_colon :: jenc fprint x ++ n2b c_comma :: jenc_members fprint t
  end.

Lemma jenc_list fprint l : jenc fprint (VList l) = n2b c_lbrack :: jenc_elems fprint l ++ [n2b c_rbrack].
Proof.
  cbn [jenc]. f_equal. f_equal.
  induction l as [|x l IH]; [reflexivity|]. destruct l as [|y t]; [reflexivity|].
  change (jenc_elems fprint (x :: y :: t)) with (jenc fprint x ++ n2b c_comma :: jenc_elems fprint (y :: t)).
  rewrite <- IH. reflexivity.
Qed.

Lemma jenc_dict fprint d : jenc fprint (VDict d) = n2b c_lbrace :: jenc_members fprint d ++ [n2b c_rbrace].
Proof.
  cbn [jenc]. f_equal. f_equal.
  induction d as [|[k x] d IH]; [reflexivity|]. destruct d as [|[k' y] t]; [reflexivity|].
  change (jenc_members fprint ((k, x) :: (k', y) :: t))
    with (quote k ++ n2b c_colon :: jenc fprint x ++ n2b c_comma :: jenc_members fprint ((k', y) :: t)).
  rewrite <- IH. reflexivity.
Qed.

Section JsonRoundTrip.
  Variable fprint : N -> bytes.
  Variable fparse : bytes -> option N.
  Variable fdom : N -> bool.

  (** ASSUMED of the float text oracle (Go's strconv as ugorji calls it), on
      [fdom] only: the text of a finite float consists of number characters,
      starts with a minus sign or a digit, and is read back as that float. *)
  Hypothesis float_text :
    forall f, fdom f = true ->
              float_is_nan_or_inf f = false
              /\ forallb is_num_char (fprint f) = true
              /\ (exists b t, fprint f = b :: t /\ (b2n b = c_minus \/ is_digit b = true))
              /\ num_of_token fparse (fprint f) = Some (VFloat f).

  Notation jenc := (jenc fprint).
  Notation jdec := (jdec fparse).
  Notation jdec_elems := (jdec_elems fparse).
  Notation jdec_members := (jdec_members fparse).
  Notation json_dom := (json_dom fdom).

  Lemma jdec_S d f bs :
    jdec d (S f) bs =
    match skip_ws bs with
    | [] => JNo
    | c :: r =>
        let n := b2n c in
        if n =? 0x6e then match expect (tl s_null) r with Some r' => JOk VNull r' | None => JNo end
        else if n =? 0x74 then match expect (tl s_true) r with Some r' => JOk (VBool true) r' | None => JNo end
        else if n =? 0x66 then match expect (tl s_false) r with Some r' => JOk (VBool false) r' | None => JNo end
        else if n =? c_quote then
          match unquote_body r with Some (s, r') => JOk (VStr s) r' | None => JNo end
        else if n =? c_lbrack then
          match skip_ws r with
          | c2 :: r2 =>
              match d with
              | O => JNo
              | S d' =>
                  if b2n c2 =? c_rbrack then JOk (VList []) r2
                  else match jdec_elems d' f (c2 :: r2) with
                       | JLOk l r' => JOk (VList l) r'
                       | JLNo => JNo | JLFuel => JFuel
                       end
              end
          | [] => JNo
          end
        else if n =? c_lbrace then
          match skip_ws r with
          | c2 :: r2 =>
              match d with
              | O => JNo
              | S d' =>
                  if b2n c2 =? c_rbrace then JOk (VDict []) r2
                  else match jdec_members d' f (c2 :: r2) with
                       | JMOk m r' => JOk (VDict m) r'
                       | JMNo => JNo | JMFuel => JFuel
                       end
              end
          | [] => JNo
          end
        else if (n =? c_minus) || is_digit c then
          let '(tok, r') := span_num (c :: r) in
          match num_of_token fparse tok with Some v => JOk v r' | None => JNo end
        else JNo
    end.
  Proof. reflexivity. Qed.

  Lemma jdec_elems_S d f bs :
    jdec_elems d (S f) bs =
    match jdec d f bs with
    | JOk v r =>
        match skip_ws r with
        | c :: r' =>
            if b2n c =? c_rbrack then JLOk [v] r'
            else if b2n c =? c_comma then
              match jdec_elems d f r' with
              | JLOk l r'' => JLOk (v :: l) r''
              | e => e
              end
            else JLNo
        | [] => JLNo
        end
    | JNo => JLNo
    | JFuel => JLFuel
    end.
  Proof. reflexivity. Qed.

  Lemma jdec_members_S d f bs :
    jdec_members d (S f) bs =
    match skip_ws bs with
    | q :: r0 =>
        if b2n q =? c_quote then
          match unquote_body r0 with
          | Some (k, r1) =>
              match skip_ws r1 with
              | c :: r2 =>
                  if b2n c =? c_colon then
                    match jdec d f r2 with
                    | JOk v r3 =>
                        match skip_ws r3 with
                        | c' :: r4 =>
                            if b2n c' =? c_rbrace then JMOk [(k, v)] r4
                            else if b2n c' =? c_comma then
                              match jdec_members d f r4 with
                              | JMOk m r5 => JMOk ((k, v) :: m) r5
                              | e => e
                              end
                            else JMNo
                        | [] => JMNo
                        end
                    | JNo => JMNo
                    | JFuel => JMFuel
                    end
                  else JMNo
              | [] => JMNo
              end
          | None => JMNo
          end
        else JMNo
    | [] => JMNo
    end.
  Proof. reflexivity. Qed.

  (** a number token at the head of the input *)
  Lemma jdec_number (d f : nat) (tok rest : bytes) (v : value) :
    (exists b t, tok = b :: t /\ (b2n b = c_minus \/ is_digit b = true)) ->
    forallb is_num_char tok = true -> delim_ok rest = true ->
    num_of_token fparse tok = Some v ->
    jdec d (S f) (tok ++ rest) = JOk v rest.
  Proof.
    intros [b [t [-> Hb]]] Hn Hr Hv. rewrite jdec_S. cbn [app].
    assert (Hws : is_ws b = false).
    { unfold is_ws. destruct Hb as [Hb|Hb]; [rewrite Hb; reflexivity|]. unfold is_digit, c_0, c_9 in Hb. lia. }
    rewrite skip_ws_nonws by exact Hws. cbv zeta.
    assert (Hc : (b2n b =? 0x6e) = false /\ (b2n b =? 0x74) = false /\ (b2n b =? 0x66) = false
                 /\ (b2n b =? c_quote) = false /\ (b2n b =? c_lbrack) = false /\ (b2n b =? c_lbrace) = false
                 /\ ((b2n b =? c_minus) || is_digit b) = true).
    { unfold c_quote, c_lbrack, c_lbrace, c_minus in *. destruct Hb as [Hb|Hb].
      - rewrite Hb. repeat split; reflexivity.
      - rewrite Hb, orb_true_r. unfold is_digit, c_0, c_9 in Hb. repeat split; lia. }
    destruct Hc as [H1 [H2 [H3 [H4 [H5 [H6 H7]]]]]]. rewrite H1, H2, H3, H4, H5, H6, H7.
    change (b :: t ++ rest) with ((b :: t) ++ rest). rewrite span_num_app by assumption. rewrite Hv. reflexivity.
  Qed.

  (** the first character of an encoded value: not white space, not a closing bracket *)
  Lemma jenc_first (v : value) :
    json_dom v = true ->
    exists b t, jenc v = b :: t /\ is_ws b = false /\ (b2n b =? c_rbrack) = false /\ (b2n b =? c_rbrace) = false.
  Proof.
    intros Hd. destruct v as [| [|] | k z | f | s | s | l | m].
    - eexists _, _. split; [reflexivity|]. repeat split; reflexivity.
    - eexists _, _. split; [reflexivity|]. repeat split; reflexivity.
    - eexists _, _. split; [reflexivity|]. repeat split; reflexivity.
    - cbn [jenc]. unfold dec_of_Z. destruct (z <? 0)%Z.
      + eexists _, _. split; [reflexivity|]. repeat split; reflexivity.
      + destruct (int_digits_ok_nonempty _ (dec_of_N_ok (Z.to_N z))) as [b [t [E Hb]]]. rewrite E.
        exists b, t. split; [reflexivity|]. unfold is_digit, c_0, c_9 in Hb. unfold is_ws, c_rbrack, c_rbrace. repeat split; lia.
    - cbn [jenc json_dom] in *. destruct (float_is_nan_or_inf f) eqn:En.
      + eexists _, _. split; [reflexivity|]. repeat split; reflexivity.
      + cbn [orb] in Hd. destruct (float_text f Hd) as [_ [_ [[b [t [E Hb]]] _]]]. rewrite E.
        exists b, t. split; [reflexivity|]. unfold is_ws, c_rbrack, c_rbrace.
        destruct Hb as [Hb|Hb]; [rewrite Hb; repeat split; reflexivity|].
        unfold is_digit, c_0, c_9 in Hb. repeat split; lia.
    - eexists _, _. split; [reflexivity|]. repeat split; reflexivity.
    - eexists _, _. split; [reflexivity|]. repeat split; reflexivity.
    - rewrite jenc_list. eexists _, _. split; [reflexivity|]. repeat split; reflexivity.
    - rewrite jenc_dict. eexists _, _. split; [reflexivity|]. repeat split; reflexivity.
  Qed.

  Lemma jenc_nonempty (v : value) : json_dom v = true -> (1 <= length (jenc v))%nat.
  Proof. intros H. destruct (jenc_first v H) as [b [t [E _]]]. rewrite E. cbn [length]. lia. Qed.

  Definition elem_ok (v : value) : Prop :=
    forall d fuel rest, (depth v <= d)%nat -> delim_ok rest = true ->
                        (2 * length (jenc v ++ rest) + 1 <= fuel)%nat ->
                        jdec d fuel (jenc v ++ rest) = JOk (canon_js v) rest.

  Lemma comma_props : is_ws (n2b c_comma) = false /\ (b2n (n2b c_comma) =? c_rbrack) = false
                      /\ (b2n (n2b c_comma) =? c_comma) = true /\ delim_ok (n2b c_comma :: []) = true
                      /\ (b2n (n2b c_comma) =? c_rbrace) = false.
  Proof. repeat split; reflexivity. Qed.

  Lemma jdec_elems_enc (l : list value) :
    l <> [] ->
    Forall (fun v => json_dom v = true /\ elem_ok v) l ->
    forall d fuel rest,
      Forall (fun v => (depth v <= d)%nat) l ->
      (2 * length (jenc_elems fprint l ++ n2b c_rbrack :: rest) + 2 <= fuel)%nat ->
      jdec_elems d fuel (jenc_elems fprint l ++ n2b c_rbrack :: rest) = JLOk (map canon_js l) rest.
  Proof.
    intros Hne H. induction H as [|x l [Hdx Hx] Hl IH]; [congruence|]. clear Hne.
    intros d fuel rest Hd Hf. inversion Hd as [|? ? Hdx' Hdl]; subst.
    destruct fuel as [|f]; [lia|]. rewrite jdec_elems_S.
    destruct l as [|y t].
    - (* last element *)
      cbn [jenc_elems map] in *.
      rewrite Hx by (try assumption; try reflexivity; lia).
      rewrite skip_ws_nonws by reflexivity.
      change (b2n (n2b c_rbrack) =? c_rbrack) with true. reflexivity.
    - cbn [jenc_elems] in *. set (tl_enc := jenc_elems fprint (y :: t)) in *.
      rewrite <- app_assoc in *. cbn [app] in *.
      pose proof (jenc_nonempty x Hdx) as Hnx. rewrite app_length in Hf. cbn [length] in Hf.
      rewrite Hx by (try assumption; try reflexivity; rewrite app_length; cbn [length]; lia).
      rewrite skip_ws_nonws by reflexivity.
      change (b2n (n2b c_comma) =? c_rbrack) with false. change (b2n (n2b c_comma) =? c_comma) with true. cbv iota.
      rewrite IH by (try assumption; try discriminate; lia). reflexivity.
  Qed.

  Lemma quote_unquote (k rest : bytes) : unquote_body (tl (quote k) ++ rest) = Some (k, rest).
  Proof. unfold quote. cbn [tl]. rewrite <- app_assoc. cbn [app]. apply unquote_quote_body. Qed.

  Lemma quote_length (k : bytes) : (2 <= length (quote k))%nat.
  Proof. unfold quote. cbn [length]. rewrite app_length. cbn [length]. lia. Qed.

  (** a member's key and colon *)
  Lemma jdec_members_key d f (k R : bytes) :
    jdec_members d (S f) (quote k ++ n2b c_colon :: R) =
    match jdec d f R with
    | JOk v r3 =>
        match skip_ws r3 with
        | c' :: r4 =>
            if b2n c' =? c_rbrace then JMOk [(k, v)] r4
            else if b2n c' =? c_comma then
              match jdec_members d f r4 with
              | JMOk m r5 => JMOk ((k, v) :: m) r5
              | e => e
              end
            else JMNo
        | [] => JMNo
        end
    | JNo => JMNo
    | JFuel => JMFuel
    end.
  Proof.
    rewrite jdec_members_S. unfold quote. cbn [app]. rewrite skip_ws_nonws by reflexivity.
    change (b2n (n2b c_quote) =? c_quote) with true. cbv iota.
    rewrite <- app_assoc. cbn [app]. rewrite unquote_quote_body.
    rewrite skip_ws_nonws by reflexivity. change (b2n (n2b c_colon) =? c_colon) with true. cbv iota.
    reflexivity.
  Qed.

  Lemma jdec_members_enc (m : list (bytes * value)) :
    m <> [] ->
    Forall (fun kv => json_dom (snd kv) = true /\ elem_ok (snd kv)) m ->
    forall d fuel rest,
      Forall (fun kv => (depth (snd kv) <= d)%nat) m ->
      (2 * length (jenc_members fprint m ++ n2b c_rbrace :: rest) + 2 <= fuel)%nat ->
      jdec_members d fuel (jenc_members fprint m ++ n2b c_rbrace :: rest)
      = JMOk (map (fun kv => (fst kv, canon_js (snd kv))) m) rest.
  Proof.
    intros Hne H. induction H as [|[k x] m [Hdx Hx] Hm IH]; [congruence|]. clear Hne. cbn [snd] in *.
    intros d fuel rest Hd Hf. inversion Hd as [|? ? Hdx' Hdl]; subst. cbn [snd] in Hdx'.
    destruct fuel as [|f]; [lia|].
    pose proof (jenc_nonempty x Hdx) as Hnx. pose proof (quote_length k) as Hq.
    destruct m as [|[k' y] t].
    - cbn [jenc_members map fst snd] in *.
      rewrite <- app_assoc in *. cbn [app] in *.
      rewrite jdec_members_key.
      rewrite app_length in Hf. cbn [length] in Hf.
      rewrite Hx by (try assumption; try reflexivity; lia).
      rewrite skip_ws_nonws by reflexivity.
      change (b2n (n2b c_rbrace) =? c_rbrace) with true. reflexivity.
    - change (jenc_members fprint ((k, x) :: (k', y) :: t))
        with (quote k ++ n2b c_colon :: jenc x ++ n2b c_comma :: jenc_members fprint ((k', y) :: t)) in *.
      set (tl_enc := jenc_members fprint ((k', y) :: t)) in *.
      rewrite <- app_assoc in *. cbn [app] in *. rewrite <- app_assoc in *. cbn [app] in *.
      rewrite jdec_members_key.
      rewrite app_length in Hf. cbn [length] in Hf. rewrite app_length in Hf. cbn [length] in Hf.
      rewrite Hx by (try assumption; try reflexivity; rewrite app_length; cbn [length]; lia).
      rewrite skip_ws_nonws by reflexivity.
      change (b2n (n2b c_comma) =? c_rbrace) with false. change (b2n (n2b c_comma) =? c_comma) with true. cbv iota.
      cbn [map fst snd].
      rewrite IH by (try assumption; try discriminate; lia). reflexivity.
  Qed.

  Lemma depth_list_elems (l : list value) (d : nat) :
    (depth (VList l) <= S d)%nat -> Forall (fun v => (depth v <= d)%nat) l.
  Proof.
    cbn [depth]. intros H. apply le_S_n in H. revert H.
    induction l as [|x l IH]; cbn [fold_right]; intros H; constructor; [lia | apply IH; lia].
  Qed.

  Lemma depth_dict_elems (m : list (bytes * value)) (d : nat) :
    (depth (VDict m) <= S d)%nat -> Forall (fun kv => (depth (snd kv) <= d)%nat) m.
  Proof.
    cbn [depth]. intros H. apply le_S_n in H. revert H.
    induction m as [|x m IH]; cbn [fold_right]; intros H; constructor; [lia | apply IH; lia].
  Qed.

  Lemma jdec_string d f (s rest : bytes) : jdec d (S f) (quote s ++ rest) = JOk (VStr s) rest.
  Proof.
    rewrite jdec_S. unfold quote. cbn [app]. rewrite skip_ws_nonws by reflexivity. cbv zeta.
    change (b2n (n2b c_quote) =? 0x6e) with false. change (b2n (n2b c_quote) =? 0x74) with false.
    change (b2n (n2b c_quote) =? 0x66) with false. change (b2n (n2b c_quote) =? c_quote) with true. cbv iota.
    rewrite <- app_assoc. cbn [app]. rewrite unquote_quote_body. reflexivity.
  Qed.

  Lemma jdec_null d f (rest : bytes) : jdec d (S f) (s_null ++ rest) = JOk VNull rest.
  Proof.
    rewrite jdec_S. change (s_null ++ rest) with (n2b 0x6e :: (tl s_null ++ rest)).
    rewrite skip_ws_nonws by reflexivity. cbv zeta.
    change (b2n (n2b 0x6e) =? 0x6e) with true. cbv iota. rewrite expect_app. reflexivity.
  Qed.

  Theorem jdec_jenc (v : value) : json_dom v = true -> elem_ok v.
  Proof.
    induction v as [| b | k z | x | s | s | l IH | m IH] using value_ind';
      intros Hdom d fuel rest Hd Hr Hf; (destruct fuel as [|f]; [lia|]).
    - apply jdec_null.
    - destruct b; cbn [jenc canon_js]; rewrite jdec_S.
      + change (s_true ++ rest) with (n2b 0x74 :: (tl s_true ++ rest)).
        rewrite skip_ws_nonws by reflexivity. cbv zeta.
        change (b2n (n2b 0x74) =? 0x6e) with false. change (b2n (n2b 0x74) =? 0x74) with true. cbv iota.
        rewrite expect_app. reflexivity.
      + change (s_false ++ rest) with (n2b 0x66 :: (tl s_false ++ rest)).
        rewrite skip_ws_nonws by reflexivity. cbv zeta.
        change (b2n (n2b 0x66) =? 0x6e) with false. change (b2n (n2b 0x66) =? 0x74) with false.
        change (b2n (n2b 0x66) =? 0x66) with true. cbv iota.
        rewrite expect_app. reflexivity.
    - cbn [jenc canon_js json_dom] in *. apply jdec_number; try assumption.
      + unfold dec_of_Z. destruct (z <? 0)%Z.
        * eexists _, _. split; [reflexivity|]. left. reflexivity.
        * destruct (int_digits_ok_nonempty _ (dec_of_N_ok (Z.to_N z))) as [b [t [E Hb]]]. rewrite E. eauto.
      + apply dec_of_Z_num_chars.
      + apply (num_of_token_int fparse k z Hdom).
    - cbn [jenc canon_js json_dom] in *. destruct (float_is_nan_or_inf x) eqn:En.
      + apply jdec_null.
      + cbn [orb] in Hdom. destruct (float_text x Hdom) as [_ [Hnc [Hfirst Htok]]].
        apply jdec_number; assumption.
    - cbn [jenc canon_js]. apply jdec_string.
    - cbn [jenc canon_js]. apply jdec_string.
    - (* list *)
      cbn [json_dom canon_js] in Hdom |- *. rewrite jenc_list in *. rewrite jdec_S. cbn [app].
      rewrite skip_ws_nonws by reflexivity. cbv zeta.
      change (b2n (n2b c_lbrack) =? 0x6e) with false. change (b2n (n2b c_lbrack) =? 0x74) with false.
      change (b2n (n2b c_lbrack) =? 0x66) with false. change (b2n (n2b c_lbrack) =? c_quote) with false.
      change (b2n (n2b c_lbrack) =? c_lbrack) with true. cbv iota.
      rewrite <- app_assoc. cbn [app].
      destruct d as [|d']; [cbn [depth] in Hd; lia|].
      destruct l as [|y t].
      + cbn [jenc_elems app map]. rewrite skip_ws_nonws by reflexivity.
        change (b2n (n2b c_rbrack) =? c_rbrack) with true. reflexivity.
      + assert (Hy : json_dom y = true) by (cbn [forallb] in Hdom; apply andb_true_iff in Hdom; tauto).
        destruct (jenc_first y Hy) as [b0 [t0 [E0 [Hws [Hnb _]]]]].
        assert (Eh : exists t1, jenc_elems fprint (y :: t) ++ n2b c_rbrack :: rest = b0 :: t1).
        { destruct t; cbn [jenc_elems]; rewrite E0; cbn [app]; eauto. }
        destruct Eh as [t1 Eh].
        rewrite Eh. rewrite skip_ws_nonws by exact Hws. rewrite Hnb. rewrite <- Eh.
        rewrite jdec_elems_enc.
        * reflexivity.
        * discriminate.
        * rewrite forallb_forall in Hdom. rewrite Forall_forall in *. intros v Hv. split; [apply Hdom; exact Hv|].
          apply IH; [exact Hv | apply Hdom; exact Hv].
        * apply depth_list_elems. exact Hd.
        * cbn [app length] in Hf. rewrite <- app_assoc in Hf. cbn [app] in Hf. lia.
    - (* dict *)
      cbn [json_dom canon_js] in Hdom |- *. rewrite jenc_dict in *. rewrite jdec_S. cbn [app].
      rewrite skip_ws_nonws by reflexivity. cbv zeta.
      change (b2n (n2b c_lbrace) =? 0x6e) with false. change (b2n (n2b c_lbrace) =? 0x74) with false.
      change (b2n (n2b c_lbrace) =? 0x66) with false. change (b2n (n2b c_lbrace) =? c_quote) with false.
      change (b2n (n2b c_lbrace) =? c_lbrack) with false. change (b2n (n2b c_lbrace) =? c_lbrace) with true. cbv iota.
      rewrite <- app_assoc. cbn [app].
      destruct d as [|d']; [cbn [depth] in Hd; lia|].
      apply andb_true_iff in Hdom. destruct Hdom as [_ Hdom].
      destruct m as [|[k0 y] t].
      + cbn [jenc_members app map]. rewrite skip_ws_nonws by reflexivity.
        change (b2n (n2b c_rbrace) =? c_rbrace) with true. reflexivity.
      + assert (Eh : exists t1, jenc_members fprint ((k0, y) :: t) ++ n2b c_rbrace :: rest = n2b c_quote :: t1).
        { destruct t as [|[k1 y1] t]; cbn [jenc_members]; unfold quote; cbn [app]; eauto. }
        destruct Eh as [t1 Eh].
        rewrite Eh. rewrite skip_ws_nonws by reflexivity.
        change (b2n (n2b c_quote) =? c_rbrace) with false. cbv iota. rewrite <- Eh.
        rewrite jdec_members_enc.
        * reflexivity.
        * discriminate.
        * rewrite forallb_forall in Hdom. rewrite Forall_forall in *. intros [k1 v] Hv. cbn [snd].
          specialize (Hdom (k1, v) Hv). cbn [fst snd] in Hdom. apply andb_true_iff in Hdom. destruct Hdom as [_ Hdv].
          split; [exact Hdv|]. apply (IH (k1, v) Hv). exact Hdv.
        * apply depth_dict_elems. exact Hd.
        * cbn [app length] in Hf. rewrite <- app_assoc in Hf. cbn [app] in Hf. lia.
  Qed.
End JsonRoundTrip.

(** ** Totality of the JSON reader: fuel linear in the input never runs out *)

Lemma skip_ws_len (bs : bytes) : (length (skip_ws bs) <= length bs)%nat.
Proof. induction bs as [|b r IH]; cbn [skip_ws]; [lia|]. destruct (is_ws b); cbn [length]; lia. Qed.

Lemma expect_len (p bs r : bytes) : expect p bs = Some r -> (length r <= length bs)%nat.
Proof.
  revert bs. induction p as [|x p IH]; intros bs H; cbn [expect] in H.
  - injection H as <-. lia.
  - destruct bs as [|y bs']; [discriminate|]. destruct (byte_eqb x y); [|discriminate].
    apply IH in H. cbn [length]. lia.
Qed.

Lemma span_num_len (bs tok r : bytes) : span_num bs = (tok, r) -> (length tok + length r = length bs)%nat.
Proof.
  revert tok r. induction bs as [|b bs' IH]; intros tok r H; cbn [span_num] in H.
  - injection H as <- <-. reflexivity.
  - destruct (is_num_char b).
    + destruct (span_num bs') as [t r'] eqn:E. injection H as <- <-. specialize (IH _ _ eq_refl). cbn [length]. lia.
    + injection H as <- <-. reflexivity.
Qed.

Lemma unquote_len (n : nat) : forall (bs s r : bytes),
  (length bs <= n)%nat -> unquote_body bs = Some (s, r) -> (length r < length bs)%nat.
Proof.
  induction n as [|n IH]; intros bs s r Hl H; (destruct bs as [|b r0]; [discriminate|]); cbn [length] in Hl; [lia|].
  cbn [unquote_body] in H.
  assert (IH' : forall bs' s' r', (length bs' <= n)%nat -> unquote_body bs' = Some (s', r') -> (length r' < length bs')%nat)
    by exact IH.
  clear IH.
  repeat match type of H with
         | (if ?c then _ else _) = _ => destruct c eqn:?
         | match ?x with _ => _ end = _ =>
             match x with
             | unquote_body ?t =>
                 let E := fresh "E" in
                 destruct (unquote_body t) as [[? ?]|] eqn:E;
                 [apply IH' in E; [|cbn [length] in *; lia] | ]
             | _ => destruct x eqn:?
             end
         end; try discriminate;
    try (injection H as <- <-); subst; cbn [length] in *; lia.
Qed.

Lemma unquote_shorter (bs s r : bytes) : unquote_body bs = Some (s, r) -> (length r < length bs)%nat.
Proof. apply (unquote_len (length bs)). lia. Qed.

Section JsonTotal.
  Variable fparse : bytes -> option N.
  Notation jdec := (jdec fparse).
  Notation jdec_elems := (jdec_elems fparse).
  Notation jdec_members := (jdec_members fparse).

  Lemma jdec_result_shorter :
    forall fuel,
      (forall d bs v r, jdec d fuel bs = JOk v r -> (length r < length bs)%nat)
      /\ (forall d bs l r, jdec_elems d fuel bs = JLOk l r -> (length r < length bs)%nat)
      /\ (forall d bs m r, jdec_members d fuel bs = JMOk m r -> (length r < length bs)%nat).
  Proof.
    induction fuel as [|f [IHd [IHs IHm]]]; (split; [|split]); intros d bs.
    - intros v r H. discriminate.
    - intros l r H. discriminate.
    - intros m r H. discriminate.
    - intros v r H. rewrite jdec_S in H. pose proof (skip_ws_len bs) as Hs.
      destruct (skip_ws bs) as [|c r0]; [discriminate|]. cbv zeta in H. cbn [length] in Hs.
      repeat match type of H with
             | (if ?c then _ else _) = _ => destruct c eqn:?
             end.
      + destruct (expect (tl s_null) r0) as [r'|] eqn:E; [|discriminate]. injection H as _ <-. apply expect_len in E. lia.
      + destruct (expect (tl s_true) r0) as [r'|] eqn:E; [|discriminate]. injection H as _ <-. apply expect_len in E. lia.
      + destruct (expect (tl s_false) r0) as [r'|] eqn:E; [|discriminate]. injection H as _ <-. apply expect_len in E. lia.
      + destruct (unquote_body r0) as [[s r']|] eqn:E; [|discriminate]. injection H as _ <-. apply unquote_shorter in E. lia.
      + pose proof (skip_ws_len r0) as Hs2. destruct (skip_ws r0) as [|c2 r2]; [discriminate|]. cbn [length] in Hs2.
        destruct d as [|d']; [discriminate|].
        destruct (b2n c2 =? c_rbrack); [injection H as _ <-; lia|].
        destruct (Json.jdec_elems fparse d' f (c2 :: r2)) as [l r'| |] eqn:E; try discriminate.
        injection H as _ <-. apply IHs in E. cbn [length] in E. lia.
      + pose proof (skip_ws_len r0) as Hs2. destruct (skip_ws r0) as [|c2 r2]; [discriminate|]. cbn [length] in Hs2.
        destruct d as [|d']; [discriminate|].
        destruct (b2n c2 =? c_rbrace); [injection H as _ <-; lia|].
        destruct (Json.jdec_members fparse d' f (c2 :: r2)) as [l r'| |] eqn:E; try discriminate.
        injection H as _ <-. apply IHm in E. cbn [length] in E. lia.
      + destruct (span_num (c :: r0)) as [tok r'] eqn:E.
        destruct (num_of_token fparse tok) as [v'|] eqn:En; [|discriminate]. injection H as _ <-.
        pose proof (span_num_len _ _ _ E) as Hl. cbn [length] in Hl.
        assert (tok <> []). { intros ->. cbn in En. discriminate. }
        destruct tok; [congruence|]. cbn [length] in Hl. lia.
      + discriminate.
    - intros l r H. rewrite jdec_elems_S in H.
      destruct (Json.jdec fparse d f bs) as [v r0| |] eqn:D; try discriminate.
      apply IHd in D. pose proof (skip_ws_len r0) as Hs. destruct (skip_ws r0) as [|c r']; [discriminate|]. cbn [length] in Hs.
      destruct (b2n c =? c_rbrack); [injection H as _ <-; lia|].
      destruct (b2n c =? c_comma); [|discriminate].
      destruct (Json.jdec_elems fparse d f r') as [l' r''| |] eqn:E; try discriminate.
      injection H as _ <-. apply IHs in E. lia.
    - intros m r H. rewrite jdec_members_S in H.
      pose proof (skip_ws_len bs) as Hs. destruct (skip_ws bs) as [|q r0]; [discriminate|]. cbn [length] in Hs.
      destruct (b2n q =? c_quote); [|discriminate].
      destruct (unquote_body r0) as [[k r1]|] eqn:U; [|discriminate]. apply unquote_shorter in U.
      pose proof (skip_ws_len r1) as Hs1. destruct (skip_ws r1) as [|c r2]; [discriminate|]. cbn [length] in Hs1.
      destruct (b2n c =? c_colon); [|discriminate].
      destruct (Json.jdec fparse d f r2) as [v r3| |] eqn:D; try discriminate. apply IHd in D.
      pose proof (skip_ws_len r3) as Hs3. destruct (skip_ws r3) as [|c' r4]; [discriminate|]. cbn [length] in Hs3.
      destruct (b2n c' =? c_rbrace); [injection H as _ <-; lia|].
      destruct (b2n c' =? c_comma); [|discriminate].
      destruct (Json.jdec_members fparse d f r4) as [m' r5| |] eqn:E; try discriminate.
      injection H as _ <-. apply IHm in E. lia.
  Qed.

  Lemma jdec_no_fuel :
    forall fuel,
      (forall d bs, (2 * length bs + 1 <= fuel)%nat -> jdec d fuel bs <> JFuel)
      /\ (forall d bs, (2 * length bs + 2 <= fuel)%nat -> jdec_elems d fuel bs <> JLFuel)
      /\ (forall d bs, (2 * length bs + 2 <= fuel)%nat -> jdec_members d fuel bs <> JMFuel).
  Proof.
    induction fuel as [|f [IHd [IHs IHm]]]; (split; [|split]); intros d bs Hf; try lia.
    - rewrite jdec_S. pose proof (skip_ws_len bs) as Hs.
      destruct (skip_ws bs) as [|c r0]; [discriminate|]. cbv zeta. cbn [length] in Hs.
      repeat match goal with
             | |- (if ?c then _ else _) <> _ => destruct c eqn:?
             end; try discriminate.
      + destruct (expect (tl s_null) r0); discriminate.
      + destruct (expect (tl s_true) r0); discriminate.
      + destruct (expect (tl s_false) r0); discriminate.
      + destruct (unquote_body r0) as [[s r']|]; discriminate.
      + pose proof (skip_ws_len r0) as Hs2. destruct (skip_ws r0) as [|c2 r2]; [discriminate|]. cbn [length] in Hs2.
        destruct d as [|d']; [discriminate|].
        destruct (b2n c2 =? c_rbrack); [discriminate|].
        destruct (Json.jdec_elems fparse d' f (c2 :: r2)) as [l r'| |] eqn:E; try discriminate.
        exfalso. eapply IHs; [|exact E]. cbn [length]. lia.
      + pose proof (skip_ws_len r0) as Hs2. destruct (skip_ws r0) as [|c2 r2]; [discriminate|]. cbn [length] in Hs2.
        destruct d as [|d']; [discriminate|].
        destruct (b2n c2 =? c_rbrace); [discriminate|].
        destruct (Json.jdec_members fparse d' f (c2 :: r2)) as [l r'| |] eqn:E; try discriminate.
        exfalso. eapply IHm; [|exact E]. cbn [length]. lia.
      + destruct (span_num (c :: r0)) as [tok r']. destruct (num_of_token fparse tok); discriminate.
    - rewrite jdec_elems_S.
      destruct (Json.jdec fparse d f bs) as [v r0| |] eqn:D; try discriminate.
      + pose proof (proj1 (jdec_result_shorter f) _ _ _ _ D) as Hsh.
        pose proof (skip_ws_len r0) as Hs. destruct (skip_ws r0) as [|c r']; [discriminate|]. cbn [length] in Hs.
        destruct (b2n c =? c_rbrack); [discriminate|].
        destruct (b2n c =? c_comma); [|discriminate].
        destruct (Json.jdec_elems fparse d f r') as [l' r''| |] eqn:E; try discriminate.
        exfalso. eapply IHs; [|exact E]. lia.
      + exfalso. eapply IHd; [|exact D]. lia.
    - rewrite jdec_members_S.
      pose proof (skip_ws_len bs) as Hs. destruct (skip_ws bs) as [|q r0]; [discriminate|]. cbn [length] in Hs.
      destruct (b2n q =? c_quote); [|discriminate].
      destruct (unquote_body r0) as [[k r1]|] eqn:U; [|discriminate]. apply unquote_shorter in U.
      pose proof (skip_ws_len r1) as Hs1. destruct (skip_ws r1) as [|c r2]; [discriminate|]. cbn [length] in Hs1.
      destruct (b2n c =? c_colon); [|discriminate].
      destruct (Json.jdec fparse d f r2) as [v r3| |] eqn:D; try discriminate.
      + pose proof (proj1 (jdec_result_shorter f) _ _ _ _ D) as Hsh.
        pose proof (skip_ws_len r3) as Hs3. destruct (skip_ws r3) as [|c' r4]; [discriminate|]. cbn [length] in Hs3.
        destruct (b2n c' =? c_rbrace); [discriminate|].
        destruct (b2n c' =? c_comma); [|discriminate].
        destruct (Json.jdec_members fparse d f r4) as [m' r5| |] eqn:E; try discriminate.
        exfalso. eapply IHm; [|exact E]. lia.
      + exfalso. eapply IHd; [|exact D]. lia.
  Qed.

  Theorem js_decode_total (bs : bytes) : js_decode fparse bs <> DFuel.
  Proof.
    unfold js_decode, js_decode_raw, js_fuel_for.
    pose proof (proj1 (jdec_no_fuel (S (length bs + length bs))) max_nesting bs ltac:(lia)) as H.
    destruct (Json.jdec fparse max_nesting (S (length bs + length bs)) bs) as [v r| |]; try congruence; try discriminate.
    destruct (dicts_ok v); discriminate.
  Qed.
End JsonTotal.
