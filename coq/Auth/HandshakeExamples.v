(** * Auth/HandshakeExamples — witnesses: non-vacuity of the C09 theorems and
    the refutation of [challenge_bound] for the cryptosign code as found. *)
From Coq Require Import List String Ascii ZArith NArith Bool.
From Nexus Require Import Auth.Values Auth.Handshake Auth.HandshakeSpec Auth.KeyTable Auth.Toy.
Import ListNotations.
Open Scope string_scope.

Definition wd_of (r : result) : option (N * dict) :=
  match rev (r_out r) with
  | OWelcome sid wd :: _ => Some (sid, wd)
  | _ => None
  end.

Definition shown_identity (r : result) : list (option value) :=
  match r_session r with
  | Some s => map (fun k => dict_get k s) ("session" :: identity_keys)
  | None => []
  end.

(** *** every admission route is reachable (repaired model) *)
Lemma ex_anonymous_welcomed :
  welcomed (toy_attach true remote_peer (toy_oracle chal1) (hello "anonymous" :: later)) = true.
Proof. vm_compute. reflexivity. Qed.

Lemma ex_local_welcomed :
  welcomed (toy_attach true local_peer (toy_oracle chal1) (hello "ticket" :: later)) = true.
Proof. vm_compute. reflexivity. Qed.

Lemma ex_ticket_welcomed :
  welcomed (toy_attach true remote_peer (toy_oracle chal1)
                       (hello "ticket" :: authenticate_with "tkt-alice" :: later)) = true.
Proof. vm_compute. reflexivity. Qed.

Definition cra_sig (o : oracle) : string :=
  "pw-alice" ++ "|" ++ cra_challenge toy_ks o "alice" (o_sid o).

Lemma ex_cra_welcomed :
  welcomed (toy_attach true remote_peer (toy_oracle chal1)
                       (hello "wampcra" :: authenticate_with (cra_sig (toy_oracle chal1)) :: later)) = true.
Proof. vm_compute. reflexivity. Qed.

Lemma ex_cryptosign_welcomed :
  welcomed (toy_attach true remote_peer (toy_oracle chal1)
                       (hello "cryptosign" :: authenticate_with (toy_sig chal1) :: later)) = true.
Proof. vm_compute. reflexivity. Qed.

Lemma ex_template_welcomed :
  r_realm (toy_attach true remote_peer (toy_oracle chal1)
                      (EvMsg (CHello "brand.new" (smuggling_details "anonymous")) :: later))
  = Some ("brand.new", true).
Proof. vm_compute. reflexivity. Qed.

(** *** the hypotheses of challenge_bound / replay_rejected are satisfiable *)
Lemma ex_challenge_hyps :
  lookup_realm toy_router "realm1" = Some (toy_realm, false) /\
  local_shortcut toy_realm remote_peer = false /\
  select_authenticator toy_realm (offered_methods (with_transport remote_peer (smuggling_details "cryptosign")))
  = Some (ACryptosign toy_ks, "cryptosign") /\
  bypassed toy_ks (claimed_authid (with_transport remote_peer (smuggling_details "cryptosign")))
           (with_transport remote_peer (smuggling_details "cryptosign")) = false.
Proof. vm_compute. repeat split; reflexivity. Qed.

(** the transcript accepted against [chal1] is rejected when the router issued [chal2] *)
Lemma ex_replay_rejected :
  welcomed (toy_attach true remote_peer (toy_oracle chal2)
                       (hello "cryptosign" :: authenticate_with (toy_sig chal1) :: later)) = false /\
  aborted (toy_attach true remote_peer (toy_oracle chal2)
                      (hello "cryptosign" :: authenticate_with (toy_sig chal1) :: later)) = true.
Proof. vm_compute. split; reflexivity. Qed.

Lemma ex_cra_replay_rejected :
  welcomed (toy_attach true remote_peer
                       {| o_sid := 4243; o_gen_authid := "1f00d"; o_nonce := "b3RoZXI="; o_timestamp := "2026-01-01T00:00:00Z";
                          o_rand_key := "?"; o_cs_challenge := chal1; o_chal_blocked := false; o_realm_closed := false |}
                       (hello "wampcra" :: authenticate_with (cra_sig (toy_oracle chal1)) :: later)) = false.
Proof. vm_compute. reflexivity. Qed.

(** *** abort_otherwise: each kind of refusal is reachable *)
Lemma ex_bad_ticket_aborted :
  let r := toy_attach true remote_peer (toy_oracle chal1) (hello "ticket" :: authenticate_with "nope" :: later) in
  r_out r = [OChallenge "ticket" []; OAbort uri_authentication_failed true] /\
  r_session r = None /\ r_closed r = true /\ routed r = [] /\ r_rest r = later.
Proof. vm_compute. repeat split; reflexivity. Qed.

Lemma ex_silent :
  let r := toy_attach true remote_peer (toy_oracle chal1) (EvTimeout :: later) in
  r_out r = [] /\ r_closed r = true /\ r_session r = None /\ routed r = [].
Proof. vm_compute. repeat split; reflexivity. Qed.

Lemma ex_not_hello :
  r_out (toy_attach true remote_peer (toy_oracle chal1) (EvMsg (COther 16) :: later))
  = [OAbort uri_protocol_violation true].
Proof. vm_compute. reflexivity. Qed.

Lemma ex_welcomed_is_routed :
  routed (toy_attach true remote_peer (toy_oracle chal1) (hello "anonymous" :: later)) = later.
Proof. vm_compute. reflexivity. Qed.

(** *** identity_from_router: smuggled fields lose *)
Lemma ex_identity_ticket :
  shown_identity (toy_attach true remote_peer (toy_oracle chal1)
                             (hello "ticket" :: authenticate_with "tkt-alice" :: later))
  = [Some (VInt 4242); Some (VStr "alice"); Some (VStr "user"); Some (VStr "ticket"); Some (VStr "static-A")].
Proof. vm_compute. reflexivity. Qed.

Lemma ex_identity_anonymous :
  shown_identity (toy_attach true remote_peer (toy_oracle chal1) (hello "anonymous" :: later))
  = [Some (VInt 4242); Some (VStr "1f00d"); Some (VStr "guest"); Some (VStr "anonymous"); Some (VStr "static")].
Proof. vm_compute. reflexivity. Qed.

Lemma ex_no_bypass : no_bypass toy_realm.
Proof.
  intros a ks H K. cbn in H.
  destruct H as [H|[H|[H|[H|[]]]]]; subst a; cbn in K; inversion K; reflexivity.
Qed.

Lemma ex_same_claims :
  same_claims (smuggling_details "ticket")
              [("roles", roles_pub); ("authmethods", VList [VStr "ticket"]); ("authid", VStr "alice")].
Proof.
  intros k Hk. cbn in Hk. destruct Hk as [H|[H|[H|[H|[]]]]]; subst k; reflexivity.
Qed.

(** *** the code as found: challenge_bound is false *)
Lemma challenge_bound_refuted_lemma :
  exists cra_verify sign_open rt p o realm details sig extra rest rc created ks m sid wd,
    lookup_realm rt realm = Some (rc, created) /\
    local_shortcut rc p = false /\
    select_authenticator rc (offered_methods (with_transport p details)) = Some (ACryptosign ks, m) /\
    bypassed ks (claimed_authid (with_transport p details)) (with_transport p details) = false /\
    In (OWelcome sid wd)
       (r_out (attach cra_verify sign_open false rt p o
                      (EvMsg (CHello realm details) :: EvMsg (CAuthenticate sig extra) :: rest))) /\
    ~ response_valid cra_verify sign_open (ACryptosign ks) (o_sid o) o
                     (claimed_authid (with_transport p details)) sig.
Proof.
  exists toy_cra_verify, toy_sign_open, toy_router, remote_peer, (toy_oracle chal2), "realm1",
    (smuggling_details "cryptosign"), (toy_sig chal1), [], later, toy_realm, false, toy_ks, "cryptosign".
  eexists. eexists.
  split; [vm_compute; reflexivity|].
  split; [vm_compute; reflexivity|].
  split; [vm_compute; reflexivity|].
  split; [vm_compute; reflexivity|].
  split.
  - vm_compute. right. left. reflexivity.
  - intros [key [sm [K [D [L O]]]]].
    vm_compute in K. inversion K; subst key.
    vm_compute in D. inversion D; subst sm.
    vm_compute in O. discriminate.
Qed.

(** the same captured response is accepted against two different challenges *)
Lemma cryptosign_replay_accepted_as_found_lemma :
  welcomed (toy_attach false remote_peer (toy_oracle chal1)
                       (hello "cryptosign" :: authenticate_with (toy_sig chal1) :: later)) = true /\
  welcomed (toy_attach false remote_peer (toy_oracle chal2)
                       (hello "cryptosign" :: authenticate_with (toy_sig chal1) :: later)) = true /\
  chal1 <> chal2.
Proof. vm_compute. repeat split; try reflexivity. discriminate. Qed.
