(** * Auth/KeyTable — the deterministic, table-driven key store used by the
    correspondence runs (go/cmd/c09drive builds the same one in Go) and by the
    non-vacuity examples.  Definitions only.

    The theorems of C09 quantify over *every* [keystore] record; this file
    merely provides concrete inhabitants. *)
From Coq Require Import List String ZArith Bool.
From Nexus Require Import Auth.Values Auth.Handshake.
Import ListNotations.
Open Scope string_scope.

Record user := {
  u_authid : string;
  u_role : option string;                 (* None: AuthRole returns an error *)
  u_keys : list (string * string);        (* method -> key (ticket text, CRA key bytes, Ed25519 public key) *)
  u_salt : string;
  u_keylen : Z;
  u_iters : Z
}.

Fixpoint find_user (authid : string) (us : list user) : option user :=
  match us with
  | [] => None
  | u :: r => if String.eqb authid (u_authid u) then Some u else find_user authid r
  end.

(** The bypass behaviour of the harness key store:
    AlreadyAuth(authid, details) = details.transport.auth.preauth is the string authid;
    OnWelcome fails when HELLO details carry the key "x_fail_welcome", else it
    adds [ks_note: "seen"] to the welcome details. *)
Definition table_already (authid : string) (details : dict) : bool :=
  match dict_child details "transport" with
  | Some t =>
      match dict_child t "auth" with
      | Some a =>
          match dict_get "preauth" a with
          | Some (VStr s) => String.eqb s authid
          | _ => false
          end
      | None => false
      end
  | None => false
  end.

Definition table_on_welcome (authid : string) (wd details : dict) : option dict :=
  if dict_has "x_fail_welcome" details then None
  else Some (dict_set "ks_note" (VStr "seen") wd).

Definition table_keystore (provider : string) (users : list user) (bp : bool) : keystore :=
  {| ks_provider := provider;
     ks_role := fun a => match find_user a users with Some u => u_role u | None => None end;
     ks_key := fun a m => match find_user a users with Some u => assoc m (u_keys u) | None => None end;
     ks_pwinfo := fun a => match find_user a users with
                           | Some u => (u_salt u, u_keylen u, u_iters u)
                           | None => ("", 0%Z, 0%Z)
                           end;
     ks_bypass := if bp then Some {| already_auth := table_already; on_welcome := table_on_welcome |}
                  else None |}.

(** Crypto results supplied as finite tables (the harness computes them with
    the real HMAC-SHA256 / Ed25519 code); a query outside the table is
    answered "does not verify". *)
Fixpoint cra_table (t : list (string * string * string * bool)) (sig chal key : string) : bool :=
  match t with
  | [] => false
  | (s, c, k, b) :: r =>
      if (String.eqb s sig && String.eqb c chal && String.eqb k key)%bool then b
      else cra_table r sig chal key
  end.

Fixpoint open_table (t : list (string * string * option string)) (pk sm : string) : option string :=
  match t with
  | [] => None
  | (p, s, m) :: r =>
      if (String.eqb p pk && String.eqb s sm)%bool then m else open_table r pk sm
  end.
