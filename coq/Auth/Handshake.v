(** * Auth/Handshake — executable model of [router.AttachClient]

    Definitions only (proofs: [HandshakeProofs.v]; statements: [Props/C09.v]).

    The model follows router/router.go [AttachClient], router/realm.go
    [authClient] / [getAuthenticator] / [handleSession] / [cleanSessionDetails]
    and the four authenticators of router/auth line by line.  One run of
    [attach] is one handshake:

      await first message (HELLO | other | timeout/closed)
      -> realm lookup / template creation / router closed
      -> client roles check
      -> authClient: local shortcut | authmethods parsing | first configured
         method | per-method exchange
      -> session details assembly
      -> handleSession (realm closed -> ABORT)
      -> WELCOME

    What the client does is a *script*: the list of events the router's
    receive operations will see, in order ([EvMsg m], [EvTimeout] = nothing
    arrives within the timeout in force, [EvClosed] = the peer's receive
    channel is closed).  An exhausted script means the client stays silent.

    Everything random or environmental is an explicit [oracle] field (session
    id, generated authid, nonce, timestamp, random challenge bytes, whether
    the peer's queue can take the CHALLENGE, whether the realm was closed while
    the handshake was in progress); theorems quantify over all of them.

    The cryptographic primitives are Section variables; nothing is assumed
    about them.  [cs_bind] says whether cryptosign's [verifySignature]
    compares the opened message with the challenge it issued: [true] is the
    repaired code (fixes/C09-cryptosign-replay.patch), [false] the code as
    found. *)
From Coq Require Import List String Ascii ZArith NArith Bool.
From Nexus Require Import Auth.Values.
Import ListNotations.
Open Scope string_scope.

(** ** Constants.  [Auth/C09Conformance.v] checks them, on every run, against
    the ones the translator regenerates from /repo ([gen/GenC09.v]). *)
Definition uri_protocol_violation := "wamp.error.protocol_violation".
Definition uri_no_such_realm := "wamp.error.no_such_realm".
Definition uri_system_shutdown := "wamp.close.system_shutdown".
Definition uri_no_such_role := "wamp.error.no_such_role".
Definition uri_authentication_failed := "wamp.error.authentication_failed".

(** exits of AttachClient that send ABORT: (reason, carries a message text);
    compared as a set with the regenerated list *)
Definition abort_exits : list (string * bool) :=
  [ (uri_protocol_violation, true);        (* first message is not HELLO *)
    (uri_no_such_realm, true);             (* empty realm *)
    (uri_system_shutdown, false);          (* router closing, or already stopped *)
    (uri_no_such_realm, false);            (* realm missing, no template *)
    (uri_no_such_realm, false);            (* template instantiation failed *)
    (uri_no_such_role, true);              (* no client role announced *)
    (uri_authentication_failed, true);     (* authClient returned an error *)
    (uri_system_shutdown, false) ].        (* handleSession: realm closed *)

Definition client_roles : list string := ["publisher"; "subscriber"; "callee"; "caller"].
Definition hello_skip_keys : list string := ["authmethods"; "roles"].
Definition welcome_skip_keys : list string := ["roles"].
Definition session_key := "session".
Definition transport_key := "transport".
(** the first assembly loop ranges over HELLO details, the second over WELCOME details *)
Definition assembly_order : list string := ["hello"; "welcome"].
(** welcome details for a local peer (authClient): literal entries; authid is the variable part *)
Definition local_welcome_literal : list (string * string) :=
  [("authrole", "trusted"); ("authmethod", "local"); ("authprovider", "static")].
Definition hello_timeout_ns : Z := 5000000000.

(** ** Messages, scripts *)
Inductive cmsg :=
| CHello (realm : string) (details : dict)
| CAuthenticate (signature : string) (extra : dict)
| CAbort (reason : string)
| COther (code : N).                  (* any other message type *)

Inductive cevent := EvMsg (m : cmsg) | EvTimeout | EvClosed.

Inductive out_msg :=
| OChallenge (method : string) (extra : dict)
| OWelcome (sid : N) (details : dict)
| OAbort (reason : string) (with_message : bool).

(** [wamp.RecvTimeout]: a message, or an error (timeout / channel closed).
    Nothing can follow a closed channel. *)
Definition recv (script : list cevent) : option cmsg * list cevent :=
  match script with
  | EvMsg m :: r => (Some m, r)
  | EvTimeout :: r => (None, r)
  | EvClosed :: _ => (None, [])
  | [] => (None, [])
  end.

(** ** Configuration *)
Record bypass := {
  already_auth : string -> dict -> bool;                (* AlreadyAuth(authid, details) *)
  on_welcome : string -> dict -> dict -> option dict    (* OnWelcome(authid, welcome, details): new welcome details, or error *)
}.

Record keystore := {
  ks_provider : string;
  ks_role : string -> option string;                    (* AuthRole(authid); None = error *)
  ks_key : string -> string -> option string;           (* AuthKey(authid, method); None = error or nil key *)
  ks_pwinfo : string -> string * Z * Z;                 (* PasswordInfo(authid) = salt, keylen, iterations *)
  ks_bypass : option bypass                             (* the key store also implements BypassKeyStore *)
}.

Inductive authenticator :=
| AAnonymous (role : string)
| ATicket (ks : keystore)
| ACra (ks : keystore)
| ACryptosign (ks : keystore).

Definition auth_method (a : authenticator) : string :=
  match a with
  | AAnonymous _ => "anonymous"
  | ATicket _ => "ticket"
  | ACra _ => "wampcra"
  | ACryptosign _ => "cryptosign"
  end.

Record realm_cfg := {
  rc_authenticators : list authenticator;   (* RealmConfig.Authenticators, in order *)
  rc_anonymous : bool;                       (* RealmConfig.AnonymousAuth *)
  rc_local_auth : bool;                      (* RealmConfig.RequireLocalAuth *)
  rc_strict_uri : bool;                      (* RealmConfig.StrictURI *)
  rc_meta_strict : bool                      (* RealmConfig.MetaStrict (no MetaIncludeSessionDetails) *)
}.

Record router_cfg := {
  rt_realms : list (string * realm_cfg);
  rt_template : option realm_cfg;
  rt_closed : bool
}.

Record peer := {
  p_local : bool;          (* client.IsLocal() *)
  p_transport : dict       (* transportDetails handed to AttachClient by the server *)
}.

Record oracle := {
  o_sid : N;                  (* wamp.GlobalID() for the session *)
  o_gen_authid : string;      (* hex of another GlobalID: local shortcut without authid, anonymous *)
  o_nonce : string;           (* wampcra *)
  o_timestamp : string;       (* wampcra *)
  o_rand_key : string;        (* wampcra: random key substituted for an unknown user *)
  o_cs_challenge : string;    (* cryptosign: 32 random bytes *)
  o_chal_blocked : bool;      (* the peer's queue cannot take the CHALLENGE *)
  o_realm_closed : bool       (* the realm was closed before handleSession took the lock *)
}.

(** ** Realm lookup *)
Definition is_space (c : ascii) : bool :=
  let n := N_of_ascii c in
  (N.eqb n 9 || N.eqb n 10 || N.eqb n 12 || N.eqb n 13 || N.eqb n 32)%bool.

Definition loose_char (c : ascii) : bool :=
  negb (is_space c || Ascii.eqb c "." || Ascii.eqb c "#")%bool.

Definition strict_char (c : ascii) : bool :=
  let n := N_of_ascii c in
  ((N.leb 48 n && N.leb n 57) || (N.leb 97 n && N.leb n 122) || N.eqb n 95)%bool.

(** [^(C+\.)*(C+)$] *)
Fixpoint uri_scan (okc : ascii -> bool) (s : string) (nonempty : bool) : bool :=
  match s with
  | EmptyString => nonempty
  | String c r =>
      if Ascii.eqb c "." then nonempty && uri_scan okc r false
      else okc c && uri_scan okc r true
  end.

Definition realm_uri_ok (strict : bool) (u : string) : bool :=
  uri_scan (if strict then strict_char else loose_char) u false.

Fixpoint assoc {A} (k : string) (l : list (string * A)) : option A :=
  match l with
  | [] => None
  | (k', v) :: r => if String.eqb k k' then Some v else assoc k r
  end.

(** the realm's configuration and whether it was created from the template *)
Definition lookup_realm (rt : router_cfg) (realm : string) : option (realm_cfg * bool) :=
  match assoc realm (rt_realms rt) with
  | Some rc => Some (rc, false)
  | None =>
      match rt_template rt with
      | None => None
      | Some t => if realm_uri_ok (rc_strict_uri t) realm then Some (t, true) else None
      end
  end.

(** ** Roles ([wamp.NewSession] / [setRoles] / [HasRole]) *)
Definition has_client_role (details : dict) : bool :=
  match as_nonempty_dict (dict_get "roles" details) with
  | Some roles => existsb (fun r => dict_has r roles) client_roles
  | None => false
  end.

(** ** authClient *)

(** [r.authenticators[m]] as built by [newRealm]: a later entry of the list
    replaces an earlier one for the same method; AnonymousAuth adds the default
    anonymous authenticator when none was configured. *)
Fixpoint last_for (m : string) (l : list authenticator) (acc : option authenticator) : option authenticator :=
  match l with
  | [] => acc
  | a :: r => last_for m r (if String.eqb (auth_method a) m then Some a else acc)
  end.

Definition configured (rc : realm_cfg) (m : string) : option authenticator :=
  match last_for m (rc_authenticators rc) None with
  | Some a => Some a
  | None => if (rc_anonymous rc && String.eqb m "anonymous")%bool then Some (AAnonymous "anonymous") else None
  end.

(** authmethods as authClient reads them *)
Definition offered_methods (details : dict) : list string :=
  let l := as_list_or_nil (dict_get "authmethods" details) in
  let l := match l with [] => [VStr "anonymous"] | _ => l end in
  flat_map (fun v => match as_string (Some v) with
                     | Some s => if String.eqb s "" then [] else [s]
                     | None => []
                     end) l.

(** [getAuthenticator]: the first offered method that has an authenticator *)
Fixpoint select_authenticator (rc : realm_cfg) (methods : list string) : option (authenticator * string) :=
  match methods with
  | [] => None
  | m :: r => match configured rc m with
              | Some a => Some (a, m)
              | None => select_authenticator rc r
              end
  end.

Definition router_roles : value := VDict [("broker", VDict []); ("dealer", VDict [])].

Definition id_welcome (authid authrole method provider : string) : dict :=
  [("authid", VStr authid); ("authrole", VStr authrole);
   ("authmethod", VStr method); ("authprovider", VStr provider)].

Definition claimed_authid (details : dict) : string :=
  as_string_or_empty (dict_get "authid" details).

Definition local_welcome (o : oracle) (details : dict) : dict :=
  let a := claimed_authid details in
  let authid := if String.eqb a "" then o_gen_authid o else a in
  ("authid", VStr authid)
    :: map (fun kv => (fst kv, VStr (snd kv))) local_welcome_literal
    ++ [("roles", router_roles)].

(** the wampcra challenge string ([makeChallengeStr]) *)
Definition cra_challenge_string (o : oracle) (provider authid authrole : string) (sid : N) : string :=
  "{ ""nonce"":""" ++ o_nonce o ++ """, ""authprovider"":""" ++ provider
  ++ """, ""authid"":""" ++ authid ++ """, ""timestamp"":""" ++ o_timestamp o
  ++ """, ""authrole"":""" ++ authrole ++ """, ""authmethod"":""wampcra"", ""session"":"
  ++ dec_of_N sid ++ " }".

Definition cra_role (ks : keystore) (authid : string) : string :=
  match ks_role ks authid with Some r => r | None => "user" end.

Definition cra_key (ks : keystore) (o : oracle) (authid : string) : string :=
  match ks_key ks authid "wampcra" with Some k => k | None => o_rand_key o end.

Definition cra_challenge (ks : keystore) (o : oracle) (authid : string) (sid : N) : string :=
  cra_challenge_string o (ks_provider ks) authid (cra_role ks authid) sid.

Definition cra_extra (ks : keystore) (o : oracle) (authid : string) (sid : N) : dict :=
  ("challenge", VStr (cra_challenge ks o authid sid))
    :: (let '(salt, keylen, iters) := ks_pwinfo ks authid in
        if String.eqb salt "" then []
        else [("salt", VStr salt); ("keylen", VInt keylen); ("iterations", VInt iters)]).

Definition cs_extra (o : oracle) : dict := [("challenge", VStr (hex_encode (o_cs_challenge o)))].

(** result of one authenticator run: messages sent, script left, welcome details or error *)
Record exch := { x_out : list out_msg; x_rest : list cevent; x_welcome : option dict }.

Definition x_fail (out : list out_msg) (rest : list cevent) : exch :=
  {| x_out := out; x_rest := rest; x_welcome := None |}.

Section Model.
  (** [crsign.VerifySignature sig chal key] *)
  Variable cra_verify : string -> string -> string -> bool.
  (** NaCl [sign.Open] under the stored public key (padded/truncated to 32 bytes):
      [sign_open pk signed_message = Some message] *)
  Variable sign_open : string -> string -> option string.
  (** does cryptosign compare the opened message with the challenge it issued? *)
  Variable cs_bind : bool.

  (** CHALLENGE / AUTHENTICATE round common to the three challenge methods *)
  Definition challenge_round (o : oracle) (method : string) (extra : dict)
             (script : list cevent) (check : string -> bool)
    : list out_msg * list cevent * bool :=
    if o_chal_blocked o then ([], script, false)
    else
      match recv script with
      | (Some (CAuthenticate sig _), rest) => ([OChallenge method extra], rest, check sig)
      | (_, rest) => ([OChallenge method extra], rest, false)
      end.

  Definition bypassed (ks : keystore) (authid : string) (details : dict) : bool :=
    match ks_bypass ks with
    | Some b => already_auth b authid details
    | None => false
    end.

  (** [if ks != nil { ks.OnWelcome(...) }] *)
  Definition finish_welcome (ks : keystore) (authid : string) (wd details : dict) : option dict :=
    match ks_bypass ks with
    | Some b => on_welcome b authid wd details
    | None => Some wd
    end.

  Definition ticket_check (ks : keystore) (authid sig : string) : bool :=
    match ks_key ks authid "ticket" with
    | Some t => String.eqb sig t
    | None => false
    end.

  Definition cs_check (key : string) (o : oracle) (sig : string) : bool :=
    match hex_decode sig with
    | None => false
    | Some sm =>
        if N.eqb (str_len sm) 96 then
          match sign_open key sm with
          | Some m => if cs_bind then String.eqb m (o_cs_challenge o) else true
          | None => false
          end
        else false
    end.

  Definition authenticate (a : authenticator) (sid : N) (o : oracle) (details : dict)
             (script : list cevent) : exch :=
    match a with
    | AAnonymous role =>
        {| x_out := []; x_rest := script;
           x_welcome := Some (id_welcome (o_gen_authid o) role "anonymous" "static") |}
    | ATicket ks =>
        let authid := claimed_authid details in
        if String.eqb authid "" then x_fail [] script
        else
          let authrole := match ks_role ks authid with Some r => r | None => "" end in
          let wd := id_welcome authid authrole "ticket" (ks_provider ks) in
          if bypassed ks authid details then
            {| x_out := []; x_rest := script; x_welcome := finish_welcome ks authid wd details |}
          else
            let '(out, rest, ok) := challenge_round o "ticket" [] script (ticket_check ks authid) in
            if ok then {| x_out := out; x_rest := rest; x_welcome := finish_welcome ks authid wd details |}
            else x_fail out rest
    | ACra ks =>
        let authid := claimed_authid details in
        if String.eqb authid "" then x_fail [] script
        else
          let wd := id_welcome authid (cra_role ks authid) "wampcra" (ks_provider ks) in
          if bypassed ks authid details then
            {| x_out := []; x_rest := script; x_welcome := finish_welcome ks authid wd details |}
          else
            let '(out, rest, ok) :=
              challenge_round o "wampcra" (cra_extra ks o authid sid) script
                              (fun sig => cra_verify sig (cra_challenge ks o authid sid) (cra_key ks o authid)) in
            if ok then {| x_out := out; x_rest := rest; x_welcome := finish_welcome ks authid wd details |}
            else x_fail out rest
    | ACryptosign ks =>
        let authid := claimed_authid details in
        if String.eqb authid "" then x_fail [] script
        else
          match ks_role ks authid with
          | None => x_fail [] script
          | Some authrole =>
              let wd := id_welcome authid authrole "cryptosign" (ks_provider ks) in
              if bypassed ks authid details then
                {| x_out := []; x_rest := script; x_welcome := finish_welcome ks authid wd details |}
              else
                match ks_key ks authid "cryptosign" with
                | None => x_fail [] script
                | Some key =>
                    let '(out, rest, ok) :=
                      challenge_round o "cryptosign" (cs_extra o) script (cs_check key o) in
                    if ok then {| x_out := out; x_rest := rest; x_welcome := Some wd |}
                    else x_fail out rest
                end
          end
    end.

  (** does this peer skip authentication? *)
  Definition local_shortcut (rc : realm_cfg) (p : peer) : bool :=
    (p_local p && negb (rc_local_auth rc))%bool.

  Definition auth_client (rc : realm_cfg) (p : peer) (sid : N) (o : oracle)
             (details : dict) (script : list cevent) : exch :=
    if local_shortcut rc p then
      {| x_out := []; x_rest := script; x_welcome := Some (local_welcome o details) |}
    else
      match select_authenticator rc (offered_methods details) with
      | None => x_fail [] script
      | Some (a, m) =>
          let x := authenticate a sid o details script in
          match x_welcome x with
          | None => x
          | Some wd =>
              {| x_out := x_out x; x_rest := x_rest x;
                 x_welcome := Some (dict_set "roles" router_roles (dict_set "authmethod" (VStr m) wd)) |}
          end
      end.

  (** ** Session details assembly, exactly as coded *)
  Definition assemble (hello welcome : dict) (sid : N) : dict :=
    dict_set session_key (VInt (Z.of_N sid))
             (copy_except welcome_skip_keys welcome
                          (copy_except hello_skip_keys hello [])).

  (** hello.Details["transport"] = transportDetails, only when non-empty *)
  Definition with_transport (p : peer) (details : dict) : dict :=
    match p_transport p with
    | [] => details
    | t => dict_set transport_key (VDict t) details
    end.

  (** ** Result of one handshake *)
  Record result := {
    r_out : list out_msg;            (* what the router sent to the peer, in order *)
    r_closed : bool;                 (* the router closed the peer *)
    r_session : option dict;         (* Some details: the session was entered in realm.clients *)
    r_realm : option (string * bool);(* realm resolved (and whether the template created it) *)
    r_rest : list cevent;            (* client events not consumed by the handshake *)
    r_err : bool                     (* AttachClient returned an error *)
  }.

  Definition res_silent (rest : list cevent) : result :=
    {| r_out := []; r_closed := true; r_session := None; r_realm := None; r_rest := rest; r_err := true |}.

  Definition res_abort (pre : list out_msg) (reason : string) (msg : bool)
             (realm : option (string * bool)) (rest : list cevent) : result :=
    {| r_out := pre ++ [OAbort reason msg]; r_closed := true; r_session := None;
       r_realm := realm; r_rest := rest; r_err := true |}.

  Definition res_welcome (pre : list out_msg) (sid : N) (wd sess : dict)
             (realm : string * bool) (rest : list cevent) : result :=
    {| r_out := pre ++ [OWelcome sid wd]; r_closed := false; r_session := Some sess;
       r_realm := Some realm; r_rest := rest; r_err := false |}.

  Definition attach (rt : router_cfg) (p : peer) (o : oracle) (script : list cevent) : result :=
    match recv script with
    | (None, rest) => res_silent rest                                  (* did not receive HELLO: Close, no ABORT *)
    | (Some (CHello realm details), rest) =>
        if String.eqb realm "" then res_abort [] uri_no_such_realm true None rest
        else if rt_closed rt then res_abort [] uri_system_shutdown false None rest
        else
          match lookup_realm rt realm with
          | None => res_abort [] uri_no_such_realm false None rest
          | Some (rc, created) =>
              let rl := Some (realm, created) in
              if negb (has_client_role details) then res_abort [] uri_no_such_role true rl rest
              else
                let details := with_transport p details in
                let x := auth_client rc p (o_sid o) o details rest in
                match x_welcome x with
                | None => res_abort (x_out x) uri_authentication_failed true rl (x_rest x)
                | Some wd =>
                    if o_realm_closed o then res_abort (x_out x) uri_system_shutdown false rl (x_rest x)
                    else res_welcome (x_out x) (o_sid o) wd (assemble details wd (o_sid o))
                                     (realm, created) (x_rest x)
                end
          end
    | (Some _, rest) => res_abort [] uri_protocol_violation true None rest
    end.

  (** ** What others are shown ([cleanSessionDetails], used by wamp.session.get and on_join) *)
  Definition std_items : list string :=
    ["session"; "authid"; "authrole"; "authmethod"; "authprovider"; "transport"].

  Definition clean_details (strict : bool) (details : dict) : dict :=
    let clean :=
      if strict then
        flat_map (fun k => match dict_get k details with Some v => [(k, v)] | None => [] end) std_items
      else details in
    match dict_child details "transport" with
    | None => clean
    | Some t =>
        match dict_child t "auth" with
        | None => clean
        | Some _ => dict_set "transport" (VDict (dict_remove "auth" t)) clean
        end
    end.

  (** ** After the handshake: are the peer's later messages handled at all?
      A handler goroutine exists only for a session entered in realm.clients. *)
  Definition routed (r : result) : list cevent :=
    match r_session r with
    | Some _ => r_rest r
    | None => []
    end.

  Definition welcomed (r : result) : bool :=
    existsb (fun m => match m with OWelcome _ _ => true | _ => false end) (r_out r).

  Definition aborted (r : result) : bool :=
    existsb (fun m => match m with OAbort _ _ => true | _ => false end) (r_out r).

End Model.
