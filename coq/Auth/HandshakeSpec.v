(** * Auth/HandshakeSpec — the vocabulary in which property C09 is stated.

    Definitions only.  These predicates speak about a configuration, an
    oracle (the random / environmental values of ONE run) and the client's
    script; they do not mention the model function [attach]. *)
From Coq Require Import List String ZArith NArith Bool.
From Nexus Require Import Auth.Values Auth.Handshake.
Import ListNotations.
Open Scope string_scope.

Definition keystore_of (a : authenticator) : option keystore :=
  match a with
  | AAnonymous _ => None
  | ATicket ks | ACra ks | ACryptosign ks => Some ks
  end.

Definition is_challenge (m : out_msg) : Prop :=
  match m with OChallenge _ _ => True | _ => False end.

(** the client's next message is AUTHENTICATE carrying [sig] *)
Definition answered (rest : list cevent) (sig : string) : Prop :=
  exists extra rest', rest = EvMsg (CAuthenticate sig extra) :: rest'.

Section Spec.
  Variable cra_verify : string -> string -> string -> bool.
  Variable sign_open : string -> string -> option string.

  (** The CHALLENGE.Extra issued by authenticator [a] in the run described by
      [o] (its nonce, timestamp, random bytes) for session [sid]. *)
  Definition issued_extra (a : authenticator) (sid : N) (o : oracle) (authid : string) : dict :=
    match a with
    | AAnonymous _ => []
    | ATicket _ => []
    | ACra ks => cra_extra ks o authid sid
    | ACryptosign _ => cs_extra o
    end.

  (** [sig] is a valid response to the challenge issued in THIS run:
      - ticket: it is the stored ticket (the challenge carries nothing);
      - wampcra: it verifies as HMAC over this run's challenge string
        (nonce, timestamp, session id of this run) under the stored key;
      - cryptosign: it is 96 hex-encoded bytes that open, under the stored
        public key, to exactly the 32 bytes issued in this run. *)
  Definition response_valid (a : authenticator) (sid : N) (o : oracle) (authid sig : string) : Prop :=
    match a with
    | AAnonymous _ => False
    | ATicket ks => ks_key ks authid "ticket" = Some sig
    | ACra ks => cra_verify sig (cra_challenge ks o authid sid) (cra_key ks o authid) = true
    | ACryptosign ks =>
        exists key sm,
          ks_key ks authid "cryptosign" = Some key /\
          hex_decode sig = Some sm /\ str_len sm = 96%N /\
          sign_open key sm = Some (o_cs_challenge o)
    end.

  (** The key store vouches for the client without a challenge
      (BypassKeyStore.AlreadyAuth). *)
  Definition vouched (ks : keystore) (authid : string) (details : dict) : Prop :=
    exists b, ks_bypass ks = Some b /\ already_auth b authid details = true.

  (** Authenticator [a] accepted the client. *)
  Definition accepted_by (a : authenticator) (sid : N) (o : oracle) (details : dict)
             (rest : list cevent) : Prop :=
    match keystore_of a with
    | None => True                                    (* anonymous *)
    | Some ks =>
        let authid := claimed_authid details in
        authid <> "" /\
        (vouched ks authid details \/
         (o_chal_blocked o = false /\
          exists sig, answered rest sig /\ response_valid a sid o authid sig))
    end.

  (** The client was admitted to a realm configured as [rc]: either it is a
      local peer of a realm that does not require local authentication, or an
      authenticator configured on the realm for one of the offered methods
      accepted it. *)
  Definition admitted (rc : realm_cfg) (p : peer) (sid : N) (o : oracle) (details : dict)
             (rest : list cevent) : Prop :=
    (p_local p = true /\ rc_local_auth rc = false) \/
    (exists a m,
        In m (offered_methods details) /\ configured rc m = Some a /\
        select_authenticator rc (offered_methods details) = Some (a, m) /\
        accepted_by a sid o details rest).

  (** The identity an authenticator assigns, before the key store's OnWelcome hook. *)
  Definition authenticator_identity (a : authenticator) (o : oracle) (authid : string) : dict :=
    match a with
    | AAnonymous role => id_welcome (o_gen_authid o) role "anonymous" "static"
    | ATicket ks =>
        id_welcome authid (match ks_role ks authid with Some r => r | None => "" end)
                   "ticket" (ks_provider ks)
    | ACra ks => id_welcome authid (cra_role ks authid) "wampcra" (ks_provider ks)
    | ACryptosign ks =>
        id_welcome authid (match ks_role ks authid with Some r => r | None => "" end)
                   "cryptosign" (ks_provider ks)
    end.

  (** [W] is what authenticator [a] (with its key store's hook, if any) hands back. *)
  Definition authenticator_welcome (a : authenticator) (o : oracle) (details W : dict) : Prop :=
    let authid := claimed_authid details in
    W = authenticator_identity a o authid \/
    (exists ks b, keystore_of a = Some ks /\ ks_bypass ks = Some b /\
                  on_welcome b authid (authenticator_identity a o authid) details = Some W).

  (** The WELCOME details [wd] carry the router's / authenticator's identity. *)
  Definition router_identity (rc : realm_cfg) (p : peer) (o : oracle) (details wd : dict) : Prop :=
    if local_shortcut rc p then wd = local_welcome o details
    else
      exists a m W,
        select_authenticator rc (offered_methods details) = Some (a, m) /\
        authenticator_welcome a o details W /\
        wd = dict_set "roles" router_roles (dict_set "authmethod" (VStr m) W).

  Definition identity_keys : list string := ["authid"; "authrole"; "authmethod"; "authprovider"].

  (** no key store of the realm implements BypassKeyStore *)
  Definition no_bypass (rc : realm_cfg) : Prop :=
    forall a ks, In a (rc_authenticators rc) -> keystore_of a = Some ks -> ks_bypass ks = None.

  (** two HELLO details agree on everything the handshake is entitled to read *)
  Definition same_claims (d1 d2 : dict) : Prop :=
    forall k, In k ["authid"; "authmethods"; "roles"; "transport"] -> dict_get k d1 = dict_get k d2.

End Spec.
