(** * Auth/Values — the WAMP values, dictionaries and accessors the handshake reads.

    Definitions only.  A [value] carries the Go dynamic type as far as the
    handshake code can observe it: [wamp.AsString] accepts [string], [[]byte]
    and [wamp.URI]; [wamp.AsList] accepts lists, [nil] and (through
    reflection) any slice, in particular [[]byte]; [wamp.AsDict] accepts maps
    and [nil].  Everything else is only copied around.

    A [dict] is an association list read with first-match semantics; Go map
    iteration order never matters here because the only loops over maps
    (the session-details assembly) insert into another map. *)
From Coq Require Import List String Ascii ZArith NArith Bool DecimalString.
Import ListNotations.
Open Scope string_scope.

Inductive value : Type :=
| VNull
| VBool (b : bool)
| VInt (z : Z)
| VFloat (tok : string)      (* a float64, kept as its decimal token: never inspected *)
| VStr (s : string)
| VBytes (s : string)        (* []byte *)
| VUri (s : string)          (* wamp.URI *)
| VList (l : list value)
| VDict (d : list (string * value)).

Definition dict := list (string * value).

Fixpoint dict_get (k : string) (d : dict) : option value :=
  match d with
  | [] => None
  | (k', v) :: r => if String.eqb k k' then Some v else dict_get k r
  end.

Fixpoint dict_remove (k : string) (d : dict) : dict :=
  match d with
  | [] => []
  | (k', v) :: r => if String.eqb k k' then dict_remove k r else (k', v) :: dict_remove k r
  end.

(** [m[k] = v] *)
Definition dict_set (k : string) (v : value) (d : dict) : dict :=
  (k, v) :: dict_remove k d.

Definition dict_has (k : string) (d : dict) : bool :=
  match dict_get k d with Some _ => true | None => false end.

Fixpoint str_mem (k : string) (l : list string) : bool :=
  match l with
  | [] => false
  | x :: r => String.eqb k x || str_mem k r
  end.

(** [for k, v := range src { if k in skip { continue }; dst[k] = v }].
    The first binding of a key in [src] is the one a Go map would hold, so it
    is applied last. *)
Fixpoint copy_except (skip : list string) (src dst : dict) : dict :=
  match src with
  | [] => dst
  | (k, v) :: r =>
      let dst' := copy_except skip r dst in
      if str_mem k skip then dst' else dict_set k v dst'
  end.

(** ** Accessors *)

(** [wamp.AsString] *)
Definition as_string (v : option value) : option string :=
  match v with
  | Some (VStr s) | Some (VBytes s) | Some (VUri s) => Some s
  | _ => None
  end.

(** [s, _ := wamp.AsString(x)] *)
Definition as_string_or_empty (v : option value) : string :=
  match as_string v with Some s => s | None => "" end.

Fixpoint bytes_as_list (s : string) : list value :=
  match s with
  | EmptyString => []
  | String c r => VInt (Z.of_N (N_of_ascii c)) :: bytes_as_list r
  end.

(** [l, _ := wamp.AsList(x)]: the list, or nil when [x] is absent, nil or not a slice. *)
Definition as_list_or_nil (v : option value) : list value :=
  match v with
  | Some (VList l) => l
  | Some (VBytes s) => bytes_as_list s
  | _ => []
  end.

(** [wamp.AsDict] then [len(d) != 0] as used by [Session.setRoles]. *)
Definition as_nonempty_dict (v : option value) : option dict :=
  match v with
  | Some (VDict ((k, x) :: r)) => Some ((k, x) :: r)
  | _ => None
  end.

(** [wamp.DictChild]: the child dictionary, nil when absent, nil or not a map. *)
Definition dict_child (d : dict) (k : string) : option dict :=
  match dict_get k d with
  | Some (VDict c) => Some c
  | _ => None
  end.

(** ** Decimal rendering of ids ([%d]) *)
Definition dec_of_N (n : N) : string := NilZero.string_of_uint (N.to_uint n).

(** ** Hex decoding ([encoding/hex.DecodeString]) *)
Definition hex_digit (c : ascii) : option N :=
  let n := N_of_ascii c in
  if (N.leb 48 n && N.leb n 57)%bool then Some (n - 48)%N
  else if (N.leb 97 n && N.leb n 102)%bool then Some (n - 87)%N
  else if (N.leb 65 n && N.leb n 70)%bool then Some (n - 55)%N
  else None.

Fixpoint hex_decode (s : string) : option string :=
  match s with
  | EmptyString => Some EmptyString
  | String a (String b r) =>
      match hex_digit a, hex_digit b, hex_decode r with
      | Some x, Some y, Some t => Some (String (ascii_of_N (16 * x + y)) t)
      | _, _, _ => None
      end
  | String _ EmptyString => None
  end.

Definition hex_char (n : N) : ascii :=
  if N.ltb n 10 then ascii_of_N (48 + n) else ascii_of_N (87 + n).

(** [encoding/hex.EncodeToString] (lower case) *)
Fixpoint hex_encode (s : string) : string :=
  match s with
  | EmptyString => EmptyString
  | String c r =>
      let n := N_of_ascii c in
      String (hex_char (n / 16)) (String (hex_char (n mod 16)) (hex_encode r))
  end.

Definition str_len (s : string) : N := N.of_nat (String.length s).

(** ** Structural equality (used by the in-kernel case replays) *)
Fixpoint value_eqb (a b : value) {struct a} : bool :=
  match a, b with
  | VNull, VNull => true
  | VBool x, VBool y => Bool.eqb x y
  | VInt x, VInt y => Z.eqb x y
  | VFloat x, VFloat y => String.eqb x y
  | VStr x, VStr y => String.eqb x y
  | VBytes x, VBytes y => String.eqb x y
  | VUri x, VUri y => String.eqb x y
  | VList l1, VList l2 =>
      (fix go (l1 l2 : list value) {struct l1} : bool :=
         match l1, l2 with
         | [], [] => true
         | x :: xs, y :: ys => value_eqb x y && go xs ys
         | _, _ => false
         end) l1 l2
  | VDict d1, VDict d2 =>
      (fix go (d1 d2 : list (string * value)) {struct d1} : bool :=
         match d1, d2 with
         | [], [] => true
         | (k1, x) :: xs, (k2, y) :: ys => String.eqb k1 k2 && value_eqb x y && go xs ys
         | _, _ => false
         end) d1 d2
  | _, _ => false
  end.

(** Dictionaries compared as maps: same set of bound keys, equal values
    (nested values compared structurally). *)
Definition dict_sub (d1 d2 : dict) : bool :=
  forallb (fun kv =>
             match dict_get (fst kv) d1, dict_get (fst kv) d2 with
             | Some x, Some y => value_eqb x y
             | _, _ => false
             end) d1.

Definition dict_eqb (d1 d2 : dict) : bool := dict_sub d1 d2 && dict_sub d2 d1.
