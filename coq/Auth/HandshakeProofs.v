(** * Auth/HandshakeProofs — lemmas behind Props/C09.v.

    Everything here holds for EVERY [cra_verify] and [sign_open]: nothing is
    assumed about the cryptographic primitives.  [cs_bind] is fixed to [true]
    (the repaired cryptosign) except in the section on the code as found. *)
From Coq Require Import List String Ascii ZArith NArith Bool Lia.
From Nexus Require Import Auth.Values Auth.DictFacts Auth.Handshake Auth.HandshakeSpec.
Import ListNotations.
Open Scope string_scope.

Local Arguments assemble : simpl never.

Lemma eqb_false_neq : forall a b : string, String.eqb a b = false -> a <> b.
Proof. intros a b H E. subst. rewrite String.eqb_refl in H. discriminate. Qed.

(** ** Method selection *)

Lemma last_for_method : forall m l acc a,
    last_for m l acc = Some a ->
    (forall a0, acc = Some a0 -> auth_method a0 = m) ->
    auth_method a = m.
Proof.
  induction l as [|x l IH]; cbn; intros acc a H Hacc.
  - apply Hacc; auto.
  - eapply IH; eauto. intros a0 E.
    destruct (String.eqb (auth_method x) m) eqn:Q.
    + inversion E; subst. apply String.eqb_eq; auto.
    + apply Hacc; auto.
Qed.

Lemma last_for_In : forall m l acc a,
    last_for m l acc = Some a -> acc = Some a \/ In a l.
Proof.
  induction l as [|x l IH]; cbn; intros acc a H; auto.
  apply IH in H. destruct H as [H|H]; auto.
  destruct (String.eqb (auth_method x) m); auto.
  inversion H; subst; auto.
Qed.

Lemma configured_method : forall rc m a, configured rc m = Some a -> auth_method a = m.
Proof.
  unfold configured. intros rc m a H.
  destruct (last_for m (rc_authenticators rc) None) eqn:L.
  - inversion H; subst. eapply last_for_method; eauto. intros; discriminate.
  - destruct (rc_anonymous rc && String.eqb m "anonymous")%bool eqn:Q; [|discriminate].
    inversion H; subst. apply andb_true_iff in Q as [_ Q]. apply String.eqb_eq in Q. subst. reflexivity.
Qed.

Lemma configured_from : forall rc m a,
    configured rc m = Some a -> In a (rc_authenticators rc) \/ a = AAnonymous "anonymous".
Proof.
  unfold configured. intros rc m a H.
  destruct (last_for m (rc_authenticators rc) None) eqn:L.
  - inversion H; subst. apply last_for_In in L as [L|L]; [discriminate|auto].
  - destruct (rc_anonymous rc && String.eqb m "anonymous")%bool; [|discriminate].
    inversion H; auto.
Qed.

Lemma select_sound : forall rc ms a m,
    select_authenticator rc ms = Some (a, m) -> In m ms /\ configured rc m = Some a.
Proof.
  induction ms as [|x ms IH]; cbn; intros a m H; [discriminate|].
  destruct (configured rc x) eqn:C.
  - inversion H; subst. auto.
  - apply IH in H as [H1 H2]. auto.
Qed.

Section Proofs.
  Variable cra_verify : string -> string -> string -> bool.
  Variable sign_open : string -> string -> option string.

  Notation authenticate' := (authenticate cra_verify sign_open).
  Notation auth_client' := (auth_client cra_verify sign_open).
  Notation attach' := (attach cra_verify sign_open).
  Notation response_valid' := (response_valid cra_verify sign_open).
  Notation accepted_by' := (accepted_by cra_verify sign_open).
  Notation admitted' := (admitted cra_verify sign_open).

  (** ** The CHALLENGE / AUTHENTICATE round *)

  Lemma challenge_round_shape : forall o method extra script check out rest ok,
      challenge_round o method extra script check = (out, rest, ok) ->
      (out = [] \/ out = [OChallenge method extra]) /\
      (ok = true ->
       o_chal_blocked o = false /\ out = [OChallenge method extra] /\
       exists sig ex, script = EvMsg (CAuthenticate sig ex) :: rest /\ check sig = true).
  Proof.
    unfold challenge_round. intros o method extra script check out rest ok H.
    destruct (o_chal_blocked o).
    - inversion H; subst. split; auto. discriminate.
    - destruct script as [|[m| |] r]; cbn in H.
      + inversion H; subst. split; auto. discriminate.
      + destruct m; inversion H; subst; split; auto; try discriminate.
        intros E. repeat split; auto. eauto.
      + inversion H; subst. split; auto. discriminate.
      + inversion H; subst. split; auto. discriminate.
  Qed.

  Definition only_challenges (l : list out_msg) : Prop := Forall is_challenge l.

  Lemma only_challenges_nil : only_challenges [].
  Proof. constructor. Qed.

  Lemma only_challenges_one : forall m e, only_challenges [OChallenge m e].
  Proof. intros. constructor; [exact I|constructor]. Qed.

  Hint Resolve only_challenges_nil only_challenges_one : core.

  Lemma round_only_challenges : forall o method extra script check out rest ok,
      challenge_round o method extra script check = (out, rest, ok) -> only_challenges out.
  Proof.
    intros. apply challenge_round_shape in H as [[H|H] _]; subst; auto.
  Qed.

  (** ** One authenticator *)

  Lemma authenticate_only_challenges : forall bind a sid o details script,
      only_challenges (x_out (authenticate' bind a sid o details script)).
  Proof.
    intros. destruct a; cbn; auto.
    - destruct (String.eqb (claimed_authid details) ""); cbn; auto.
      destruct (bypassed ks (claimed_authid details) details); cbn; auto.
      destruct (challenge_round _ _ _ _ _) as [[out rest] ok] eqn:R.
      apply round_only_challenges in R. destruct ok; cbn; auto.
    - destruct (String.eqb (claimed_authid details) ""); cbn; auto.
      destruct (bypassed ks (claimed_authid details) details); cbn; auto.
      destruct (challenge_round _ _ _ _ _) as [[out rest] ok] eqn:R.
      apply round_only_challenges in R. destruct ok; cbn; auto.
    - destruct (String.eqb (claimed_authid details) ""); cbn; auto.
      destruct (ks_role ks (claimed_authid details)); cbn; auto.
      destruct (bypassed ks (claimed_authid details) details); cbn; auto.
      destruct (ks_key ks (claimed_authid details) "cryptosign"); cbn; auto.
      destruct (challenge_round _ _ _ _ _) as [[out rest] ok] eqn:R.
      apply round_only_challenges in R. destruct ok; cbn; auto.
  Qed.

  Lemma bypassed_vouched : forall ks authid details,
      bypassed ks authid details = true -> vouched ks authid details.
  Proof.
    unfold bypassed, vouched. intros. destruct (ks_bypass ks); [eauto|discriminate].
  Qed.

  Lemma finish_welcome_spec : forall ks authid wd details W,
      finish_welcome ks authid wd details = Some W ->
      W = wd \/ exists b, ks_bypass ks = Some b /\ on_welcome b authid wd details = Some W.
  Proof.
    unfold finish_welcome. intros. destruct (ks_bypass ks); [right; eauto|left; congruence].
  Qed.

  (** What acceptance by one authenticator means (repaired cryptosign). *)
  Record accept_facts (a : authenticator) (sid : N) (o : oracle) (details : dict)
         (script : list cevent) (x : exch) (W : dict) : Prop := {
    af_accepted : accepted_by' a sid o details script;
    af_welcome : authenticator_welcome a o details W;
    af_bound :
      forall ks, keystore_of a = Some ks ->
                 bypassed ks (claimed_authid details) details = false ->
                 exists sig extra,
                   script = EvMsg (CAuthenticate sig extra) :: x_rest x /\
                   x_out x = [OChallenge (auth_method a) (issued_extra a sid o (claimed_authid details))] /\
                   response_valid' a sid o (claimed_authid details) sig
  }.

  Lemma authenticate_accept : forall a sid o details script W,
      x_welcome (authenticate' true a sid o details script) = Some W ->
      accept_facts a sid o details script (authenticate' true a sid o details script) W.
  Proof.
    intros a sid o details script W H.
    destruct a as [role|ks|ks|ks]; cbn in H |- *.
    - (* anonymous *)
      inversion H; subst. split; cbn; auto.
      + left; reflexivity.
      + intros; discriminate.
    - (* ticket *)
      destruct (String.eqb (claimed_authid details) "") eqn:EA; [discriminate|].
      apply eqb_false_neq in EA.
      destruct (bypassed ks (claimed_authid details) details) eqn:B.
      + cbn in H. split; cbn.
        * split; auto. left. apply bypassed_vouched; auto.
        * apply finish_welcome_spec in H as [H|[b [H1 H2]]]; [left; auto|right; exists ks, b; repeat split; auto].
        * intros ks0 E; inversion E; subst. congruence.
      + destruct (challenge_round _ _ _ _ _) as [[out rest] ok] eqn:R.
        destruct ok; [|discriminate]. cbn in H.
        apply challenge_round_shape in R as [_ R]. destruct (R eq_refl) as [Hb [Ho [sig [ex [Hs Hc]]]]].
        unfold ticket_check in Hc.
        destruct (ks_key ks (claimed_authid details) "ticket") eqn:K; [|discriminate].
        apply String.eqb_eq in Hc. subst s.
        split; cbn.
        * split; auto. right. split; auto. exists sig. split; [red; eauto|]. exact K.
        * apply finish_welcome_spec in H as [H|[b [H1 H2]]]; [left; auto|right; exists ks, b; repeat split; auto].
        * intros ks0 E _; inversion E; subst. exists sig, ex. repeat split; auto.
    - (* wampcra *)
      destruct (String.eqb (claimed_authid details) "") eqn:EA; [discriminate|].
      apply eqb_false_neq in EA.
      destruct (bypassed ks (claimed_authid details) details) eqn:B.
      + cbn in H. split; cbn.
        * split; auto. left. apply bypassed_vouched; auto.
        * apply finish_welcome_spec in H as [H|[b [H1 H2]]]; [left; auto|right; exists ks, b; repeat split; auto].
        * intros ks0 E; inversion E; subst. congruence.
      + destruct (challenge_round _ _ _ _ _) as [[out rest] ok] eqn:R.
        destruct ok; [|discriminate]. cbn in H.
        apply challenge_round_shape in R as [_ R]. destruct (R eq_refl) as [Hb [Ho [sig [ex [Hs Hc]]]]].
        split; cbn.
        * split; auto. right. split; auto. exists sig. split; [red; eauto|]. exact Hc.
        * apply finish_welcome_spec in H as [H|[b [H1 H2]]]; [left; auto|right; exists ks, b; repeat split; auto].
        * intros ks0 E _; inversion E; subst. exists sig, ex. repeat split; auto.
    - (* cryptosign *)
      destruct (String.eqb (claimed_authid details) "") eqn:EA; [discriminate|].
      apply eqb_false_neq in EA.
      destruct (ks_role ks (claimed_authid details)) as [role|] eqn:RL; [|discriminate].
      destruct (bypassed ks (claimed_authid details) details) eqn:B.
      + cbn in H. split; cbn.
        * split; auto. left. apply bypassed_vouched; auto.
        * unfold authenticator_welcome. cbn. rewrite RL. apply finish_welcome_spec in H as [H|[b [H1 H2]]]; [left; auto|right; exists ks, b; repeat split; auto].
        * intros ks0 E; inversion E; subst. congruence.
      + destruct (ks_key ks (claimed_authid details) "cryptosign") as [key|] eqn:K; [|discriminate].
        destruct (challenge_round _ _ _ _ _) as [[out rest] ok] eqn:R.
        destruct ok; [|discriminate]. cbn in H.
        apply challenge_round_shape in R as [_ R]. destruct (R eq_refl) as [Hb [Ho [sig [ex [Hs Hc]]]]].
        unfold cs_check in Hc.
        destruct (hex_decode sig) as [sm|] eqn:HD; [|discriminate].
        destruct (N.eqb (str_len sm) 96) eqn:LN; [|discriminate].
        destruct (sign_open key sm) as [m|] eqn:SO; [|discriminate].
        apply String.eqb_eq in Hc. subst m. apply N.eqb_eq in LN.
        assert (RV : response_valid' (ACryptosign ks) sid o (claimed_authid details) sig)
          by (cbn; exists key, sm; auto).
        split; cbn.
        * split; auto. right. split; auto. exists sig. split; [red; eauto|]. exact RV.
        * unfold authenticator_welcome. cbn. rewrite RL. left. congruence.
        * intros ks0 E _; inversion E; subst. exists sig, ex. repeat split; auto.
  Qed.

  (** ** authClient *)

  Lemma auth_client_only_challenges : forall bind rc p sid o details script,
      only_challenges (x_out (auth_client' bind rc p sid o details script)).
  Proof.
    intros. unfold auth_client. destruct (local_shortcut rc p); cbn; auto.
    destruct (select_authenticator rc (offered_methods details)) as [[a m]|]; cbn; auto.
    pose proof (authenticate_only_challenges bind a sid o details script) as A.
    destruct (x_welcome (authenticate' bind a sid o details script)); cbn; auto.
  Qed.

  Lemma auth_client_accept : forall rc p sid o details script wd,
      x_welcome (auth_client' true rc p sid o details script) = Some wd ->
      (local_shortcut rc p = true /\ wd = local_welcome o details /\
       x_out (auth_client' true rc p sid o details script) = [] /\
       x_rest (auth_client' true rc p sid o details script) = script)
      \/
      (local_shortcut rc p = false /\
       exists a m W,
         select_authenticator rc (offered_methods details) = Some (a, m) /\
         x_welcome (authenticate' true a sid o details script) = Some W /\
         wd = dict_set "roles" router_roles (dict_set "authmethod" (VStr m) W) /\
         x_out (auth_client' true rc p sid o details script) = x_out (authenticate' true a sid o details script) /\
         x_rest (auth_client' true rc p sid o details script) = x_rest (authenticate' true a sid o details script)).
  Proof.
    intros rc p sid o details script wd. unfold auth_client.
    destruct (local_shortcut rc p) eqn:L; cbn.
    - intros H; inversion H; subst. left; auto.
    - destruct (select_authenticator rc (offered_methods details)) as [[a m]|] eqn:S; cbn; [|discriminate].
      destruct (x_welcome (authenticate' true a sid o details script)) as [W|] eqn:XW; cbn.
      + intros H; inversion H; subst. right. split; auto. exists a, m, W. repeat split; auto.
      + rewrite XW. discriminate.
  Qed.

  (** ** AttachClient: exactly which runs end in WELCOME *)

  Lemma in_app_last : forall (pre : list out_msg) x sid wd,
      only_challenges pre -> In (OWelcome sid wd) (pre ++ [x])%list -> x = OWelcome sid wd.
  Proof.
    intros pre x sid wd F H. apply in_app_or in H as [H|[H|[]]]; auto.
    unfold only_challenges in F. rewrite Forall_forall in F. apply F in H. destruct H.
  Qed.

  Lemma not_in_abort : forall pre reason msg sid wd,
      only_challenges pre -> ~ In (OWelcome sid wd) (pre ++ [OAbort reason msg])%list.
  Proof. intros pre reason msg sid wd F H. apply in_app_last in H; auto. discriminate. Qed.

  Inductive welcome_facts (rt : router_cfg) (p : peer) (o : oracle) (script : list cevent)
            (sid : N) (wd : dict) : Prop :=
  | WelcomeFacts :
      forall (realm : string) (details : dict) (rest : list cevent) (rc : realm_cfg) (created : bool),
        script = EvMsg (CHello realm details) :: rest ->
        realm <> "" ->
        rt_closed rt = false ->
        lookup_realm rt realm = Some (rc, created) ->
        has_client_role details = true ->
        x_welcome (auth_client' true rc p (o_sid o) o (with_transport p details) rest) = Some wd ->
        o_realm_closed o = false ->
        sid = o_sid o ->
        attach' true rt p o script =
        (let x := auth_client' true rc p (o_sid o) o (with_transport p details) rest in
         res_welcome (x_out x) (o_sid o) wd
                     (assemble (with_transport p details) wd (o_sid o))
                     (realm, created) (x_rest x)) ->
        welcome_facts rt p o script sid wd.

  Lemma attach_welcome_inv : forall rt p o script sid wd,
      In (OWelcome sid wd) (r_out (attach' true rt p o script)) ->
      welcome_facts rt p o script sid wd.
  Proof.
    intros rt p o script sid wd. unfold attach.
    destruct script as [|[m| |] rest]; cbn; try tauto.
    destruct m as [realm details|s e|s|c]; cbn;
      try (intros [H|[]]; discriminate).
    destruct (String.eqb realm "") eqn:ER; cbn; [intros [H|[]]; discriminate|].
    destruct (rt_closed rt) eqn:RC; cbn; [intros [H|[]]; discriminate|].
    destruct (lookup_realm rt realm) as [[rc created]|] eqn:LR; cbn; [|intros [H|[]]; discriminate].
    destruct (has_client_role details) eqn:HR; cbn; [|intros [H|[]]; discriminate].
    pose proof (auth_client_only_challenges true rc p (o_sid o) o (with_transport p details) rest) as OC.
    destruct (x_welcome (auth_client' true rc p (o_sid o) o (with_transport p details) rest)) as [w|] eqn:XW; cbn.
    - destruct (o_realm_closed o) eqn:OC2; cbn.
      + intros H. exfalso. eapply not_in_abort; eauto.
      + intros H. apply in_app_last in H; auto. inversion H; subst.
        eapply WelcomeFacts with (realm := realm) (details := details)
                                 (rest := rest) (rc := rc) (created := created); eauto.
        * apply eqb_false_neq; auto.
        * unfold attach. cbn. rewrite ER, RC, LR. cbn. rewrite HR. cbn. rewrite XW, OC2. reflexivity.
    - intros H. exfalso. eapply not_in_abort; eauto.
  Qed.

  (** *** welcome_only_if *)
  Lemma welcome_only_if_lemma : forall rt p o script sid wd,
      In (OWelcome sid wd) (r_out (attach' true rt p o script)) ->
      exists realm details rest rc created,
        script = EvMsg (CHello realm details) :: rest /\
        realm <> "" /\
        rt_closed rt = false /\
        lookup_realm rt realm = Some (rc, created) /\
        has_client_role details = true /\
        o_realm_closed o = false /\
        sid = o_sid o /\
        admitted' rc p sid o (with_transport p details) rest.
  Proof.
    intros rt p o script sid wd H. apply attach_welcome_inv in H.
    destruct H as [realm details rest rc created Hs Hn Ho Hl Hr Ha Hc Hsid _].
    exists realm, details, rest, rc, created. repeat split; auto.
    apply auth_client_accept in Ha as [[L _]|[L [a [m [W [S [XW _]]]]]]].
    - left. unfold local_shortcut in L. apply andb_true_iff in L as [L1 L2].
      split; auto. destruct (rc_local_auth rc); [discriminate|reflexivity].
    - right. exists a, m. apply select_sound in S as S'. destruct S' as [S1 S2].
      repeat split; auto. subst sid. apply authenticate_accept in XW. apply XW.
  Qed.

  (** *** challenge_bound *)
  Lemma challenge_bound_lemma : forall rt p o realm details rest sid wd rc created a m ks,
      In (OWelcome sid wd) (r_out (attach' true rt p o (EvMsg (CHello realm details) :: rest))) ->
      lookup_realm rt realm = Some (rc, created) ->
      local_shortcut rc p = false ->
      select_authenticator rc (offered_methods (with_transport p details)) = Some (a, m) ->
      keystore_of a = Some ks ->
      bypassed ks (claimed_authid (with_transport p details)) (with_transport p details) = false ->
      exists sig extra rest',
        rest = EvMsg (CAuthenticate sig extra) :: rest' /\
        In (OChallenge m (issued_extra a (o_sid o) o (claimed_authid (with_transport p details))))
           (r_out (attach' true rt p o (EvMsg (CHello realm details) :: rest))) /\
        response_valid' a (o_sid o) o (claimed_authid (with_transport p details)) sig.
  Proof.
    intros rt p o realm details rest sid wd rc created a m ks H LR LS S K B.
    apply attach_welcome_inv in H.
    destruct H as [realm' details' rest' rc' created' Hs Hn Ho Hl Hr Ha Hc Hsid Hres].
    inversion Hs; subst realm' details' rest'. rewrite LR in Hl. inversion Hl; subst rc' created'.
    apply auth_client_accept in Ha as Ha'.
    destruct Ha' as [[L _]|[_ [a' [m' [W [S' [XW [_ [XO XR]]]]]]]]]; [congruence|].
    rewrite S in S'. inversion S'; subst a' m'.
    apply authenticate_accept in XW. destruct XW as [_ _ Hb].
    destruct (Hb ks K B) as [sig [extra [E1 [E2 E3]]]].
    exists sig, extra, (x_rest (authenticate' true a (o_sid o) o (with_transport p details) rest)).
    repeat split; auto.
    rewrite Hres. cbn. rewrite XO, E2. cbn. left.
    apply select_sound in S as [_ S]. apply configured_method in S. subst m. reflexivity.
  Qed.

  (** A response that is not valid for THIS run's challenge is rejected — in
      particular one captured in a run whose challenge was different. *)
  Lemma replay_rejected_lemma : forall rt p o realm details sig extra rest rc created a m ks,
      lookup_realm rt realm = Some (rc, created) ->
      local_shortcut rc p = false ->
      select_authenticator rc (offered_methods (with_transport p details)) = Some (a, m) ->
      keystore_of a = Some ks ->
      bypassed ks (claimed_authid (with_transport p details)) (with_transport p details) = false ->
      ~ response_valid' a (o_sid o) o (claimed_authid (with_transport p details)) sig ->
      forall sid wd,
        ~ In (OWelcome sid wd)
          (r_out (attach' true rt p o (EvMsg (CHello realm details) :: EvMsg (CAuthenticate sig extra) :: rest))).
  Proof.
    intros rt p o realm details sig extra rest rc created a m ks LR LS S K B NV sid wd H.
    eapply challenge_bound_lemma in H; eauto.
    destruct H as [sig' [extra' [rest' [E [_ V]]]]]. inversion E; subst. contradiction.
  Qed.

  (** cryptosign: what a signed message opens to is a function of the signed
      message, so a transcript accepted against challenge [c1] is rejected in
      any run whose challenge differs — no cryptographic assumption needed. *)
  Lemma cryptosign_replay_rejected_lemma :
    forall rt p o1 o2 realm details sig extra rest1 rest2 rc created ks m sid1 wd1,
      lookup_realm rt realm = Some (rc, created) ->
      local_shortcut rc p = false ->
      select_authenticator rc (offered_methods (with_transport p details)) = Some (ACryptosign ks, m) ->
      bypassed ks (claimed_authid (with_transport p details)) (with_transport p details) = false ->
      In (OWelcome sid1 wd1)
         (r_out (attach' true rt p o1 (EvMsg (CHello realm details) :: EvMsg (CAuthenticate sig extra) :: rest1))) ->
      o_cs_challenge o2 <> o_cs_challenge o1 ->
      forall sid2 wd2,
        ~ In (OWelcome sid2 wd2)
          (r_out (attach' true rt p o2 (EvMsg (CHello realm details) :: EvMsg (CAuthenticate sig extra) :: rest2))).
  Proof.
    intros rt p o1 o2 realm details sig extra rest1 rest2 rc created ks m sid1 wd1 LR LS S B H1 NE sid2 wd2.
    eapply challenge_bound_lemma in H1; eauto; [|reflexivity].
    destruct H1 as [sig' [extra' [rest' [E [_ V1]]]]]. inversion E; subst sig' extra' rest'.
    eapply replay_rejected_lemma; eauto; [reflexivity|].
    intros V2. cbn in V1, V2.
    destruct V1 as [k1 [sm1 [K1 [D1 [_ O1]]]]]. destruct V2 as [k2 [sm2 [K2 [D2 [_ O2]]]]].
    rewrite K1 in K2. inversion K2; subst k2. rewrite D1 in D2. inversion D2; subst sm2.
    rewrite O1 in O2. inversion O2. congruence.
  Qed.

  (** *** abort_otherwise *)
  Lemma attach_outcomes : forall rt p o script,
      let r := attach' true rt p o script in
      (exists pre sid wd sess realm rest,
          only_challenges pre /\ r = res_welcome pre sid wd sess realm rest)
      \/ (exists pre reason msg realm rest,
             only_challenges pre /\ r = res_abort pre reason msg realm rest)
      \/ (exists rest, r = res_silent rest /\ fst (recv script) = None).
  Proof.
    intros rt p o script. unfold attach.
    destruct (recv script) as [[m|] rest] eqn:R; cbn.
    2:{ right; right. eauto. }
    destruct m as [realm details|s e|s|c]; cbn;
      try (right; left; exists [], uri_protocol_violation, true, None, rest; split; auto; fail).
    destruct (String.eqb realm ""); [right; left; exists [], uri_no_such_realm, true, None, rest; split; auto|].
    destruct (rt_closed rt); [right; left; exists [], uri_system_shutdown, false, None, rest; split; auto|].
    destruct (lookup_realm rt realm) as [[rc created]|];
      [|right; left; exists [], uri_no_such_realm, false, None, rest; split; auto].
    destruct (has_client_role details); cbn;
      [|right; left; exists [], uri_no_such_role, true, (Some (realm, created)), rest; split; auto].
    pose proof (auth_client_only_challenges true rc p (o_sid o) o (with_transport p details) rest) as OC.
    destruct (x_welcome _); [destruct (o_realm_closed o)|].
    - right; left. do 5 eexists. split; eauto.
    - left. do 6 eexists. split; eauto.
    - right; left. do 5 eexists. split; eauto.
  Qed.

  Lemma no_abort_among_challenges : forall pre,
      only_challenges pre ->
      existsb (fun m => match m with OAbort _ _ => true | _ => false end) pre = false.
  Proof.
    intros pre F. induction F as [|y l Hy F IH]; cbn; auto.
    destruct y; cbn in *; try contradiction. auto.
  Qed.

  Lemma welcomed_app : forall pre x,
      only_challenges pre ->
      existsb (fun m => match m with OWelcome _ _ => true | _ => false end) (pre ++ [x])%list
      = match x with OWelcome _ _ => true | _ => false end.
  Proof.
    intros pre x F. rewrite existsb_app. cbn. rewrite orb_false_r.
    assert (E : existsb (fun m => match m with OWelcome _ _ => true | _ => false end) pre = false).
    { induction F as [|y l Hy F IH]; cbn; auto. destruct y; cbn in *; try contradiction. auto. }
    rewrite E. reflexivity.
  Qed.

  Lemma abort_otherwise_lemma : forall rt p o script,
      let r := attach' true rt p o script in
      welcomed r = false ->
      r_session r = None /\ r_closed r = true /\ r_err r = true /\ routed r = [] /\
      ((exists pre reason msg, only_challenges pre /\ r_out r = (pre ++ [OAbort reason msg])%list)
       \/ (r_out r = [] /\ fst (recv script) = None)).
  Proof.
    intros rt p o script r W. subst r.
    destruct (attach_outcomes rt p o script) as [H|[H|H]].
    - destruct H as [pre [sid [wd [sess [realm [rest [F E]]]]]]].
      rewrite E in W. unfold welcomed in W. cbn in W. rewrite welcomed_app in W by auto. discriminate.
    - destruct H as [pre [reason [msg [realm [rest [F E]]]]]]. rewrite E. cbn.
      repeat split; auto. left. eauto.
    - destruct H as [rest [E N]]. rewrite E. cbn. repeat split; auto.
  Qed.

  Lemma welcome_attached_lemma : forall rt p o script,
      let r := attach' true rt p o script in
      welcomed r = true ->
      exists pre sid wd sess,
        only_challenges pre /\ r_out r = (pre ++ [OWelcome sid wd])%list /\
        r_session r = Some sess /\ r_closed r = false /\ r_err r = false /\ aborted r = false.
  Proof.
    intros rt p o script r W. subst r.
    destruct (attach_outcomes rt p o script) as [H|[H|H]].
    - destruct H as [pre [sid [wd [sess [realm [rest [F E]]]]]]]. rewrite E. cbn.
      exists pre, sid, wd, sess. repeat split; auto.
      unfold aborted. cbn. rewrite existsb_app. cbn. rewrite orb_false_r.
      apply no_abort_among_challenges; auto.
    - destruct H as [pre [reason [msg [realm [rest [F E]]]]]].
      rewrite E in W. unfold welcomed in W. cbn in W. rewrite welcomed_app in W by auto. discriminate.
    - destruct H as [rest [E N]]. rewrite E in W. discriminate.
  Qed.

  (** *** identity_from_router *)

  Lemma assemble_session : forall hello welcome sid,
      dict_get "session" (assemble hello welcome sid) = Some (VInt (Z.of_N sid)).
  Proof. intros. unfold assemble, session_key. apply dict_get_set_same. Qed.

  Lemma assemble_welcome_wins : forall hello welcome sid k,
      k <> "session" -> k <> "roles" -> dict_get k welcome <> None ->
      dict_get k (assemble hello welcome sid) = dict_get k welcome.
  Proof.
    intros hello welcome sid k N1 N2 N3. unfold assemble, session_key.
    rewrite dict_get_set_other by auto. rewrite dict_get_copy_except.
    assert (M : str_mem k welcome_skip_keys = false).
    { cbn. destruct (String.eqb k "roles") eqn:E; auto. apply String.eqb_eq in E. contradiction. }
    rewrite M. destruct (dict_get k welcome); [reflexivity|contradiction].
  Qed.

  Lemma assemble_hello_only : forall hello welcome sid k,
      k <> "session" -> dict_get k welcome = None ->
      dict_get k (assemble hello welcome sid) =
      if str_mem k hello_skip_keys then None else dict_get k hello.
  Proof.
    intros hello welcome sid k N1 N3. unfold assemble, session_key.
    rewrite dict_get_set_other by auto. rewrite !dict_get_copy_except, N3. cbn [dict_get].
    destruct (str_mem k welcome_skip_keys); destruct (str_mem k hello_skip_keys); auto;
      destruct (dict_get k hello); auto.
  Qed.

  Lemma identity_from_router_lemma : forall rt p o realm details rest sess rc created,
      r_session (attach' true rt p o (EvMsg (CHello realm details) :: rest)) = Some sess ->
      lookup_realm rt realm = Some (rc, created) ->
      exists wd,
        In (OWelcome (o_sid o) wd) (r_out (attach' true rt p o (EvMsg (CHello realm details) :: rest))) /\
        sess = assemble (with_transport p details) wd (o_sid o) /\
        dict_get "session" sess = Some (VInt (Z.of_N (o_sid o))) /\
        (forall k, In k identity_keys -> dict_get k wd <> None -> dict_get k sess = dict_get k wd) /\
        router_identity rc p o (with_transport p details) wd.
  Proof.
    intros rt p o realm details rest sess rc created H LR.
    unfold attach in *. cbn in *.
    destruct (String.eqb realm ""); [discriminate|].
    destruct (rt_closed rt); [discriminate|].
    rewrite LR in *. cbn in *.
    destruct (has_client_role details); cbn in *; [|discriminate].
    destruct (x_welcome (auth_client' true rc p (o_sid o) o (with_transport p details) rest)) as [wd|] eqn:XW;
      cbn in *; [|discriminate].
    destruct (o_realm_closed o); cbn in *; [discriminate|].
    inversion H; subst sess. exists wd. split; [apply in_or_app; right; left; reflexivity|].
    split; [reflexivity|]. split; [apply assemble_session|]. split.
    - intros k Hk Hwd. apply assemble_welcome_wins; auto;
        cbn in Hk; intuition (subst; discriminate).
    - unfold router_identity.
      apply auth_client_accept in XW as [[L [E _]]|[L [a [m [W [S [XW [E _]]]]]]]]; rewrite L; auto.
      exists a, m, W. repeat split; auto.
      apply authenticate_accept in XW. apply XW.
  Qed.

  (** Without bypass key stores the four identity entries of the WELCOME
      details are always bound, and are given by the configuration, the key
      store and the oracle alone. *)
  Lemma id_welcome_keys : forall authid role method provider k,
      In k identity_keys -> dict_get k (id_welcome authid role method provider) <> None.
  Proof.
    intros authid role method provider k Hk. cbn in Hk.
    destruct Hk as [H|[H|[H|[H|[]]]]]; subst; cbn; discriminate.
  Qed.

  Lemma no_bypass_selected : forall rc ms a m ks,
      no_bypass rc -> select_authenticator rc ms = Some (a, m) -> keystore_of a = Some ks ->
      ks_bypass ks = None.
  Proof.
    intros rc ms a m ks NB S K. apply select_sound in S as [_ C].
    apply configured_from in C as [C|C]; [eapply NB; eauto|subst; discriminate].
  Qed.

  Lemma welcome_identity_bound : forall rc p o details wd,
      no_bypass rc -> router_identity rc p o details wd ->
      forall k, In k identity_keys -> dict_get k wd <> None.
  Proof.
    intros rc p o details wd NB RI k Hk. unfold router_identity in RI.
    destruct (local_shortcut rc p).
    - subst wd. unfold local_welcome. cbn in Hk.
      destruct Hk as [H|[H|[H|[H|[]]]]]; subst; cbn; discriminate.
    - destruct RI as [a [m [W [S [AW E]]]]]. subst wd.
      assert (HW : dict_get k W <> None).
      { destruct AW as [AW|[ks [b [K [B _]]]]].
        - subst W. destruct a; apply id_welcome_keys; auto.
        - pose proof (no_bypass_selected _ _ _ _ _ NB S K). congruence. }
      cbn in Hk. destruct Hk as [H|[H|[H|[H|[]]]]]; subst;
        rewrite dict_get_set_other by discriminate;
        rewrite dict_get_set; cbn; auto; discriminate.
  Qed.

  (** Keys of the HELLO details that the handshake never reads cannot change
      the recorded identity. *)
  Lemma claimed_same : forall d1 d2, same_claims d1 d2 -> claimed_authid d1 = claimed_authid d2.
  Proof. intros d1 d2 H. unfold claimed_authid. rewrite (H "authid"); cbn; auto. Qed.

  Lemma offered_same : forall d1 d2, same_claims d1 d2 -> offered_methods d1 = offered_methods d2.
  Proof. intros d1 d2 H. unfold offered_methods. rewrite (H "authmethods"); cbn; auto. Qed.

  Lemma with_transport_same : forall p d1 d2, same_claims d1 d2 ->
      same_claims (with_transport p d1) (with_transport p d2).
  Proof.
    intros p d1 d2 H k Hk. unfold with_transport. destruct (p_transport p); auto.
    unfold transport_key. rewrite !dict_get_set. destruct (String.eqb k "transport"); auto.
  Qed.

  Lemma finish_no_bypass : forall ks authid wd details,
      ks_bypass ks = None -> finish_welcome ks authid wd details = Some wd.
  Proof. intros. unfold finish_welcome. rewrite H. reflexivity. Qed.

  Lemma bypassed_no_bypass : forall ks authid details,
      ks_bypass ks = None -> bypassed ks authid details = false.
  Proof. intros. unfold bypassed. rewrite H. reflexivity. Qed.

  Lemma authenticate_same : forall a sid o d1 d2 script,
      same_claims d1 d2 ->
      (forall ks, keystore_of a = Some ks -> ks_bypass ks = None) ->
      authenticate' true a sid o d1 script = authenticate' true a sid o d2 script.
  Proof.
    intros a sid o d1 d2 script SC NB.
    destruct a as [role|ks|ks|ks]; cbn; auto;
      rewrite (claimed_same _ _ SC);
      pose proof (NB ks eq_refl) as B;
      rewrite !(bypassed_no_bypass ks _ _ B), ?(finish_no_bypass ks _ _ _ B);
      reflexivity.
  Qed.

  Lemma local_welcome_same : forall o d1 d2, same_claims d1 d2 -> local_welcome o d1 = local_welcome o d2.
  Proof. intros. unfold local_welcome. rewrite (claimed_same _ _ H). reflexivity. Qed.

  Lemma auth_client_same : forall rc p sid o d1 d2 script,
      same_claims d1 d2 -> no_bypass rc ->
      auth_client' true rc p sid o d1 script = auth_client' true rc p sid o d2 script.
  Proof.
    intros rc p sid o d1 d2 script SC NB. unfold auth_client.
    rewrite (local_welcome_same _ _ _ SC), (offered_same _ _ SC).
    destruct (local_shortcut rc p); auto.
    destruct (select_authenticator rc (offered_methods d2)) as [[a m]|] eqn:S; auto.
    rewrite (authenticate_same a sid o d1 d2 script SC); auto.
    intros ks K. eapply no_bypass_selected; eauto.
  Qed.

  Lemma has_role_same : forall d1 d2, same_claims d1 d2 -> has_client_role d1 = has_client_role d2.
  Proof. intros. unfold has_client_role. rewrite (H "roles"); cbn; auto. Qed.

  Lemma smuggling_ineffective_lemma : forall rt p o realm d1 d2 rest rc created,
      lookup_realm rt realm = Some (rc, created) ->
      no_bypass rc ->
      same_claims d1 d2 ->
      let r1 := attach' true rt p o (EvMsg (CHello realm d1) :: rest) in
      let r2 := attach' true rt p o (EvMsg (CHello realm d2) :: rest) in
      r_out r1 = r_out r2 /\ r_closed r1 = r_closed r2 /\ r_rest r1 = r_rest r2 /\
      match r_session r1, r_session r2 with
      | Some s1, Some s2 =>
          forall k, In k ("session" :: identity_keys) -> dict_get k s1 = dict_get k s2
      | None, None => True
      | _, _ => False
      end.
  Proof.
    intros rt p o realm d1 d2 rest rc created LR NB SC. cbn zeta.
    unfold attach. cbn.
    destruct (String.eqb realm ""); [cbn; auto|].
    destruct (rt_closed rt); [cbn; auto|].
    rewrite LR. cbn. rewrite (has_role_same _ _ SC).
    destruct (has_client_role d2); cbn; [|auto].
    pose proof (with_transport_same p _ _ SC) as SCT.
    rewrite (auth_client_same rc p (o_sid o) o _ _ rest SCT NB).
    destruct (x_welcome (auth_client' true rc p (o_sid o) o (with_transport p d2) rest)) as [wd|] eqn:XW;
      cbn; [|auto].
    destruct (o_realm_closed o) eqn:ORC; cbn; [auto|].
    repeat split; auto.
    intros k Hk.
    assert (RI : router_identity rc p o (with_transport p d2) wd).
    { unfold router_identity.
      apply auth_client_accept in XW as [[L [E _]]|[L [a [m [W [S [XW [E _]]]]]]]]; rewrite L; auto.
      exists a, m, W. repeat split; auto. apply authenticate_accept in XW. apply XW. }
    destruct Hk as [Hk|Hk].
    - subst k. rewrite !assemble_session. reflexivity.
    - pose proof (welcome_identity_bound _ _ _ _ _ NB RI k Hk) as B.
      rewrite !assemble_welcome_wins; auto; cbn in Hk; intuition (subst; discriminate).
  Qed.

End Proofs.
