(** * Auth/DictFacts — lemmas about the association-list dictionaries. *)
From Coq Require Import List String ZArith NArith Bool.
From Nexus Require Import Auth.Values.
Import ListNotations.
Open Scope string_scope.

Lemma dict_get_remove_same : forall k d, dict_get k (dict_remove k d) = None.
Proof.
  induction d as [|[k' v] d IH]; cbn; auto.
  destruct (String.eqb k k') eqn:E; auto. cbn. rewrite E. auto.
Qed.

Lemma dict_get_remove_other : forall k k' d, k <> k' -> dict_get k (dict_remove k' d) = dict_get k d.
Proof.
  induction d as [|[k2 v] d IH]; cbn; intros; auto.
  destruct (String.eqb k' k2) eqn:E1.
  - apply String.eqb_eq in E1. subst k2.
    destruct (String.eqb k k') eqn:E2; [apply String.eqb_eq in E2; congruence|]. auto.
  - cbn. destruct (String.eqb k k2); auto.
Qed.

Lemma dict_get_set_same : forall k v d, dict_get k (dict_set k v d) = Some v.
Proof. intros. unfold dict_set. cbn. rewrite String.eqb_refl. reflexivity. Qed.

Lemma dict_get_set_other : forall k k' v d, k <> k' -> dict_get k (dict_set k' v d) = dict_get k d.
Proof.
  intros. unfold dict_set. cbn.
  destruct (String.eqb k k') eqn:E; [apply String.eqb_eq in E; congruence|].
  apply dict_get_remove_other; auto.
Qed.

Lemma dict_get_set : forall k k' v d,
    dict_get k (dict_set k' v d) = if String.eqb k k' then Some v else dict_get k d.
Proof.
  intros. destruct (String.eqb k k') eqn:E.
  - apply String.eqb_eq in E. subst. apply dict_get_set_same.
  - apply dict_get_set_other. intro; subst. rewrite String.eqb_refl in E. discriminate.
Qed.

Lemma dict_get_copy_except : forall skip k src dst,
    dict_get k (copy_except skip src dst) =
    if str_mem k skip then dict_get k dst
    else match dict_get k src with Some v => Some v | None => dict_get k dst end.
Proof.
  induction src as [|[k' v] src IH]; intros; cbn.
  - destruct (str_mem k skip); reflexivity.
  - destruct (String.eqb k k') eqn:E.
    + apply String.eqb_eq in E. subst k'.
      destruct (str_mem k skip) eqn:M.
      * rewrite IH. reflexivity.
      * apply dict_get_set_same.
    + assert (k <> k') by (intro; subst; rewrite String.eqb_refl in E; discriminate).
      destruct (str_mem k' skip).
      * apply IH.
      * rewrite dict_get_set_other by auto. apply IH.
Qed.

Lemma str_mem_In : forall k l, str_mem k l = true <-> In k l.
Proof.
  induction l; cbn; split; intros; try discriminate; try contradiction.
  - apply orb_true_iff in H as [H|H]; [left; symmetry; apply String.eqb_eq; auto | right; apply IHl; auto].
  - apply orb_true_iff. destruct H; [left; subst; apply String.eqb_refl | right; apply IHl; auto].
Qed.
