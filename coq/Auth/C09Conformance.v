(** * Auth/C09Conformance — per-run obligations tying the constants and the
    structure the model [Auth/Handshake.v] hard-codes to what the translator
    (go/cmd/genc09) regenerated from /repo's AttachClient / authClient on this
    run ([gen/GenC09.v]).  Each lemma is closed by computation; one that no
    longer compiles names the part of the source that changed. *)
From Coq Require Import List String ZArith Bool.
From Nexus Require Import Auth.Values Auth.Handshake gen.GenC09.
Import ListNotations.
Open Scope string_scope.

Definition subset (a b : list string) : bool := forallb (fun x => str_mem x b) a.
Definition same_set (a b : list string) : bool := subset a b && subset b a.

Definition same_pairs (a b : list (string * string)) : bool :=
  forallb (fun kv => existsb (fun kv' => String.eqb (fst kv) (fst kv') && String.eqb (snd kv) (snd kv')) b) a
  && forallb (fun kv => existsb (fun kv' => String.eqb (fst kv) (fst kv') && String.eqb (snd kv) (snd kv')) a) b.

Fixpoint same_exits (a b : list (string * bool)) : bool :=
  match a, b with
  | [], [] => true
  | (r1, m1) :: x, (r2, m2) :: y => String.eqb r1 r2 && Bool.eqb m1 m2 && same_exits x y
  | _, _ => false
  end.

Fixpoint same_strings (a b : list string) : bool :=
  match a, b with
  | [], [] => true
  | x :: xs, y :: ys => String.eqb x y && same_strings xs ys
  | _, _ => false
  end.

(** helloTimeout *)
Lemma conf_hello_timeout : gen_hello_timeout_ns = hello_timeout_ns.
Proof. vm_compute. reflexivity. Qed.

(** every exit of AttachClient that sends ABORT uses one of the (reason,
    message?) pairs the model produces, and every pair of the model is used *)
Definition pair_mem (x : string * bool) (l : list (string * bool)) : bool :=
  existsb (fun y => String.eqb (fst x) (fst y) && Bool.eqb (snd x) (snd y)) l.

Lemma conf_abort_exits :
  forallb (fun x => pair_mem x abort_exits) gen_abort_exits
  && forallb (fun x => pair_mem x gen_abort_exits) abort_exits = true.
Proof. vm_compute. reflexivity. Qed.

(** sendAbort sends the ABORT and then closes the peer; the message text is
    attached iff an error is given; a missing first message closes the peer
    without ABORT; the first receive uses helloTimeout *)
Lemma conf_abort_shape :
  gen_abort_sends_then_closes && gen_abort_message_iff_error
  && gen_hello_error_closes_without_abort && gen_recv_uses_hello_timeout = true.
Proof. vm_compute. reflexivity. Qed.

(** the client roles of which one must be announced *)
Lemma conf_client_roles : same_set gen_client_roles client_roles = true.
Proof. vm_compute. reflexivity. Qed.

(** transport details are injected under "transport" only when non-empty *)
Lemma conf_transport :
  String.eqb gen_transport_key transport_key && String.eqb gen_transport_condition "nonempty" = true.
Proof. vm_compute. reflexivity. Qed.

(** session details: HELLO details first (minus authmethods, roles), then
    WELCOME details (minus roles) overriding them, then the session id *)
Lemma conf_assembly :
  match gen_assembly with
  | [(s1, k1); (s2, k2)] =>
      same_strings [s1; s2] assembly_order
      && same_set k1 hello_skip_keys && same_set k2 welcome_skip_keys
  | _ => false
  end && String.eqb gen_session_key session_key = true.
Proof. vm_compute. reflexivity. Qed.

(** the stages of AttachClient keep their order: first receive; realm lookup;
    roles check and transport injection before authClient; authClient before
    the assembly; the assembly before handleSession; WELCOME is sent only after
    handleSession's realm-closed check and onJoin — either by AttachClient
    after handleSession returned, or inside handleSession after onJoin — and
    the session handler is started after onJoin. *)
Fixpoint index_of (x : string) (l : list string) (i : nat) : option nat :=
  match l with
  | [] => None
  | y :: r => if String.eqb x y then Some i else index_of x r (S i)
  end.

Definition before (a b : string) (l : list string) : bool :=
  match index_of a l 0, index_of b l 0 with
  | Some i, Some j => Nat.ltb i j
  | _, _ => false
  end.

Definition occurs (a : string) (l : list string) : bool :=
  match index_of a l 0 with Some _ => true | None => false end.

Lemma conf_stages :
  (match gen_stages with "recv_hello" :: _ => true | _ => false end)
  && before "recv_hello" "realm_lookup" gen_stages
  && before "realm_lookup" "roles_check" gen_stages
  && before "roles_check" "auth_client" gen_stages
  && before "inject_transport" "auth_client" gen_stages
  && before "auth_client" "assemble" gen_stages
  && before "assemble" "handle_session" gen_stages
  && before "closed_check_returns_error" "on_join" gen_handle_session_steps
  && before "on_join" "start_handler" gen_handle_session_steps
  && (if occurs "send_welcome" gen_stages
      then before "handle_session" "send_welcome" gen_stages
           && negb (occurs "send_welcome" gen_handle_session_steps)
      else before "on_join" "send_welcome" gen_handle_session_steps)
  = true.
Proof. vm_compute. reflexivity. Qed.

(** authClient: who skips authentication, what a local peer's welcome says,
    the default method, the keys the router itself sets after Authenticate *)
Lemma conf_auth_client :
  String.eqb gen_local_shortcut_condition "local && !require_local_auth"
  && same_pairs gen_local_welcome_literal local_welcome_literal
  && same_set gen_local_welcome_computed ["authid"; "roles"]
  && String.eqb gen_default_authmethod "anonymous"
  && same_set gen_router_set_welcome_keys ["authmethod"; "roles"] = true.
Proof. vm_compute. reflexivity. Qed.

(** ** The authenticators of router/auth: every point where [Authenticate]
    refuses the client, in source order, with variables named by their role
    (AUTHID = the claimed authid, KEY = what AuthKey returned, CHAL = the
    challenge made in this call, AUTH = the AUTHENTICATE message, VERIFIED = the
    result of verifySignature); what is sent as CHALLENGE.Extra; the wampcra
    challenge format; the steps of cryptosign's verifySignature. *)

(** ticket: no authid; OnWelcome error (bypass); receive error; not
    AUTHENTICATE; no ticket or a different one; OnWelcome error *)
Lemma conf_ticket :
  same_strings gen_ticket_rejections
    ["(==) AUTHID """""; "(!=) err nil"; "! ok"; "(||) (==) KEY nil (!=) AUTH Signature string KEY"]
  && same_strings gen_ticket_challenge_extra ["Extra=wamp Dict"] = true.
Proof. vm_compute. reflexivity. Qed.

(** wampcra: the signature is verified against the challenge string made in
    this call (CHAL), which is what was sent as Extra.challenge *)
Lemma conf_cra :
  same_strings gen_cra_rejections
    ["(==) AUTHID """""; "(!=) err nil"; "(!=) err nil"; "! ok";
     "! crsign VerifySignature AUTH Signature CHAL KEY"]
  && same_strings gen_cra_challenge_extra ["challenge=CHAL"; "Extra=extra"] = true.
Proof. vm_compute. reflexivity. Qed.

(** the challenge string binds nonce, provider, authid, timestamp, authrole,
    method and the session id, in the format the model renders *)
Lemma conf_cra_challenge_format :
  String.eqb gen_cra_challenge_format
    "{ ""nonce"":""%s"", ""authprovider"":""%s"", ""authid"":""%s"", ""timestamp"":""%s"", ""authrole"":""%s"", ""authmethod"":""%s"", ""session"":%d }"
  && same_strings gen_cra_challenge_args
       ["nonce"; "cr keyStore Provider"; "authid"; "wamp NowISO8601"; "authrole"; "cr AuthMethod"; "session"]
  = true.
Proof. vm_compute. reflexivity. Qed.

(** cryptosign: verifySignature receives the issued challenge and returns
    whether the opened message equals it *)
Lemma conf_cryptosign :
  same_strings gen_cryptosign_rejections
    ["(==) AUTHID """""; "(!=) err nil"; "(!=) err nil"; "(!=) err nil"; "(!=) err nil"; "! ok";
     "(!=) err nil"; "! VERIFIED"]
  && same_strings gen_cryptosign_challenge_extra ["challenge=hex EncodeToString CHAL"; "Extra=extra"]
  && same_strings gen_cryptosign_verify_call ["AUTH Signature"; "KEY"; "CHAL"]
  && Nat.eqb gen_cryptosign_verify_arity 3
  && same_strings gen_cryptosign_verify_steps
       ["hex DecodeString(ARG0)"; "(!=) err nil => false"; "(!=) len DECODED 96 => false";
        "sign Open(nil, DECODED, & pubkey)"; "! OPENOK => false"; "=> bytes Equal OPENED ARG2"]
  = true.
Proof. vm_compute. reflexivity. Qed.
