(** * Auth/Runner — one correspondence case: inputs, projected observation.

    Definitions only.  Used by the extracted runner (ocaml/auth) and by the
    in-kernel replays ([coq/cases/c09_cases_*.v]). *)
From Coq Require Import List String ZArith NArith Bool.
From Nexus Require Import Auth.Values Auth.Handshake Auth.KeyTable.
Import ListNotations.
Open Scope string_scope.

Record case := {
  c_router : router_cfg;
  c_peer : peer;
  c_oracle : oracle;
  c_script : list cevent;
  c_cra : list (string * string * string * bool);      (* sig, challenge, key -> verifies *)
  c_open : list (string * string * option string)      (* public key, signed message -> opened message *)
}.

(** What is compared with the implementation. *)
Record observation := {
  ob_out : list out_msg;          (* messages the joining peer received, in order *)
  ob_closed : bool;               (* the router closed the peer *)
  ob_err : bool;                  (* AttachClient returned an error *)
  ob_shown : option dict;         (* wamp.session.get / on_join as seen by another session *)
  ob_created : bool;              (* a realm was created from the template *)
  ob_effects : N                  (* how many of the peer's later messages were handled *)
}.

Definition meta_strict_of (rt : router_cfg) (r : result) : bool :=
  match r_realm r with
  | Some (realm, _) =>
      match lookup_realm rt realm with
      | Some (rc, _) => rc_meta_strict rc
      | None => false
      end
  | None => false
  end.

Definition observe (rt : router_cfg) (r : result) : observation :=
  {| ob_out := r_out r;
     ob_closed := r_closed r;
     ob_err := r_err r;
     ob_shown := match r_session r with
                 | Some s => Some (clean_details (meta_strict_of rt r) s)
                 | None => None
                 end;
     ob_created := match r_realm r with Some (_, c) => c | None => false end;
     ob_effects := N.of_nat (List.length (routed r)) |}.

(** [bind]: model of the repaired cryptosign ([true]) or of the code as found ([false]). *)
Definition run_case (bind : bool) (c : case) : observation :=
  observe (c_router c)
          (attach (cra_table (c_cra c)) (open_table (c_open c)) bind
                  (c_router c) (c_peer c) (c_oracle c) (c_script c)).

Definition out_msg_eqb (a b : out_msg) : bool :=
  match a, b with
  | OChallenge m1 e1, OChallenge m2 e2 => String.eqb m1 m2 && dict_eqb e1 e2
  | OWelcome s1 d1, OWelcome s2 d2 => N.eqb s1 s2 && dict_eqb d1 d2
  | OAbort r1 m1, OAbort r2 m2 => String.eqb r1 r2 && Bool.eqb m1 m2
  | _, _ => false
  end.

Fixpoint outs_eqb (a b : list out_msg) : bool :=
  match a, b with
  | [], [] => true
  | x :: xs, y :: ys => out_msg_eqb x y && outs_eqb xs ys
  | _, _ => false
  end.

Definition obs_eqb (a b : observation) : bool :=
  outs_eqb (ob_out a) (ob_out b)
  && Bool.eqb (ob_closed a) (ob_closed b)
  && Bool.eqb (ob_err a) (ob_err b)
  && match ob_shown a, ob_shown b with
     | Some x, Some y => dict_eqb x y
     | None, None => true
     | _, _ => false
     end
  && Bool.eqb (ob_created a) (ob_created b)
  && N.eqb (ob_effects a) (ob_effects b).

(** indices (from 0) of the cases whose model observation differs from the recorded one *)
Fixpoint mismatches_from (i : N) (bind : bool) (l : list (case * observation)) : list N :=
  match l with
  | [] => []
  | (c, o) :: r =>
      if obs_eqb (run_case bind c) o then mismatches_from (N.succ i) bind r
      else i :: mismatches_from (N.succ i) bind r
  end.

Definition mismatches (bind : bool) (l : list (case * observation)) : list N :=
  mismatches_from 0 bind l.
