(** * Auth/Toy — a toy instantiation of the cryptographic Section variables and
    a small configuration, used for non-vacuity examples and for the
    [_refuted] witness.  Definitions only. *)
From Coq Require Import List String Ascii ZArith NArith Bool.
From Nexus Require Import Auth.Values Auth.Handshake Auth.KeyTable.
Import ListNotations.
Open Scope string_scope.

(** "HMAC": the signature is key | challenge. *)
Definition toy_cra_verify (sig chal key : string) : bool :=
  String.eqb sig (key ++ "|" ++ chal).

(** "Ed25519": a signed message is 64 signature bytes followed by the message;
    the signature is good when it starts with the 32-byte public key. *)
Definition toy_sign_open (pk sm : string) : option string :=
  if String.eqb (substring 0 32 sm) pk then Some (substring 64 32 sm) else None.

Definition toy_pk := "KKKKKKKKKKKKKKKKKKKKKKKKKKKKKKKK".
Definition filler32 := "................................".
Definition chal1 := "11111111111111111111111111111111".
Definition chal2 := "22222222222222222222222222222222".

Definition toy_signed (msg : string) : string := toy_pk ++ filler32 ++ msg.
Definition toy_sig (msg : string) : string := hex_encode (toy_signed msg).

Definition alice : user :=
  {| u_authid := "alice"; u_role := Some "user";
     u_keys := [("ticket", "tkt-alice"); ("wampcra", "pw-alice"); ("cryptosign", toy_pk)];
     u_salt := ""; u_keylen := 0; u_iters := 0 |}.

Definition toy_ks : keystore := table_keystore "static-A" [alice] false.

Definition toy_realm : realm_cfg :=
  {| rc_authenticators := [AAnonymous "guest"; ATicket toy_ks; ACra toy_ks; ACryptosign toy_ks];
     rc_anonymous := false; rc_local_auth := false; rc_strict_uri := false; rc_meta_strict := false |}.

Definition toy_router : router_cfg :=
  {| rt_realms := [("realm1", toy_realm)]; rt_template := Some toy_realm; rt_closed := false |}.

Definition remote_peer : peer := {| p_local := false; p_transport := [] |}.
Definition local_peer : peer := {| p_local := true; p_transport := [] |}.

Definition toy_oracle (chal : string) : oracle :=
  {| o_sid := 4242; o_gen_authid := "1f00d"; o_nonce := "bm9uY2U="; o_timestamp := "2026-01-01T00:00:00Z";
     o_rand_key := "?"; o_cs_challenge := chal; o_chal_blocked := false; o_realm_closed := false |}.

Definition roles_pub : value := VDict [("publisher", VDict [])].

(** HELLO details that try to smuggle every identity field. *)
Definition smuggling_details (method : string) : dict :=
  [("roles", roles_pub); ("authmethods", VList [VStr method]); ("authid", VStr "alice");
   ("authrole", VStr "admin"); ("authmethod", VStr "local"); ("authprovider", VStr "root");
   ("session", VInt 1); ("x_custom", VList [VInt 7])].

Definition hello (method : string) : cevent := EvMsg (CHello "realm1" (smuggling_details method)).
Definition authenticate_with (sig : string) : cevent := EvMsg (CAuthenticate sig []).

Definition later : list cevent := [EvMsg (COther 32); EvMsg (COther 16)].

Definition toy_attach (bind : bool) := attach toy_cra_verify toy_sign_open bind toy_router.
