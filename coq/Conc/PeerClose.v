(** * Conc/PeerClose — closing network peers whose clients may have stopped reading.

    [rawSocketPeer.Close] / [websocketPeer.Close]: tell the sender goroutine
    to stop ([cancelSender]), WAIT for it ([<-writerDone]), then close the
    connection.  The sender notices the cancellation between two messages; if
    it is inside [conn.Write] it stays there until the client takes the frame
    — for ever if the client has stopped reading — unless the write has a
    deadline.  [bounded]: [Close] sets a write deadline of [T] (ctrlTimeout)
    before it waits ([true] is /repo since 313de37; per-run obligation
    [peer_close_bounds_pending_write]).

    At realm shutdown the peers of the sessions that were told to leave are
    closed one after the other by [realm.close] (after dealer and broker have
    stopped), a session that ends by itself closes its own peer in its
    handler; [realm.close] waits for all handlers.  Either way the shutdown
    lasts at most the sum of the individual closes. *)

From Coq Require Import List Bool Arith NArith Lia.
Import ListNotations.
Local Open Scope N_scope.

Inductive sender : Type :=
| Idle                         (* waiting for the next message or for the cancellation *)
| Writing (taken : option N).  (* inside conn.Write; the client takes the frame after [taken], None: never *)

(** Duration of [Close()] for one peer; [None]: it never returns. *)
Definition close_time (bounded : bool) (T : N) (s : sender) : option N :=
  match s with
  | Idle => Some 0
  | Writing (Some r) => Some (if bounded then N.min r T else r)
  | Writing None => if bounded then Some T else None
  end.

Fixpoint shutdown_time (bounded : bool) (T : N) (ps : list sender) : option N :=
  match ps with
  | [] => Some 0
  | p :: r =>
      match close_time bounded T p, shutdown_time bounded T r with
      | Some a, Some b => Some (a + b)
      | _, _ => None
      end
  end.

(** For EVERY number of network clients and EVERY subset of them that has
    stopped reading (and every state of every sender): the shutdown ends, after
    at most T per peer. *)
Theorem shutdown_terminates_with_stalled_clients : forall T ps,
  exists t, shutdown_time true T ps = Some t /\ t <= N.of_nat (length ps) * T.
Proof.
  intros T ps. induction ps as [|p r [t [E B]]].
  - exists 0. split; [reflexivity | cbn; lia].
  - cbn [shutdown_time]. rewrite E.
    assert (exists a, close_time true T p = Some a /\ a <= T) as [a [Ea Ba]].
    { destruct p as [|[x|]]; cbn; eexists; split; try reflexivity; lia. }
    rewrite Ea. exists (a + t). split; [reflexivity|].
    replace (N.of_nat (length (p :: r))) with (N.of_nat (length r) + 1) by (cbn [length]; lia). lia.
Qed.

(** Without the write deadline one client that stopped reading while a frame
    was being written to it is enough: the shutdown never ends. *)
Theorem shutdown_never_ends_refuted_without_deadline : forall T ps,
  In (Writing None) ps -> shutdown_time false T ps = None.
Proof.
  intros T ps. induction ps as [|p r IH]; intros H; [destruct H|].
  cbn [shutdown_time]. destruct H as [H | H].
  - subst p. reflexivity.
  - rewrite (IH H). destruct (close_time false T p); reflexivity.
Qed.

(** Clients that keep reading never delay it beyond what they take to read. *)
Theorem shutdown_time_all_reading : forall T ps,
  (forall p, In p ps -> p = Idle) -> shutdown_time true T ps = Some 0.
Proof.
  intros T ps. induction ps as [|p r IH]; intros H; [reflexivity|].
  cbn [shutdown_time]. rewrite (H p (or_introl eq_refl)). cbn. rewrite IH; [reflexivity|].
  intros q Hq. apply H. right. exact Hq.
Qed.
