(** * Conc/Shutdown — the close protocol of a realm as processes of [Conc/Machine].

    What is transcribed (router/realm.go, dealer.go, broker.go, router.go):

    - the CLOSER running [realm.close] (from [Router.Close] inside the router
      goroutine, or from [RemoveRealm] in the API caller's goroutine — the same
      sequence [realm_close_seq] either way), followed for [Router.Close] by
      stopping the router goroutine;
    - K ATTACH goroutines ([AttachClient] from the router lookup on:
      [handleSession] under [closeLock], [onJoin], WELCOME, start of the
      session handler), for arbitrary K; the CLIENT of each is an arbitrary
      script of messages, possibly ending with a dropped transport, consumed
      by the handler's receive;
    - the session HANDLERS they start ([handleInboundMessages] and the exit
      path [onLeave] -> [sess.Close] -> [waitHandlers.Done]);
    - the REALM, DEALER and BROKER goroutines executing the closures they
      receive on their unbuffered action channels;
    - the META-SESSION handler and [metaProcedureHandler];
    - one CALL TIMER goroutine per call with a timeout;
    - the ROUTER goroutine (lookup for attach, close flag, stop).

    The model is parametrised by [fixes]: with every flag [true] it is the
    repaired code (fixes/C06-*.patch), which is what the theorems are about;
    switching one flag off gives the current code's behaviour at that place and
    the [_refuted] witnesses.

    Abstractions (all over-approximations for the hazards studied): the
    broker / dealer tables are reduced to the set of sessions they hold a
    reference to ([known]); a request of handler j adds j; any request may
    trySend to every known session; closures of broker and dealer (which never
    block) run as a short sequence of non-blocking steps; client queues are
    never drained (every client is as slow as possible); the yield-retry loop
    is not modelled (it only delays); one call timer per session at a time;
    a client's next message is available whenever its handler is ready for it
    (the handler may still prefer the shutdown signal: Go's select is free to);
    with [fx_welcome] the attach goroutine has nothing left to do once it has
    started the handler, so the handler is modelled as its continuation (one
    process per session); without it the handler is a spawned process racing
    with the WELCOME send, as in the current code. *)

From Coq Require Import List Bool Arith NArith.
From Nexus Require Import Conc.Machine.
Import ListNotations.

(** ** Names *)

Inductive ch : Type :=
| CRouterAct | CRouterQuit | CRouterStopped
| CRealmAct | CRealmStopped
| CDealerAct | CDealerStopped
| CBrokerAct | CBrokerStopped
| CMetaIn            (* metaPeer.Send() = metaSess.Recv(): unbuffered *)
| CMetaQ             (* metaSess.Send() = metaPeer.Recv(): the INVOCATION queue *)
| CMetaRecvDone      (* metaSess.RecvDone() *)
| CMetaStop          (* realm.metaStop (repaired) *)
| CMetaDone          (* realm.metaDone *)
| CReplyRealm        (* done channel of dealer.removeSession, awaited by the realm goroutine *)
| CReplyKick         (* ch of realm.close *)
| CReplyCancel       (* done of dealer.close (repaired) *)
| CReplyCloseAll     (* done of Router.Close *)
| CReplyRemove       (* sync of RemoveRealm *)
| CQueue (j : nat)   (* router -> client j: bounded *)
| CDone (j : nat)    (* sess.RecvDone() of session j *)
| CReplyLookup (j : nat)   (* sync of AttachClient *)
| CReplyJoin (j : nat)     (* sync of onJoin *)
| CReplyLeave (j : nat)    (* sync of onLeave *)
| COther (r k : nat).      (* channels of other realms: never named by this realm's code *)

Inductive vr : Type :=
| VRouterClosed | VRealmClosed
| VTimer (j : nat)         (* call timer of session j: 0 none, 1 armed, 2 cancelled *)
| VShut (j : nat)          (* session j is in realm.shutdownSessions (repaired) *)
| VOtherV (r k : nat).

Inductive lk : Type := LClose | LOther (r : nat).
Inductive wgn : Type := WHandlers | WTimers | WOtherW (r : nat).

(** Messages. *)
Inductive msg : Type :=
(* to the router goroutine *)
| MLookup (j : nat) | MCloseAll | MRemoveLookup
(* to broker / dealer *)
| MTouch (j : nat)              (* subscribe / publish / register / ... by session j *)
| MCall (j : nat) (timeout : bool)
| MMetaCall (j : nat)           (* call of a meta procedure by session j *)
| MYield (j : nat)              (* result for caller j, yielded by the meta session *)
| MMetaPub                      (* publication by the meta session *)
| MRemove (j : nat)
| MTimerFire (j : nat)
| MCancelAll
(* to the realm goroutine *)
| MJoin (j : nat) | MLeave (j : nat) (shutdown : bool) | MKick
(* on the meta peer *)
| MPub | MResult (j : nat) | MInv (j : nat) | MGoodbye
(* replies *)
| MOk | MErr | MPubs (some : bool)
(* client -> router *)
| CmPub | CmCall (t : bool) | CmMeta | CmReg | CmBye
(* router -> client *)
| QWelcome | QAbort | QGoodbyeShutdown | QGoodbyeAck | QAny.

Record fixes : Type := mkFixes {
  fx_peers : bool;     (* peers of shut-down sessions are closed by realm.close after dealer and broker stopped *)
  fx_timers : bool;    (* dealer.close cancels and awaits the call timers *)
  fx_welcome : bool;   (* WELCOME is sent before the session handler starts *)
  fx_meta : bool;      (* the ended meta session closes metaStop and drains until metaProcedureHandler is done *)
  fx_router : bool     (* the router's action channel is never closed (quit channel + submit) *)
}.

Definition all_fixed : fixes := mkFixes true true true true true.

(** ** Straight-line sequences transcribed from the source.

    These lists are what [skeleton_conforms] compares (by order) with the
    regenerated operation sequences of [realm.close], [dealer.close],
    [broker.close], [Router.Close], [RemoveRealm] and the handler exit path. *)

Inductive sop : Type :=
| SLock | SUnlock
| STestClosed           (* if r.closed { return } *)
| SSetClosed            (* r.closed = true *)
| SSubmitKick           (* r.actionChan <- func(){ EndRecv each client; close(ch) } *)
| SRecvKick             (* <-ch *)
| SWgWaitHandlers       (* r.waitHandlers.Wait() *)
| SEndRecvMeta          (* r.metaSess.EndRecv(shutdownGoodbye) *)
| SRecvMetaDone         (* <-r.metaDone *)
| SSubmitCancel         (* dealer.close: d.actionChan <- func(){ cancel timers; close(done) } *)
| SRecvCancel           (* <-done *)
| SWgWaitTimers         (* d.timers.Wait() *)
| SCloseDealer          (* close(d.actionChan) *)
| SRecvDealerStopped    (* <-d.stopped *)
| SCloseBroker | SRecvBrokerStopped
| SClosePeers                   (* for _, sess := range r.shutdownSessions { sess.Close() } *)
| SCloseRealm | SRecvRealmStopped.

Definition dealer_close_seq (fx : fixes) : list sop :=
  (if fx_timers fx then [SSubmitCancel; SRecvCancel; SWgWaitTimers] else [])
  ++ [SCloseDealer; SRecvDealerStopped].

Definition broker_close_seq : list sop := [SCloseBroker; SRecvBrokerStopped].

Definition realm_close_seq (fx : fixes) : list sop :=
  [SLock; STestClosed; SSetClosed; SSubmitKick; SRecvKick; SWgWaitHandlers; SEndRecvMeta; SRecvMetaDone]
  ++ dealer_close_seq fx ++ broker_close_seq
  ++ (if fx_peers fx then [SClosePeers] else [])
  ++ [SCloseRealm; SRecvRealmStopped; SUnlock].

(** Exit path of a session handler (the goroutine started by handleSession). *)
Inductive hop : Type :=
| HSubmitLeave          (* onLeave: r.actionChan <- func(){ ...; close(sync) } *)
| HRecvLeave            (* <-sync *)
| HPubOnLeave           (* r.metaPeer.Send() <- on_leave   (not at shutdown / kill_all) *)
| HPeerClose            (* sess.Close()   (repaired: not at shutdown) *)
| HWgDone.              (* r.waitHandlers.Done() *)

Definition handler_exit_seq : list hop := [HSubmitLeave; HRecvLeave; HPubOnLeave; HPeerClose; HWgDone].

(** The realm goroutine's part of onLeave (the closure). *)
Inductive lop : Type :=
| LDelClient            (* delete(r.clients, sess.ID) *)
| LMarkShutdown         (* at shutdown (repaired): r.shutdownSessions = append(...) *)
| LDealerRemove         (* r.dealer.removeSession: d.actionChan <- ... ; <-done *)
| LDealerRecv
| LDealerPubs           (* d.metaPeer.Send() <- pub  for each returned meta publication *)
| LBrokerRemove         (* r.broker.removeSession: b.actionChan <- ... *)
| LReply.               (* close(sync) *)

Definition leave_closure_seq : list lop :=
  [LDelClient; LBrokerRemove; LDealerRemove; LDealerRecv; LDealerPubs; LReply].

(** ** Local states *)

Inductive closer_kind : Type := ByClose | ByRemoveRealm.

Inductive ftag : Type := TCl | TRt | TRm | TDl | TBr | TMs | TMp | TTm.

Inductive L : Type :=
(* attach j *)
| AtLookup (j : nat) | AtLookupWait (j : nat)
| AtLock (j : nat) | AtCheck (j : nat) | AtRefUnlock (j : nat)
| AtWgAdd (j : nat) | AtJoin (j : nat) | AtJoinWait (j : nat) | AtPubJoin (j : nat)
| AtUnlock (j : nat) | AtWelcome (j : nat) (spawned : bool) | AtSpawn (j : nat) (welcomed : bool)
| AtAbort (j : nat) | AtAbortClose (j : nat) | AtRefused (j : nat)
| AtDone (j : nat)              (* current code only: attach goroutine after the spawned handler *)
(* handler j: remaining client script, whether the client finally drops its transport *)
| HLoop (j : nat) (sc : list msg) (dr : bool)
| HGot (j : nat) (sc : list msg) (dr : bool) (m : msg)
| HRegPub (j : nat) (sc : list msg) (dr : bool)
| HBye (j : nat)
| HShutdownBye (j : nat)
| HExit (j : nat) (shutdown : bool) (ops : list hop)
(* realm goroutine *)
| RmIdle (cl : list nat)
| RmJoin (cl : list nat) (j : nat)
| RmLeave (cl : list nat) (j : nat) (shutdown : bool) (pubs : bool) (ops : list lop)
| RmKick (cl : list nat)
| RmStop
(* dealer: sessions it references, sessions with an armed timer *)
| DlIdle (kn tm : list nat)
| DlGot (kn tm : list nat) (m : msg)
| DlArm (kn tm : list nat) (j : nat) (stage : nat)
| DlReplyRemove (kn tm : list nat) (some : bool)
| DlCancel (kn tm : list nat) (rest : list nat)
| DlReplyCancel (kn : list nat)
| DlStop
(* broker *)
| BrIdle (kn : list nat)
| BrGot (kn : list nat) (m : msg)
| BrStop
(* meta-session handler *)
| MsLoop | MsGot (m : msg) | MsBye | MsStop | MsDrain
(* metaProcedureHandler *)
| MpLoop | MpYield (j : nat) | MpExit
(* call timer of session j *)
| TmWait (j : nat) | TmFire (j : nat) | TmEnd (j : nat)
(* router goroutine: realm.close may run inside it *)
| RtIdle
| RtGot (m : msg)
| RtLookupReply (j : nat) (ok : bool)
| RtRemoveReply
| RtCloseReply
| RtStop
(* the goroutine calling Router.Close / RemoveRealm *)
| ClStart (k : closer_kind)
| ClWaitCloseAll | ClStopRouter (stage : nat)
| ClWaitRemove
(* realm.close at position [n] of [realm_close_seq] (the peers still to be
   looked at by the loop over shutdownSessions in [js]), then continue as [k] *)
| RunAt (n : nat) (js : list nat) (k : L)
| RunClosePeer (j : nat) (n : nat) (js : list nat) (k : L)
(* a finished goroutine, tagged with what it was *)
| Fin (t : ftag).

(** ** Helpers *)

Fixpoint mem (j : nat) (l : list nat) : bool :=
  match l with [] => false | x :: r => Nat.eqb x j || mem j r end.

Fixpoint remove (j : nat) (l : list nat) : list nat :=
  match l with [] => [] | x :: r => if Nat.eqb x j then remove j r else x :: remove j r end.

Definition add (j : nat) (l : list nat) : list nat := if mem j l then l else j :: l.

Definition ch_eqb (a b : ch) : bool :=
  match a, b with
  | CRouterAct, CRouterAct | CRouterQuit, CRouterQuit | CRouterStopped, CRouterStopped
  | CRealmAct, CRealmAct | CRealmStopped, CRealmStopped
  | CDealerAct, CDealerAct | CDealerStopped, CDealerStopped
  | CBrokerAct, CBrokerAct | CBrokerStopped, CBrokerStopped
  | CMetaIn, CMetaIn | CMetaQ, CMetaQ | CMetaRecvDone, CMetaRecvDone | CMetaDone, CMetaDone
  | CMetaStop, CMetaStop
  | CReplyRealm, CReplyRealm | CReplyKick, CReplyKick | CReplyCancel, CReplyCancel
  | CReplyCloseAll, CReplyCloseAll | CReplyRemove, CReplyRemove => true
  | CQueue i, CQueue j | CDone i, CDone j
  | CReplyLookup i, CReplyLookup j | CReplyJoin i, CReplyJoin j | CReplyLeave i, CReplyLeave j => Nat.eqb i j
  | COther r k, COther r' k' => Nat.eqb r r' && Nat.eqb k k'
  | _, _ => false
  end.

Definition vr_eqb (a b : vr) : bool :=
  match a, b with
  | VRouterClosed, VRouterClosed | VRealmClosed, VRealmClosed => true
  | VTimer i, VTimer j | VShut i, VShut j => Nat.eqb i j
  | VOtherV r k, VOtherV r' k' => Nat.eqb r r' && Nat.eqb k k'
  | _, _ => false
  end.

Definition lk_eqb (a b : lk) : bool :=
  match a, b with
  | LClose, LClose => true
  | LOther r, LOther r' => Nat.eqb r r'
  | _, _ => false
  end.

Definition wgn_eqb (a b : wgn) : bool :=
  match a, b with
  | WHandlers, WHandlers | WTimers, WTimers => true
  | WOtherW r, WOtherW r' => Nat.eqb r r'
  | _, _ => false
  end.

Notation act := (Machine.act L ch vr lk wgn msg).

Section Code.

Variable fx : fixes.

(** The client of session j: its script and whether it finally drops. *)
Variable scr : nat -> list msg * bool.

(** Number of attach attempts (sessions are numbered 0 .. K-1). *)
Variable K : nat.

(** The closer's operations: [RunAt n js k] executes operation [n] of the
    sequence.  Exactly one action each, except the loop over the shut-down
    sessions, which reads one session per step. *)
Definition unlock_pos : nat := length (realm_close_seq fx) - 1.

Definition sop_act (o : sop) (n : nat) (js : list nat) (k : L) : act :=
  let next := RunAt (S n) js k in
  match o with
  | SLock => ALock LClose next
  | SUnlock => AUnlock LClose next
  | STestClosed =>
      (* already closed: unlock and return *)
      ARead VRealmClosed (fun v => if N.eqb v 0 then next else RunAt unlock_pos js k)
  | SSetClosed => AWrite VRealmClosed 1%N next
  | SSubmitKick => ASend CRealmAct MKick next
  | SRecvKick => ARecv CReplyKick (fun _ => next)
  | SWgWaitHandlers => AWgWait WHandlers next
  | SEndRecvMeta => ACloseOnce [CMetaRecvDone] next
  | SRecvMetaDone => ARecv CMetaDone (fun _ => next)
  | SSubmitCancel => ASend CDealerAct MCancelAll next
  | SRecvCancel => ARecv CReplyCancel (fun _ => next)
  | SWgWaitTimers => AWgWait WTimers next
  | SCloseDealer => AClose CDealerAct next
  | SRecvDealerStopped => ARecv CDealerStopped (fun _ => next)
  | SCloseBroker => AClose CBrokerAct next
  | SRecvBrokerStopped => ARecv CBrokerStopped (fun _ => next)
  | SClosePeers =>
      match js with
      | [] => ATau next
      | j :: r =>
          ARead (VShut j) (fun v => if N.eqb v 1 then RunClosePeer j n r k else RunAt n r k)
      end
  | SCloseRealm => AClose CRealmAct next
  | SRecvRealmStopped => ARecv CRealmStopped (fun _ => next)
  end.

Definition hop_act (j : nat) (sh : bool) (o : hop) (rest : list hop) : act :=
  let next := HExit j sh rest in
  match o with
  | HSubmitLeave => ASend CRealmAct (MLeave j sh) next
  | HRecvLeave => ARecv (CReplyLeave j) (fun _ => next)
  | HPubOnLeave => if sh then ATau next else ASend CMetaIn MPub next
  | HPeerClose => if sh && fx_peers fx then ATau next else AClose (CQueue j) next
  | HWgDone => AWgDone WHandlers next
  end.

Definition lop_act (cl : list nat) (j : nat) (sh pubs : bool) (o : lop) (rest : list lop) : act :=
  let next := RmLeave cl j sh pubs rest in
  match o with
  | LDelClient => ATau (RmLeave (remove j cl) j sh pubs rest)
  | LMarkShutdown => AWrite (VShut j) 1%N next
  | LDealerRemove =>
      if negb sh then ASend CDealerAct (MRemove j) next
      else (* shutdown: nothing is removed from dealer and broker *)
        if fx_peers fx then ATau (RmLeave cl j sh false [LMarkShutdown; LReply])
        else ATau (RmLeave cl j sh false [LReply])
  | LDealerRecv =>
      ARecv CReplyRealm (fun v =>
        RmLeave cl j sh (match v with Some (MPubs b) => b | _ => false end) rest)
  | LDealerPubs => if pubs then ASend CMetaIn MPub next else ATau next
  | LBrokerRemove =>
      (* since /repo 9df542e the broker comes first: the shutdown branch is decided here *)
      if negb sh then ASend CBrokerAct (MRemove j) next
      else
        if fx_peers fx then ATau (RmLeave cl j sh false [LMarkShutdown; LReply])
        else ATau (RmLeave cl j sh false [LReply])
  | LReply => ACloseOnce [CReplyLeave j] next
  end.

Definition dealer_got (kn tm : list nat) (m : msg) : act :=
  match m with
  | MTouch j => ATrySendAll (map CQueue (add j kn)) QAny (DlIdle (add j kn) tm)
  | MCall j t =>
      if t && negb (mem j tm) then ATau (DlArm kn tm j 0)
      else ATrySendAll (map CQueue (add j kn)) QAny (DlIdle (add j kn) tm)
  | MMetaCall j =>
      ATrySend CMetaQ (MInv j) (DlIdle (add j kn) tm) (DlIdle (add j kn) tm)
  | MYield j =>
      if mem j kn then ATrySend (CQueue j) QAny (DlIdle kn tm) (DlIdle kn tm)
      else ATau (DlIdle kn tm)
  | MRemove j =>
      if mem j tm then AWrite (VTimer j) 2%N (DlReplyRemove (remove j kn) (remove j tm) (mem j kn))
      else ATau (DlReplyRemove (remove j kn) (remove j tm) (mem j kn))
  | MTimerFire j =>
      if mem j kn then ATrySend (CQueue j) QAny (DlIdle kn (remove j tm)) (DlIdle kn (remove j tm))
      else ATau (DlIdle kn (remove j tm))
  | MCancelAll => ATau (DlCancel kn tm tm)
  | _ => ATau (DlIdle kn tm)
  end.

Definition broker_got (kn : list nat) (m : msg) : act :=
  match m with
  | MTouch j => ATrySendAll (map CQueue (add j kn)) QAny (BrIdle (add j kn))
  | MMetaPub => ATrySendAll (map CQueue kn) QAny (BrIdle kn)
  | MRemove j => ATau (BrIdle (remove j kn))
  | _ => ATau (BrIdle kn)
  end.

Definition handler_got (j : nat) (sc : list msg) (dr : bool) (m : msg) : act :=
  match m with
  | CmPub => ASend CBrokerAct (MTouch j) (HLoop j sc dr)
  | CmCall t => ASend CDealerAct (MCall j t) (HLoop j sc dr)
  | CmMeta => ASend CDealerAct (MMetaCall j) (HLoop j sc dr)
  | CmReg => ASend CDealerAct (MTouch j) (HRegPub j sc dr)
  | CmBye => ATau (HBye j)
  | _ => ATau (HLoop j sc dr)
  end.

Definition router_got (m : msg) : act :=
  match m with
  | MLookup j =>
      ARead VRouterClosed (fun v => RtLookupReply j (N.eqb v 0))
  | MCloseAll => AWrite VRouterClosed 1%N (RunAt 0 (seq 0 K) RtCloseReply)
  | MRemoveLookup => AWrite VRouterClosed 1%N RtRemoveReply
  | _ => ATau RtIdle
  end.

Definition code (l : L) : act :=
  match l with
  (* ---- attach ---- *)
  | AtLookup j =>
      if fx_router fx then
        ASelect [SSend CRouterAct (MLookup j) (AtLookupWait j);
                 SRecv CRouterStopped (fun _ => AtAbort j)] None
      else ASend CRouterAct (MLookup j) (AtLookupWait j)
  | AtLookupWait j =>
      ARecv (CReplyLookup j) (fun v =>
        match v with Some MOk => AtLock j | _ => AtAbort j end)
  | AtLock j => ALock LClose (AtCheck j)
  | AtCheck j => ARead VRealmClosed (fun v => if N.eqb v 0 then AtWgAdd j else AtRefUnlock j)
  | AtRefUnlock j => AUnlock LClose (AtAbort j)
  | AtAbort j => ASend (CQueue j) QAbort (AtAbortClose j)
  | AtAbortClose j => AClose (CQueue j) (AtRefused j)
  | AtRefused j => ADone
  | AtWgAdd j => AWgAdd WHandlers (AtJoin j)
  | AtJoin j => ASend CRealmAct (MJoin j) (AtJoinWait j)
  | AtJoinWait j => ARecv (CReplyJoin j) (fun _ => AtPubJoin j)
  | AtPubJoin j => ASend CMetaIn MPub (AtUnlock j)
  | AtUnlock j => AUnlock LClose (if fx_welcome fx then AtWelcome j false else AtSpawn j false)
  | AtWelcome j spawned =>
      ASend (CQueue j) QWelcome (if spawned then AtDone j else AtSpawn j true)
  | AtSpawn j welcomed =>
      if welcomed then ATau (HLoop j (fst (scr j)) (snd (scr j)))   (* repaired: handler = continuation *)
      else ASpawn (HLoop j (fst (scr j)) (snd (scr j))) (AtWelcome j true)
  | AtDone j => ADone
  (* ---- session handler ---- *)
  | HLoop j sc dr =>
      match sc, dr with
      | m :: r, _ =>
          ASelect [SRecv (CDone j) (fun _ => HShutdownBye j)] (Some (HGot j r dr m))
      | [], true =>
          ASelect [SRecv (CDone j) (fun _ => HShutdownBye j)] (Some (HExit j false handler_exit_seq))
      | [], false => ARecv (CDone j) (fun _ => HShutdownBye j)
      end
  | HGot j sc dr m => handler_got j sc dr m
  | HRegPub j sc dr => ASend CMetaIn MPub (HLoop j sc dr)
  | HBye j =>
      ATrySend (CQueue j) QGoodbyeAck (HExit j false handler_exit_seq) (HExit j false handler_exit_seq)
  | HShutdownBye j =>
      ATrySend (CQueue j) QGoodbyeShutdown (HExit j true handler_exit_seq) (HExit j true handler_exit_seq)
  | HExit j sh (o :: r) => hop_act j sh o r
  | HExit j sh [] => ADone
  (* ---- realm goroutine ---- *)
  | RmIdle cl =>
      ARecv CRealmAct (fun v =>
        match v with
        | None => RmStop
        | Some (MJoin j) => RmJoin cl j
        | Some (MLeave j sh) => RmLeave cl j sh false leave_closure_seq
        | Some MKick => RmKick cl
        | Some _ => RmIdle cl
        end)
  | RmJoin cl j => ACloseOnce [CReplyJoin j] (RmIdle (add j cl))
  | RmLeave cl j sh pubs (o :: r) => lop_act cl j sh pubs o r
  | RmLeave cl j sh pubs [] => ATau (RmIdle cl)
  | RmKick cl => ACloseOnce (map CDone cl ++ [CReplyKick]) (RmIdle cl)
  | RmStop => AClose CRealmStopped (Fin TRm)
  (* ---- dealer ---- *)
  | DlIdle kn tm =>
      ARecv CDealerAct (fun v => match v with None => DlStop | Some m => DlGot kn tm m end)
  | DlGot kn tm m => dealer_got kn tm m
  | DlArm kn tm j 0 => AWrite (VTimer j) 1%N (DlArm kn tm j 1)
  | DlArm kn tm j 1 =>
      if fx_timers fx then AWgAdd WTimers (DlArm kn tm j 2) else ATau (DlArm kn tm j 2)
  | DlArm kn tm j _ => ASpawn (TmWait j) (DlGot kn (j :: tm) (MTouch j))
  | DlReplyRemove kn tm b => ATrySend CReplyRealm (MPubs b) (DlIdle kn tm) (DlIdle kn tm)
  | DlCancel kn tm (x :: r) => AWrite (VTimer x) 2%N (DlCancel kn tm r)
  | DlCancel kn tm [] => ATau (DlReplyCancel kn)
  | DlReplyCancel kn => ACloseOnce [CReplyCancel] (DlIdle kn [])
  | DlStop => AClose CDealerStopped (Fin TDl)
  (* ---- broker ---- *)
  | BrIdle kn =>
      ARecv CBrokerAct (fun v => match v with None => BrStop | Some m => BrGot kn m end)
  | BrGot kn m => broker_got kn m
  | BrStop => AClose CBrokerStopped (Fin TBr)
  (* ---- meta-session handler ---- *)
  | MsLoop =>
      ASelect [SRecv CMetaIn (fun v =>
                 match v with Some m => MsGot m | None => MsLoop end);
               SRecv CMetaRecvDone (fun _ => MsBye)] None
  | MsGot MPub => ASend CBrokerAct MMetaPub MsLoop
  | MsGot (MResult j) => ASend CDealerAct (MYield j) MsLoop
  | MsGot _ => ATau MsLoop
  | MsBye =>
      ATrySend CMetaQ MGoodbye (if fx_meta fx then MsStop else Fin TMs)
                               (if fx_meta fx then MsStop else Fin TMs)
  | MsStop => AClose CMetaStop MsDrain
  | MsDrain =>
      ASelect [SRecv CMetaIn (fun _ => MsDrain); SRecv CMetaDone (fun _ => Fin TMs)] None
  (* ---- metaProcedureHandler ---- *)
  | MpLoop =>
      let got := fun v =>
        match v with
        | Some (MInv j) => MpYield j
        | Some MGoodbye => MpExit
        | None => MpExit
        | Some _ => MpLoop
        end in
      if fx_meta fx then
        ASelect [SRecv CMetaQ got; SRecv CMetaStop (fun _ => MpExit)] None
      else ARecv CMetaQ got
  | MpYield j => ASend CMetaIn (MResult j) MpLoop
  | MpExit => AClose CMetaDone (Fin TMp)
  (* ---- call timer ---- *)
  | TmWait j => ARead (VTimer j) (fun v => if N.eqb v 2 then TmEnd j else TmFire j)
  | TmFire j => ASend CDealerAct (MTimerFire j) (TmEnd j)
  | TmEnd j => if fx_timers fx then AWgDone WTimers (Fin TTm) else ATau (Fin TTm)
  (* ---- router goroutine ---- *)
  | RtIdle =>
      if fx_router fx then
        ASelect [SRecv CRouterAct (fun v =>
                   match v with Some m => RtGot m | None => RtStop end);
                 SRecv CRouterQuit (fun _ => RtStop)] None
      else ARecv CRouterAct (fun v => match v with Some m => RtGot m | None => RtStop end)
  | RtGot m => router_got m
  | RtLookupReply j ok => ASend (CReplyLookup j) (if ok then MOk else MErr) RtIdle
  | RtRemoveReply => ACloseOnce [CReplyRemove] RtIdle
  | RtCloseReply => ACloseOnce [CReplyCloseAll] RtIdle
  | RtStop => AClose CRouterStopped (Fin TRt)
  (* ---- closer ---- *)
  | ClStart ByClose => ASend CRouterAct MCloseAll ClWaitCloseAll
  | ClWaitCloseAll => ARecv CReplyCloseAll (fun _ => ClStopRouter 0)
  | ClStopRouter 0 =>
      if fx_router fx then AClose CRouterQuit (ClStopRouter 1) else AClose CRouterAct (ClStopRouter 1)
  | ClStopRouter _ => ARecv CRouterStopped (fun _ => Fin TCl)
  | ClStart ByRemoveRealm => ASend CRouterAct MRemoveLookup ClWaitRemove
  | ClWaitRemove =>
      (* RemoveRealm closes the realm in the caller's goroutine; the model then
         also closes the router, so that every run ends with all goroutines gone *)
      ARecv CReplyRemove (fun _ => RunAt 0 (seq 0 K) (ClStart ByClose))
  (* ---- straight-line runs ---- *)
  | RunAt n js k =>
      match nth_error (realm_close_seq fx) n with
      | Some o => sop_act o n js k
      | None => ATau k
      end
  | RunClosePeer j n js k => AClose (CQueue j) (RunAt n js k)
  | Fin _ => ADone
  end.

(** ** Initial states *)

Record params : Type := mkParams {
  p_kind : closer_kind;
  p_nsess : nat;                         (* K: number of attach attempts *)
  p_qcap : nat -> nat;                   (* router->client queue size of session j, >= 1 *)
  p_metaq : nat                          (* capacity of the meta INVOCATION queue (64) *)
}.

Definition cap_of (p : params) (c : ch) : nat :=
  match c with
  | CQueue j => p_qcap p j
  | CMetaQ => p_metaq p
  | CReplyRealm => 1
  | _ => 0
  end.

Definition fixed_procs (p : params) : list L :=
  [ClStart (p_kind p); RtIdle; RmIdle []; DlIdle [] []; BrIdle []; MsLoop; MpLoop].

Definition init (p : params) : state L ch vr lk wgn msg :=
  mkState (fixed_procs p ++ map AtLookup (seq 0 (p_nsess p)))
          (fun c => mkCst (cap_of p c) [] false)
          (fun _ => 0%N) (fun _ => false) (fun _ => 0) None.

End Code.

Notation sstate := (state L ch vr lk wgn msg).
Definition sstep fx scr K := step ch_eqb vr_eqb lk_eqb wgn_eqb (code fx scr K).
Definition srun fx scr K := run ch_eqb vr_eqb lk_eqb wgn_eqb (code fx scr K).
Definition sreach fx scr K := reachable ch_eqb vr_eqb lk_eqb wgn_eqb (code fx scr K).

(** ** A policy scheduler, used to compute witness traces.

    [policy prio]: at each step the first process of [prio] (a list of process
    indices) that can move does so, with its first enabled event. *)

Section Policy.
Variable fx : fixes.
Variable scr : nat -> list msg * bool.
Variable K : nat.
Variable w : nat.

Definition mover (e : ev) : nat := match e with EInt i _ => i | ESync i _ _ _ => i end.

Definition first_enabled (s : sstate) (i : nat) : option (ev * sstate) :=
  let cands := filter (fun e => Nat.eqb (mover e) i) (candidates w s) in
  fold_right (fun e acc =>
      match sstep fx scr K s e with Some s' => Some (e, s') | None => acc end) None cands.

Fixpoint pick (s : sstate) (prio : list nat) : option (ev * sstate) :=
  match prio with
  | [] => None
  | i :: r => match first_enabled s i with Some x => Some x | None => pick s r end
  end.

Fixpoint policy (fuel : nat) (s : sstate) (prio : list nat) : list ev * sstate :=
  match fuel with
  | O => ([], s)
  | S f =>
      match outcome s with
      | Some _ => ([], s)
      | None =>
          match pick s prio with
          | None => ([], s)
          | Some (e, s') => let (tr, s'') := policy f s' prio in (e :: tr, s'')
          end
      end
  end.

End Policy.
