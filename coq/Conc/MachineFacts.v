(** * Conc/MachineFacts — generic facts about [Conc/Machine]. *)

From Coq Require Import List Bool Arith NArith Lia.
From Nexus Require Import Conc.Machine.
Import ListNotations.

(** ** Lists with one element replaced *)

Lemma length_set_nth {A} (l : list A) i a : length (set_nth l i a) = length l.
Proof. revert i; induction l; intros [|i]; simpl; auto. Qed.

Lemma nth_error_set_nth_eq {A} (l : list A) i a :
  i < length l -> nth_error (set_nth l i a) i = Some a.
Proof. revert i; induction l; intros [|i] H; simpl in *; try lia; auto. apply IHl; lia. Qed.

Lemma nth_error_set_nth_neq {A} (l : list A) i j a :
  i <> j -> nth_error (set_nth l i a) j = nth_error l j.
Proof.
  revert i j; induction l; intros [|i] [|j] H; simpl; auto; try congruence.
Qed.

Lemma set_nth_oob {A} (l : list A) i a : length l <= i -> set_nth l i a = l.
Proof. revert i; induction l; intros [|i] H; simpl in *; auto; try lia. f_equal; apply IHl; lia. Qed.

Lemma In_set_nth {A} (l : list A) i a x :
  In x (set_nth l i a) -> x = a \/ In x l.
Proof.
  revert i; induction l; intros [|i]; simpl; auto.
  - intros [->|H]; auto.
  - intros [->|H]; auto. destruct (IHl _ H); auto.
Qed.

Lemma Forall_set_nth {A} (P : A -> Prop) (l : list A) i a :
  Forall P l -> P a -> Forall P (set_nth l i a).
Proof.
  intros Hl Ha. apply Forall_forall. intros x Hx.
  destruct (In_set_nth _ _ _ _ Hx) as [->|Hin]; auto.
  rewrite Forall_forall in Hl; auto.
Qed.

(** Elements other than the replaced one are still there. *)
Lemma In_set_nth_other {A} (l : list A) i a x j :
  nth_error l j = Some x -> i <> j -> In x (set_nth l i a).
Proof.
  intros H Hij. apply nth_error_In with j. rewrite nth_error_set_nth_neq; auto.
Qed.

Section Facts.

Variables L chan var lock wgid val : Type.
Variable chan_eqb : chan -> chan -> bool.
Variable var_eqb : var -> var -> bool.
Variable lock_eqb : lock -> lock -> bool.
Variable wg_eqb : wgid -> wgid -> bool.
Variable code : L -> act L chan var lock wgid val.

Notation state := (state L chan var lock wgid val).
Notation step := (step chan_eqb var_eqb lock_eqb wg_eqb code).
Notation run := (run chan_eqb var_eqb lock_eqb wg_eqb code).
Notation reachable := (reachable chan_eqb var_eqb lock_eqb wg_eqb code).

(** ** Runs *)

Lemma run_app (s : state) tr1 tr2 :
  run s (tr1 ++ tr2) = match run s tr1 with Some s' => run s' tr2 | None => None end.
Proof.
  revert s; induction tr1; intro s; simpl; auto.
  destruct (step s a); auto.
Qed.

Lemma reachable_refl (s : state) : reachable s s.
Proof. exists []; reflexivity. Qed.

Lemma reachable_step (s0 s s' : state) e :
  reachable s0 s -> step s e = Some s' -> reachable s0 s'.
Proof.
  intros [tr H] Hs. exists (tr ++ [e]). rewrite run_app, H. simpl. rewrite Hs. reflexivity.
Qed.

Lemma reachable_trans (s0 s1 s2 : state) :
  reachable s0 s1 -> reachable s1 s2 -> reachable s0 s2.
Proof.
  intros [t1 H1] [t2 H2]. exists (t1 ++ t2). rewrite run_app, H1. exact H2.
Qed.

(** The invariant rule. *)
Theorem invariant_rule (I : state -> Prop) (s0 : state) :
  I s0 ->
  (forall s e s', I s -> step s e = Some s' -> I s') ->
  forall s, reachable s0 s -> I s.
Proof.
  intros H0 Hstep s [tr Hr]. revert s0 H0 Hr.
  induction tr; intros s0 H0 Hr; simpl in Hr.
  - inversion Hr; subst; auto.
  - destruct (step s0 a) eqn:E; try discriminate.
    eapply IHtr; [|exact Hr]. eapply Hstep; eauto.
Qed.

(** Invariant rule relative to an already established invariant. *)
Theorem invariant_rule2 (J I : state -> Prop) (s0 : state) :
  (forall s, reachable s0 s -> J s) ->
  I s0 ->
  (forall s e s', J s -> J s' -> I s -> step s e = Some s' -> I s') ->
  forall s, reachable s0 s -> I s.
Proof.
  intros HJ H0 Hstep.
  assert (forall s, reachable s0 s -> reachable s0 s /\ I s) as H.
  { apply invariant_rule.
    - split; auto. apply reachable_refl.
    - intros s e s' [Hr Hi] Hs. split.
      + eapply reachable_step; eauto.
      + eapply Hstep; eauto. apply HJ. eapply reachable_step; eauto. }
  intros s Hs. apply H; auto.
Qed.

(** ** Stuck states by computation *)

Lemma step_int_n_irrelevant (s : state) i n l :
  (forall rs d, code l <> ASelect rs d) ->
  step_int chan_eqb var_eqb lock_eqb wg_eqb code s i n l =
  step_int chan_eqb var_eqb lock_eqb wg_eqb code s i 0 l.
Proof.
  intro H. unfold step_int. destruct (code l); auto. exfalso; eapply H; eauto.
Qed.

Lemma in_candidates_int (s : state) w i n :
  i < length (procs s) -> n <= w -> In (EInt i n) (candidates w s).
Proof.
  intros Hi Hn. unfold candidates. apply in_or_app. left.
  apply in_flat_map. exists i. split.
  - apply in_seq. lia.
  - apply in_map. apply in_seq. lia.
Qed.

Lemma in_candidates_sync (s : state) w i ni j nj :
  i < length (procs s) -> j < length (procs s) -> ni <= w -> nj <= w ->
  In (ESync i ni j nj) (candidates w s).
Proof.
  intros Hi Hj Hni Hnj. unfold candidates. apply in_or_app. right.
  apply in_flat_map. exists i. split; [apply in_seq; lia|].
  apply in_flat_map. exists ni. split; [apply in_seq; lia|].
  apply in_flat_map. exists j. split; [apply in_seq; lia|].
  apply in_map. apply in_seq. lia.
Qed.

Lemma width_ok_nth (s : state) w i l :
  width_ok code w s = true -> nth_error (procs s) i = Some l ->
  select_width code l <= w.
Proof.
  unfold width_ok. intros H Hn. rewrite forallb_forall in H.
  apply Nat.leb_le. apply H. eapply nth_error_In; eauto.
Qed.

(** The case number only matters for selects, and then it is below the width. *)
Lemma send_offer_norm l n r w :
  select_width code l <= w ->
  send_offer code l n = Some r ->
  exists n', n' <= w /\ send_offer code l n' = Some r.
Proof.
  unfold send_offer, select_width. destruct (code l) eqn:E; try discriminate.
  - intros _ H. exists 0. split; [lia|exact H].
  - intros Hw H. destruct (nth_error rs n) eqn:En; try discriminate.
    exists n. split.
    + assert (n < length rs) by (apply nth_error_Some; congruence). lia.
    + rewrite En. exact H.
Qed.

Lemma recv_offer_norm l c n r w :
  select_width code l <= w ->
  recv_offer chan_eqb code l c n = Some r ->
  exists n', n' <= w /\ recv_offer chan_eqb code l c n' = Some r.
Proof.
  unfold recv_offer, select_width. destruct (code l) eqn:E; try discriminate.
  - intros _ H. exists 0. split; [lia|exact H].
  - intros Hw H. destruct (nth_error rs n) eqn:En; try discriminate.
    exists n. split.
    + assert (n < length rs) by (apply nth_error_Some; congruence). lia.
    + rewrite En. exact H.
Qed.

(** If some event is enabled, some candidate event is enabled. *)
Lemma candidates_complete (s : state) w e s' :
  width_ok code w s = true ->
  step s e = Some s' ->
  exists e' s'', In e' (candidates w s) /\ step s e' = Some s''.
Proof.
  intros Hw Hs. unfold Machine.step in Hs.
  destruct (outcome s) eqn:Eo; try discriminate.
  destruct e as [i n | i ni j nj].
  - destruct (nth_error (procs s) i) as [l|] eqn:El; try discriminate.
    assert (Hi : i < length (procs s)) by (apply nth_error_Some; congruence).
    pose proof (width_ok_nth _ _ _ _ Hw El) as Hwl.
    destruct (code l) eqn:Ec;
      try (exists (EInt i 0), s'; split; [apply in_candidates_int; lia|];
           unfold Machine.step; rewrite Eo, El;
           rewrite <- (step_int_n_irrelevant s i n l) by (intros; congruence); exact Hs).
    (* select *)
    unfold select_width in Hwl. rewrite Ec in Hwl.
    destruct (Nat.lt_ge_cases n (length rs)) as [Hlt|Hge].
    + exists (EInt i n), s'. split; [apply in_candidates_int; lia|].
      unfold Machine.step. rewrite Eo, El. exact Hs.
    + exists (EInt i w), s'. split; [apply in_candidates_int; lia|].
      unfold Machine.step. rewrite Eo, El.
      unfold step_int in *. rewrite Ec in *.
      assert (En : nth_error rs n = None) by (apply nth_error_None; lia).
      assert (Ew : nth_error rs w = None) by (apply nth_error_None; lia).
      rewrite En in Hs. rewrite Ew. exact Hs.
  - destruct (nth_error (procs s) i) as [li|] eqn:Ei; try discriminate.
    destruct (nth_error (procs s) j) as [lj|] eqn:Ej; try discriminate.
    assert (Hi : i < length (procs s)) by (apply nth_error_Some; congruence).
    assert (Hj : j < length (procs s)) by (apply nth_error_Some; congruence).
    pose proof (width_ok_nth _ _ _ _ Hw Ei) as Hwi.
    pose proof (width_ok_nth _ _ _ _ Hw Ej) as Hwj.
    unfold step_sync in Hs.
    destruct (Nat.eqb i j) eqn:Eij; try discriminate.
    destruct (send_offer code li ni) as [[[c v] k]|] eqn:Eso; try discriminate.
    destruct (c_closed (chans s c)) eqn:Ecl; try discriminate.
    destruct (c_cap (chans s c)) eqn:Ecap; try discriminate.
    destruct (c_buf (chans s c)) eqn:Ebuf; try discriminate.
    destruct (recv_offer chan_eqb code lj c nj) as [kr|] eqn:Eoff; try discriminate.
    destruct (send_offer_norm _ _ _ _ Hwi Eso) as (ni' & Hni & Eso').
    destruct (recv_offer_norm _ _ _ _ _ Hwj Eoff) as (nj' & Hnj & Eoff').
    exists (ESync i ni' j nj'), s'. split; [apply in_candidates_sync; lia|].
    unfold Machine.step. rewrite Eo, Ei, Ej. unfold step_sync.
    rewrite Eij, Eso', Ecl, Ecap, Ebuf, Eoff'. exact Hs.
Qed.

Theorem is_stuck_b_sound (s : state) w :
  width_ok code w s = true ->
  is_stuck_b chan_eqb var_eqb lock_eqb wg_eqb code w s = true ->
  stuck chan_eqb var_eqb lock_eqb wg_eqb code s.
Proof.
  intros Hw Hb e. destruct (step s e) as [s'|] eqn:E; auto.
  destruct (candidates_complete _ _ _ _ Hw E) as (e' & s'' & Hin & Hs).
  unfold is_stuck_b in Hb. rewrite forallb_forall in Hb.
  specialize (Hb _ Hin). rewrite Hs in Hb. discriminate.
Qed.

Theorem is_deadlock_b_sound (s : state) w :
  is_deadlock_b chan_eqb var_eqb lock_eqb wg_eqb code w s = true ->
  deadlock chan_eqb var_eqb lock_eqb wg_eqb code s.
Proof.
  unfold is_deadlock_b, deadlock. destruct (outcome s); try discriminate.
  intro H. apply andb_true_iff in H as [H Hst]. apply andb_true_iff in H as [Hd Hw].
  repeat split; auto.
  - destruct (all_done code s); auto; discriminate.
  - eapply is_stuck_b_sound; eauto.
Qed.


(** ** A relational reading of [step], one case per behaviour *)

Inductive recv_spec (s : state) (i : nat) (c : chan) (k : option val -> L) : state -> Prop :=
| rs_val v r :
    c_buf (chans s c) = v :: r ->
    recv_spec s i c k
      (set_proc (set_chan chan_eqb s c (mkCst (c_cap (chans s c)) r (c_closed (chans s c)))) i (k (Some v)))
| rs_closed :
    c_buf (chans s c) = [] -> c_closed (chans s c) = true ->
    recv_spec s i c k (set_proc s i (k None)).

Inductive send_spec (s : state) (i : nat) (c : chan) (v : val) (k : L) : state -> Prop :=
| ss_panic : c_closed (chans s c) = true -> send_spec s i c v k (set_panic s PanicSendClosed)
| ss_ok :
    c_closed (chans s c) = false -> has_room (chans s c) = true ->
    send_spec s i c v k (set_proc (push chan_eqb s c v) i k).

Lemma recv_step_spec s i c k s' :
  recv_step chan_eqb s i c k = Some s' -> recv_spec s i c k s'.
Proof.
  unfold recv_step. destruct (c_buf (chans s c)) eqn:Eb.
  - destruct (c_closed (chans s c)) eqn:Ec; try discriminate.
    intro H; inversion H; subst. apply rs_closed; auto.
  - intro H; inversion H; subst. eapply rs_val; eauto.
Qed.

Lemma send_step_spec s i c v k s' :
  send_step chan_eqb s i c v k = Some s' -> send_spec s i c v k s'.
Proof.
  unfold send_step. destruct (c_closed (chans s c)) eqn:Ec.
  - intro H; inversion H; subst. apply ss_panic; auto.
  - destruct (has_room (chans s c)) eqn:Er; try discriminate.
    intro H; inversion H; subst. apply ss_ok; auto.
Qed.

Inductive int_spec (s : state) (i n : nat) (l : L) : state -> Prop :=
| is_send c v k s' : code l = ASend c v k -> send_spec s i c v k s' -> int_spec s i n l s'
| is_recv c k s' : code l = ARecv c k -> recv_spec s i c k s' -> int_spec s i n l s'
| is_try_panic c v k1 k2 :
    code l = ATrySend c v k1 k2 -> c_closed (chans s c) = true ->
    int_spec s i n l (set_panic s PanicSendClosed)
| is_try_ok c v k1 k2 :
    code l = ATrySend c v k1 k2 -> c_closed (chans s c) = false -> has_room (chans s c) = true ->
    int_spec s i n l (set_proc (push chan_eqb s c v) i k1)
| is_try_full c v k1 k2 :
    code l = ATrySend c v k1 k2 -> c_closed (chans s c) = false -> has_room (chans s c) = false ->
    int_spec s i n l (set_proc s i k2)
| is_tryall_panic cs v k :
    code l = ATrySendAll cs v k -> try_all chan_eqb s cs v = None ->
    int_spec s i n l (set_panic s PanicSendClosed)
| is_tryall_ok cs v k s0 :
    code l = ATrySendAll cs v k -> try_all chan_eqb s cs v = Some s0 ->
    int_spec s i n l (set_proc s0 i k)
| is_close_panic c k :
    code l = AClose c k -> c_closed (chans s c) = true ->
    int_spec s i n l (set_panic s PanicCloseClosed)
| is_close c k :
    code l = AClose c k -> c_closed (chans s c) = false ->
    int_spec s i n l
      (set_proc (set_chan chan_eqb s c (mkCst (c_cap (chans s c)) (c_buf (chans s c)) true)) i k)
| is_closeonce cs k :
    code l = ACloseOnce cs k -> int_spec s i n l (set_proc (close_all chan_eqb s cs) i k)
| is_sel_recv rs d c k s' :
    code l = ASelect rs d -> nth_error rs n = Some (SRecv c k) -> recv_spec s i c k s' ->
    int_spec s i n l s'
| is_sel_send rs d c v k s' :
    code l = ASelect rs d -> nth_error rs n = Some (SSend c v k) -> send_spec s i c v k s' ->
    int_spec s i n l s'
| is_sel_default rs k :
    code l = ASelect rs (Some k) -> nth_error rs n = None -> int_spec s i n l (set_proc s i k)
| is_lock m k :
    code l = ALock m k -> locks s m = false ->
    int_spec s i n l (set_proc (set_lock lock_eqb s m true) i k)
| is_unlock m k :
    code l = AUnlock m k -> int_spec s i n l (set_proc (set_lock lock_eqb s m false) i k)
| is_wgadd w k :
    code l = AWgAdd w k -> int_spec s i n l (set_proc (set_wg wg_eqb s w (S (wgs s w))) i k)
| is_wgdone_panic w k :
    code l = AWgDone w k -> wgs s w = 0 -> int_spec s i n l (set_panic s PanicWgNegative)
| is_wgdone w k m :
    code l = AWgDone w k -> wgs s w = S m -> int_spec s i n l (set_proc (set_wg wg_eqb s w m) i k)
| is_wgwait w k :
    code l = AWgWait w k -> wgs s w = 0 -> int_spec s i n l (set_proc s i k)
| is_spawn child k :
    code l = ASpawn child k -> int_spec s i n l (add_proc (set_proc s i k) child)
| is_read x k :
    code l = ARead x k -> int_spec s i n l (set_proc s i (k (vars s x)))
| is_write x v k :
    code l = AWrite x v k -> int_spec s i n l (set_proc (set_var var_eqb s x v) i k)
| is_tau k :
    code l = ATau k -> int_spec s i n l (set_proc s i k).

Lemma step_int_spec s i n l s' :
  step_int chan_eqb var_eqb lock_eqb wg_eqb code s i n l = Some s' -> int_spec s i n l s'.
Proof.
  unfold step_int. destruct (code l) eqn:Ec; intro H.
  - eapply is_send; eauto. apply send_step_spec; auto.
  - eapply is_recv; eauto. apply recv_step_spec; auto.
  - destruct (c_closed (chans s c)) eqn:E1.
    + inversion H; subst. eapply is_try_panic; eauto.
    + destruct (has_room (chans s c)) eqn:E2; inversion H; subst.
      * eapply is_try_ok; eauto.
      * eapply is_try_full; eauto.
  - destruct (try_all chan_eqb s cs v) eqn:E; inversion H; subst.
    + eapply is_tryall_ok; eauto.
    + eapply is_tryall_panic; eauto.
  - destruct (c_closed (chans s c)) eqn:E1; inversion H; subst.
    + eapply is_close_panic; eauto.
    + eapply is_close; eauto.
  - inversion H; subst. eapply is_closeonce; eauto.
  - destruct (nth_error rs n) as [[c k|c v k]|] eqn:En.
    + eapply is_sel_recv; eauto. apply recv_step_spec; auto.
    + eapply is_sel_send; eauto. apply send_step_spec; auto.
    + destruct dflt; inversion H; subst. eapply is_sel_default; eauto.
  - destruct (locks s m) eqn:E; inversion H; subst. eapply is_lock; eauto.
  - inversion H; subst. eapply is_unlock; eauto.
  - inversion H; subst. eapply is_wgadd; eauto.
  - destruct (wgs s w) eqn:E; inversion H; subst.
    + eapply is_wgdone_panic; eauto.
    + eapply is_wgdone; eauto.
  - destruct (wgs s w) eqn:E; inversion H; subst. eapply is_wgwait; eauto.
  - inversion H; subst. eapply is_spawn; eauto.
  - inversion H; subst. eapply is_read; eauto.
  - inversion H; subst. eapply is_write; eauto.
  - inversion H; subst. eapply is_tau; eauto.
  - discriminate.
Qed.

(** A rendezvous: sender [i] (case [ni]) and receiver [j] (case [nj]) meet on
    the unbuffered, open, empty channel [c]. *)
Inductive sync_spec (s : state) (i ni j nj : nat) (li lj : L) : state -> Prop :=
| sy c v k kr :
    i <> j ->
    send_offer code li ni = Some (c, v, k) ->
    recv_offer chan_eqb code lj c nj = Some kr ->
    c_closed (chans s c) = false -> c_cap (chans s c) = 0 -> c_buf (chans s c) = [] ->
    sync_spec s i ni j nj li lj (set_proc (set_proc s i k) j (kr (Some v))).

Lemma step_sync_spec s i ni j nj li lj s' :
  step_sync chan_eqb code s i ni j nj li lj = Some s' -> sync_spec s i ni j nj li lj s'.
Proof.
  unfold step_sync. destruct (Nat.eqb i j) eqn:Eij; try discriminate.
  destruct (send_offer code li ni) as [[[c v] k]|] eqn:Es; try discriminate.
  destruct (c_closed (chans s c)) eqn:Ec; try discriminate.
  destruct (c_cap (chans s c)) eqn:Ecap; try discriminate.
  destruct (c_buf (chans s c)) eqn:Eb; try discriminate.
  destruct (recv_offer chan_eqb code lj c nj) eqn:Er; try discriminate.
  intro H; inversion H; subst. eapply sy; eauto. apply Nat.eqb_neq; auto.
Qed.

Inductive step_spec (s : state) : ev -> state -> Prop :=
| sp_int i n l s' :
    outcome s = None -> nth_error (procs s) i = Some l -> int_spec s i n l s' ->
    step_spec s (EInt i n) s'
| sp_sync i ni j nj li lj s' :
    outcome s = None -> nth_error (procs s) i = Some li -> nth_error (procs s) j = Some lj ->
    sync_spec s i ni j nj li lj s' -> step_spec s (ESync i ni j nj) s'.

Theorem step_to_spec s e s' : step s e = Some s' -> step_spec s e s'.
Proof.
  unfold Machine.step. destruct (outcome s) eqn:Eo; try discriminate.
  destruct e as [i n|i ni j nj].
  - destruct (nth_error (procs s) i) eqn:En; try discriminate.
    intro H. eapply sp_int; eauto. apply step_int_spec; auto.
  - destruct (nth_error (procs s) i) eqn:Ei; try discriminate.
    destruct (nth_error (procs s) j) eqn:Ej; try discriminate.
    intro H. eapply sp_sync; eauto. apply step_sync_spec; auto.
Qed.


(** ** Where closed channels come from *)

Section Closed.

Hypothesis chan_eqb_spec : forall a b, chan_eqb a b = true <-> a = b.

Lemma chan_eqb_refl a : chan_eqb a a = true.
Proof. apply chan_eqb_spec; reflexivity. Qed.

Lemma upd_chan_same {B} (f : chan -> B) c x : upd chan_eqb f c x c = x.
Proof. unfold upd. rewrite chan_eqb_refl. reflexivity. Qed.

Lemma upd_chan_other {B} (f : chan -> B) c x c' : c' <> c -> upd chan_eqb f c x c' = f c'.
Proof.
  intro H. unfold upd. destruct (chan_eqb c' c) eqn:E; auto.
  apply chan_eqb_spec in E. contradiction.
Qed.

Definition closes_of (a : act L chan var lock wgid val) : list chan :=
  match a with
  | AClose c _ => [c]
  | ACloseOnce cs _ => cs
  | _ => []
  end.

Lemma push_closed (s : state) c v c' :
  c_closed (chans (push chan_eqb s c v) c') = c_closed (chans s c').
Proof.
  unfold push, set_chan. simpl. unfold upd.
  destruct (chan_eqb c' c) eqn:E; auto. apply chan_eqb_spec in E. subst. reflexivity.
Qed.

Lemma push_procs (s : state) c v : procs (push chan_eqb s c v) = procs s.
Proof. reflexivity. Qed.

Lemma try_all_closed cs : forall (s : state) v s0 c',
  try_all chan_eqb s cs v = Some s0 -> c_closed (chans s0 c') = c_closed (chans s c').
Proof.
  induction cs as [|c cs IH]; intros s v s0 c' H; simpl in H.
  - inversion H; subst; reflexivity.
  - destruct (c_closed (chans s c)); try discriminate.
    destruct (has_room (chans s c)).
    + rewrite (IH _ _ _ _ H). apply push_closed.
    + apply (IH _ _ _ _ H).
Qed.

Lemma try_all_procs cs : forall (s : state) v s0,
  try_all chan_eqb s cs v = Some s0 -> procs s0 = procs s.
Proof.
  induction cs as [|c cs IH]; intros s v s0 H; simpl in H.
  - inversion H; subst; reflexivity.
  - destruct (c_closed (chans s c)); try discriminate.
    destruct (has_room (chans s c)).
    + rewrite (IH _ _ _ H). reflexivity.
    + apply (IH _ _ _ H).
Qed.

Lemma try_all_none cs : forall (s : state) v,
  try_all chan_eqb s cs v = None -> exists c, In c cs /\ c_closed (chans s c) = true.
Proof.
  induction cs as [|c cs IH]; intros s v H; simpl in H; try discriminate.
  destruct (c_closed (chans s c)) eqn:E.
  - exists c. split; [left; auto|auto].
  - destruct (has_room (chans s c)).
    + destruct (IH _ _ H) as (c0 & Hin & Hc). exists c0. split; [right; auto|].
      rewrite push_closed in Hc. exact Hc.
    + destruct (IH _ _ H) as (c0 & Hin & Hc). exists c0. split; [right; auto|auto].
Qed.

Lemma close_all_closed cs : forall (s : state) c',
  c_closed (chans (close_all chan_eqb s cs) c') = true ->
  c_closed (chans s c') = true \/ In c' cs.
Proof.
  induction cs as [|c cs IH]; intros s c' H; simpl in H; auto.
  destruct (IH _ _ H) as [H1|H1]; [|right; right; auto].
  simpl in H1. unfold upd in H1. destruct (chan_eqb c' c) eqn:E; auto.
  apply chan_eqb_spec in E. subst. right. left. reflexivity.
Qed.

Lemma close_all_keeps cs : forall (s : state) c',
  c_closed (chans s c') = true -> c_closed (chans (close_all chan_eqb s cs) c') = true.
Proof.
  induction cs as [|c cs IH]; intros s c' H; simpl; auto.
  apply IH. simpl. unfold upd. destruct (chan_eqb c' c) eqn:E; auto.
Qed.

Lemma close_all_closes cs : forall (s : state) c', In c' cs ->
  c_closed (chans (close_all chan_eqb s cs) c') = true.
Proof.
  induction cs as [|c cs IH]; intros s c' Hin; [destruct Hin|].
  simpl. destruct Hin as [->|Hin].
  - apply close_all_keeps. simpl. rewrite upd_chan_same. reflexivity.
  - apply IH; auto.
Qed.

Lemma close_all_procs cs : forall (s : state), procs (close_all chan_eqb s cs) = procs s.
Proof. induction cs; intro s; simpl; auto. rewrite IHcs. reflexivity. Qed.

Lemma recv_spec_closed (s : state) i c k s' c' :
  recv_spec s i c k s' -> c_closed (chans s' c') = c_closed (chans s c').
Proof.
  intro H. inversion H; subst; simpl; auto.
  unfold upd. destruct (chan_eqb c' c) eqn:E; auto. apply chan_eqb_spec in E. subst. reflexivity.
Qed.

Lemma send_spec_closed (s : state) i c v k s' c' :
  send_spec s i c v k s' -> c_closed (chans s' c') = c_closed (chans s c').
Proof.
  intro H. inversion H; subst; simpl; auto.
  fold (push chan_eqb s c v). apply push_closed.
Qed.

(** A channel is closed after a step only if it was closed before or the
    moving process executed a close of it. *)
Theorem step_closed_origin (s : state) e s' c :
  step_spec s e s' ->
  c_closed (chans s' c) = true ->
  c_closed (chans s c) = true \/ exists l, In l (procs s) /\ In c (closes_of (code l)).
Proof.
  intros Hs Hc. inversion Hs; subst; clear Hs.
  - assert (Hl : In l (procs s)) by (eapply nth_error_In; eauto).
    inversion H1; subst; clear H1;
      unfold set_proc, set_panic, set_lock, set_wg, set_var, add_proc in Hc; cbn [chans] in Hc; auto;
      try (erewrite send_spec_closed in Hc by eauto; auto; fail);
      try (erewrite recv_spec_closed in Hc by eauto; auto; fail);
      try (rewrite push_closed in Hc; auto; fail).
    + erewrite try_all_closed in Hc by eauto. auto.
    + unfold set_chan in Hc. cbn [chans] in Hc. unfold upd in Hc.
      destruct (chan_eqb c c0) eqn:E; auto.
      apply chan_eqb_spec in E. subst. right. exists l. split; auto. rewrite H2. left; auto.
    + destruct (close_all_closed _ _ _ Hc) as [?|Hin]; auto.
      right. exists l. split; auto. rewrite H2. exact Hin.
  - inversion H2; subst. unfold set_proc in Hc. cbn [chans] in Hc. auto.
Qed.

(** Hence a channel that no local state ever closes stays open. *)
Corollary never_closed_invariant (s0 : state) c :
  (forall l, ~ In c (closes_of (code l))) ->
  c_closed (chans s0 c) = false ->
  forall s, reachable s0 s -> c_closed (chans s c) = false.
Proof.
  intros Hno H0. apply invariant_rule; auto.
  intros s e s' Hi Hs. apply step_to_spec in Hs.
  destruct (c_closed (chans s' c)) eqn:E; auto.
  destruct (step_closed_origin _ _ _ _ Hs E) as [H|(l & _ & Hin)]; [congruence|].
  exfalso. eapply Hno; eauto.
Qed.

End Closed.

(** ** How one step changes the list of processes *)

(** [cont a k]: [k] is a possible continuation of action [a]. *)
Inductive cont : act L chan var lock wgid val -> L -> Prop :=
| ct_send c v k : cont (ASend c v k) k
| ct_recv c k v : cont (ARecv c k) (k v)
| ct_try1 c v k1 k2 : cont (ATrySend c v k1 k2) k1
| ct_try2 c v k1 k2 : cont (ATrySend c v k1 k2) k2
| ct_tryall cs v k : cont (ATrySendAll cs v k) k
| ct_close c k : cont (AClose c k) k
| ct_closeonce cs k : cont (ACloseOnce cs k) k
| ct_sel_recv rs d c k v : In (SRecv c k) rs -> cont (ASelect rs d) (k v)
| ct_sel_send rs d c v k : In (SSend c v k) rs -> cont (ASelect rs d) k
| ct_sel_default rs k : cont (ASelect rs (Some k)) k
| ct_lock m k : cont (ALock m k) k
| ct_unlock m k : cont (AUnlock m k) k
| ct_wgadd w k : cont (AWgAdd w k) k
| ct_wgdone w k : cont (AWgDone w k) k
| ct_wgwait w k : cont (AWgWait w k) k
| ct_spawn ch k : cont (ASpawn ch k) k
| ct_read x k v : cont (ARead x k) (k v)
| ct_write x v k : cont (AWrite x v k) k
| ct_tau k : cont (ATau k) k.

(** The processes after a non-panicking step. *)
Theorem step_procs (s : state) e s' :
  step_spec s e s' -> outcome s' = None ->
  (exists i l k, nth_error (procs s) i = Some l /\ cont (code l) k /\
      (procs s' = set_nth (procs s) i k \/
       exists ch, code l = ASpawn ch k /\ procs s' = set_nth (procs s) i k ++ [ch]))
  \/
  (exists i j li lj ki kj, i <> j /\
      nth_error (procs s) i = Some li /\ nth_error (procs s) j = Some lj /\
      cont (code li) ki /\ cont (code lj) kj /\
      procs s' = set_nth (set_nth (procs s) i ki) j kj).
Proof.
  intros Hs Ho. inversion Hs; subst; clear Hs.
  - left. exists i, l.
    match goal with H : int_spec _ _ _ _ _ |- _ => inversion H; subst; clear H end;
    repeat match goal with
    | H : send_spec _ _ _ _ _ _ |- _ => inversion H; subst; clear H
    | H : recv_spec _ _ _ _ _ |- _ => inversion H; subst; clear H
    end;
    try (simpl in Ho; discriminate);
    match goal with Hc : code l = _ |- _ => rewrite Hc end;
    (eexists; split; [eassumption|]; split;
       [first [econstructor; eauto using nth_error_In; fail | eapply ct_sel_recv; eauto using nth_error_In | eapply ct_sel_send; eauto using nth_error_In]|]);
    first [ left; simpl; rewrite ?close_all_procs; try reflexivity;
            match goal with Ht : try_all _ _ _ _ = Some _ |- _ => rewrite (try_all_procs _ _ _ _ Ht); reflexivity end
          | right; eexists; split; reflexivity ].
  - right.
    match goal with H : sync_spec _ _ _ _ _ _ _ _ |- _ => inversion H; subst; clear H end.
    lazymatch goal with
    | Hso : send_offer _ _ _ = Some (?c, ?v, ?k), Hro : recv_offer _ _ _ _ _ = Some ?kr |- _ =>
        exists i, j, li, lj, k, (kr (Some v)); repeat split; auto;
        [ unfold send_offer in Hso; destruct (code li) eqn:E; try discriminate;
          [ inversion Hso; subst; constructor
          | destruct (nth_error rs ni) as [[|]|] eqn:En; try discriminate;
            inversion Hso; subst; eapply ct_sel_send; eapply nth_error_In; eauto ]
        | unfold recv_offer in Hro; destruct (code lj) eqn:E; try discriminate;
          [ match type of Hro with (if ?b then _ else _) = _ => destruct b end; try discriminate;
            inversion Hro; subst; constructor
          | destruct (nth_error rs nj) as [[|]|] eqn:En; try discriminate;
            match type of Hro with (if ?b then _ else _) = _ => destruct b end; try discriminate;
            inversion Hro; subst; eapply ct_sel_recv; eapply nth_error_In; eauto ] ]
    end.
Qed.

(** ** The first message always fits

    A blocking send on a channel that is open, empty and has capacity at least
    one does not block (the handshake sends ABORT / WELCOME: nothing else has
    been queued for that peer). *)
Theorem first_message_fits (s : state) i l c v k :
  outcome s = None ->
  nth_error (procs s) i = Some l ->
  code l = ASend c v k ->
  c_closed (chans s c) = false ->
  c_buf (chans s c) = [] ->
  1 <= c_cap (chans s c) ->
  exists s', step s (EInt i 0) = Some s' /\ outcome s' = None.
Proof.
  intros Ho Hn Hc Hcl Hb Hcap. unfold Machine.step. rewrite Ho, Hn.
  unfold step_int. rewrite Hc. unfold send_step. rewrite Hcl.
  unfold has_room. rewrite Hb. simpl.
  destruct (c_cap (chans s c)) eqn:E; [lia|]. simpl.
  eexists. split; [reflexivity|]. simpl. exact Ho.
Qed.

End Facts.
