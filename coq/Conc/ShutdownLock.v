From Coq Require Import List Bool Arith NArith Lia.
From Nexus Require Import Conc.Machine Conc.MachineFacts Conc.Shutdown Conc.ShutdownProofs.
Import ListNotations.

(** * Conc/ShutdownLock — the close lock is held by at most one goroutine, in every
    reachable state of the repaired model, for any number of sessions. *)

Section Lock.
Variable scr : nat -> list msg * bool.
Variable K : nat.
Notation code := (code all_fixed scr K).
Notation cont := (cont L ch vr lk wgn msg).

(** [holds l]: the goroutine in local state [l] holds [closeLock]. *)
Definition holds (l : L) : bool :=
  match l with
  | AtCheck _ | AtRefUnlock _ | AtWgAdd _ | AtJoin _ | AtJoinWait _ | AtPubJoin _ | AtUnlock _ => true
  | RunAt n _ _ => Nat.leb 1 n && Nat.leb n 18
  | RunClosePeer _ _ _ _ => true
  | _ => false
  end.

Definition is_lock (a : act) : bool := match a with ALock LClose _ => true | _ => false end.
Definition is_unlock (a : act) : bool := match a with AUnlock LClose _ => true | _ => false end.

Ltac inv_cont H :=
  inversion H; subst; clear H.

Lemma sop_cont_holds o n js k l' :
  nth_error (realm_close_seq all_fixed) n = Some o ->
  cont (sop_act all_fixed o n js k) l' ->
  if is_lock (sop_act all_fixed o n js k) then holds (RunAt n js k) = false /\ holds l' = true
  else if is_unlock (sop_act all_fixed o n js k) then holds (RunAt n js k) = true /\ holds l' = false
  else holds l' = holds (RunAt n js k).
Proof.
  intros Hn Hc. rewrite seq_fixed in Hn.
  do 19 (destruct n as [|n]; [simpl in Hn; inversion Hn; subst; simpl in *;
     try (destruct js; simpl in * ); inv_cont Hc; simpl; auto;
     try (match goal with |- context[N.eqb ?v ?w] => destruct (N.eqb v w) end; simpl; auto)|]).
  simpl in Hn. destruct n; discriminate.
Qed.

Ltac break_goal_hyp H :=
  repeat match type of H with
  | context[match ?x with _ => _ end] => destruct x; simpl in H
  | context[if ?x then _ else _] => destruct x; simpl in H
  end.

Definition holds_spec (l l' : L) : Prop :=
  if is_lock (code l) then holds l = false /\ holds l' = true
  else if is_unlock (code l) then holds l = true /\ holds l' = false
  else holds l' = holds l.

(** The continuation of a run of realm.close is one of the two callers. *)
Definition wf (l : L) : Prop :=
  match l with
  | RunAt _ _ k => k = RtCloseReply \/ k = ClStart ByClose
  | RunClosePeer _ n _ k => (k = RtCloseReply \/ k = ClStart ByClose) /\ n = 15
  | _ => True
  end.

Lemma cont_holds_runat n js k l' :
  wf (RunAt n js k) -> cont (code (RunAt n js k)) l' -> holds_spec (RunAt n js k) l'.
Proof.
  intros Hw Hc. unfold holds_spec. simpl in Hc. simpl.
  destruct (nth_error (realm_close_seq all_fixed) n) eqn:En.
  - apply (sop_cont_holds s n js k l' En Hc).
  - inv_cont Hc. simpl.
    assert (19 <= n) by (apply nth_error_None in En; rewrite seq_fixed in En; simpl in En; lia).
    destruct (Nat.leb n 18) eqn:E; [apply Nat.leb_le in E; lia|].
    rewrite andb_false_r. destruct Hw as [->| ->]; reflexivity.
Qed.

Ltac split_in :=
  repeat match goal with
  | H : In _ (_ :: _) |- _ => destruct H as [H|H]; [inversion H; subst; clear H|]
  | H : In _ [] |- _ => destruct H
  end.

Ltac case_all :=
  repeat match goal with
  | |- context[match ?x with _ => _ end] => is_var x; destruct x; simpl in *
  | |- context[if ?x then _ else _] => is_var x; destruct x; simpl in *
  | H : cont (match ?x with _ => _ end) _ |- _ => is_var x; destruct x; simpl in *
  | H : cont (if ?x then _ else _) _ |- _ => is_var x; destruct x; simpl in *
  | |- context[negb ?x] => is_var x; destruct x; simpl in *
  | H : context[negb ?x] |- _ => is_var x; destruct x; simpl in *
  | |- context[?x || _] => is_var x; destruct x; simpl in *
  | H : context[?x || _] |- _ => is_var x; destruct x; simpl in *
  | |- context[?x && _] => is_var x; destruct x; simpl in *
  | H : context[?x && _] |- _ => is_var x; destruct x; simpl in *
  | H : context[mem ?a ?b] |- _ => destruct (mem a b); simpl in *
  | |- context[N.eqb ?v ?w] => destruct (N.eqb v w); simpl in *
  | |- context[mem ?a ?b] => destruct (mem a b); simpl in *
  end.

Ltac case_in H :=
  repeat match type of H with
  | context[match ?x with _ => _ end] => is_var x; destruct x; simpl in H
  | context[if ?x then _ else _] => is_var x; destruct x; simpl in H
  | context[negb ?x] => is_var x; destruct x; simpl in H
  | context[?x && _] => is_var x; destruct x; simpl in H
  | context[?x || _] => is_var x; destruct x; simpl in H
  | context[mem ?a ?b] => destruct (mem a b); simpl in H
  end.

Lemma cont_holds l l' : wf l -> cont (code l) l' -> holds_spec l l'.
Proof.
  intros Hw Hc.
  destruct l; try (apply cont_holds_runat; assumption); unfold holds_spec;
    try (destruct Hw as [_ ->]; inv_cont Hc; reflexivity).
  all: simpl in Hc;
    unfold handler_got, dealer_got, broker_got, router_got, hop_act, lop_act in Hc;
    simpl; unfold handler_got, dealer_got, broker_got, router_got, hop_act, lop_act.
  all: case_all.
  all: inv_cont Hc; split_in; simpl; auto.
  all: case_all; auto.
Qed.

Lemma cont_wf l l' : wf l -> cont (code l) l' -> wf l'.
Proof.
  intros Hw Hc.
  destruct l.
  all: simpl in Hc;
    unfold handler_got, dealer_got, broker_got, router_got, hop_act, lop_act in Hc.
  all: try (destruct (nth_error (realm_close_seq all_fixed) n) as [o|] eqn:En;
            [destruct o; simpl in Hc|]).
  all: case_all.
  all: inv_cont Hc; split_in; simpl; auto.
  all: case_all; simpl in *; auto.
  all: try (destruct Hw as [Hw ?]; auto).
  all: try (split; auto; rewrite seq_fixed in En;
            do 19 (destruct n as [|n]; [simpl in En; try discriminate; auto|]);
            simpl in En; destruct n; discriminate).
  all: try (destruct Hw as [-> | ->]; simpl; auto).
Qed.

(** ** The close lock: exactly the holders hold it *)

Fixpoint count (f : L -> bool) (l : list L) : nat :=
  match l with [] => 0 | x :: r => (if f x then 1 else 0) + count f r end.

Lemma count_app f a b : count f (a ++ b) = count f a + count f b.
Proof. induction a; simpl; auto. rewrite IHa. lia. Qed.

Lemma count_set_nth f l i old a :
  nth_error l i = Some old ->
  count f (set_nth l i a) + (if f old then 1 else 0) = count f l + (if f a then 1 else 0).
Proof.
  revert i. induction l as [|x l IH]; intros [|i] H; simpl in *; try discriminate.
  - inversion H; subst. lia.
  - specialize (IH _ H). lia.
Qed.

Notation sstate := (Machine.state L ch vr lk wgn msg).
Notation sstep := (Shutdown.sstep all_fixed scr K).
Notation step_spec := (MachineFacts.step_spec L ch vr lk wgn msg ch_eqb vr_eqb lk_eqb wgn_eqb code).
Notation int_spec := (MachineFacts.int_spec L ch vr lk wgn msg ch_eqb vr_eqb lk_eqb wgn_eqb code).
Notation send_spec := (MachineFacts.send_spec L ch vr lk wgn msg ch_eqb).
Notation recv_spec := (MachineFacts.recv_spec L ch vr lk wgn msg ch_eqb).
Notation sync_spec := (MachineFacts.sync_spec L ch vr lk wgn msg ch_eqb code).

Definition lock_inv (s : sstate) : Prop :=
  Forall wf (procs s) /\
  count holds (procs s) = (if locks s LClose then 1 else 0).

Lemma Forall_nth {A} (P : A -> Prop) l i x : Forall P l -> nth_error l i = Some x -> P x.
Proof. intros H Hn. rewrite Forall_forall in H. apply H. eapply nth_error_In; eauto. Qed.

Lemma wf_spawn l ch k : wf l -> code l = ASpawn ch k -> wf ch.
Proof.
  intros Hw Hc. destruct l; simpl in Hc;
    unfold handler_got, dealer_got, broker_got, router_got, hop_act, lop_act in Hc;
    try (destruct (nth_error (realm_close_seq all_fixed) n) as [o|]; [destruct o; simpl in Hc|]);
    case_in Hc; try discriminate; inversion Hc; subst; simpl; auto.
Qed.

Lemma holds_spawn l ch k : code l = ASpawn ch k -> holds ch = false.
Proof.
  intros Hc. destruct l; simpl in Hc;
    unfold handler_got, dealer_got, broker_got, router_got, hop_act, lop_act in Hc;
    try (destruct (nth_error (realm_close_seq all_fixed) n) as [o|]; [destruct o; simpl in Hc|]);
    case_in Hc; try discriminate; inversion Hc; subst; simpl; auto.
Qed.

Lemma lk_eqb_eq a b : lk_eqb a b = true <-> a = b.
Proof.
  destruct a, b; simpl; split; intro H; try discriminate; try reflexivity.
  - apply Nat.eqb_eq in H. subst. reflexivity.
  - inversion H. apply Nat.eqb_refl.
Qed.

Ltac inv_specs :=
  repeat match goal with
  | H : send_spec _ _ _ _ _ _ |- _ => inversion H; subst; clear H
  | H : recv_spec _ _ _ _ _ |- _ => inversion H; subst; clear H
  end.

Lemma try_all_locks cs : forall (s : sstate) v s0,
  try_all ch_eqb s cs v = Some s0 ->
  locks s0 = locks s /\ wgs s0 = wgs s /\ vars s0 = vars s /\ outcome s0 = outcome s.
Proof.
  induction cs as [|c cs IH]; intros s v s0 H; simpl in H.
  - inversion H; subst; auto.
  - destruct (c_closed (chans s c)); try discriminate.
    destruct (has_room (chans s c)); apply IH in H; simpl in H; auto.
Qed.

Lemma close_all_locks cs : forall (s : sstate),
  locks (close_all ch_eqb s cs) = locks s /\ wgs (close_all ch_eqb s cs) = wgs s /\
  vars (close_all ch_eqb s cs) = vars s /\ outcome (close_all ch_eqb s cs) = outcome s.
Proof. induction cs; intro s; simpl; auto. destruct (IHcs (set_chan ch_eqb s a (mkCst (c_cap (chans s a)) (c_buf (chans s a)) true))) as (A & B & C & D). simpl in *. auto. Qed.

(** The effect of one non-panicking internal step on processes and the close lock. *)
Lemma int_step_lock s i n l s' :
  int_spec s i n l s' -> outcome s' = None -> nth_error (procs s) i = Some l ->
  exists k, cont (code l) k /\
    (procs s' = set_nth (procs s) i k \/
     exists c, code l = ASpawn c k /\ procs s' = set_nth (procs s) i k ++ [c]) /\
    match code l with
    | ALock LClose _ => locks s LClose = false /\ locks s' LClose = true
    | AUnlock LClose _ => locks s' LClose = false
    | _ => locks s' LClose = locks s LClose
    end.
Proof.
  intros Hi Ho Hn.
  inversion Hi; subst; clear Hi; inv_specs; try (simpl in Ho; discriminate);
  match goal with Hc : code l = _ |- _ => rewrite Hc end;
  (eexists; split;
     [first [econstructor; eauto using nth_error_In; fail
            | eapply ct_sel_recv; eauto using nth_error_In
            | eapply ct_sel_send; eauto using nth_error_In]|]);
  (split;
     [first [ left; simpl; rewrite ?close_all_procs; try reflexivity;
              match goal with Ht : try_all _ _ _ _ = Some _ |- _ =>
                rewrite (try_all_procs _ _ _ _ _ _ _ _ _ _ _ Ht); reflexivity end
            | right; eexists; split; reflexivity ]|]).
  all: simpl; auto.
  - destruct (try_all_locks _ _ _ _ H0) as (A & _). rewrite A. reflexivity.
  - destruct (close_all_locks cs s) as (A & _). rewrite A. reflexivity.
  - destruct m; simpl; unfold upd; simpl; auto.
  - destruct m; simpl; unfold upd; simpl; auto.
Qed.

Lemma holds_spec_plain l k :
  holds_spec l k ->
  (forall k', code l <> ALock LClose k') -> (forall k', code l <> AUnlock LClose k') ->
  holds k = holds l.
Proof.
  unfold holds_spec. intros H H1 H2.
  destruct (code l) eqn:E; simpl in H; auto; destruct m; simpl in H; auto;
    exfalso; [eapply H1|eapply H2]; reflexivity.
Qed.

Lemma lock_inv_int s i n l s' :
  lock_inv s -> nth_error (procs s) i = Some l ->
  int_spec s i n l s' -> outcome s' = None -> lock_inv s'.
Proof.
  intros [Hwf Hc] Hn Hi Ho.
  assert (Hwl : wf l) by (eapply Forall_nth; eauto).
  destruct (int_step_lock s i n l s' Hi Ho Hn) as (k & Hk & Hp & Hl).
  pose proof (cont_holds l k Hwl Hk) as Hh.
  pose proof (cont_wf l k Hwl Hk) as Hwk.
  pose proof (count_set_nth holds (procs s) i l k Hn) as Hcnt.
  assert (Hwf' : Forall wf (procs s')).
  { destruct Hp as [-> | (c & Hsp & ->)].
    - apply Forall_set_nth; auto.
    - apply Forall_app; split;
        [apply Forall_set_nth; auto | constructor; [apply (wf_spawn l c k Hwl Hsp) | constructor]]. }
  split; auto.
  assert (Hcount : count holds (procs s') = count holds (set_nth (procs s) i k)).
  { destruct Hp as [-> | (c & Hsp & ->)]; auto.
    rewrite count_app. simpl. rewrite (holds_spawn l c k Hsp). lia. }
  rewrite Hcount. unfold holds_spec in Hh.
  destruct (code l) eqn:E; simpl in Hh, Hl;
    try (rewrite Hl; rewrite Hh in Hcnt; destruct (holds l); lia).
  - destruct m; simpl in Hh.
    + destruct Hl as [Hl1 Hl2]. destruct Hh as [Hh1 Hh2]. rewrite Hl2. rewrite Hl1 in Hc.
      rewrite Hh1, Hh2 in Hcnt. lia.
    + rewrite Hl. rewrite Hh in Hcnt. destruct (holds l); lia.
  - destruct m; simpl in Hh.
    + destruct Hh as [Hh1 Hh2]. rewrite Hl. rewrite Hh1, Hh2 in Hcnt.
      destruct (locks s LClose); lia.
    + rewrite Hl. rewrite Hh in Hcnt. destruct (holds l); lia.
Qed.

Lemma send_offer_cont li ni c v k :
  send_offer code li ni = Some (c, v, k) ->
  cont (code li) k /\ (forall k', code li <> ALock LClose k') /\ (forall k', code li <> AUnlock LClose k').
Proof.
  unfold send_offer. destruct (code li) eqn:E; try discriminate.
  - intro H; inversion H; subst. repeat split; try constructor; intros; discriminate.
  - destruct (nth_error rs ni) as [[|]|] eqn:En; try discriminate.
    intro H; inversion H; subst. repeat split; try (intros; discriminate).
    eapply ct_sel_send. eapply nth_error_In; eauto.
Qed.

Lemma recv_offer_cont lj c nj kr v :
  recv_offer ch_eqb code lj c nj = Some kr ->
  cont (code lj) (kr v) /\ (forall k', code lj <> ALock LClose k') /\ (forall k', code lj <> AUnlock LClose k').
Proof.
  unfold recv_offer. destruct (code lj) eqn:E; try discriminate.
  - destruct (ch_eqb c0 c); try discriminate. intro H; inversion H; subst.
    repeat split; try constructor; intros; discriminate.
  - destruct (nth_error rs nj) as [[|]|] eqn:En; try discriminate.
    destruct (ch_eqb c0 c); try discriminate. intro H; inversion H; subst.
    repeat split; try (intros; discriminate).
    eapply ct_sel_recv. eapply nth_error_In; eauto.
Qed.

Lemma nth_error_set_nth_other (l : list L) i j a x :
  i <> j -> nth_error l j = Some x -> nth_error (set_nth l i a) j = Some x.
Proof. intros. rewrite nth_error_set_nth_neq; auto. Qed.

Lemma lock_inv_sync s i ni j nj li lj s' :
  lock_inv s -> nth_error (procs s) i = Some li -> nth_error (procs s) j = Some lj ->
  sync_spec s i ni j nj li lj s' -> lock_inv s'.
Proof.
  intros [Hwf Hc] Hi Hj Hs. inversion Hs; subst; clear Hs.
  destruct (send_offer_cont _ _ _ _ _ H0) as (Hk1 & Hn1 & Hu1).
  destruct (recv_offer_cont _ _ _ _ (Some v) H1) as (Hk2 & Hn2 & Hu2).
  assert (Hwi : wf li) by (eapply Forall_nth; eauto).
  assert (Hwj : wf lj) by (eapply Forall_nth; eauto).
  pose proof (holds_spec_plain _ _ (cont_holds _ _ Hwi Hk1) Hn1 Hu1) as Hh1.
  pose proof (holds_spec_plain _ _ (cont_holds _ _ Hwj Hk2) Hn2 Hu2) as Hh2.
  split; simpl.
  - apply Forall_set_nth;
      [apply Forall_set_nth; [exact Hwf | exact (cont_wf li k Hwi Hk1)] | exact (cont_wf lj _ Hwj Hk2)].
  - pose proof (count_set_nth holds (procs s) i li k Hi) as C1.
    assert (Hj' : nth_error (set_nth (procs s) i k) j = Some lj)
      by (apply nth_error_set_nth_other; auto).
    pose proof (count_set_nth holds _ j lj (kr (Some v)) Hj') as C2.
    rewrite Hh1 in C1. rewrite Hh2 in C2. rewrite <- Hc.
    destruct (holds li), (holds lj); lia.
Qed.

Lemma init_lock_inv p : lock_inv (init p).
Proof.
  split; simpl.
  - repeat constructor. apply Forall_forall. intros x Hx.
    apply in_map_iff in Hx as (j & <- & _). simpl. auto.
  - assert (H : forall l : list nat, count holds (map AtLookup l) = 0)
      by (induction l; simpl; auto).
    rewrite H. reflexivity.
Qed.

Theorem lock_invariant p s : sreach all_fixed scr K (init p) s -> outcome s = None -> lock_inv s.
Proof.
  intros Hr. revert s Hr.
  assert (Hgen : forall s, sreach all_fixed scr K (init p) s -> outcome s = None -> lock_inv s).
  { apply (invariant_rule L ch vr lk wgn msg ch_eqb vr_eqb lk_eqb wgn_eqb code
             (fun s => outcome s = None -> lock_inv s)).
    - intros _. apply init_lock_inv.
    - intros s e s' IH Hs Ho.
      pose proof (step_to_spec _ _ _ _ _ _ _ _ _ _ _ _ _ _ Hs) as Hsp.
      inversion Hsp; subst.
      + match goal with Hn : nth_error (procs s) ?i = Some ?l, Hint : int_spec _ _ _ _ _ |- _ =>
          apply (lock_inv_int s _ _ _ s' (IH H) Hn Hint Ho) end.
      + match goal with Hsy : sync_spec _ _ _ _ _ _ _ _,
                        H1 : nth_error (procs s) ?i = Some ?li, H2 : nth_error (procs s) ?j = Some ?lj |- _ =>
          first [ apply (lock_inv_sync s _ _ _ _ _ _ s' (IH H) H1 H2 Hsy)
                | apply (lock_inv_sync s _ _ _ _ _ _ s' (IH H) H2 H1 Hsy) ] end. }
  exact Hgen.
Qed.
End Lock.
