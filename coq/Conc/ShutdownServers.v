(** * Conc/ShutdownServers — the action channels of realm, dealer and broker are closed
    only when no session handler is alive, and none appears afterwards (arbitrary K). *)

From Coq Require Import List Bool Arith NArith Lia.
From Nexus Require Import Conc.Machine Conc.MachineFacts Conc.Shutdown Conc.ShutdownProofs
  Conc.ShutdownLock Conc.ShutdownFlag Conc.ShutdownWg Conc.ShutdownCloser.
Import ListNotations.

Section Servers.
Variable scr : nat -> list msg * bool.
Variable K : nat.
Notation code := (code all_fixed scr K).
Notation cont := (cont L ch vr lk wgn msg).
Notation sstate := (Machine.state L ch vr lk wgn msg).
Notation int_spec := (MachineFacts.int_spec L ch vr lk wgn msg ch_eqb vr_eqb lk_eqb wgn_eqb code).
Notation sync_spec := (MachineFacts.sync_spec L ch vr lk wgn msg ch_eqb code).
Notation step_spec := (MachineFacts.step_spec L ch vr lk wgn msg ch_eqb vr_eqb lk_eqb wgn_eqb code).

(** The channels that only realm.close closes, after waitHandlers.Wait(). *)
Definition late_closed (c : ch) : bool :=
  match c with
  | CMetaRecvDone | CDealerAct | CBrokerAct | CRealmAct => true
  | _ => false
  end.

Lemma code_closes_late l c :
  late_closed c = true -> In c (closes (code l)) -> 6 <= cpos l /\ cpos l <= 17.
Proof.
  intros Hl Hin.
  destruct l; simpl in Hin;
    unfold handler_got, dealer_got, broker_got, router_got, hop_act, lop_act in Hin.
  all: try (rewrite seq_fixed in Hin;
            do 19 (destruct n as [|n]; [simpl in Hin; try (destruct js; simpl in Hin);
                                         try (simpl; lia); try tauto;
                                         repeat (destruct Hin as [Hin|Hin]; [subst; try discriminate|]); try tauto|]);
            simpl in Hin; assert (E : nth_error (@nil sop) n = None) by (destruct n; reflexivity);
            rewrite E in Hin; simpl in Hin; tauto).
  all: case_in Hin; simpl in Hin;
    repeat match goal with
    | H : _ \/ _ |- _ => destruct H
    | H : False |- _ => destruct H
    | H : In _ (_ :: _) |- _ => simpl in H
    | H : In _ (_ ++ _) |- _ => apply in_app_or in H
    | H : In _ (map CDone _) |- _ => apply in_map_iff in H; destruct H as (? & ? & ?)
    | H : _ = _ |- _ => progress subst
    end; try discriminate.
Qed.

Definition servers_inv (s : sstate) : Prop :=
  forall c, late_closed c = true -> c_closed (chans s c) = true ->
    vars s VRealmClosed = 1%N /\ wgs s WHandlers = 0.

Lemma code_wgadd_joining l k : code l = AWgAdd WHandlers k -> joining l = true.
Proof.
  intro E. destruct l; simpl in E;
    unfold handler_got, dealer_got, broker_got, router_got, hop_act, lop_act in E;
    try (destruct (nth_error (realm_close_seq all_fixed) n) as [o|]; [destruct o; simpl in E|]);
    case_in E; try discriminate; reflexivity.
Qed.

Lemma servers_inv_step s e s' :
  flag_inv s -> closer_inv s -> servers_inv s ->
  sstep all_fixed scr K s e = Some s' -> outcome s' = None -> servers_inv s'.
Proof.
  intros HF (Hdom & Hflag & Hwg) IH Hs Ho c Hl Hc.
  pose proof (step_to_spec _ _ _ _ _ _ _ _ _ _ _ _ _ _ Hs) as Hsp.
  (* flag and counter in s justify the claim; then they are carried to s' *)
  assert (Hbefore : vars s VRealmClosed = 1%N /\ wgs s WHandlers = 0).
  { destruct (step_closed_origin L ch vr lk wgn msg ch_eqb vr_eqb lk_eqb wgn_eqb code (ch_eqb_eq) s e s' c Hsp Hc)
      as [Hold | (l & Hin & Hcl)].
    - eapply IH; eauto.
    - destruct (code_closes_late l c Hl Hcl) as [A B].
      split; [eapply Hflag; eauto; lia | eapply Hwg; eauto]. }
  destruct Hbefore as [F1 W0].
  inversion Hsp; subst.
  - match goal with Hint : int_spec _ _ _ ?l _, Hn : nth_error (procs s) _ = Some ?l |- _ =>
      rename Hint into Hi; rename Hn into Hnth end.
    split.
    + destruct (int_step_vars scr K s _ _ _ s' VRealmClosed Hi Ho) as [E | (v & k & Hcw & E)]; [congruence|].
      destruct (code_write_flag scr K _ _ _ Hcw) as (-> & _). exact E.
    + pose proof (int_step_wg scr K s _ _ _ s' Hi Ho) as Hw.
      match type of Hw with match code ?l with _ => _ end => destruct (code l) eqn:E end;
        simpl in Hw; try (rewrite Hw; exact W0).
      * destruct w; simpl in Hw; try (rewrite Hw; exact W0).
        exfalso. pose proof (code_wgadd_joining _ _ E) as Hj.
        assert (In l (procs s)) by (eapply nth_error_In; eauto).
        rewrite (HF l H0 Hj) in F1. discriminate.
      * destruct w; simpl in Hw; try (rewrite Hw; exact W0). lia.
  - match goal with Hsy : sync_spec _ _ _ _ _ _ _ _ |- _ => inversion Hsy; subst end. simpl. auto.
Qed.

Lemma init_servers_inv p : servers_inv (init p).
Proof. intros c _ Hc. simpl in Hc. discriminate. Qed.

Theorem servers_invariant p s :
  sreach all_fixed scr K (init p) s -> outcome s = None -> servers_inv s.
Proof.
  intros Hr. revert s Hr.
  apply (invariant_rule2 L ch vr lk wgn msg ch_eqb vr_eqb lk_eqb wgn_eqb code
           (fun s => outcome s = None -> flag_inv s /\ closer_inv s)
           (fun s => outcome s = None -> servers_inv s)).
  - intros s Hr Ho. split; [eapply flag_invariant; eauto|eapply closer_invariant; eauto].
  - intros _. apply init_servers_inv.
  - intros s e s' HJ _ IH Hs Ho.
    assert (Hos : outcome s = None).
    { unfold Shutdown.sstep, Machine.step in Hs. destruct (outcome s); [discriminate|reflexivity]. }
    destruct (HJ Hos) as [J1 J2].
    eapply servers_inv_step; eauto.
Qed.

(** realm.close ends the meta session and closes the action channels of
    dealer, broker and realm only when no session handler and no attach in
    progress is alive — and once one of them is closed none appears any more:
    no session handler can ever send on a closed action channel. *)
Theorem servers_closed_handlers_gone p s c :
  sreach all_fixed scr K (init p) s -> outcome s = None ->
  late_closed c = true -> c_closed (chans s c) = true ->
  (forall l, In l (procs s) -> live l = false) /\
  (forall l, In l (procs s) -> joining l = false).
Proof.
  intros Hr Ho Hl Hc.
  destruct (servers_invariant p s Hr Ho c Hl Hc) as [F1 W0].
  destruct (wg_handlers_invariant scr K p s Hr Ho) as [_ Hcount].
  split.
  - intros l Hin. destruct (live l) eqn:E; auto. exfalso.
    rewrite W0 in Hcount. clear -Hin E Hcount.
    induction (procs s) as [|x r IH]; [destruct Hin|]. simpl in Hcount.
    destruct Hin as [->|Hin]; [rewrite E in Hcount; lia|].
    apply IH; auto. destruct (live x); lia.
  - intros l Hin. destruct (joining l) eqn:E; auto.
    pose proof (flag_invariant scr K p s Hr Ho l Hin E). congruence.
Qed.
End Servers.
