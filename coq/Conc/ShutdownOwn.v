(** * Conc/ShutdownOwn — realm.close never sends on, or closes, a channel it has already closed
    (arbitrary K): the positions of the sequence and the closedness of its channels agree. *)

From Coq Require Import List Bool Arith NArith Lia.
From Nexus Require Import Conc.Machine Conc.MachineFacts Conc.Shutdown Conc.ShutdownProofs
  Conc.ShutdownLock Conc.ShutdownFlag Conc.ShutdownWg Conc.ShutdownCloser Conc.ShutdownServers.
Import ListNotations.

Section Own.
Variable scr : nat -> list msg * bool.
Variable K : nat.
Notation code := (code all_fixed scr K).
Notation cont := (cont L ch vr lk wgn msg).
Notation sstate := (Machine.state L ch vr lk wgn msg).
Notation int_spec := (MachineFacts.int_spec L ch vr lk wgn msg ch_eqb vr_eqb lk_eqb wgn_eqb code).
Notation sync_spec := (MachineFacts.sync_spec L ch vr lk wgn msg ch_eqb code).
Notation step_spec := (MachineFacts.step_spec L ch vr lk wgn msg ch_eqb vr_eqb lk_eqb wgn_eqb code).

(** Position of realm_close_seq at which each late channel is closed. *)
Definition close_pos (c : ch) : nat :=
  match c with
  | CMetaRecvDone => 6
  | CDealerAct => 11
  | CBrokerAct => 13
  | CRealmAct => 16
  | _ => 0
  end.

(** A run of realm.close that has passed the closed check and has not yet
    reached the position where [c] is closed sees [c] open. *)
Definition own_inv (s : sstate) : Prop :=
  forall l c, In l (procs s) -> late_closed c = true ->
    2 <= cpos l -> cpos l <= close_pos c -> c_closed (chans s c) = false.

(** Exactly which state closes which late channel. *)
Lemma code_closes_at l c :
  late_closed c = true -> In c (closes (code l)) -> cpos l = close_pos c.
Proof.
  intros Hl Hin.
  destruct l; simpl in Hin;
    unfold handler_got, dealer_got, broker_got, router_got, hop_act, lop_act in Hin.
  all: try (rewrite seq_fixed in Hin;
            do 19 (destruct n as [|n]; [simpl in Hin; try (destruct js; simpl in Hin);
                                         try tauto;
                                         repeat (destruct Hin as [Hin|Hin]; [subst; try discriminate; try reflexivity|]); try tauto|]);
            simpl in Hin; assert (E : nth_error (@nil sop) n = None) by (destruct n; reflexivity);
            rewrite E in Hin; simpl in Hin; tauto).
  all: case_in Hin; simpl in Hin;
    repeat match goal with
    | H : _ \/ _ |- _ => destruct H
    | H : False |- _ => destruct H
    | H : In _ (_ :: _) |- _ => simpl in H
    | H : In _ (_ ++ _) |- _ => apply in_app_or in H
    | H : In _ (map CDone _) |- _ => apply in_map_iff in H; destruct H as (? & ? & ?)
    | H : _ = _ |- _ => progress subst
    end; try discriminate.
Qed.

Lemma In_set_nth_idx {A} (l : list A) i a x :
  In x (set_nth l i a) -> x = a \/ exists j, j <> i /\ nth_error l j = Some x.
Proof.
  revert i; induction l as [|h t IH]; intros [|i]; simpl; try tauto.
  - intros [->|H]; auto. right. apply In_nth_error in H as (j & Hj). exists (S j). split; [lia|exact Hj].
  - intros [->|H].
    + right. exists 0. split; [lia|reflexivity].
    + destruct (IH _ H) as [->|(j & Hj & Hn)]; auto. right. exists (S j). split; [lia|exact Hn].
Qed.

Lemma count_two_idx (f : L -> bool) l i j a b :
  nth_error l i = Some a -> nth_error l j = Some b -> i <> j -> f a = true -> f b = true ->
  2 <= count f l.
Proof.
  revert i j. induction l as [|x r IH]; intros [|i] [|j] Hi Hj Hij Fa Fb; simpl in *; try discriminate; try lia.
  - inversion Hi; subst. rewrite Fa.
    assert (1 <= count f r).
    { clear -Hj Fb. revert j Hj. induction r; intros [|j] Hj; simpl in *; try discriminate.
      - inversion Hj; subst. rewrite Fb. lia.
      - specialize (IHr _ Hj). lia. }
    lia.
  - inversion Hj; subst. rewrite Fb.
    assert (1 <= count f r).
    { clear -Hi Fa. revert i Hi. induction r; intros [|i] Hi; simpl in *; try discriminate.
      - inversion Hi; subst. rewrite Fa. lia.
      - specialize (IHr _ Hi). lia. }
    lia.
  - assert (i <> j) by lia. specialize (IH _ _ Hi Hj H Fa Fb). lia.
Qed.

Lemma cpos_holds l : ok l -> 2 <= cpos l -> cpos l <= 18 -> holds l = true.
Proof.
  intros Hok A B. destruct l; try (simpl in A; lia); try reflexivity.
  unfold cpos in A, B. unfold holds. apply andb_true_iff. split; apply Nat.leb_le; lia.
Qed.

Lemma close_pos_le c : late_closed c = true -> 6 <= close_pos c /\ close_pos c <= 16.
Proof. destruct c; simpl; intro; try discriminate; lia. Qed.

Notation send_spec := (MachineFacts.send_spec L ch vr lk wgn msg ch_eqb).
Notation recv_spec := (MachineFacts.recv_spec L ch vr lk wgn msg ch_eqb).

(** The moving process is the one that closed the channel. *)
Lemma int_closed_origin (s : sstate) i n l s' c :
  int_spec s i n l s' -> c_closed (chans s' c) = true ->
  c_closed (chans s c) = true \/ In c (closes (code l)).
Proof.
  intros Hi Hc.
  inversion Hi; subst; clear Hi;
    unfold set_proc, set_panic, set_lock, set_wg, set_var, add_proc in Hc; cbn [chans] in Hc; auto;
    try (erewrite (send_spec_closed L ch vr lk wgn msg ch_eqb ch_eqb_eq) in Hc by eauto; auto; fail);
    try (erewrite (recv_spec_closed L ch vr lk wgn msg ch_eqb ch_eqb_eq) in Hc by eauto; auto; fail);
    try (rewrite (push_closed L ch vr lk wgn msg ch_eqb ch_eqb_eq) in Hc; auto; fail).
  - erewrite (try_all_closed L ch vr lk wgn msg ch_eqb ch_eqb_eq) in Hc by eauto. auto.
  - unfold set_chan in Hc. cbn [chans] in Hc. unfold upd in Hc.
    destruct (ch_eqb c c0) eqn:E; auto.
    apply ch_eqb_eq in E. subst. right. rewrite H. left; auto.
  - destruct (close_all_closed L ch vr lk wgn msg ch_eqb ch_eqb_eq _ _ _ Hc) as [?|Hin]; auto.
    right. rewrite H. exact Hin.
Qed.

Lemma own_inv_int s i n l s' :
  lock_inv s -> wg_inv s -> servers_inv s -> closer_inv s -> own_inv s ->
  nth_error (procs s) i = Some l ->
  int_spec s i n l s' -> outcome s = None -> outcome s' = None -> own_inv s'.
Proof.
  intros [_ Hcnt] [Hok _] HS (Hdom & _ & _) IH Hn Hi Hos Ho l' c Hin' Hl A B.
  assert (Hol : ok l) by (eapply Forall_nth; eauto).
  assert (Hl0 : In l (procs s)) by (eapply nth_error_In; eauto).
  destruct (close_pos_le c Hl) as [P6 P16].
  destruct (int_step_lock scr K s i n l s' Hi Ho Hn) as (k & Hk & Hp & _).
  pose proof (cont_cpos scr K l k Hol Hk) as Hcp.
  (* where l' comes from *)
  assert (Hfrom : l' = k \/ exists j, j <> i /\ nth_error (procs s) j = Some l').
  { destruct Hp as [Hp | (c0 & Hsp & Hp)]; rewrite Hp in Hin'.
    - apply In_set_nth_idx in Hin'. exact Hin'.
    - apply in_app_or in Hin' as [Hin'|[<-|[]]].
      + apply In_set_nth_idx in Hin'. exact Hin'.
      + rewrite (spawn_cpos scr K l c0 k Hol Hsp) in A. lia. }
  destruct (c_closed (chans s' c)) eqn:Ec; auto. exfalso.
  destruct (int_closed_origin s i n l s' c Hi Ec) as [Hold | Hcl].
  - (* already closed before the step *)
    destruct Hfrom as [-> | (j & Hj & Hnj)].
    + unfold cpos_spec in Hcp. destruct Hcp as [E|[E|[[E1 E2]|[E1 E2]]]]; try lia.
      * rewrite (IH l c Hl0 Hl ltac:(lia) ltac:(lia)) in Hold. discriminate.
      * destruct (Nat.eq_dec (cpos l) 1) as [E|E].
        -- (* entering position 2: the check read the flag as clear, but a closed late channel means it is set *)
           destruct (cpos_run l ltac:(lia)) as [(n0 & js & k0 & ->)|(j0 & n0 & js & k0 & ->)];
             simpl in E; subst.
           ++ destruct (HS c Hl Hold) as [F1 _].
              rewrite (run_at_1 scr K _ _ _ _ _ _ Hi) in Hp. simpl in Hp.
              destruct Hp as [Hp | (c0 & Hsp0 & _)]; [|simpl in Hsp0; discriminate].
              assert (Hlen : i < length (procs s)) by (apply nth_error_Some; congruence).
              pose proof (nth_error_set_nth_eq (procs s) i k Hlen) as X.
              rewrite <- Hp in X. rewrite nth_error_set_nth_eq in X by exact Hlen.
              inversion X as [X']. rewrite F1 in X'. simpl in X'. rewrite <- X' in E2. simpl in E2. lia.
           ++ destruct Hol as [_ Hn15]. lia.
        -- rewrite (IH l c Hl0 Hl ltac:(lia) ltac:(lia)) in Hold. discriminate.
    + assert (In l' (procs s)) by (eapply nth_error_In; eauto).
      rewrite (IH l' c H Hl A B) in Hold. discriminate.
  - (* closed by this very step: by the closer at the closing position, which holds the lock alone *)
    pose proof (code_closes_at l c Hl Hcl) as Hpc.
    destruct Hfrom as [-> | (j & Hj & Hnj)].
    + (* the closer itself has moved past the closing position *)
      unfold cpos_spec in Hcp. destruct Hcp as [E|[E|[[E1 E2]|[E1 E2]]]]; try lia.
      (* cpos k = cpos l = close_pos c: the closing action never keeps its position *)
      exfalso. clear -Hk Hcl Hl E Hol A.
      destruct (cpos_run l ltac:(lia)) as [(n0 & js & k0 & ->)|(j0 & n0 & js & k0 & ->)].
      * simpl in Hcl, Hk, E. rewrite seq_fixed in Hcl, Hk.
        do 19 (destruct n0 as [|n0];
          [simpl in Hcl, Hk; try (destruct js; simpl in Hcl, Hk); try tauto;
           inv_cont Hk; simpl in E; try lia;
           try (match goal with H : context[N.eqb ?a ?b] |- _ => destruct (N.eqb a b) end; simpl in E; lia)|]).
        simpl in Hcl. assert (X : nth_error (@nil sop) n0 = None) by (destruct n0; reflexivity).
        rewrite X in Hcl. simpl in Hcl. tauto.
      * simpl in Hcl. destruct Hcl as [<-|[]]. discriminate.
    + (* another run of realm.close in range would hold the lock as well *)
      assert (Hol' : ok l') by (eapply Forall_nth; eauto).
      pose proof (cpos_holds l Hol ltac:(lia) ltac:(lia)) as H1.
      pose proof (cpos_holds l' Hol' ltac:(lia) ltac:(lia)) as H2.
      pose proof (count_two_idx holds (procs s) i j l l' Hn Hnj ltac:(auto) H1 H2) as H3.
      destruct (locks s LClose); lia.
Qed.

Lemma own_inv_sync s i ni j nj li lj s' :
  wg_inv s -> own_inv s ->
  nth_error (procs s) i = Some li -> nth_error (procs s) j = Some lj ->
  sync_spec s i ni j nj li lj s' -> own_inv s'.
Proof.
  intros [Hok _] IH Hi Hj Hs. inversion Hs; subst; clear Hs.
  destruct (send_offer_cont scr K _ _ _ _ _ H0) as (Hk1 & _ & _).
  destruct (recv_offer_cont scr K _ _ _ _ (Some v) H1) as (Hk2 & _ & _).
  assert (Hoi : ok li) by (eapply Forall_nth; eauto).
  assert (Hoj : ok lj) by (eapply Forall_nth; eauto).
  assert (Hli : In li (procs s)) by (eapply nth_error_In; eauto).
  assert (Hlj : In lj (procs s)) by (eapply nth_error_In; eauto).
  pose proof (cont_cpos scr K li k Hoi Hk1) as C1.
  pose proof (cont_cpos scr K lj _ Hoj Hk2) as C2.
  assert (Hstep : forall l0 k0 c0, In l0 (procs s) -> ok l0 -> cpos_spec l0 k0 ->
            ((exists n0, send_offer code l0 n0 <> None) \/ (exists c1 n0, recv_offer ch_eqb code l0 c1 n0 <> None)) ->
            late_closed c0 = true -> 2 <= cpos k0 -> cpos k0 <= close_pos c0 ->
            c_closed (chans s c0) = false).
  { intros l0 k0 c0 Hin0 Hol0 Hsp Hoff Hl A B. unfold cpos_spec in Hsp.
    destruct (close_pos_le c0 Hl) as [P6 P16].
    assert (Hn1 : cpos l0 <> 1).
    { intro E. destruct (cpos_run l0 ltac:(lia)) as [(n0 & js & k1 & ->)|(j0 & n0 & js & k1 & ->)].
      - simpl in E. subst. destruct Hoff as [(n1 & Hx)|(c1 & n1 & Hx)]; apply Hx; reflexivity.
      - destruct Hol0 as [_ ->]. simpl in E. lia. }
    destruct Hsp as [E|[E|[[E1 E2]|[E1 E2]]]]; try lia.
    - eapply IH; eauto; lia.
    - eapply IH; eauto; lia. }
  intros l' c0 Hin Hl A B. simpl in Hin. simpl.
  apply In_set_nth in Hin as [-> | Hin].
  - apply (Hstep lj (kr (Some v)) c0 Hlj Hoj C2); auto.
    right. exists c, nj. rewrite H1. discriminate.
  - apply In_set_nth in Hin as [-> | Hin].
    + apply (Hstep li k c0 Hli Hoi C1); auto.
      left. exists ni. rewrite H0. discriminate.
    + eapply IH; eauto.
Qed.

Lemma init_own_inv p : own_inv (init p).
Proof. intros l c _ _ _ _. reflexivity. Qed.

Theorem own_invariant p s :
  sreach all_fixed scr K (init p) s -> outcome s = None -> own_inv s.
Proof.
  intros Hr. revert s Hr.
  apply (invariant_rule2 L ch vr lk wgn msg ch_eqb vr_eqb lk_eqb wgn_eqb code
           (fun s => outcome s = None -> lock_inv s /\ wg_inv s /\ servers_inv s /\ closer_inv s)
           (fun s => outcome s = None -> own_inv s)).
  - intros s Hr Ho.
    split; [eapply lock_invariant; eauto|].
    split; [eapply wg_handlers_invariant; eauto|].
    split; [eapply servers_invariant; eauto|eapply closer_invariant; eauto].
  - intros _. apply init_own_inv.
  - intros s e s' HJ _ IH Hs Ho.
    pose proof (step_to_spec _ _ _ _ _ _ _ _ _ _ _ _ _ _ Hs) as Hsp.
    inversion Hsp; subst.
    + destruct (HJ H) as (J1 & J2 & J3 & J4).
      match goal with Hn : nth_error (procs s) ?i = Some ?l, Hint : int_spec _ _ _ _ _ |- _ =>
        apply (own_inv_int s _ _ _ s' J1 J2 J3 J4 (IH H) Hn Hint H Ho) end.
    + destruct (HJ H) as (J1 & J2 & J3 & J4).
      match goal with Hsy : sync_spec _ _ _ _ _ _ _ _,
                      H1 : nth_error (procs s) ?i = Some ?li, H2 : nth_error (procs s) ?j = Some ?lj |- _ =>
        first [ apply (own_inv_sync s _ _ _ _ _ _ s' J2 (IH H) H1 H2 Hsy)
              | apply (own_inv_sync s _ _ _ _ _ _ s' J2 (IH H) H2 H1 Hsy) ] end.
Qed.

(** realm.close never closes one of its channels twice and never sends on one
    it has already closed: at the position of [close(d.actionChan)],
    [close(b.actionChan)], [close(r.actionChan)] the channel is still open, and
    so it is when the kick and the timer-cancel actions are submitted — also
    when Router.Close and RemoveRealm run concurrently or one after the other. *)
Theorem closer_channels_open p s l c :
  sreach all_fixed scr K (init p) s -> outcome s = None ->
  In l (procs s) -> late_closed c = true ->
  2 <= cpos l -> cpos l <= close_pos c ->
  c_closed (chans s c) = false.
Proof. intros Hr Ho. apply (own_invariant p s Hr Ho). Qed.
End Own.
