(** * Conc/CancelModel — what [dealer.syncCancel] does with one pending call.

    [mode]: the CANCEL's mode (a call timeout and the RESULT-retry deadline
    use killnowait, a departing callee uses skip).  [callee_cancels]: the callee
    announced call_canceling.  [room]: the callee's router-to-client queue has
    a free slot.  The INTERRUPT is offered with a non-blocking send.  In mode
    kill the dealer leaves the call pending and lets the callee's answer to
    the INTERRUPT end it — [wait_only_if_sent]: only when the INTERRUPT was
    actually queued ([true] is /repo's code). *)

From Coq Require Import Bool List.

Inductive cmode : Type := Skip | Kill | KillNoWait.

Record cancel_result : Type := mkCR {
  interrupt_queued : bool;   (* the callee will read an INTERRUPT *)
  caller_answered : bool;    (* ERROR wamp.error.canceled offered to the caller now *)
  call_removed : bool        (* the call left calls / invocations / invocationByCall *)
}.

Definition sync_cancel (wait_only_if_sent : bool) (m : cmode) (callee_cancels room : bool) : cancel_result :=
  match m with
  | Skip => mkCR false true true
  | _ =>
      if negb callee_cancels then mkCR false true true
      else
        let sent := room in
        let wait := match m with
                    | Kill => if wait_only_if_sent then sent else true
                    | _ => false
                    end in
        if wait then mkCR sent false false else mkCR sent true true
  end.

(** Whatever the mode and the state of the callee's queue, after a CANCEL the
    caller has its answer or the callee has an INTERRUPT to answer: the call
    is never left with nobody to end it; and it is answered exactly when it
    leaves the tables. *)
Theorem cancel_never_strands_caller : forall m callee_cancels room,
  let r := sync_cancel true m callee_cancels room in
  (caller_answered r = true \/ interrupt_queued r = true) /\
  caller_answered r = call_removed r.
Proof. intros [] [] []; cbn; auto. Qed.

(** A callee whose queue is full cannot delay the caller: every mode degrades
    to skip. *)
Theorem full_queue_degrades_to_skip : forall m callee_cancels,
  sync_cancel true m callee_cancels false = mkCR false true true.
Proof. intros [] []; reflexivity. Qed.

(** If the early return of mode kill is taken after the send ATTEMPT the
    statement is false: nobody will ever end the call. *)
Theorem cancel_strands_caller_refuted :
  sync_cancel false Kill true false = mkCR false false false.
Proof. reflexivity. Qed.

(** Table compared with go/cmd/concdrive's predictions on every run:
    mode, room -> (INTERRUPT queued, caller answered at once). *)
Definition cancel_table : list (cmode * bool * (bool * bool)) :=
  List.flat_map (fun m => List.map (fun room =>
      let r := sync_cancel true m true room in (m, room, (interrupt_queued r, caller_answered r)))
    (true :: false :: nil)) (Skip :: Kill :: KillNoWait :: nil).
