(** * Conc/SkelObligationsC07 — per-run obligations of C07 over the regenerated inventory.

    [gen/GenSkeleton.v] is rewritten from /repo on every run; these lemmas are
    re-checked by [vm_compute] against it.  When the source changes so that one
    of them no longer holds this file stops compiling: the check then looks
    for a concrete failing history (tools/checks/c07.py). *)

From Coq Require Import String List NArith Bool Lia.
From Nexus Require Import Conc.SkelTypes Conc.Skeleton Conc.Stall gen.GenSkeleton.
Import ListNotations.

Lemma no_blocking_send_to_client_holds : no_blocking_send_to_client gen_funcs = true.
Proof. vm_compute. reflexivity. Qed.

Lemma wait_graph_ranked_holds :
  wait_graph_ranked gen_funcs gen_entries gen_meta_inbound = true.
Proof. vm_compute. reflexivity. Qed.

Lemma no_peer_close_in_shared_server_holds : no_peer_close_in_shared_server gen_funcs = true.
Proof. vm_compute. reflexivity. Qed.

(** The retry window for the regenerated constants [yieldRetryDelay] and
    [sendResultDeadline]: strictly less than twice the deadline plus one delay. *)
Lemma yield_retry_window_holds :
  (0 < gen_send_result_deadline_ms)%N /\
  (retry_total gen_yield_retry_delay_ms gen_send_result_deadline_ms
   < 2 * gen_send_result_deadline_ms + gen_yield_retry_delay_ms)%N.
Proof. vm_compute. split; reflexivity. Qed.

(** The translator's reading of [dealer.syncYield]: the invocation is kept
    while a retry is pending. *)
Lemma yield_retry_keeps_invocation_holds :
  yield_retry_keeps_invocation gen_yield_retry_keeps_invocation = true.
Proof. vm_compute. reflexivity. Qed.

Lemma yield_stops_timer_before_retry_holds :
  yield_stops_timer_before_retry gen_yield_stops_timer_before_retry = true.
Proof. vm_compute. reflexivity. Qed.

Lemma cancel_waits_only_if_interrupt_sent_holds :
  cancel_waits_only_if_interrupt_sent gen_cancel_waits_only_if_interrupt_sent = true.
Proof. vm_compute. reflexivity. Qed.
