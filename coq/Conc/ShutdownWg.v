(** * Conc/ShutdownWg — waitHandlers counts exactly the live sessions (arbitrary K). *)

From Coq Require Import List Bool Arith NArith Lia.
From Nexus Require Import Conc.Machine Conc.MachineFacts Conc.Shutdown Conc.ShutdownProofs
  Conc.ShutdownLock Conc.ShutdownFlag.
Import ListNotations.

Section Wg.
Variable scr : nat -> list msg * bool.
Variable K : nat.
Notation code := (code all_fixed scr K).
Notation cont := (cont L ch vr lk wgn msg).
Notation sstate := (Machine.state L ch vr lk wgn msg).
Notation int_spec := (MachineFacts.int_spec L ch vr lk wgn msg ch_eqb vr_eqb lk_eqb wgn_eqb code).
Notation send_spec := (MachineFacts.send_spec L ch vr lk wgn msg ch_eqb).
Notation recv_spec := (MachineFacts.recv_spec L ch vr lk wgn msg ch_eqb).
Notation sync_spec := (MachineFacts.sync_spec L ch vr lk wgn msg ch_eqb code).
Notation step_spec := (MachineFacts.step_spec L ch vr lk wgn msg ch_eqb vr_eqb lk_eqb wgn_eqb code).

Fixpoint has_wgdone (ops : list hop) : bool :=
  match ops with [] => false | HWgDone :: _ => true | _ :: r => has_wgdone r end.

(** [live l]: the session of local state [l] is counted in [waitHandlers]. *)
Definition live (l : L) : bool :=
  match l with
  | AtJoin _ | AtJoinWait _ | AtPubJoin _ | AtUnlock _ => true
  | AtWelcome _ _ | AtSpawn _ _ => true
  | HLoop _ _ _ | HGot _ _ _ _ | HRegPub _ _ _ | HBye _ | HShutdownBye _ => true
  | HExit _ _ ops => has_wgdone ops
  | _ => false
  end.

(** Local states that occur in the repaired model. *)
Definition hsuffix (ops : list hop) : Prop :=
  ops = handler_exit_seq \/ ops = tl handler_exit_seq \/ ops = tl (tl handler_exit_seq) \/
  ops = [HPeerClose; HWgDone] \/ ops = [HWgDone] \/ ops = [].

Definition ok (l : L) : Prop :=
  match l with
  | AtSpawn _ false | AtWelcome _ true | AtDone _ => False
  | HExit _ _ ops => hsuffix ops
  | _ => wf l
  end.

Lemma ok_wf l : ok l -> wf l.
Proof. destruct l; simpl; auto; try tauto; try (destruct welcomed; tauto); try (destruct spawned; tauto). Qed.

Lemma cont_ok l k : ok l -> cont (code l) k -> ok k.
Proof.
  intros Hw Hc.
  destruct l.
  all: simpl in Hc;
    unfold handler_got, dealer_got, broker_got, router_got, hop_act, lop_act in Hc.
  all: try (destruct (nth_error (realm_close_seq all_fixed) n) as [o|] eqn:En;
            [destruct o; simpl in Hc|]).
  all: case_all.
  all: inv_cont Hc; split_in; simpl in *; auto; unfold hsuffix in *; simpl in *; auto 7.
  all: case_all; simpl in *; unfold hsuffix in *; simpl in *; auto 7.
  all: try (destruct Hw as [Hw ?]; auto).
  all: try (split; auto; rewrite seq_fixed in En;
            do 19 (destruct n as [|n]; [simpl in En; try discriminate; auto|]);
            simpl in En; destruct n; discriminate).
  all: try (destruct Hw as [-> | ->]; simpl; auto).
  all: try (repeat (destruct Hw as [Hw|Hw]; [try discriminate; inversion Hw; subst; auto 7|]);
            try discriminate; try (inversion Hw; subst; auto 7)).
Qed.

Definition wg_spec (l k : L) : Prop :=
  match code l with
  | AWgAdd WHandlers _ => live l = false /\ live k = true
  | AWgDone WHandlers _ => live l = true /\ live k = false
  | _ => live k = live l
  end.

Lemma cont_live l k : ok l -> cont (code l) k -> wg_spec l k.
Proof.
  intros Hw Hc. unfold wg_spec.
  destruct l;
    try (destruct welcomed; [|contradiction]);
    try (destruct spawned; [contradiction|]);
    try (simpl in Hw; unfold hsuffix in Hw; simpl in Hw;
         destruct Hw as [->|[->|[->|[->|[->| ->]]]]]).
  all: simpl in Hc;
    unfold handler_got, dealer_got, broker_got, router_got, hop_act, lop_act in Hc;
    simpl; unfold handler_got, dealer_got, broker_got, router_got, hop_act, lop_act.
  all: try (destruct (nth_error (realm_close_seq all_fixed) n) as [o|] eqn:En;
            [destruct o; simpl in *|]).
  all: case_all.
  all: inv_cont Hc; split_in; simpl in *; auto.
  all: case_all; simpl in *; auto.
  all: try (destruct Hw as [-> | ->]; reflexivity).
  all: try (destruct Hw as [[-> | ->] _]; reflexivity).
  all: try contradiction.
Qed.

Ltac inv_specs :=
  repeat match goal with
  | H : send_spec _ _ _ _ _ _ |- _ => inversion H; subst; clear H
  | H : recv_spec _ _ _ _ _ |- _ => inversion H; subst; clear H
  end.

Lemma wgn_upd_other (f : wgn -> nat) w x : w <> WHandlers -> upd wgn_eqb f w x WHandlers = f WHandlers.
Proof. intro H. unfold upd. destruct w; simpl; auto. congruence. Qed.

(** The effect of one non-panicking internal step on [waitHandlers]. *)
Lemma int_step_wg s i n l s' :
  int_spec s i n l s' -> outcome s' = None ->
  match code l with
  | AWgAdd WHandlers _ => wgs s' WHandlers = S (wgs s WHandlers)
  | AWgDone WHandlers _ => S (wgs s' WHandlers) = wgs s WHandlers
  | _ => wgs s' WHandlers = wgs s WHandlers
  end.
Proof.
  intros Hi Ho.
  inversion Hi; subst; clear Hi; inv_specs; try (simpl in Ho; discriminate);
  match goal with Hc : code l = _ |- _ => rewrite Hc end; simpl; auto.
  - destruct (try_all_locks _ _ _ _ H0) as (_ & A & _). rewrite A. reflexivity.
  - destruct (close_all_locks cs s) as (_ & A & _). rewrite A. reflexivity.
  - destruct w; simpl; unfold upd; simpl; auto.
  - destruct w; simpl; unfold upd; simpl; auto.
Qed.

Definition wg_inv (s : sstate) : Prop :=
  Forall ok (procs s) /\ wgs s WHandlers = count live (procs s).

Lemma ok_spawn l c k : ok l -> code l = ASpawn c k -> ok c /\ live c = false.
Proof.
  intros Hw Hc. destruct l;
    try (destruct welcomed; [|contradiction]);
    try (destruct spawned; [contradiction|]);
    simpl in Hc;
    unfold handler_got, dealer_got, broker_got, router_got, hop_act, lop_act in Hc;
    try (destruct (nth_error (realm_close_seq all_fixed) n) as [o|]; [destruct o; simpl in Hc|]);
    case_in Hc; try discriminate; inversion Hc; subst; simpl; auto.
Qed.

Lemma wg_inv_int s i n l s' :
  wg_inv s -> nth_error (procs s) i = Some l ->
  int_spec s i n l s' -> outcome s' = None -> wg_inv s'.
Proof.
  intros [Hok Hc] Hn Hi Ho.
  assert (Hol : ok l) by (eapply Forall_nth; eauto).
  destruct (int_step_lock scr K s i n l s' Hi Ho Hn) as (k & Hk & Hp & _).
  pose proof (cont_live l k Hol Hk) as Hl.
  pose proof (cont_ok l k Hol Hk) as Hokk.
  pose proof (count_set_nth live (procs s) i l k Hn) as Hcnt.
  pose proof (int_step_wg s i n l s' Hi Ho) as Hw.
  assert (Hok' : Forall ok (procs s')).
  { destruct Hp as [-> | (c & Hsp & ->)].
    - apply Forall_set_nth; auto.
    - apply Forall_app; split;
        [apply Forall_set_nth; auto | constructor; [apply (ok_spawn l c k Hol Hsp) | constructor]]. }
  split; auto.
  assert (Hcount : count live (procs s') = count live (set_nth (procs s) i k)).
  { destruct Hp as [-> | (c & Hsp & ->)]; auto.
    rewrite count_app. simpl. destruct (ok_spawn l c k Hol Hsp) as [_ E]. rewrite E. lia. }
  rewrite Hcount. unfold wg_spec in Hl.
  destruct (code l) eqn:E; simpl in Hl, Hw;
    try (rewrite Hw; rewrite Hl in Hcnt; destruct (live l); lia).
  - destruct w; simpl in Hl, Hw.
    + destruct Hl as [H1 H2]. rewrite H1, H2 in Hcnt. lia.
    + rewrite Hw. rewrite Hl in Hcnt. destruct (live l); lia.
    + rewrite Hw. rewrite Hl in Hcnt. destruct (live l); lia.
  - destruct w; simpl in Hl, Hw.
    + destruct Hl as [H1 H2]. rewrite H1, H2 in Hcnt. lia.
    + rewrite Hw. rewrite Hl in Hcnt. destruct (live l); lia.
    + rewrite Hw. rewrite Hl in Hcnt. destruct (live l); lia.
Qed.

Lemma wg_spec_plain l k :
  wg_spec l k -> (forall k', code l <> AWgAdd WHandlers k') -> (forall k', code l <> AWgDone WHandlers k') ->
  live k = live l.
Proof.
  unfold wg_spec. intros H H1 H2.
  destruct (code l) eqn:E; auto; destruct w; auto; exfalso; [eapply H1|eapply H2]; reflexivity.
Qed.

Lemma wg_inv_sync s i ni j nj li lj s' :
  wg_inv s -> nth_error (procs s) i = Some li -> nth_error (procs s) j = Some lj ->
  sync_spec s i ni j nj li lj s' -> wg_inv s'.
Proof.
  intros [Hok Hc] Hi Hj Hs. inversion Hs; subst; clear Hs.
  destruct (send_offer_cont scr K _ _ _ _ _ H0) as (Hk1 & _ & _).
  destruct (recv_offer_cont scr K _ _ _ _ (Some v) H1) as (Hk2 & _ & _).
  assert (Hoi : ok li) by (eapply Forall_nth; eauto).
  assert (Hoj : ok lj) by (eapply Forall_nth; eauto).
  assert (Hh1 : live k = live li).
  { apply wg_spec_plain; [apply cont_live; auto| |];
      intros k' E; unfold send_offer in H0; rewrite E in H0; discriminate. }
  assert (Hh2 : live (kr (Some v)) = live lj).
  { apply wg_spec_plain; [apply cont_live; auto| |];
      intros k' E; unfold recv_offer in H1; rewrite E in H1; discriminate. }
  split; simpl.
  - apply Forall_set_nth;
      [apply Forall_set_nth; [exact Hok | exact (cont_ok li k Hoi Hk1)] | exact (cont_ok lj _ Hoj Hk2)].
  - pose proof (count_set_nth live (procs s) i li k Hi) as C1.
    assert (Hj' : nth_error (set_nth (procs s) i k) j = Some lj)
      by (rewrite nth_error_set_nth_neq; auto).
    pose proof (count_set_nth live _ j lj (kr (Some v)) Hj') as C2.
    rewrite Hh1 in C1. rewrite Hh2 in C2. rewrite Hc.
    destruct (live li), (live lj); lia.
Qed.

Lemma init_wg_inv p : wg_inv (init p).
Proof.
  split; simpl.
  - repeat constructor; simpl; auto. apply Forall_forall. intros x Hx.
    apply in_map_iff in Hx as (j & <- & _). simpl. auto.
  - assert (H : forall l : list nat, count live (map AtLookup l) = 0)
      by (induction l; simpl; auto).
    rewrite H. reflexivity.
Qed.

(** [waitHandlers] counts exactly the sessions between [waitHandlers.Add] and
    [waitHandlers.Done], in every reachable state, for any number of sessions;
    in particular its counter can never go negative. *)
Theorem wg_handlers_invariant p s :
  sreach all_fixed scr K (init p) s -> outcome s = None -> wg_inv s.
Proof.
  intros Hr. revert s Hr.
  apply (invariant_rule L ch vr lk wgn msg ch_eqb vr_eqb lk_eqb wgn_eqb code
           (fun s => outcome s = None -> wg_inv s)).
  - intros _. apply init_wg_inv.
  - intros s e s' IH Hs Ho.
    pose proof (step_to_spec _ _ _ _ _ _ _ _ _ _ _ _ _ _ Hs) as Hsp.
    inversion Hsp; subst.
    + match goal with Hn : nth_error (procs s) ?i = Some ?l, Hint : int_spec _ _ _ _ _ |- _ =>
        apply (wg_inv_int s _ _ _ s' (IH H) Hn Hint Ho) end.
    + match goal with Hsy : sync_spec _ _ _ _ _ _ _ _,
                      H1 : nth_error (procs s) ?i = Some ?li, H2 : nth_error (procs s) ?j = Some ?lj |- _ =>
        first [ apply (wg_inv_sync s _ _ _ _ _ _ s' (IH H) H1 H2 Hsy)
              | apply (wg_inv_sync s _ _ _ _ _ _ s' (IH H) H2 H1 Hsy) ] end.
Qed.

(** No [waitHandlers.Done] without a matching [Add]: the step of a handler at
    its [Done] never is the negative-counter panic. *)
Theorem wg_handlers_never_negative p s i l k :
  sreach all_fixed scr K (init p) s -> outcome s = None ->
  nth_error (procs s) i = Some l -> code l = AWgDone WHandlers k ->
  wgs s WHandlers <> 0.
Proof.
  intros Hr Ho Hn Hc.
  destruct (wg_handlers_invariant p s Hr Ho) as [Hok Hw].
  assert (Hol : ok l) by (eapply Forall_nth; eauto).
  assert (Hl : live l = true).
  { assert (Hk : cont (code l) k) by (rewrite Hc; constructor).
    pose proof (cont_live l k Hol Hk) as H. unfold wg_spec in H. rewrite Hc in H.
    destruct H as [H _]. exact H. }
  rewrite Hw. clear -Hn Hl. revert i Hn. induction (procs s) as [|x r IH]; intros [|i] Hn; simpl in *; try discriminate.
  - inversion Hn; subst. rewrite Hl. lia.
  - specialize (IH _ Hn). lia.
Qed.
End Wg.
