(** * Conc/ShutdownCloser — what holds while realm.close is past waitHandlers.Wait() (arbitrary K). *)

From Coq Require Import List Bool Arith NArith Lia.
From Nexus Require Import Conc.Machine Conc.MachineFacts Conc.Shutdown Conc.ShutdownProofs
  Conc.ShutdownLock Conc.ShutdownFlag Conc.ShutdownWg.
Import ListNotations.

Section Closer.
Variable scr : nat -> list msg * bool.
Variable K : nat.
Notation code := (code all_fixed scr K).
Notation cont := (cont L ch vr lk wgn msg).
Notation sstate := (Machine.state L ch vr lk wgn msg).
Notation int_spec := (MachineFacts.int_spec L ch vr lk wgn msg ch_eqb vr_eqb lk_eqb wgn_eqb code).
Notation sync_spec := (MachineFacts.sync_spec L ch vr lk wgn msg ch_eqb code).
Notation step_spec := (MachineFacts.step_spec L ch vr lk wgn msg ch_eqb vr_eqb lk_eqb wgn_eqb code).

(** Position of a run of realm.close (0 when the state is not such a run). *)
Definition cpos (l : L) : nat :=
  match l with
  | RunAt n _ _ => n
  | RunClosePeer _ n _ _ => n
  | _ => 0
  end.

(** [closer_inv]: a closer past [r.closed = true] sees the flag set; a closer
    past [waitHandlers.Wait()] sees the counter at zero. *)
Definition closer_inv (s : sstate) : Prop :=
  (vars s VRealmClosed = 0%N \/ vars s VRealmClosed = 1%N) /\
  (forall l, In l (procs s) -> 3 <= cpos l -> cpos l <= 18 -> vars s VRealmClosed = 1%N) /\
  (forall l, In l (procs s) -> 6 <= cpos l -> cpos l <= 17 -> wgs s WHandlers = 0).

(** How the position moves. *)
Definition cpos_spec (l k : L) : Prop :=
  cpos k = 0 \/ cpos k = cpos l \/ (cpos l <= 18 /\ cpos k = S (cpos l)) \/ (cpos l = 1 /\ cpos k = 18).

Lemma cont_cpos_runat n js k l' :
  wf (RunAt n js k) -> cont (code (RunAt n js k)) l' -> cpos_spec (RunAt n js k) l'.
Proof.
  intros Hw Hc. unfold cpos_spec. simpl in Hc. rewrite seq_fixed in Hc.
  do 19 (destruct n as [|n];
    [simpl in Hc; try (destruct js; simpl in Hc); inv_cont Hc; simpl;
     try (match goal with |- context[N.eqb ?a ?b] => destruct (N.eqb a b) end; simpl);
     auto; try (right; right; left; split; [lia|reflexivity]);
     try (right; right; right; split; reflexivity)|]).
  simpl in Hc. assert (E : nth_error (@nil sop) n = None) by (destruct n; reflexivity).
  rewrite E in Hc. inv_cont Hc. destruct Hw as [-> | ->]; simpl; auto.
Qed.

Lemma cont_cpos l k : ok l -> cont (code l) k -> cpos_spec l k.
Proof.
  intros Hw Hc.
  destruct l; try (apply cont_cpos_runat; [exact Hw|exact Hc]); unfold cpos_spec;
    try (destruct welcomed; [|contradiction]);
    try (destruct spawned; [contradiction|]).
  all: simpl in Hc;
    unfold handler_got, dealer_got, broker_got, router_got, hop_act, lop_act in Hc.
  all: case_all.
  all: inv_cont Hc; split_in; simpl in *; auto.
  all: case_all; simpl in *; auto.
  all: try (destruct Hw as [_ ->]; simpl; auto).
Qed.

Notation send_spec := (MachineFacts.send_spec L ch vr lk wgn msg ch_eqb).
Notation recv_spec := (MachineFacts.recv_spec L ch vr lk wgn msg ch_eqb).

Lemma spawn_cpos l c k : ok l -> code l = ASpawn c k -> cpos c = 0.
Proof.
  intros Hw Hc. destruct l;
    try (destruct welcomed; [|contradiction]);
    try (destruct spawned; [contradiction|]);
    simpl in Hc;
    unfold handler_got, dealer_got, broker_got, router_got, hop_act, lop_act in Hc;
    try (destruct (nth_error (realm_close_seq all_fixed) n) as [o|]; [destruct o; simpl in Hc|]);
    case_in Hc; try discriminate; inversion Hc; subst; reflexivity.
Qed.

(** Exact behaviour of the three closer steps the invariant depends on. *)
Lemma run_at_1 s i n js k s' :
  int_spec s i n (RunAt 1 js k) s' ->
  s' = set_proc s i (if N.eqb (vars s VRealmClosed) 0 then RunAt 2 js k else RunAt 18 js k).
Proof. intro H. inversion H; subst; simpl in *; try discriminate. inversion H0; subst. reflexivity. Qed.

Lemma run_at_2 s i n js k s' :
  int_spec s i n (RunAt 2 js k) s' ->
  s' = set_proc (set_var vr_eqb s VRealmClosed 1%N) i (RunAt 3 js k).
Proof. intro H. inversion H; subst; simpl in *; try discriminate. inversion H0; subst. reflexivity. Qed.

Lemma run_at_5 s i n js k s' :
  int_spec s i n (RunAt 5 js k) s' ->
  wgs s WHandlers = 0 /\ s' = set_proc s i (RunAt 6 js k).
Proof. intro H. inversion H; subst; simpl in *; try discriminate. inversion H0; subst. auto. Qed.

Lemma cpos_run l : 1 <= cpos l -> (exists n js k, l = RunAt n js k) \/ (exists j n js k, l = RunClosePeer j n js k).
Proof. destruct l; simpl; intro; try lia; [left|right]; repeat eexists. Qed.

Lemma closer_inv_int s i n l s' :
  lock_inv s -> flag_inv s -> wg_inv s -> closer_inv s ->
  nth_error (procs s) i = Some l ->
  int_spec s i n l s' -> outcome s' = None -> closer_inv s'.
Proof.
  intros HL HF [Hok _] (Hdom & Hflag & Hwg) Hn Hi Ho.
  assert (Hol : ok l) by (eapply Forall_nth; eauto).
  assert (Hl : In l (procs s)) by (eapply nth_error_In; eauto).
  destruct (int_step_lock scr K s i n l s' Hi Ho Hn) as (k & Hk & Hp & _).
  pose proof (cont_cpos l k Hol Hk) as Hcp.
  assert (Hfrom : forall l', In l' (procs s') -> 1 <= cpos l' -> l' = k \/ In l' (procs s)).
  { intros l' Hin Hc1. destruct Hp as [Hp | (c & Hsp & Hp)]; rewrite Hp in Hin.
    - apply In_set_nth in Hin. tauto.
    - apply in_app_or in Hin as [Hin|[<-|[]]].
      + apply In_set_nth in Hin. tauto.
      + rewrite (spawn_cpos l c k Hol Hsp) in Hc1. lia. }
  (* the flag after the step *)
  assert (Hv : vars s' VRealmClosed = vars s VRealmClosed \/ vars s' VRealmClosed = 1%N).
  { destruct (int_step_vars scr K s i n l s' VRealmClosed Hi Ho) as [E | (v & k0 & Hc & E)]; auto.
    destruct (code_write_flag scr K l v k0 Hc) as (-> & _). auto. }
  assert (Hmono : vars s VRealmClosed = 1%N -> vars s' VRealmClosed = 1%N)
    by (intro E; destruct Hv as [-> | ->]; auto).
  pose proof (int_step_wg scr K s i n l s' Hi Ho) as Hw.
  repeat split.
  - destruct Hv as [-> | ->]; auto.
  - (* flag *)
    intros l' Hin H3 H18.
    destruct (Hfrom l' Hin ltac:(lia)) as [-> | Hold]; [|apply Hmono; eapply Hflag; eauto].
    unfold cpos_spec in Hcp. destruct Hcp as [E|[E|[[E1 E2]|[E1 E2]]]]; try lia.
    + apply Hmono. eapply Hflag; eauto; lia.
    + destruct (Nat.eq_dec (cpos l) 2) as [E|E].
      * destruct (cpos_run l ltac:(lia)) as [(n0 & js & k0 & ->)|(j0 & n0 & js & k0 & ->)];
          simpl in E; subst.
        -- rewrite (run_at_2 _ _ _ _ _ _ Hi). simpl. unfold upd. simpl. reflexivity.
        -- destruct Hol as [_ Hn15]. simpl in E2. lia.
      * apply Hmono. eapply Hflag; eauto; lia.
    + destruct (cpos_run l ltac:(lia)) as [(n0 & js & k0 & ->)|(j0 & n0 & js & k0 & ->)];
        simpl in E1; subst.
      * rewrite (run_at_1 _ _ _ _ _ _ Hi). simpl.
        rewrite (run_at_1 _ _ _ _ _ _ Hi) in Hp. simpl in Hp.
        destruct (N.eqb (vars s VRealmClosed) 0) eqn:E0.
        -- (* took the normal branch: the continuation is RunAt 2, not position 18 *)
           exfalso. destruct Hp as [Hp | (c & Hsp & _)]; [|simpl in Hsp; discriminate].
           assert (Hlen : i < length (procs s)) by (apply nth_error_Some; congruence).
           pose proof (nth_error_set_nth_eq (procs s) i k Hlen) as A.
           rewrite <- Hp in A. rewrite nth_error_set_nth_eq in A by exact Hlen.
           inversion A as [A']. rewrite <- A' in E2. simpl in E2. lia.
        -- apply N.eqb_neq in E0. destruct Hdom; congruence.
      * destruct Hol as [_ Hn15]. lia.
  - (* waitHandlers *)
    intros l' Hin H6 H17.
    assert (Hflag1 : forall l0, In l0 (procs s) -> 6 <= cpos l0 -> cpos l0 <= 17 -> wgs s' WHandlers = 0).
    { intros l0 Hin0 A B.
      pose proof (Hwg l0 Hin0 A B) as W0. pose proof (Hflag l0 Hin0 ltac:(lia) ltac:(lia)) as F1.
      destruct (code l) eqn:E; simpl in Hw; try (rewrite Hw; exact W0).
      - destruct w; simpl in Hw; try (rewrite Hw; exact W0).
        (* waitHandlers.Add happens only under the lock with the flag clear *)
        exfalso.
        assert (joining l = true).
        { clear -E. destruct l; simpl in E;
            unfold handler_got, dealer_got, broker_got, router_got, hop_act, lop_act in E;
            try (destruct (nth_error (realm_close_seq all_fixed) n) as [o|]; [destruct o; simpl in E|]);
            case_in E; try discriminate; reflexivity. }
        rewrite (HF l Hl H) in F1. discriminate.
      - destruct w; simpl in Hw; try (rewrite Hw; exact W0). lia. }
    destruct (Hfrom l' Hin ltac:(lia)) as [-> | Hold]; [|eapply Hflag1; eauto].
    unfold cpos_spec in Hcp. destruct Hcp as [E|[E|[[E1 E2]|[E1 E2]]]]; try lia.
    + eapply Hflag1; eauto; lia.
    + destruct (Nat.eq_dec (cpos l) 5) as [E|E].
      * destruct (cpos_run l ltac:(lia)) as [(n0 & js & k0 & ->)|(j0 & n0 & js & k0 & ->)];
          simpl in E; subst.
        -- destruct (run_at_5 _ _ _ _ _ _ Hi) as [W0 ->]. simpl. exact W0.
        -- destruct Hol as [_ Hn15]. lia.
      * eapply Hflag1; eauto; lia.
Qed.

Lemma closer_inv_sync s i ni j nj li lj s' :
  wg_inv s -> closer_inv s ->
  nth_error (procs s) i = Some li -> nth_error (procs s) j = Some lj ->
  sync_spec s i ni j nj li lj s' -> closer_inv s'.
Proof.
  intros [Hok _] (Hdom & Hflag & Hwg) Hi Hj Hs. inversion Hs; subst; clear Hs.
  destruct (send_offer_cont scr K _ _ _ _ _ H0) as (Hk1 & _ & _).
  destruct (recv_offer_cont scr K _ _ _ _ (Some v) H1) as (Hk2 & _ & _).
  assert (Hoi : ok li) by (eapply Forall_nth; eauto).
  assert (Hoj : ok lj) by (eapply Forall_nth; eauto).
  assert (Hli : In li (procs s)) by (eapply nth_error_In; eauto).
  assert (Hlj : In lj (procs s)) by (eapply nth_error_In; eauto).
  pose proof (cont_cpos li k Hoi Hk1) as C1.
  pose proof (cont_cpos lj _ Hoj Hk2) as C2.
  (* a process at position 1, 2 or 5 of realm.close neither sends nor receives *)
  assert (Hno : forall l0, In l0 (procs s) -> ok l0 ->
            (cpos l0 = 1 \/ cpos l0 = 2 \/ cpos l0 = 5) ->
            (forall n0, send_offer code l0 n0 = None) /\ (forall c0 n0, recv_offer ch_eqb code l0 c0 n0 = None)).
  { intros l0 _ Hol0 Hc0.
    destruct (cpos_run l0 ltac:(lia)) as [(n0 & js & k0 & ->)|(j0 & n0 & js & k0 & ->)].
    - simpl in Hc0. destruct Hc0 as [->|[->| ->]]; split; intros; reflexivity.
    - destruct Hol0 as [_ ->]. simpl in Hc0. lia. }
  assert (Hstep : forall l0 k0, In l0 (procs s) -> ok l0 -> cpos_spec l0 k0 ->
            ((exists n0, send_offer code l0 n0 <> None) \/ (exists c0 n0, recv_offer ch_eqb code l0 c0 n0 <> None)) ->
            (3 <= cpos k0 -> cpos k0 <= 18 -> vars s VRealmClosed = 1%N) /\
            (6 <= cpos k0 -> cpos k0 <= 17 -> wgs s WHandlers = 0)).
  { intros l0 k0 Hin0 Hol0 Hsp Hoff. unfold cpos_spec in Hsp.
    assert (Hn125 : ~ (cpos l0 = 1 \/ cpos l0 = 2 \/ cpos l0 = 5)).
    { intro Hc0. destruct (Hno l0 Hin0 Hol0 Hc0) as [A B].
      destruct Hoff as [(n0 & Hx)|(c0 & n0 & Hx)]; [apply Hx, A|apply Hx, B]. }
    split; intros A B.
    - destruct Hsp as [E|[E|[[E1 E2]|[E1 E2]]]]; try lia.
      + eapply Hflag; eauto; lia.
      + eapply Hflag; eauto; lia.
    - destruct Hsp as [E|[E|[[E1 E2]|[E1 E2]]]]; try lia.
      + eapply Hwg; eauto; lia.
      + eapply Hwg; eauto; lia. }
  assert (S1 := Hstep li k Hli Hoi C1 ltac:(left; exists ni; rewrite H0; discriminate)).
  assert (S2 := Hstep lj (kr (Some v)) Hlj Hoj C2 ltac:(right; exists c, nj; rewrite H1; discriminate)).
  repeat split; simpl; auto.
  - intros l' Hin A B. apply In_set_nth in Hin as [-> | Hin]; [apply S2; auto|].
    apply In_set_nth in Hin as [-> | Hin]; [apply S1; auto|]. eapply Hflag; eauto.
  - intros l' Hin A B. apply In_set_nth in Hin as [-> | Hin]; [apply S2; auto|].
    apply In_set_nth in Hin as [-> | Hin]; [apply S1; auto|]. eapply Hwg; eauto.
Qed.

Lemma init_closer_inv p : closer_inv (init p).
Proof.
  repeat split; simpl; auto; intros l Hin A B; exfalso;
    repeat (destruct Hin as [<-|Hin]; [simpl in A; lia|]);
    apply in_map_iff in Hin as (j & <- & _); simpl in A; lia.
Qed.

Theorem closer_invariant p s :
  sreach all_fixed scr K (init p) s -> outcome s = None -> closer_inv s.
Proof.
  intros Hr. revert s Hr.
  apply (invariant_rule2 L ch vr lk wgn msg ch_eqb vr_eqb lk_eqb wgn_eqb code
           (fun s => outcome s = None -> lock_inv s /\ flag_inv s /\ wg_inv s)
           (fun s => outcome s = None -> closer_inv s)).
  - intros s Hr Ho. repeat split.
    + eapply lock_invariant; eauto.
    + eapply lock_invariant; eauto.
    + eapply flag_invariant; eauto.
    + eapply wg_handlers_invariant; eauto.
    + eapply wg_handlers_invariant; eauto.
  - intros _. apply init_closer_inv.
  - intros s e s' HJ _ IH Hs Ho.
    pose proof (step_to_spec _ _ _ _ _ _ _ _ _ _ _ _ _ _ Hs) as Hsp.
    inversion Hsp; subst.
    + destruct (HJ H) as (J1 & J2 & J3).
      match goal with Hn : nth_error (procs s) ?i = Some ?l, Hint : int_spec _ _ _ _ _ |- _ =>
        apply (closer_inv_int s _ _ _ s' J1 J2 J3 (IH H) Hn Hint Ho) end.
    + destruct (HJ H) as (J1 & J2 & J3).
      match goal with Hsy : sync_spec _ _ _ _ _ _ _ _,
                      H1 : nth_error (procs s) ?i = Some ?li, H2 : nth_error (procs s) ?j = Some ?lj |- _ =>
        first [ apply (closer_inv_sync s _ _ _ _ _ _ s' J3 (IH H) H1 H2 Hsy)
              | apply (closer_inv_sync s _ _ _ _ _ _ s' J3 (IH H) H2 H1 Hsy) ] end.
Qed.

(** ** Once realm.close is past waitHandlers.Wait(), no session handler is
    left and none can appear: this is what makes it safe to stop the meta
    session, the dealer and the broker afterwards. *)
Theorem handlers_gone_after_wait p s l :
  sreach all_fixed scr K (init p) s -> outcome s = None ->
  In l (procs s) -> 6 <= cpos l -> cpos l <= 17 ->
  vars s VRealmClosed = 1%N /\
  wgs s WHandlers = 0 /\
  (forall l', In l' (procs s) -> live l' = false) /\
  (forall l', In l' (procs s) -> joining l' = false).
Proof.
  intros Hr Ho Hin A B.
  destruct (closer_invariant p s Hr Ho) as (_ & Hflag & Hwg).
  destruct (wg_handlers_invariant scr K p s Hr Ho) as [_ Hcount].
  pose proof (Hflag l Hin ltac:(lia) ltac:(lia)) as F1.
  pose proof (Hwg l Hin A B) as W0.
  repeat split; auto.
  - intros l' Hin'. destruct (live l') eqn:E; auto. exfalso.
    rewrite W0 in Hcount. clear -Hin' E Hcount.
    induction (procs s) as [|x r IH]; [destruct Hin'|]. simpl in Hcount.
    destruct Hin' as [->|Hin']; [rewrite E in Hcount; lia|].
    apply IH; auto. destruct (live x); lia.
  - intros l' Hin'. destruct (joining l') eqn:E; auto.
    pose proof (flag_invariant scr K p s Hr Ho l' Hin' E). congruence.
Qed.
End Closer.
