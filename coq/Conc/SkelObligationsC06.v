(** * Conc/SkelObligationsC06 — per-run obligation of C06: the shutdown sequences
    of today's source are, by order, the ones [Conc/Shutdown.v] transcribes. *)

From Coq Require Import String List NArith Bool.
From Nexus Require Import Conc.SkelTypes Conc.Skeleton gen.GenSkeleton.
Import ListNotations.

Lemma skeleton_conforms_holds : skeleton_conforms gen_funcs gen_submitters = true.
Proof. vm_compute. reflexivity. Qed.

(** The close discipline also rests on the lock sections and on the
    attribution being closed (shared with C07). *)
(** Every sender on a channel that realm.close closes is awaited by it first. *)
Lemma closable_senders_covered_holds : closable_senders_covered gen_funcs = true.
Proof. vm_compute. reflexivity. Qed.

Lemma close_lock_sections_hold :
  lock_sections_ranked gen_funcs = true /\ attribution_closed gen_funcs gen_entries = true.
Proof. vm_compute. split; reflexivity. Qed.

(** No invocation leaves the dealer's table with its call-timeout timer running. *)
Lemma invocation_drops_cancel_timer_holds : invocation_drops_cancel_timer gen_invocation_drops = true.
Proof. vm_compute. reflexivity. Qed.

(** Closing a network peer never waits for a client that stopped reading. *)
Lemma peer_close_bounds_pending_write_holds :
  peer_close_bounds_pending_write gen_peer_close_bounds_write = true.
Proof. vm_compute. reflexivity. Qed.

(** A session handler never blocks on its client's queue (shared with C07):
    a handler stuck there would keep [waitHandlers.Wait()], i.e. Close and
    RemoveRealm, waiting for a client that stopped reading. *)
Lemma handlers_never_block_on_client_holds : no_blocking_send_to_client gen_funcs = true.
Proof. vm_compute. reflexivity. Qed.
