(** * Conc/Ranked — an abstract network of server processes with a rank.

    A process is either idle at its receive point, busy executing the script
    of the request it took, or waiting for the reply of a synchronous call.
    A script is a finite list of actions: local (non-blocking) steps and calls
    — a rendezvous with another process that must be idle to take it (an
    unbuffered action channel, an unbuffered peer channel), either handed off
    (the caller continues) or synchronous (the caller waits until the callee
    has finished the request's script: the [done]/[sync]/[retChan] rendezvous
    on a reply channel created by the caller).  The environment submits
    requests to idle processes at any time.

    There is no bound on the number of processes ([P] is any type with a
    decidable equality) nor on the scripts.  Definitions only; the theorem
    [ranked_progress] is in [Conc/RankedProofs.v]. *)

From Coq Require Import List Bool Arith.
Import ListNotations.

Section Ranked.

Variable P : Type.                       (* process names *)
Variable P_eqb : P -> P -> bool.
Variable H : Type.                       (* request kinds *)
Variable rank : P -> nat.

Inductive action : Type :=
| ALocal                                  (* a step that cannot block: trySend, close, bookkeeping *)
| ACall (q : P) (h : H) (sync : bool).    (* rendezvous with q, which must be idle *)

Variable script : P -> H -> list action.

Inductive pst : Type :=
| Idle
| Busy (todo : list action) (reply : option P)
| Wait (callee : P) (todo : list action) (reply : option P).

(** [st]: the state of every process; [support]: a finite list containing
    every process that is not idle (only used to measure remaining work). *)
Record state : Type := mkSt { st : P -> pst; support : list P }.

Definition upd (f : P -> pst) (p : P) (x : pst) : P -> pst :=
  fun y => if P_eqb y p then x else f y.

Definition init : state := mkSt (fun _ => Idle) [].

(** Internal steps of the network. *)
Inductive istep : state -> state -> Prop :=
| st_local p r rp s :
    st s p = Busy (ALocal :: r) rp ->
    istep s (mkSt (upd (st s) p (Busy r rp)) (support s))
| st_call_async p q h r rp s :
    st s p = Busy (ACall q h false :: r) rp -> st s q = Idle ->
    istep s (mkSt (upd (upd (st s) p (Busy r rp)) q (Busy (script q h) None)) (q :: support s))
| st_call_sync p q h r rp s :
    st s p = Busy (ACall q h true :: r) rp -> st s q = Idle ->
    istep s (mkSt (upd (upd (st s) p (Wait q r rp)) q (Busy (script q h) (Some p))) (q :: support s))
| st_finish q s :
    st s q = Busy [] None ->
    istep s (mkSt (upd (st s) q Idle) (support s))
| st_finish_reply q p r rp s :
    st s q = Busy [] (Some p) -> st s p = Wait q r rp ->
    istep s (mkSt (upd (upd (st s) q Idle) p (Busy r rp)) (support s)).

(** The environment hands a request to an idle process. *)
Inductive estep : state -> state -> Prop :=
| st_submit q h s :
    st s q = Idle ->
    estep s (mkSt (upd (st s) q (Busy (script q h) None)) (q :: support s)).

Inductive reach : state -> Prop :=
| reach_init : reach init
| reach_i s s' : reach s -> istep s s' -> reach s'
| reach_e s s' : reach s -> estep s s' -> reach s'.

(** The hypothesis of the theorem: every call in every script goes to a
    process of strictly lower rank.  (A rank-0 process therefore has no call
    at all: it never blocks.) *)
Definition calls_lower (l : list action) (n : nat) : Prop :=
  forall q h b, In (ACall q h b) l -> rank q < n.

Definition ranked : Prop := forall p h, calls_lower (script p h) (rank p).

(** A state is quiescent when every process is idle. *)
Definition quiescent (s : state) : Prop := forall p, st s p = Idle.

(** A process is blocked in [s] when it is busy at a call whose target is not idle. *)
Definition pending_call (s : state) (p q : P) : Prop :=
  exists h b r rp, st s p = Busy (ACall q h b :: r) rp.

(** Remaining work.  [acost n]: cost of an action for a process of rank at
    most [n]; a call costs the callee's whole script (by recursion on the
    rank bound) plus the hand-over and the finish. *)
Fixpoint lcost (n : nat) : list action -> nat :=
  fix go (l : list action) : nat :=
    match l with
    | [] => 0
    | ALocal :: r => 1 + go r
    | ACall q h _ :: r =>
        match n with
        | O => 1 + go r
        | S n' => 3 + lcost n' (script q h) + go r
        end
    end.

Definition pcost (p : P) (x : pst) : nat :=
  match x with
  | Idle => 0
  | Busy l _ => 1 + lcost (rank p) l
  | Wait _ l _ => 1 + lcost (rank p) l
  end.

Fixpoint mem (p : P) (l : list P) : bool :=
  match l with [] => false | x :: r => P_eqb x p || mem p r end.

Fixpoint dedup (l : list P) : list P :=
  match l with [] => [] | x :: r => if mem x r then dedup r else x :: dedup r end.

Fixpoint sum_over (f : P -> nat) (l : list P) : nat :=
  match l with [] => 0 | x :: r => f x + sum_over f r end.

Definition measure (s : state) : nat :=
  sum_over (fun p => pcost p (st s p)) (dedup (support s)).

End Ranked.
