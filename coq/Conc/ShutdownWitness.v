(** * Conc/ShutdownWitness — the model of the CURRENT code violates the statements.

    With the repair flags off, [Conc/Shutdown.v] is the close protocol as it is
    in /repo today.  Each witness below is a concrete run, computed by the
    policy scheduler and replayed by [vm_compute]; the same schedules are what
    the harness (go/cmd/concdrive) reproduces against the real router. *)

From Coq Require Import List Bool Arith NArith.
From Nexus Require Import Conc.Machine Conc.MachineFacts Conc.Shutdown.
Import ListNotations.

Definition current : fixes := mkFixes false false false false false.

Definition p1 (k : closer_kind) : params := mkParams k 1 (fun _ => 2) 4.
Definition p2 (k : closer_kind) : params := mkParams k 2 (fun _ => 2) 4.

Definition panics (fx : fixes) (scr : nat -> list msg * bool) (K : nat) (p : params) (tr : list ev)
  : bool :=
  match srun fx scr K (init p) tr with
  | Some s => match outcome s with Some PanicSendClosed => true | _ => false end
  | None => false
  end.

Lemma panics_sound fx scr K p tr :
  panics fx scr K p tr = true ->
  exists s, srun fx scr K (init p) tr = Some s /\ outcome s = Some PanicSendClosed.
Proof.
  unfold panics. destruct (srun fx scr K (init p) tr) as [s|]; try discriminate.
  destruct (outcome s) as [[]|] eqn:E; try discriminate. intros _. exists s. auto.
Qed.

(** *** D2 — a call timer outlives the dealer.
    One session calls with a timeout; Close runs to completion; then the timer fires. *)
Definition scr_timer (j : nat) : list msg * bool := ([CmCall true], false).
Definition tr_timer : list ev :=
  Eval vm_compute in fst (policy current scr_timer 1 2 300 (init (p1 ByClose)) [7; 8; 3; 4; 2; 5; 6; 1; 0; 9]).

Theorem current_timer_panics :
  exists s, srun current scr_timer 1 (init (p1 ByClose)) tr_timer = Some s /\
            outcome s = Some PanicSendClosed.
Proof. apply panics_sound. vm_compute. reflexivity. Qed.

(** *** D6 — at shutdown a handler closes its peer while the broker still holds it.
    Session 0 subscribed (the broker knows it); Close kicks everybody; handler 0
    exits and closes its peer; handler 1 still takes its client's PUBLISH. *)
Definition scr_pub (j : nat) : list msg * bool := ([CmPub], false).
Definition tr_peer : list ev :=
  Eval vm_compute in
    let ph1 := policy current scr_pub 2 2 300 (init (p2 ByClose)) [7; 9; 3; 4; 2; 5; 6; 1; 8] in
    let ph2 := policy current scr_pub 2 2 300 (snd ph1) [0; 1; 2; 9; 3; 4; 5; 6] in
    let ph3 := match srun current scr_pub 2 (snd ph2) [EInt 10 1] with
               | Some s => policy current scr_pub 2 2 300 s [10; 4]
               | None => ([], snd ph2)
               end in
    fst ph1 ++ fst ph2 ++ [EInt 10 1] ++ fst ph3.

Theorem current_shutdown_peer_panics :
  exists s, srun current scr_pub 2 (init (p2 ByClose)) tr_peer = Some s /\
            outcome s = Some PanicSendClosed.
Proof. apply panics_sound. vm_compute. reflexivity. Qed.

(** *** D3 — WELCOME is sent on a peer the handler already closed.
    The client pipelines GOODBYE after HELLO; the freshly started handler exits first. *)
Definition scr_bye (j : nat) : list msg * bool := ([CmBye], false).
Definition tr_welcome : list ev :=
  Eval vm_compute in fst (policy current scr_bye 1 2 300 (init (p1 ByClose)) [8; 1; 2; 3; 4; 5; 6; 7]).

Theorem current_welcome_panics :
  exists s, srun current scr_bye 1 (init (p1 ByClose)) tr_welcome = Some s /\
            outcome s = Some PanicSendClosed.
Proof. apply panics_sound. vm_compute. reflexivity. Qed.

(** *** D7 — Attach after Close sends on the router's closed action channel. *)
Definition scr_none (j : nat) : list msg * bool := ([], false).
Definition tr_late : list ev :=
  Eval vm_compute in fst (policy current scr_none 1 2 300 (init (p1 ByClose)) [0; 1; 2; 3; 4; 5; 6; 7]).

Theorem current_late_attach_panics :
  exists s, srun current scr_none 1 (init (p1 ByClose)) tr_late = Some s /\
            outcome s = Some PanicSendClosed.
Proof. apply panics_sound. vm_compute. reflexivity. Qed.

(** *** D4 — Close never returns: metaProcedureHandler is left blocked on the
    meta peer after the meta-session handler has exited.  A meta procedure call
    is in flight when Close is invoked. *)
Definition scr_meta (j : nat) : list msg * bool := ([CmMeta], false).
Definition tr_meta : list ev :=
  Eval vm_compute in fst (policy current scr_meta 1 2 300 (init (p1 ByClose)) [7; 8; 3; 4; 2; 5; 1; 0; 6]).

Definition deadlocks (fx : fixes) (scr : nat -> list msg * bool) (K : nat) (p : params) (tr : list ev)
  : bool :=
  match srun fx scr K (init p) tr with
  | Some s => is_deadlock_b ch_eqb vr_eqb lk_eqb wgn_eqb (code fx scr K) 2 s
  | None => false
  end.

Theorem current_meta_deadlocks :
  exists s, srun current scr_meta 1 (init (p1 ByClose)) tr_meta = Some s /\
            deadlock ch_eqb vr_eqb lk_eqb wgn_eqb (code current scr_meta 1) s.
Proof.
  assert (H : deadlocks current scr_meta 1 (p1 ByClose) tr_meta = true) by (vm_compute; reflexivity).
  unfold deadlocks in H.
  destruct (srun current scr_meta 1 (init (p1 ByClose)) tr_meta) as [s|]; try discriminate.
  exists s. split; auto. eapply is_deadlock_b_sound; eauto.
Qed.

(** The same schedules are harmless in the repaired model. *)
Definition ends_well (scr : nat -> list msg * bool) (K : nat) (p : params) (prio : list nat) : bool :=
  let r := policy all_fixed scr K 2 400 (init p) prio in
  match outcome (snd r) with
  | None => all_done (code all_fixed scr K) (snd r)
  | Some _ => false
  end.

Example repaired_runs_end_well :
  ends_well scr_timer 1 (p1 ByClose) [7; 8; 3; 4; 2; 5; 6; 1; 0; 9] = true /\
  ends_well scr_bye 1 (p1 ByClose) [8; 1; 2; 3; 4; 5; 6; 7; 0] = true /\
  ends_well scr_none 1 (p1 ByClose) [0; 1; 2; 3; 4; 5; 6; 7] = true /\
  ends_well scr_meta 1 (p1 ByClose) [7; 8; 3; 4; 2; 5; 1; 0; 6] = true /\
  ends_well scr_pub 2 (p2 ByRemoveRealm) [7; 8; 3; 4; 2; 5; 6; 1; 0] = true.
Proof. vm_compute. repeat split; reflexivity. Qed.
