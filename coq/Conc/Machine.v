(** * Conc/Machine — a generic, executable process / channel machine.

    Processes are values of a type [L] of local states ("program counters");
    [code : L -> act] gives the one action a process can do next, with its
    continuation(s).  Channels have a capacity, a buffer and a closed flag and
    behave like Go channels: a send on a closed channel and a close of a closed
    channel are the distinguished outcomes [PanicSendClosed] and
    [PanicCloseClosed]; a capacity-0 channel is a rendezvous between a sender
    and a receiver (event [ESync]).  Mutexes, wait groups, shared variables and
    process creation complete the vocabulary.  Nothing here is specific to
    nexus; the models are [Conc/Shutdown.v] (C06) and the witnesses of C07.

    Definitions only; facts are in [Conc/MachineFacts.v]. *)

From Coq Require Import List Bool Arith NArith.
Import ListNotations.

Set Implicit Arguments.

Section Machine.

(** Local states, channel / variable / lock / wait-group names, values. *)
Variables L chan var lock wgid val : Type.
Variable chan_eqb : chan -> chan -> bool.
Variable var_eqb : var -> var -> bool.
Variable lock_eqb : lock -> lock -> bool.
Variable wg_eqb : wgid -> wgid -> bool.

Inductive panic_kind : Type :=
| PanicSendClosed      (* send on closed channel *)
| PanicCloseClosed     (* close of closed channel *)
| PanicWgNegative.     (* negative WaitGroup counter *)

(** A case of a select: receive or send. *)
Inductive scase : Type :=
| SRecv (c : chan) (k : option val -> L)
| SSend (c : chan) (v : val) (k : L).

(** The next action of a process.  Continuations are local states. *)
Inductive act : Type :=
| ASend (c : chan) (v : val) (k : L)
    (* c <- v : blocks while the buffer is full (capacity 0: until a receiver is there) *)
| ARecv (c : chan) (k : option val -> L)
    (* v, ok := <-c : [None] when the channel is closed and drained *)
| ATrySend (c : chan) (v : val) (kok kfull : L)
    (* select { case c <- v: kok  default: kfull } *)
| ATrySendAll (cs : list chan) (v : val) (k : L)
    (* a loop of trySends executed by one goroutine that does not block in between *)
| AClose (c : chan) (k : L)
| ACloseOnce (cs : list chan) (k : L)
    (* idempotent close of each (wamp.Session.EndRecv): never panics *)
| ASelect (rs : list scase) (dflt : option L)
    (* select over receive and send cases, with or without default *)
| ALock (m : lock) (k : L)
| AUnlock (m : lock) (k : L)
| AWgAdd (w : wgid) (k : L)
| AWgDone (w : wgid) (k : L)
| AWgWait (w : wgid) (k : L)
| ASpawn (child : L) (k : L)
| ARead (x : var) (k : N -> L)
| AWrite (x : var) (v : N) (k : L)
| ATau (k : L)
| ADone.

Variable code : L -> act.

Record cst : Type := mkCst { c_cap : nat; c_buf : list val; c_closed : bool }.

Record state : Type := mkState {
  procs : list L;
  chans : chan -> cst;
  vars : var -> N;
  locks : lock -> bool;
  wgs : wgid -> nat;
  outcome : option panic_kind
}.

(** Events: which process moves (and which select case it takes), or which
    sender / receiver pair (with their select cases) meets on an unbuffered
    channel. *)
Inductive ev : Type :=
| EInt (i : nat) (n : nat)
| ESync (i ni j nj : nat).

Definition upd {A B : Type} (eqb : A -> A -> bool) (f : A -> B) (a : A) (b : B) : A -> B :=
  fun x => if eqb x a then b else f x.

Fixpoint set_nth {A : Type} (l : list A) (i : nat) (a : A) : list A :=
  match l, i with
  | [], _ => []
  | _ :: t, O => a :: t
  | h :: t, S i' => h :: set_nth t i' a
  end.

Definition set_proc (s : state) (i : nat) (l : L) : state :=
  mkState (set_nth (procs s) i l) (chans s) (vars s) (locks s) (wgs s) (outcome s).

Definition set_chan (s : state) (c : chan) (x : cst) : state :=
  mkState (procs s) (upd chan_eqb (chans s) c x) (vars s) (locks s) (wgs s) (outcome s).

Definition set_var (s : state) (x : var) (v : N) : state :=
  mkState (procs s) (chans s) (upd var_eqb (vars s) x v) (locks s) (wgs s) (outcome s).

Definition set_lock (s : state) (m : lock) (b : bool) : state :=
  mkState (procs s) (chans s) (vars s) (upd lock_eqb (locks s) m b) (wgs s) (outcome s).

Definition set_wg (s : state) (w : wgid) (n : nat) : state :=
  mkState (procs s) (chans s) (vars s) (locks s) (upd wg_eqb (wgs s) w n) (outcome s).

Definition set_panic (s : state) (p : panic_kind) : state :=
  mkState (procs s) (chans s) (vars s) (locks s) (wgs s) (Some p).

Definition add_proc (s : state) (l : L) : state :=
  mkState (procs s ++ [l]) (chans s) (vars s) (locks s) (wgs s) (outcome s).

Definition push (s : state) (c : chan) (v : val) : state :=
  let x := chans s c in set_chan s c (mkCst (c_cap x) (c_buf x ++ [v]) (c_closed x)).

Definition has_room (x : cst) : bool := Nat.ltb (length (c_buf x)) (c_cap x).

(** trySend of [v] on each channel of [cs] in turn: [None] = one of them is closed. *)
Fixpoint try_all (s : state) (cs : list chan) (v : val) : option state :=
  match cs with
  | [] => Some s
  | c :: r =>
      let x := chans s c in
      if c_closed x then None
      else try_all (if has_room x then push s c v else s) r v
  end.

Fixpoint close_all (s : state) (cs : list chan) : state :=
  match cs with
  | [] => s
  | c :: r => let x := chans s c in close_all (set_chan s c (mkCst (c_cap x) (c_buf x) true)) r
  end.

(** A receive by process [i] on [c] with continuation [k], from the buffer or
    from the closed flag. *)
Definition recv_step (s : state) (i : nat) (c : chan) (k : option val -> L) : option state :=
  let x := chans s c in
  match c_buf x with
  | v :: r => Some (set_proc (set_chan s c (mkCst (c_cap x) r (c_closed x))) i (k (Some v)))
  | [] => if c_closed x then Some (set_proc s i (k None)) else None
  end.

(** A buffered send by process [i]: panics on a closed channel, blocks
    ([None]) while there is no room. *)
Definition send_step (s : state) (i : nat) (c : chan) (v : val) (k : L) : option state :=
  let x := chans s c in
  if c_closed x then Some (set_panic s PanicSendClosed)
  else if has_room x then Some (set_proc (push s c v) i k) else None.

Definition step_int (s : state) (i n : nat) (l : L) : option state :=
  match code l with
  | ASend c v k => send_step s i c v k
  | ARecv c k => recv_step s i c k
  | ATrySend c v kok kfull =>
      let x := chans s c in
      if c_closed x then Some (set_panic s PanicSendClosed)
      else if has_room x then Some (set_proc (push s c v) i kok) else Some (set_proc s i kfull)
  | ATrySendAll cs v k =>
      match try_all s cs v with
      | None => Some (set_panic s PanicSendClosed)
      | Some s' => Some (set_proc s' i k)
      end
  | AClose c k =>
      let x := chans s c in
      if c_closed x then Some (set_panic s PanicCloseClosed)
      else Some (set_proc (set_chan s c (mkCst (c_cap x) (c_buf x) true)) i k)
  | ACloseOnce cs k => Some (set_proc (close_all s cs) i k)
  | ASelect rs dflt =>
      match nth_error rs n with
      | Some (SRecv c k) => recv_step s i c k
      | Some (SSend c v k) => send_step s i c v k
      | None => match dflt with Some k => Some (set_proc s i k) | None => None end
      end
  | ALock m k => if locks s m then None else Some (set_proc (set_lock s m true) i k)
  | AUnlock m k => Some (set_proc (set_lock s m false) i k)
  | AWgAdd w k => Some (set_proc (set_wg s w (S (wgs s w))) i k)
  | AWgDone w k =>
      match wgs s w with
      | O => Some (set_panic s PanicWgNegative)
      | S m => Some (set_proc (set_wg s w m) i k)
      end
  | AWgWait w k => match wgs s w with O => Some (set_proc s i k) | S _ => None end
  | ASpawn child k => Some (add_proc (set_proc s i k) child)
  | ARead x k => Some (set_proc s i (k (vars s x)))
  | AWrite x v k => Some (set_proc (set_var s x v) i k)
  | ATau k => Some (set_proc s i k)
  | ADone => None
  end.

(** The receive continuation process [l] offers on channel [c] (case [n] of a
    select, or its plain receive), and the send it offers. *)
Definition recv_offer (l : L) (c : chan) (n : nat) : option (option val -> L) :=
  match code l with
  | ARecv c' k => if chan_eqb c' c then Some k else None
  | ASelect rs _ =>
      match nth_error rs n with
      | Some (SRecv c' k) => if chan_eqb c' c then Some k else None
      | _ => None
      end
  | _ => None
  end.

Definition send_offer (l : L) (n : nat) : option (chan * val * L) :=
  match code l with
  | ASend c v k => Some (c, v, k)
  | ASelect rs _ =>
      match nth_error rs n with
      | Some (SSend c v k) => Some (c, v, k)
      | _ => None
      end
  | _ => None
  end.

Definition step_sync (s : state) (i ni j nj : nat) (li lj : L) : option state :=
  if Nat.eqb i j then None else
  match send_offer li ni with
  | Some (c, v, k) =>
      let x := chans s c in
      if c_closed x then None
      else match c_cap x, c_buf x with
           | O, [] =>
               match recv_offer lj c nj with
               | Some kr => Some (set_proc (set_proc s i k) j (kr (Some v)))
               | None => None
               end
           | _, _ => None
           end
  | None => None
  end.

(** One step.  After a panic nothing moves (the Go process is gone). *)
Definition step (s : state) (e : ev) : option state :=
  match outcome s with
  | Some _ => None
  | None =>
      match e with
      | EInt i n =>
          match nth_error (procs s) i with
          | Some l => step_int s i n l
          | None => None
          end
      | ESync i ni j nj =>
          match nth_error (procs s) i, nth_error (procs s) j with
          | Some li, Some lj => step_sync s i ni j nj li lj
          | _, _ => None
          end
      end
  end.

Fixpoint run (s : state) (tr : list ev) : option state :=
  match tr with
  | [] => Some s
  | e :: r => match step s e with Some s' => run s' r | None => None end
  end.

Definition reachable (s0 s : state) : Prop := exists tr, run s0 tr = Some s.

Definition is_done (l : L) : bool := match code l with ADone => true | _ => false end.

Definition all_done (s : state) : bool := forallb is_done (procs s).

(** [Done]: every process has finished.  [stuck]: no event is enabled. *)
Definition stuck (s : state) : Prop := forall e, step s e = None.

Definition deadlock (s : state) : Prop :=
  outcome s = None /\ all_done s = false /\ stuck s.

(** Executable enumeration of candidate events, for witnesses by computation:
    every enabled event of [s] is among [candidates w s] when no select of [s]
    has more than [w] cases (MachineFacts.candidates_complete). *)
Definition candidates (w : nat) (s : state) : list ev :=
  let idx := seq 0 (length (procs s)) in
  flat_map (fun i => map (EInt i) (seq 0 (S w))) idx ++
  flat_map (fun i => flat_map (fun ni => flat_map (fun j =>
     map (ESync i ni j) (seq 0 (S w))) idx) (seq 0 (S w))) idx.

Definition is_stuck_b (w : nat) (s : state) : bool :=
  forallb (fun e => match step s e with None => true | Some _ => false end) (candidates w s).

Definition select_width (l : L) : nat :=
  match code l with ASelect rs _ => length rs | _ => 0 end.

Definition width_ok (w : nat) (s : state) : bool :=
  forallb (fun l => Nat.leb (select_width l) w) (procs s).

Definition is_deadlock_b (w : nat) (s : state) : bool :=
  match outcome s with
  | Some _ => false
  | None => negb (all_done s) && width_ok w s && is_stuck_b w s
  end.

End Machine.

Arguments ASend {L chan var lock wgid val}.
Arguments ARecv {L chan var lock wgid val}.
Arguments ATrySend {L chan var lock wgid val}.
Arguments ATrySendAll {L chan var lock wgid val}.
Arguments AClose {L chan var lock wgid val}.
Arguments ACloseOnce {L chan var lock wgid val}.
Arguments ASelect {L chan var lock wgid val}.
Arguments ALock {L chan var lock wgid val}.
Arguments AUnlock {L chan var lock wgid val}.
Arguments AWgAdd {L chan var lock wgid val}.
Arguments AWgDone {L chan var lock wgid val}.
Arguments AWgWait {L chan var lock wgid val}.
Arguments ASpawn {L chan var lock wgid val}.
Arguments ARead {L chan var lock wgid val}.
Arguments AWrite {L chan var lock wgid val}.
Arguments ATau {L chan var lock wgid val}.
Arguments ADone {L chan var lock wgid val}.
Arguments mkCst {val}.
Arguments SRecv {L chan val}.
Arguments SSend {L chan val}.
Arguments mkState {L chan var lock wgid val}.
