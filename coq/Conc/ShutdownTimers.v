(** * Conc/ShutdownTimers — dealer.timers counts exactly the live call-timer goroutines (arbitrary K). *)

From Coq Require Import List Bool Arith NArith Lia.
From Nexus Require Import Conc.Machine Conc.MachineFacts Conc.Shutdown Conc.ShutdownProofs
  Conc.ShutdownLock Conc.ShutdownFlag Conc.ShutdownWg.
Import ListNotations.

Section Timers.
Variable scr : nat -> list msg * bool.
Variable K : nat.
Notation code := (code all_fixed scr K).
Notation cont := (cont L ch vr lk wgn msg).
Notation sstate := (Machine.state L ch vr lk wgn msg).
Notation int_spec := (MachineFacts.int_spec L ch vr lk wgn msg ch_eqb vr_eqb lk_eqb wgn_eqb code).
Notation send_spec := (MachineFacts.send_spec L ch vr lk wgn msg ch_eqb).
Notation recv_spec := (MachineFacts.recv_spec L ch vr lk wgn msg ch_eqb).
Notation sync_spec := (MachineFacts.sync_spec L ch vr lk wgn msg ch_eqb code).
Notation step_spec := (MachineFacts.step_spec L ch vr lk wgn msg ch_eqb vr_eqb lk_eqb wgn_eqb code).

(** [tlive l]: counted in [dealer.timers]: a timer goroutine that has not done
    its [Done], or the dealer between [timers.Add(1)] and the [go] statement. *)
Definition tlive (l : L) : bool :=
  match l with
  | TmWait _ | TmFire _ | TmEnd _ => true
  | DlArm _ _ _ stage => Nat.leb 2 stage
  | _ => false
  end.

Definition wgt_spec (l k : L) : Prop :=
  match code l with
  | AWgAdd WTimers _ => tlive l = false /\ tlive k = true
  | AWgDone WTimers _ => tlive l = true /\ tlive k = false
  | ASpawn c _ => tlive l = true /\ tlive k = false /\ tlive c = true
  | _ => tlive k = tlive l
  end.

Lemma cont_tlive l k : ok l -> cont (code l) k -> wgt_spec l k.
Proof.
  intros Hw Hc. unfold wgt_spec.
  destruct l;
    try (destruct welcomed; [|contradiction]);
    try (destruct spawned; [contradiction|]);
    try (simpl in Hw; unfold hsuffix in Hw; simpl in Hw;
         destruct Hw as [->|[->|[->|[->|[->| ->]]]]]).
  all: simpl in Hc;
    unfold handler_got, dealer_got, broker_got, router_got, hop_act, lop_act in Hc;
    simpl; unfold handler_got, dealer_got, broker_got, router_got, hop_act, lop_act.
  all: try (destruct (nth_error (realm_close_seq all_fixed) n) as [o|] eqn:En;
            [destruct o; simpl in *|]).
  all: case_all.
  all: inv_cont Hc; split_in; simpl in *; auto.
  all: case_all; simpl in *; auto.
  all: try (destruct Hw as [-> | ->]; reflexivity).
  all: try (destruct Hw as [[-> | ->] _]; reflexivity).
  all: try contradiction.
Qed.

Ltac inv_specs :=
  repeat match goal with
  | H : send_spec _ _ _ _ _ _ |- _ => inversion H; subst; clear H
  | H : recv_spec _ _ _ _ _ |- _ => inversion H; subst; clear H
  end.

Lemma int_step_wgt s i n l s' :
  int_spec s i n l s' -> outcome s' = None ->
  match code l with
  | AWgAdd WTimers _ => wgs s' WTimers = S (wgs s WTimers)
  | AWgDone WTimers _ => S (wgs s' WTimers) = wgs s WTimers
  | _ => wgs s' WTimers = wgs s WTimers
  end.
Proof.
  intros Hi Ho.
  inversion Hi; subst; clear Hi; inv_specs; try (simpl in Ho; discriminate);
  match goal with Hc : code l = _ |- _ => rewrite Hc end; simpl; auto.
  - destruct (try_all_locks _ _ _ _ H0) as (_ & A & _). rewrite A. reflexivity.
  - destruct (close_all_locks cs s) as (_ & A & _). rewrite A. reflexivity.
  - destruct w; simpl; unfold upd; simpl; auto.
  - destruct w; simpl; unfold upd; simpl; auto.
Qed.

Definition wgt_inv (s : sstate) : Prop :=
  Forall ok (procs s) /\ wgs s WTimers = count tlive (procs s).

Lemma wgt_inv_int s i n l s' :
  wgt_inv s -> nth_error (procs s) i = Some l ->
  int_spec s i n l s' -> outcome s' = None -> wgt_inv s'.
Proof.
  intros [Hok Hc] Hn Hi Ho.
  assert (Hol : ok l) by (eapply Forall_nth; eauto).
  destruct (int_step_lock scr K s i n l s' Hi Ho Hn) as (k & Hk & Hp & _).
  pose proof (cont_tlive l k Hol Hk) as Hl.
  pose proof (cont_ok scr K l k Hol Hk) as Hokk.
  pose proof (count_set_nth tlive (procs s) i l k Hn) as Hcnt.
  pose proof (int_step_wgt s i n l s' Hi Ho) as Hw.
  assert (Hok' : Forall ok (procs s')).
  { destruct Hp as [-> | (c & Hsp & ->)].
    - apply Forall_set_nth; auto.
    - apply Forall_app; split;
        [apply Forall_set_nth; auto | constructor; [apply (ok_spawn scr K l c k Hol Hsp) | constructor]]. }
  split; auto.
  unfold wgt_spec in Hl.
  assert (Hlen_spawn : forall c k0, code l = ASpawn c k0 -> length (procs s') = S (length (procs s))).
  { intros c k0 E. inversion Hi; subst; try (rewrite E in *; discriminate).
    simpl. rewrite app_length, length_set_nth. simpl. lia. }
  destruct Hp as [Hp | (c & Hsp & Hp)]; [|rewrite Hp].
  - destruct (code l) eqn:E; simpl in Hl, Hw;
      try (rewrite Hp; rewrite Hw; rewrite Hl in Hcnt; destruct (tlive l); lia).
    + destruct w; simpl in Hl, Hw;
        try (rewrite Hp; rewrite Hw; rewrite Hl in Hcnt; destruct (tlive l); lia).
      destruct Hl as [H1 H2]. rewrite Hp. rewrite H1, H2 in Hcnt. lia.
    + destruct w; simpl in Hl, Hw;
        try (rewrite Hp; rewrite Hw; rewrite Hl in Hcnt; destruct (tlive l); lia).
      destruct Hl as [H1 H2]. rewrite Hp. rewrite H1, H2 in Hcnt. lia.
    + (* a spawn whose child was not appended cannot happen *)
      exfalso. apply (f_equal (@length L)) in Hp. rewrite length_set_nth in Hp.
      rewrite (Hlen_spawn _ _ eq_refl) in Hp. lia.
  - rewrite Hsp in Hl, Hw. destruct Hl as (H1 & H2 & H3).
    rewrite count_app. simpl. rewrite H3. rewrite H1, H2 in Hcnt. rewrite Hw. lia.
Qed.

Lemma wgt_spec_plain l k :
  wgt_spec l k ->
  (forall k', code l <> AWgAdd WTimers k') -> (forall k', code l <> AWgDone WTimers k') ->
  (forall c k', code l <> ASpawn c k') ->
  tlive k = tlive l.
Proof.
  unfold wgt_spec. intros H H1 H2 H3.
  destruct (code l) eqn:E; auto.
  - destruct w; auto. exfalso. eapply H1. reflexivity.
  - destruct w; auto. exfalso. eapply H2. reflexivity.
  - exfalso. eapply H3. reflexivity.
Qed.

Lemma wgt_inv_sync s i ni j nj li lj s' :
  wgt_inv s -> nth_error (procs s) i = Some li -> nth_error (procs s) j = Some lj ->
  sync_spec s i ni j nj li lj s' -> wgt_inv s'.
Proof.
  intros [Hok Hc] Hi Hj Hs. inversion Hs; subst; clear Hs.
  destruct (send_offer_cont scr K _ _ _ _ _ H0) as (Hk1 & _ & _).
  destruct (recv_offer_cont scr K _ _ _ _ (Some v) H1) as (Hk2 & _ & _).
  assert (Hoi : ok li) by (eapply Forall_nth; eauto).
  assert (Hoj : ok lj) by (eapply Forall_nth; eauto).
  assert (Hh1 : tlive k = tlive li).
  { apply wgt_spec_plain; [apply cont_tlive; auto| | |];
      intros; intro E; unfold send_offer in H0; rewrite E in H0; discriminate. }
  assert (Hh2 : tlive (kr (Some v)) = tlive lj).
  { apply wgt_spec_plain; [apply cont_tlive; auto| | |];
      intros; intro E; unfold recv_offer in H1; rewrite E in H1; discriminate. }
  split; simpl.
  - apply Forall_set_nth;
      [apply Forall_set_nth; [exact Hok | exact (cont_ok scr K li k Hoi Hk1)] | exact (cont_ok scr K lj _ Hoj Hk2)].
  - pose proof (count_set_nth tlive (procs s) i li k Hi) as C1.
    assert (Hj' : nth_error (set_nth (procs s) i k) j = Some lj)
      by (rewrite nth_error_set_nth_neq; auto).
    pose proof (count_set_nth tlive _ j lj (kr (Some v)) Hj') as C2.
    rewrite Hh1 in C1. rewrite Hh2 in C2. rewrite Hc.
    destruct (tlive li), (tlive lj); lia.
Qed.

Lemma init_wgt_inv p : wgt_inv (init p).
Proof.
  split; simpl.
  - repeat constructor; simpl; auto. apply Forall_forall. intros x Hx.
    apply in_map_iff in Hx as (j & <- & _). simpl. auto.
  - assert (H : forall l : list nat, count tlive (map AtLookup l) = 0)
      by (induction l; simpl; auto).
    rewrite H. reflexivity.
Qed.

(** [dealer.timers] counts exactly the call-timer goroutines that have not
    finished (plus the dealer between [Add] and [go]); never negative. *)
Theorem wg_timers_invariant p s :
  sreach all_fixed scr K (init p) s -> outcome s = None -> wgt_inv s.
Proof.
  intros Hr. revert s Hr.
  apply (invariant_rule L ch vr lk wgn msg ch_eqb vr_eqb lk_eqb wgn_eqb code
           (fun s => outcome s = None -> wgt_inv s)).
  - intros _. apply init_wgt_inv.
  - intros s e s' IH Hs Ho.
    pose proof (step_to_spec _ _ _ _ _ _ _ _ _ _ _ _ _ _ Hs) as Hsp.
    inversion Hsp; subst.
    + match goal with Hn : nth_error (procs s) ?i = Some ?l, Hint : int_spec _ _ _ _ _ |- _ =>
        apply (wgt_inv_int s _ _ _ s' (IH H) Hn Hint Ho) end.
    + match goal with Hsy : sync_spec _ _ _ _ _ _ _ _,
                      H1 : nth_error (procs s) ?i = Some ?li, H2 : nth_error (procs s) ?j = Some ?lj |- _ =>
        first [ apply (wgt_inv_sync s _ _ _ _ _ _ s' (IH H) H1 H2 Hsy)
              | apply (wgt_inv_sync s _ _ _ _ _ _ s' (IH H) H2 H1 Hsy) ] end.
Qed.
End Timers.
