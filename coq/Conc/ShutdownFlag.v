(** * Conc/ShutdownFlag — the realm's closed flag and late attaches (arbitrary K). *)

From Coq Require Import List Bool Arith NArith Lia.
From Nexus Require Import Conc.Machine Conc.MachineFacts Conc.Shutdown Conc.ShutdownProofs Conc.ShutdownLock.
Import ListNotations.

Ltac inv_cont H := inversion H; subst; clear H.

Ltac split_in :=
  repeat match goal with
  | H : In _ (_ :: _) |- _ => destruct H as [H|H]; [inversion H; subst; clear H|]
  | H : In _ [] |- _ => destruct H
  end.

Ltac case_all :=
  repeat match goal with
  | |- context[match ?x with _ => _ end] => is_var x; destruct x; simpl in *
  | |- context[if ?x then _ else _] => is_var x; destruct x; simpl in *
  | H : MachineFacts.cont _ _ _ _ _ _ (match ?x with _ => _ end) _ |- _ => is_var x; destruct x; simpl in *
  | H : MachineFacts.cont _ _ _ _ _ _ (if ?x then _ else _) _ |- _ => is_var x; destruct x; simpl in *
  | |- context[negb ?x] => is_var x; destruct x; simpl in *
  | H : context[negb ?x] |- _ => is_var x; destruct x; simpl in *
  | |- context[?x || _] => is_var x; destruct x; simpl in *
  | H : context[?x || _] |- _ => is_var x; destruct x; simpl in *
  | |- context[?x && _] => is_var x; destruct x; simpl in *
  | H : context[?x && _] |- _ => is_var x; destruct x; simpl in *
  | H : context[Shutdown.mem ?a ?b] |- _ => destruct (Shutdown.mem a b); simpl in *
  | |- context[N.eqb ?v ?w] => destruct (N.eqb v w); simpl in *
  | |- context[Shutdown.mem ?a ?b] => destruct (Shutdown.mem a b); simpl in *
  end.

Ltac case_in H :=
  repeat match type of H with
  | context[match ?x with _ => _ end] => is_var x; destruct x; simpl in H
  | context[if ?x then _ else _] => is_var x; destruct x; simpl in H
  | context[negb ?x] => is_var x; destruct x; simpl in H
  | context[?x && _] => is_var x; destruct x; simpl in H
  | context[?x || _] => is_var x; destruct x; simpl in H
  | context[Shutdown.mem ?a ?b] => destruct (Shutdown.mem a b); simpl in H
  | context[N.eqb ?v ?w] => destruct (N.eqb v w); simpl in H
  end.

Section Flag.
Variable scr : nat -> list msg * bool.
Variable K : nat.
Notation code := (code all_fixed scr K).
Notation cont := (cont L ch vr lk wgn msg).
Notation sstate := (Machine.state L ch vr lk wgn msg).
Notation int_spec := (MachineFacts.int_spec L ch vr lk wgn msg ch_eqb vr_eqb lk_eqb wgn_eqb code).
Notation send_spec := (MachineFacts.send_spec L ch vr lk wgn msg ch_eqb).
Notation recv_spec := (MachineFacts.recv_spec L ch vr lk wgn msg ch_eqb).
Notation sync_spec := (MachineFacts.sync_spec L ch vr lk wgn msg ch_eqb code).
Notation step_spec := (MachineFacts.step_spec L ch vr lk wgn msg ch_eqb vr_eqb lk_eqb wgn_eqb code).

Ltac inv_specs :=
  repeat match goal with
  | H : send_spec _ _ _ _ _ _ |- _ => inversion H; subst; clear H
  | H : recv_spec _ _ _ _ _ |- _ => inversion H; subst; clear H
  end.

(** Shared variables change only by a write. *)
Lemma int_step_vars s i n l s' x :
  int_spec s i n l s' -> outcome s' = None ->
  vars s' x = vars s x \/ exists v k, code l = AWrite x v k /\ vars s' x = v.
Proof.
  intros Hi Ho.
  inversion Hi; subst; clear Hi; inv_specs; try (simpl in Ho; discriminate); simpl; auto.
  - destruct (try_all_locks _ _ _ _ H0) as (_ & _ & A & _). rewrite A. auto.
  - destruct (close_all_locks cs s) as (_ & _ & A & _). rewrite A. auto.
  - unfold upd. destruct (vr_eqb x x0) eqn:E; auto.
    right. exists v, k. split; auto.
    assert (x = x0).
    { destruct x, x0; simpl in E; try discriminate; auto;
        try (apply Nat.eqb_eq in E; subst; auto);
        try (apply andb_true_iff in E as [E1 E2]; apply Nat.eqb_eq in E1, E2; subst; auto). }
    subst. exact H.
Qed.

Definition joining (l : L) : bool :=
  match l with
  | AtWgAdd _ | AtJoin _ | AtJoinWait _ | AtPubJoin _ | AtUnlock _ => true
  | _ => false
  end.

Definition flag_inv (s : sstate) : Prop :=
  forall l, In l (procs s) -> joining l = true -> vars s VRealmClosed = 0%N.

Lemma joining_holds l : joining l = true -> holds l = true.
Proof. destruct l; simpl; intro; try discriminate; reflexivity. Qed.

Lemma count_two (f : L -> bool) a b l :
  In a l -> In b l -> a <> b -> f a = true -> f b = true -> 2 <= count f l.
Proof.
  induction l as [|x l IH]; intros Ha Hb Hab Fa Fb; [destruct Ha|].
  simpl. destruct Ha as [->|Ha], Hb as [->|Hb]; try congruence.
  - rewrite Fa. assert (1 <= count f l).
    { clear -Hb Fb. induction l; [destruct Hb|]. simpl. destruct Hb as [->|Hb].
      - rewrite Fb. lia. - specialize (IHl Hb). lia. }
    lia.
  - rewrite Fb. assert (1 <= count f l).
    { clear -Ha Fa. induction l; [destruct Ha|]. simpl. destruct Ha as [->|Ha].
      - rewrite Fa. lia. - specialize (IHl Ha). lia. }
    lia.
  - specialize (IH Ha Hb Hab Fa Fb). lia.
Qed.

(** A joining state is entered only from the closed-flag check. *)
Lemma cont_joining l k :
  wf l -> cont (code l) k -> joining k = true -> joining l = true \/ exists j, l = AtCheck j.
Proof.
  intros Hw Hc Hj.
  destruct l.
  all: simpl in Hc;
    unfold handler_got, dealer_got, broker_got, router_got, hop_act, lop_act in Hc.
  all: try (destruct (nth_error (realm_close_seq all_fixed) n) as [o|] eqn:En;
            [destruct o; simpl in Hc|]).
  all: case_all.
  all: inv_cont Hc; split_in; simpl in *; auto; try discriminate.
  all: case_all; simpl in *; auto; try discriminate.
  all: try (right; eexists; reflexivity).
  all: case_in Hj; try discriminate.
  destruct Hw as [-> | ->]; discriminate.
Qed.

Lemma code_write_flag l v k :
  code l = AWrite VRealmClosed v k -> v = 1%N /\ holds l = true /\ joining k = false.
Proof.
  intro Hc. destruct l; simpl in Hc;
    unfold handler_got, dealer_got, broker_got, router_got, hop_act, lop_act in Hc;
    try (destruct (nth_error (realm_close_seq all_fixed) n) as [o|] eqn:En; [destruct o; simpl in Hc|]);
    case_in Hc; try discriminate.
  inversion Hc; subst. repeat split; auto.
  simpl. rewrite seq_fixed in En.
  do 19 (destruct n as [|n]; [simpl in En; try discriminate; reflexivity|]).
  simpl in En. destruct n; discriminate.
Qed.

Lemma spawn_not_joining l c k : code l = ASpawn c k -> joining c = false.
Proof.
  intro Hc. destruct l; simpl in Hc;
    unfold handler_got, dealer_got, broker_got, router_got, hop_act, lop_act in Hc;
    try (destruct (nth_error (realm_close_seq all_fixed) n) as [o|]; [destruct o; simpl in Hc|]);
    case_in Hc; try discriminate; inversion Hc; subst; reflexivity.
Qed.

Lemma flag_inv_int s i n l s' :
  lock_inv s -> flag_inv s -> nth_error (procs s) i = Some l ->
  int_spec s i n l s' -> outcome s' = None -> flag_inv s'.
Proof.
  intros [Hwf Hcnt] Hf Hn Hi Ho.
  assert (Hwl : wf l) by (eapply Forall_nth; eauto).
  assert (Hl : In l (procs s)) by (eapply nth_error_In; eauto).
  destruct (int_step_lock scr K s i n l s' Hi Ho Hn) as (k & Hk & Hp & _).
  intros l' Hin Hj.
  (* where does l' come from? *)
  assert (Hfrom : l' = k \/ In l' (procs s)).
  { destruct Hp as [Hp | (c & Hsp & Hp)]; rewrite Hp in Hin.
    - apply In_set_nth in Hin. tauto.
    - apply in_app_or in Hin as [Hin|[<-|[]]].
      + apply In_set_nth in Hin. tauto.
      + rewrite (spawn_not_joining l c k Hsp) in Hj. discriminate. }
  destruct (int_step_vars s i n l s' VRealmClosed Hi Ho) as [Hv | (v & k0 & Hc & Hv)].
  - (* the flag is unchanged *)
    rewrite Hv. destruct Hfrom as [-> | Hold]; [|eapply Hf; eauto].
    destruct (cont_joining l k Hwl Hk Hj) as [Hjl | (j & ->)]; [eapply Hf; eauto|].
    (* the check itself: the value read decides *)
    inversion Hi; subst; try (simpl in *; discriminate).
    simpl in H. inversion H; subst. clear H.
    destruct Hp as [Hp | (c & Hsp & _)]; [|simpl in Hsp; discriminate].
    simpl in Hp.
    assert (Hlen : i < length (procs s)) by (apply nth_error_Some; congruence).
    pose proof (nth_error_set_nth_eq (procs s) i k Hlen) as E1.
    rewrite <- Hp in E1. rewrite nth_error_set_nth_eq in E1 by exact Hlen.
    inversion E1 as [E2]. rewrite <- E2 in Hj.
    destruct (N.eqb (vars s VRealmClosed) 0) eqn:E0; [apply N.eqb_eq in E0; exact E0|].
    simpl in Hj. discriminate.
  - (* the flag is written: only by the closer, which holds the lock; nobody else can be joining *)
    destruct (code_write_flag l v k0 Hc) as (-> & Hh & Hjk).
    exfalso.
    assert (k = k0).
    { inversion Hi; subst; try (rewrite Hc in *; discriminate).
      rewrite Hc in H. inversion H; subst.
      destruct Hp as [Hp | (c & Hsp & _)]; [|rewrite Hc in Hsp; discriminate].
      simpl in Hp.
      assert (Hlen : i < length (procs s)) by (apply nth_error_Some; congruence).
      pose proof (nth_error_set_nth_eq (procs s) i k Hlen) as E1.
      rewrite <- Hp in E1. rewrite nth_error_set_nth_eq in E1 by exact Hlen.
      inversion E1; auto. }
    subst k0.
    destruct Hfrom as [-> | Hold]; [congruence|].
    assert (l <> l') by (intro; subst; rewrite (joining_holds _ Hj) in *; destruct l'; simpl in *; discriminate).
    pose proof (count_two holds l l' (procs s) Hl Hold H Hh (joining_holds _ Hj)).
    destruct (locks s LClose); lia.
Qed.

Lemma flag_inv_sync s i ni j nj li lj s' :
  lock_inv s -> flag_inv s -> nth_error (procs s) i = Some li -> nth_error (procs s) j = Some lj ->
  sync_spec s i ni j nj li lj s' -> flag_inv s'.
Proof.
  intros [Hwf _] Hf Hi Hj Hs. inversion Hs; subst; clear Hs.
  destruct (send_offer_cont scr K _ _ _ _ _ H0) as (Hk1 & _ & _).
  destruct (recv_offer_cont scr K _ _ _ _ (Some v) H1) as (Hk2 & _ & _).
  assert (Hwi : wf li) by (eapply Forall_nth; eauto).
  assert (Hwj : wf lj) by (eapply Forall_nth; eauto).
  intros l' Hin Hjn. simpl in Hin. simpl.
  apply In_set_nth in Hin as [-> | Hin].
  - destruct (cont_joining lj _ Hwj Hk2 Hjn) as [Hjl | (j0 & ->)].
    + eapply Hf; eauto. eapply nth_error_In; eauto.
    + unfold recv_offer in H1. simpl in H1. discriminate.
  - apply In_set_nth in Hin as [-> | Hin].
    + destruct (cont_joining li _ Hwi Hk1 Hjn) as [Hjl | (j0 & ->)].
      * eapply Hf; eauto. eapply nth_error_In; eauto.
      * unfold send_offer in H0. simpl in H0. discriminate.
    + eapply Hf; eauto.
Qed.

Lemma init_flag_inv p : flag_inv (init p).
Proof.
  intros l Hin Hj. simpl in Hin.
  repeat (destruct Hin as [<-|Hin]; [simpl in Hj; discriminate|]).
  apply in_map_iff in Hin as (j & <- & _). simpl in Hj. discriminate.
Qed.

Theorem flag_invariant p s :
  sreach all_fixed scr K (init p) s -> outcome s = None -> flag_inv s.
Proof.
  intros Hr. revert s Hr.
  apply (invariant_rule2 L ch vr lk wgn msg ch_eqb vr_eqb lk_eqb wgn_eqb code
           (fun s => outcome s = None -> lock_inv s) (fun s => outcome s = None -> flag_inv s)).
  - intros s Hr Ho. eapply lock_invariant; eauto.
  - intros _. apply init_flag_inv.
  - intros s e s' HJ _ IH Hs Ho.
    pose proof (step_to_spec _ _ _ _ _ _ _ _ _ _ _ _ _ _ Hs) as Hsp.
    inversion Hsp; subst.
    + match goal with Hn : nth_error (procs s) ?i = Some ?l, Hint : int_spec _ _ _ _ _ |- _ =>
        apply (flag_inv_int s _ _ _ s' (HJ H) (IH H) Hn Hint Ho) end.
    + match goal with Hsy : sync_spec _ _ _ _ _ _ _ _,
                      H1 : nth_error (procs s) ?i = Some ?li, H2 : nth_error (procs s) ?j = Some ?lj |- _ =>
        first [ apply (flag_inv_sync s _ _ _ _ _ _ s' (HJ H) (IH H) H1 H2 Hsy)
              | apply (flag_inv_sync s _ _ _ _ _ _ s' (HJ H) (IH H) H2 H1 Hsy) ] end.
Qed.

(** The closed flag never goes back. *)
Theorem flag_monotone s e s' :
  sstep all_fixed scr K s e = Some s' -> outcome s' = None ->
  vars s VRealmClosed = 1%N -> vars s' VRealmClosed = 1%N.
Proof.
  intros Hs Ho Hv.
  pose proof (step_to_spec _ _ _ _ _ _ _ _ _ _ _ _ _ _ Hs) as Hsp.
  inversion Hsp; subst.
  - match goal with Hint : int_spec _ _ _ _ _ |- _ =>
      destruct (int_step_vars s _ _ _ s' VRealmClosed Hint Ho) as [E | (v & k & Hc & E)] end.
    + congruence.
    + destruct (code_write_flag _ _ _ Hc) as (-> & _). exact E.
  - match goal with Hsy : sync_spec _ _ _ _ _ _ _ _ |- _ => inversion Hsy; subst end. simpl. exact Hv.
Qed.

(** ** late_attach_refused

    Once the realm's closed flag is set, no attach goroutine is between the
    check under [closeLock] and the release of the lock — and none can get
    there any more: the flag never goes back and the check reads it.  Every
    attach that takes the check from then on is sent down the refusal path
    (unlock, ABORT, close of its own peer). *)
Theorem late_attach_refused p s :
  sreach all_fixed scr K (init p) s -> outcome s = None ->
  vars s VRealmClosed = 1%N ->
  (forall l, In l (procs s) -> joining l = false) /\
  (forall j i, nth_error (procs s) i = Some (AtCheck j) ->
     sstep all_fixed scr K s (EInt i 0) = Some (set_proc s i (AtRefUnlock j))).
Proof.
  intros Hr Ho Hv. split.
  - intros l Hin. destruct (joining l) eqn:E; auto.
    pose proof (flag_invariant p s Hr Ho l Hin E). rewrite H in Hv. discriminate.
  - intros j i Hn. unfold Shutdown.sstep, Machine.step. rewrite Ho, Hn.
    unfold step_int. simpl. rewrite Hv. reflexivity.
Qed.
End Flag.
