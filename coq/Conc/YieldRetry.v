(** * Conc/YieldRetry — the RESULT retry of [dealer.yield], one call, timed.

    [dealer.yield] hands the YIELD to the dealer goroutine ([syncYield] with
    [canRetry = true]).  When the caller's queue is full [syncYield] returns
    "again" and the callee's handler re-submits the same YIELD after the
    delays d, 2d, 4d, ...; after each delay it compares the elapsed time with
    the deadline D and passes [canRetry = false] once it is reached.

    What [syncYield] does at one instant, for a final YIELD:

    - the invocation is not (any longer) in the dealer's tables: nothing is
      sent to anybody ([Lost] below);
    - the caller's queue has room: RESULT delivered, tables cleaned;
    - no room, [canRetry]: return "again"; the deferred clean-up is skipped
      iff [keepInvocation] was set — [keep] below: [true] is /repo's code;
    - no room, no retry: the call is cancelled ([syncCancel], tables cleaned).

    Time is relative to the instant the YIELD was first processed; the
    caller's behaviour is [room : N -> bool] (has room at instant e).  The
    loop also records, for every attempt, whether it found the invocation. *)

From Coq Require Import List Bool Arith NArith Lia.
From Nexus Require Import Conc.Stall.
Import ListNotations.
Local Open Scope N_scope.

Inductive retry_end : Type := Delivered | Cancelled | Lost | OutOfFuel | TimedOut.

Section YieldRetry.

Variable keep : bool.
Variable room : N -> bool.

Fixpoint loop (fuel : nat) (d D e : N) (pending : bool) : list (N * bool) * (N * retry_end) :=
  match fuel with
  | O => ([], (e, OutOfFuel))
  | S f =>
      let e' := e + d in
      if negb pending then ([(e', pending)], (e', Lost))
      else if room e' then ([(e', pending)], (e', Delivered))
      else if D <=? e' then ([(e', pending)], (e', Cancelled))
      else let (tr, r) := loop f (2 * d) D e' keep in ((e', pending) :: tr, r)
  end.

(** The whole of [dealer.yield]: the first attempt at instant 0 may retry. *)
Definition run (d D : N) : list (N * bool) * (N * retry_end) :=
  if room 0 then ([(0, true)], (0, Delivered))
  else let (tr, r) := loop 64 d D 0 keep in ((0, true) :: tr, r).

End YieldRetry.

(** The k-th retry instant (k = 0, 1, ...) of a loop whose next delay is d. *)
Fixpoint inst (d : N) (k : nat) : N :=
  match k with
  | O => d
  | S k' => d + inst (2 * d) k'
  end.

Lemma inst_closed_form : forall k d, inst d k + d = d * 2 ^ N.of_nat (S k).
Proof.
  induction k; intros d.
  - cbn. lia.
  - cbn [inst]. specialize (IHk (2 * d)).
    replace (N.of_nat (S (S k))) with (N.succ (N.of_nat (S k))) by lia.
    rewrite N.pow_succ_r'. lia.
Qed.

(** ** With [keep = true] *)

Lemma loop_delivered room : forall k fuel d D e,
  (k < fuel)%nat ->
  (forall j, (j < k)%nat -> room (e + inst d j) = false /\ e + inst d j < D) ->
  room (e + inst d k) = true ->
  snd (loop true room fuel d D e true) = (e + inst d k, Delivered).
Proof.
  induction k; intros fuel d D e Hf Hb Hr; destruct fuel as [|f]; try lia; cbn [loop negb].
  - cbn [inst] in Hr. rewrite Hr. reflexivity.
  - destruct (Hb O ltac:(lia)) as [H0 H0d]. cbn [inst] in H0, H0d. rewrite H0.
    apply N.leb_gt in H0d. rewrite H0d.
    specialize (IHk f (2 * d) D (e + d) ltac:(lia)).
    destruct (loop true room f (2 * d) D (e + d) true) as [tr r] eqn:E. cbn [snd] in *.
    cbn [inst]. rewrite N.add_assoc. apply IHk.
    + intros j Hj. destruct (Hb (S j) ltac:(lia)) as [A B]. cbn [inst] in A, B.
      rewrite N.add_assoc in A, B. auto.
    + cbn [inst] in Hr. rewrite N.add_assoc in Hr. exact Hr.
Qed.

Lemma loop_cancelled room : forall k fuel d D e,
  (k < fuel)%nat ->
  (forall j, (j < k)%nat -> room (e + inst d j) = false /\ e + inst d j < D) ->
  room (e + inst d k) = false -> D <= e + inst d k ->
  snd (loop true room fuel d D e true) = (e + inst d k, Cancelled).
Proof.
  induction k; intros fuel d D e Hf Hb Hr HD; destruct fuel as [|f]; try lia; cbn [loop negb].
  - cbn [inst] in Hr, HD. rewrite Hr. apply N.leb_le in HD. rewrite HD. reflexivity.
  - destruct (Hb O ltac:(lia)) as [H0 H0d]. cbn [inst] in H0, H0d. rewrite H0.
    apply N.leb_gt in H0d. rewrite H0d.
    specialize (IHk f (2 * d) D (e + d) ltac:(lia)).
    destruct (loop true room f (2 * d) D (e + d) true) as [tr r] eqn:E. cbn [snd] in *.
    cbn [inst]. rewrite N.add_assoc. apply IHk.
    + intros j Hj. destruct (Hb (S j) ltac:(lia)) as [A B]. cbn [inst] in A, B.
      rewrite N.add_assoc in A, B. auto.
    + cbn [inst] in Hr. rewrite N.add_assoc in Hr. exact Hr.
    + cbn [inst] in HD. rewrite N.add_assoc in HD. exact HD.
Qed.

(** Every attempt of the loop finds the invocation. *)
Lemma loop_kept room : forall fuel d D e,
  Forall (fun a => snd a = true) (fst (loop true room fuel d D e true)).
Proof.
  induction fuel; intros d D e; cbn [loop negb].
  - constructor.
  - destruct (room (e + d)); [repeat constructor|].
    destruct (D <=? e + d); [repeat constructor|].
    specialize (IHfuel (2 * d) D (e + d)).
    destruct (loop true room fuel (2 * d) D (e + d) true) as [tr r]. cbn [fst] in *.
    constructor; auto.
Qed.

Lemma loop_never_lost room : forall fuel d D e,
  snd (snd (loop true room fuel d D e true)) <> Lost.
Proof.
  induction fuel; intros d D e; cbn [loop negb].
  - discriminate.
  - destruct (room (e + d)); [discriminate|].
    destruct (D <=? e + d); [discriminate|].
    specialize (IHfuel (2 * d) D (e + d)).
    destruct (loop true room fuel (2 * d) D (e + d) true) as [tr r]. exact IHfuel.
Qed.

(** A retried YIELD is delivered at the first retry instant at which the
    caller has room (if that instant comes before the deadline passed) ... *)
Theorem retried_yield_delivered : forall room d D k,
  (k < 64)%nat ->
  room 0 = false ->
  (forall j, (j < k)%nat -> room (inst d j) = false /\ inst d j < D) ->
  room (inst d k) = true ->
  snd (run true room d D) = (inst d k, Delivered).
Proof.
  intros room d D k Hk H0 Hb Hr. unfold run. rewrite H0.
  pose proof (loop_delivered room k 64 d D 0 Hk) as L. cbn [N.add] in L.
  destruct (loop true room 64 d D 0 true) as [tr r]. cbn [snd] in *. apply L; auto.
Qed.

(** ... and otherwise the call is cancelled at the first retry instant that
    has reached the deadline. *)
Theorem retried_yield_cancelled : forall room d D k,
  (k < 64)%nat ->
  room 0 = false ->
  (forall j, (j < k)%nat -> room (inst d j) = false /\ inst d j < D) ->
  room (inst d k) = false -> D <= inst d k ->
  snd (run true room d D) = (inst d k, Cancelled).
Proof.
  intros room d D k Hk H0 Hb Hr HD. unfold run. rewrite H0.
  pose proof (loop_cancelled room k 64 d D 0 Hk) as L. cbn [N.add] in L.
  destruct (loop true room 64 d D 0 true) as [tr r]. cbn [snd] in *. apply L; auto.
Qed.

(** The invocation is kept during the retries: every attempt finds it, and
    the outcome is never "the retry found nothing". *)
Theorem invocation_kept_during_retries : forall room d D,
  Forall (fun a => snd a = true) (fst (run true room d D)) /\
  snd (snd (run true room d D)) <> Lost.
Proof.
  intros room d D. unfold run. destruct (room 0).
  - split; [repeat constructor | discriminate].
  - pose proof (loop_kept room 64 d D 0) as K. pose proof (loop_never_lost room 64 d D 0) as L.
    destruct (loop true room 64 d D 0 true) as [tr r]. cbn [fst snd] in *.
    split; [constructor; auto | exact L].
Qed.

(** ** With [keep = false] (the clean-up also runs when a retry was asked
    for): whatever the caller does afterwards, the first retry finds nothing —
    no RESULT, no cancellation. *)
Theorem yield_retry_without_keep_loses_result : forall room d D,
  room 0 = false ->
  snd (run false room d D) = (d, Lost).
Proof.
  intros room d D H0. unfold run. rewrite H0. reflexivity.
Qed.

(** The caller that resumes reading at instant t and keeps reading. *)
Definition resumes_at (t : N) : N -> bool := fun e => t <=? e.

Definition prediction (d D t : N) : N * retry_end := snd (run true (resumes_at t) d D).

(** The instant at which the retries end when the caller never has room is
    [Stall.retry_total] (bounded by [yield_retry_bounded]). *)
Lemma loop_never_room_instant : forall fuel d D e,
  fst (snd (loop true (fun _ => false) fuel d D e true)) = retry_elapsed fuel d D e.
Proof.
  induction fuel; intros d D e; cbn [loop negb retry_elapsed].
  - reflexivity.
  - rewrite N.leb_compare. destruct (D <=? e + d) eqn:E.
    + rewrite <- N.leb_compare, E. reflexivity.
    + rewrite <- N.leb_compare, E. specialize (IHfuel (2 * d) D (e + d)).
      destruct (loop true (fun _ => false) fuel (2 * d) D (e + d) true) as [tr r]. exact IHfuel.
Qed.

Theorem never_room_ends_at_retry_total : forall d D,
  fst (snd (run true (fun _ => false) d D)) = retry_total d D.
Proof.
  intros d D. unfold run, retry_total. pose proof (loop_never_room_instant 64 d D 0) as L.
  destruct (loop true (fun _ => false) 64 d D 0 true) as [tr r]. exact L.
Qed.

(** ** The call's own timeout

    A CALL with a router-handled timeout has a timer goroutine which, when it
    expires, cancels the call (killnowait, wamp.error.timeout): the call leaves
    the tables, the callee is sent an INTERRUPT.  [tmo]: the instant, relative
    to the YIELD, at which that timer expires.  [stop]: the first attempt of a
    final YIELD stops the timer also when it asks for a retry ([true] is
    /repo's code; otherwise only the clean-up, which the retry skips, stops
    it). *)
Section WithTimer.

Variable stop : bool.
Variable room : N -> bool.
Variable tmo : option N.

Definition fired (armed : bool) (e : N) : bool :=
  armed && match tmo with Some x => x <=? e | None => false end.

Fixpoint loop_t (fuel : nat) (d D e : N) (armed : bool) : N * retry_end :=
  match fuel with
  | O => (e, OutOfFuel)
  | S f =>
      let e' := e + d in
      if fired armed e' then (e', TimedOut)
      else if room e' then (e', Delivered)
      else if D <=? e' then (e', Cancelled)
      else loop_t f (2 * d) D e' armed
  end.

Definition run_t (d D : N) : N * retry_end :=
  if room 0 then (0, Delivered) else loop_t 64 d D 0 (negb stop).

End WithTimer.

Lemma loop_t_stopped room tmo : forall fuel d D e,
  loop_t room tmo fuel d D e false = snd (loop true room fuel d D e true).
Proof.
  induction fuel; intros d D e; cbn [loop_t loop negb fired andb]; [reflexivity|].
  destruct (room (e + d)); [reflexivity|]. destruct (D <=? e + d); [reflexivity|].
  rewrite IHfuel. destruct (loop true room fuel (2 * d) D (e + d) true). reflexivity.
Qed.

(** Once the callee has answered finally the call's timeout has no effect on
    what becomes of the RESULT, whenever it would have expired. *)
Theorem call_timeout_irrelevant_once_answered : forall room tmo d D,
  run_t true room tmo d D = snd (run true room d D).
Proof.
  intros room tmo d D. unfold run_t, run. destruct (room 0); [reflexivity|]. cbn [negb].
  rewrite loop_t_stopped. destruct (loop true room 64 d D 0 true). reflexivity.
Qed.

(** If only the clean-up stops the timer, a timeout that expires no later
    than the first retry takes the call away although the callee has answered:
    FALSE for every behaviour of the caller. *)
Theorem retried_yield_times_out_without_stop : forall room d D x,
  room 0 = false -> x <= d -> run_t false room (Some x) d D = (d, TimedOut).
Proof.
  intros room d D x H0 Hx. unfold run_t. rewrite H0. cbn [negb loop_t fired andb N.add].
  apply N.leb_le in Hx. rewrite Hx. reflexivity.
Qed.

(** Resume instants (microseconds after the YIELD) for which
    go/cmd/concdrive runs the scenario yield-to-stalled-caller-then-resume;
    tools/checks/c07.py compares this table, computed from the regenerated
    constants, with the harness's own predictions on every run. *)
Definition resume_instants_us : list N :=
  [500; 3000; 1000000; 30000000; 70000000;
   1; 1000; 2000; 7000; 100000; 10000000; 60000000; 65000000; 65535000; 65536000; 100000000].

Definition yield_resume_table (delay_ms deadline_ms : N) : list (N * (N * retry_end)) :=
  map (fun t => (t, prediction (1000 * delay_ms) (1000 * deadline_ms) t)) resume_instants_us.
