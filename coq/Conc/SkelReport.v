(** * Conc/SkelReport — diagnostics printed on every run (always compiles).
    tools/checks/c06.py and c07.py parse this output to name what broke. *)

From Coq Require Import String List NArith Bool.
From Nexus Require Import Conc.SkelTypes Conc.Skeleton Conc.Stall Conc.YieldRetry Conc.CancelModel gen.GenSkeleton.
Import ListNotations.
Open Scope string_scope.

Definition report : list (string * bool) :=
  [ ("no_blocking_send_to_client", no_blocking_send_to_client gen_funcs);
    ("func_edges_ok", forallb func_edges_ok gen_funcs);
    ("lock_sections_ranked", lock_sections_ranked gen_funcs);
    ("mutex_sections_leaf", mutex_sections_leaf gen_funcs);
    ("attribution_closed", attribution_closed gen_funcs gen_entries);
    ("reply_rendezvous_immediate", reply_rendezvous_immediate gen_funcs);
    ("meta_inbound_scope", meta_inbound_scope gen_meta_inbound);
    ("wait_graph_ranked", wait_graph_ranked gen_funcs gen_entries gen_meta_inbound);
    ("no_peer_close_in_shared_server", no_peer_close_in_shared_server gen_funcs);
    ("skeleton_conforms", skeleton_conforms gen_funcs gen_submitters);
    ("closable_senders_covered", closable_senders_covered gen_funcs);
    ("peer_close_bounds_pending_write", peer_close_bounds_pending_write gen_peer_close_bounds_write);
    ("invocation_drops_cancel_timer", invocation_drops_cancel_timer gen_invocation_drops);
    ("yield_stops_timer_before_retry", yield_stops_timer_before_retry gen_yield_stops_timer_before_retry);
    ("cancel_waits_only_if_interrupt_sent", cancel_waits_only_if_interrupt_sent gen_cancel_waits_only_if_interrupt_sent);
    ("yield_retry_keeps_invocation", yield_retry_keeps_invocation gen_yield_retry_keeps_invocation) ].

Definition REPORT := report.
Eval vm_compute in REPORT.

Definition BAD_CLIENT_SENDS := bad_client_sends gen_funcs.
Eval vm_compute in BAD_CLIENT_SENDS.

Definition BAD_EDGES := bad_edges gen_funcs.
Eval vm_compute in BAD_EDGES.

Definition BAD_PEER_CLOSES := bad_peer_closes gen_funcs.
Eval vm_compute in BAD_PEER_CLOSES.

Definition NONCONFORMING := map (fun t => fst (fst t)) (nonconforming gen_funcs gen_submitters).
Eval vm_compute in NONCONFORMING.

Definition NONCONFORMING_DETAIL := nonconforming gen_funcs gen_submitters.
Eval vm_compute in NONCONFORMING_DETAIL.

Definition UNCOVERED_SENDERS := uncovered_senders gen_funcs.
Eval vm_compute in UNCOVERED_SENDERS.

Definition INVENTORY_SIZE :=
  (length gen_funcs, fold_right (fun f n => (length (f_ops f) + n)%nat) 0%nat gen_funcs,
   length gen_entries).
Eval vm_compute in INVENTORY_SIZE.

Definition RETRY_TOTAL_MS := retry_total gen_yield_retry_delay_ms gen_send_result_deadline_ms.
Eval vm_compute in RETRY_TOTAL_MS.

Definition YIELD_RESUME_TABLE := yield_resume_table gen_yield_retry_delay_ms gen_send_result_deadline_ms.
Eval vm_compute in YIELD_RESUME_TABLE.

Definition CANCEL_TABLE := cancel_table.
Eval vm_compute in CANCEL_TABLE.

Definition UNBOUNDED_PEER_CLOSES := unbounded_peer_closes gen_peer_close_bounds_write.
Eval vm_compute in UNBOUNDED_PEER_CLOSES.

Definition BAD_INVOCATION_DROPS := bad_invocation_drops gen_invocation_drops.
Eval vm_compute in BAD_INVOCATION_DROPS.
